(* S for C04 (timing): an interpreter of the TTML2 timing semantics written from the specification
   (TTML2 section 12: time expressions 12.3.1, begin/dur/end 12.2.1-12.2.3, timeContainer 12.2.4,
   time intervals 12.4 with the SMIL 3.0 par/seq semantics it refers to; section 7.2 for
   ttp:frameRate, ttp:frameRateMultiplier and ttp:tickRate), directly on the XML tree.  It shares no
   code with the model of the reader.

   1. the grammar of <time-expression> as an abstract syntax with its printer and its value;
   2. the document parameters (effective frame rate, tick rate);
   3. [interval]: begin and end of an element relative to its parent's begin
        - begin = syncbase + begin attribute (default 0); the syncbase is the parent's begin in a par
          container and the end of the previous sibling in a seq container;
        - end: min(begin + dur, syncbase + end), begin + dur, syncbase + end, or begin + implicit
          duration when neither dur nor end is given;
        - implicit duration: par container = the latest end of its children (0 without children,
          indefinite as soon as one child is indefinite); seq container = the end of its last child;
          an anonymous span (character content of p / span), br, set and region: indefinite in a par
          container, zero in a seq container (set has no timed children: its content model is metadata only);
        - children that are not in the timed vocabulary (tt:metadata and the ttm: elements, elements of other
          namespaces, unknown tt: elements, comments, processing instructions) take no part in timing, whatever
          their attributes and their content; the text that follows them is character content of the parent
          like any other text;
   4. [visible]: the character content presented at time t (region by region, in document order):
      the text nodes all of whose ancestors are active at t (intervals clipped by the parent's), are
      selected into the region, and are not removed by tts:display="none" (specified or set).
   A time attribute whose value is not a <time-expression> has no value (it is ignored).  [tv] is the
   valuation of attribute strings; in the harness it is the table of the abstract expressions the
   strings were printed from. *)
From TT Require Import Base.Prelude Base.ImscXml.
From Coq Require Import QArith Qminmax.
Local Open Scope Z_scope.

(* ---- 1. time expressions (TTML2 12.3.1) ------------------------------------------------ *)
Inductive metric := Mh | Mm | Ms | Mms | Mf | Mt.
Inductive texpr :=
  | TOffset (ip fp : list Z) (m : metric)                 (* time-count fraction? metric *)
  | TClock (hh : list Z) (m1 m2 s1 s2 : Z) (fp : list Z)  (* hours:minutes:seconds fraction? *)
  | TClockFrames (hh : list Z) (m1 m2 s1 s2 : Z) (ff : list Z).  (* hours:minutes:seconds:frames *)

Definition is_dec (d : Z) : bool := (0 <=? d) && (d <=? 9).
Definition all_dec (ds : list Z) : bool := forallb is_dec ds.
Definition wf_texpr (e : texpr) : bool :=
  match e with
  | TOffset ip fp _ => is_nonempty_l ip && all_dec ip && all_dec fp
  | TClock hh m1 m2 s1 s2 fp =>
      (2 <=? Z.of_nat (length hh)) && all_dec hh && is_dec m1 && is_dec m2 && is_dec s1 && is_dec s2 && all_dec fp
  | TClockFrames hh m1 m2 s1 s2 ff =>
      (2 <=? Z.of_nat (length hh)) && all_dec hh && is_dec m1 && is_dec m2 && is_dec s1 && is_dec s2
      && (2 <=? Z.of_nat (length ff)) && all_dec ff
  end.

Definition chr (d : Z) : Z := 48 + d.
Definition chrs (ds : list Z) : text := List.map chr ds.
Definition metric_text (m : metric) : text :=
  match m with Mh => [104] | Mm => [109] | Ms => [115] | Mms => [109; 115] | Mf => [102] | Mt => [116] end.
Definition frac_text (fp : list Z) : text := match fp with [] => [] | _ :: _ => 46 :: chrs fp end.

Definition print_time (e : texpr) : text :=
  match e with
  | TOffset ip fp m => chrs ip ++ frac_text fp ++ metric_text m
  | TClock hh m1 m2 s1 s2 fp => chrs hh ++ [58; chr m1; chr m2; 58; chr s1; chr s2] ++ frac_text fp
  | TClockFrames hh m1 m2 s1 s2 ff => chrs hh ++ [58; chr m1; chr m2; 58; chr s1; chr s2; 58] ++ chrs ff
  end.

(* the number denoted by a digit sequence, and by digits "." digits *)
Definition nat_of (ds : list Z) : Z := fold_left (fun a d => a * 10 + d) ds 0.
Fixpoint ten_to (n : nat) : positive := match n with O => 1%positive | S k => (10 * ten_to k)%positive end.
Definition number (ip fp : list Z) : Q := (inject_Z (nat_of ip) + Qmake (nat_of fp) (ten_to (length fp)))%Q.

(* seconds denoted by a time expression under frame rate fr and tick rate tr; None when a frames term is not
   smaller than the frame rate (such a value is not a valid time expression) *)
Definition time_value (fr tr : Q) (e : texpr) : option Q :=
  match e with
  | TOffset ip fp Mh => Some (number ip fp * inject_Z 3600)%Q
  | TOffset ip fp Mm => Some (number ip fp * inject_Z 60)%Q
  | TOffset ip fp Ms => Some (number ip fp)
  | TOffset ip fp Mms => Some (number ip fp / inject_Z 1000)%Q
  | TOffset ip fp Mf => Some (number ip fp / fr)%Q
  | TOffset ip fp Mt => Some (number ip fp / tr)%Q
  | TClock hh m1 m2 s1 s2 fp =>
      Some (inject_Z (nat_of hh) * inject_Z 3600 + inject_Z (nat_of [m1; m2]) * inject_Z 60 + number [s1; s2] fp)%Q
  | TClockFrames hh m1 m2 s1 s2 ff =>
      if Qle_bool fr (inject_Z (nat_of ff)) then None
      else Some (inject_Z (nat_of hh) * inject_Z 3600 + inject_Z (nat_of [m1; m2]) * inject_Z 60
                 + inject_Z (nat_of [s1; s2]) + inject_Z (nat_of ff) / fr)%Q
  end.

(* ---- 2. parameters (TTML2 7.2.4, 7.2.5, 7.2.11) --------------------------------------- *)
(* a positive integer written with digits only *)
Definition code_dec (c : Z) : bool := (48 <=? c) && (c <=? 57).
Definition pos_int (s : text) : option Z :=
  if is_nonempty_l s && forallb code_dec s then
    let v := fold_left (fun a c => a * 10 + (c - 48)) s 0 in if 0 <? v then Some v else None
  else None.
Fixpoint split_space (s : text) (cur : text) : list text :=
  match s with
  | [] => [cur]
  | c :: s' => if c =? 32 then cur :: split_space s' [] else split_space s' (cur ++ [c])
  end.

Definition spec_frame_rate_attr (attrs : list (qname * text)) : option Z :=
  match get_attr attrs A_frameRate with Some s => pos_int s | None => None end.
Definition spec_multiplier (attrs : list (qname * text)) : Q :=
  match get_attr attrs A_frameRateMultiplier with
  | Some s => match split_space s [] with
              | [a; b] => match pos_int a, pos_int b with
                          | Some n, Some d => (inject_Z n / inject_Z d)%Q
                          | _, _ => 1%Q
                          end
              | _ => 1%Q
              end
  | None => 1%Q
  end.
(* effective frame rate: frameRate (default 30) times the multiplier (default 1 1) *)
Definition spec_frame_rate (attrs : list (qname * text)) : Q :=
  (inject_Z (match spec_frame_rate_attr attrs with Some n => n | None => 30 end) * spec_multiplier attrs)%Q.
(* tick rate: the attribute; else, if ttp:frameRate is specified, the effective frame rate (times the
   sub-frame rate, 1 in IMSC); else 1 *)
Definition spec_tick_rate (attrs : list (qname * text)) : Q :=
  match (match get_attr attrs A_tickRate with Some s => pos_int s | None => None end) with
  | Some n => inject_Z n
  | None => match spec_frame_rate_attr attrs with Some _ => spec_frame_rate attrs | None => 1%Q end
  end.

(* ---- vocabulary ------------------------------------------------------------------------ *)
Definition ruby_roles : list (text * ekind) :=
  [(V_container, KRuby); (V_base, KRb); (V_text, KRt); (V_delimiter, KRp); (V_baseContainer, KRbc); (V_textContainer, KRtc)].
Fixpoint assoc_text {A} (l : list (text * A)) (k : text) : option A :=
  match l with [] => None | (x, v) :: l' => if text_eqb x k then Some v else assoc_text l' k end.
Definition tt_elements : list (text * ekind) :=
  [(snd T_body, KBody); (snd T_div, KDiv); (snd T_p, KP); (snd T_br, KBr); (snd T_set, KSet); (snd T_region, KRegion)].

(* the timed vocabulary; anything else is foreign and takes no part in timing *)
Definition s_kind (tag : qname) (attrs : list (qname * text)) : option ekind :=
  if fst tag =? NS_TT then
    if text_eqb (snd tag) (snd T_span) then
      (* a tts:ruby value that is not one of the six keywords is malformed: ignored *)
      match get_attr attrs A_ruby with
      | None => Some KSpan
      | Some v => match assoc_text ruby_roles v with Some k => Some k | None => Some KSpan end
      end
    else
      match assoc_text tt_elements (snd tag) with
      | Some KRegion => match get_attr attrs A_id with Some _ => Some KRegion | None => None end
      | o => o
      end
  else None.

(* elements with character content (anonymous spans) *)
Definition s_mixed (k : ekind) : bool := match k with KP | KSpan | KRb | KRt | KRp => true | _ => false end.
(* elements without timed element content of their own: indefinite in par, zero in seq *)
Definition s_atomic (k : ekind) : bool := match k with KBr | KSet | KRegion => true | _ => false end.
(* set has no timed children at all (TTML2 set: Metadata.class* only) *)
Definition s_childless (k : ekind) : bool := match k with KSet => true | _ => false end.

Definition omax (a b : option Q) : option Q :=
  match a, b with Some x, Some y => Some (Qmax x y) | _, _ => None end.
Definition omin_r (a : option Q) (b : option Q) : option Q :=
  match a, b with Some x, Some y => Some (Qmin x y) | Some x, None => Some x | None, o => o end.
Definition oadd (a : Q) (b : option Q) : option Q := match b with Some y => Some (a + y)%Q | None => None end.
Definition has_text (o : option text) : bool := match o with Some _ => true | None => false end.

Section Timing.
  Variable tv : text -> option Q.

  Definition tattr (attrs : list (qname * text)) (q : qname) : option Q :=
    match get_attr attrs q with Some s => tv s | None => None end.
  Definition s_is_seq (attrs : list (qname * text)) : bool :=
    match get_attr attrs A_timeContainer with Some v => text_eqb v V_seq | None => false end.

  (* ---- 3. begin and end of x relative to the begin of its parent ---------------------- *)
  Definition timed (c : xml) : bool := match s_kind (x_tag c) (x_attrs c) with Some _ => true | None => false end.

  Section Durations.
    (* [iv pseq sync c]: the interval of a child; implicit durations of the two kinds of time container *)
    Variable iv : bool -> Q -> xml -> Q * option Q.

    (* seq: the children play one after the other; the duration is the end of the last one, indefinite as soon
       as one child is indefinite (character content has zero duration in a seq container) *)
    Fixpoint seq_dur (l : list xml) (cursor : Q) : option Q :=
      match l with
      | [] => Some cursor
      | c :: l' =>
          if timed c then
            match snd (iv true cursor c) with
            | Some ce => seq_dur l' ce
            | None => None
            end
          else seq_dur l' cursor
      end.

    (* par: the latest end of the children; an anonymous span ([mixed] and character content) is indefinite *)
    Fixpoint par_dur (mixed : bool) (l : list xml) (acc : option Q) : option Q :=
      match l with
      | [] => acc
      | c :: l' =>
          let acc1 := if timed c then omax acc (snd (iv false 0%Q c)) else acc in
          par_dur mixed l' (if mixed && has_text (x_tail c) then None else acc1)
      end.
  End Durations.

  Definition end_of (sync b : Q) (dur end_ : option Q) (idur : option Q) : option Q :=
    match dur, end_ with
    | Some d, Some e_ => Some (Qmin (b + d) (sync + e_))%Q
    | Some d, None => Some (b + d)%Q
    | None, Some e_ => Some (sync + e_)%Q
    | None, None => oadd b idur
    end.

  Fixpoint interval (pseq : bool) (sync : Q) (x : xml) {struct x} : Q * option Q :=
    match x with
    | X tag attrs txt tail cs =>
      let b := (sync + match tattr attrs A_begin with Some v => v | None => 0 end)%Q in
      (* implicit duration, None = indefinite *)
      let idur : option Q :=
        match s_kind tag attrs with
        | None => Some 0%Q
        | Some k =>
          if s_atomic k && negb pseq then None else
          if s_childless k then Some 0%Q else
          if s_is_seq attrs then seq_dur interval cs 0%Q
          else par_dur interval (s_mixed k) cs (if s_mixed k && has_text txt then None else Some 0%Q)
        end in
      (b, end_of sync b (tattr attrs A_dur) (tattr attrs A_end) idur)
    end.

  (* ---- 4. presented character content at time t -------------------------------------------- *)
  Definition active (t : Q) (b : Q) (e : option Q) : bool :=
    Qle_bool b t && match e with Some y => negb (Qle_bool y t) | None => true end.

  Definition ws (c : Z) : bool := (c =? 32) || (c =? 9) || (c =? 10) || (c =? 13).
  Fixpoint lstrip (s : text) : text := match s with c :: s' => if ws c then lstrip s' else s | [] => [] end.
  (* white space is compared modulo collapsing (it is the business of the snapshot's white-space handling):
     leading and trailing white space dropped, inner runs replaced by one space *)
  Fixpoint collapse (s : text) (pending : bool) : text :=
    match s with
    | [] => []
    | c :: s' => if ws c then collapse s' true
                 else if pending then 32 :: c :: collapse s' false else c :: collapse s' false
    end.
  Definition norm (s : text) : text := collapse (lstrip s) false.
  Definition leaf (o : option text) : list text :=
    match o with Some s => match norm s with [] => [] | u => [u] end | None => [] end.

  Definition A_display : qname := (NS_TTS, [100; 105; 115; 112; 108; 97; 121]).
  Definition V_none : text := [110; 111; 110; 101].

  Variable regions : list text.      (* ids of the regions of the document *)

  (* display of x at t: the last active <set tts:display> child wins, then the attribute, then auto *)
  Definition shown (t : Q) (abs_b : Q) (abs_e : option Q) (par : bool) (attrs : list (qname * text)) (cs : list xml) : bool :=
    let fix scan (l : list xml) (cursor : option Q) (cur : option text) : option text :=
      match l with
      | [] => cur
      | c :: l' =>
          match s_kind (x_tag c) (x_attrs c), cursor with
          | Some k, Some cu =>
              let '(cb, ce) := interval (negb par) cu c in
              let cur' :=
                match k, get_attr (x_attrs c) A_display with
                | KSet, Some v => if active t (abs_b + cb)%Q (omin_r (oadd abs_b ce) abs_e) then Some v else cur
                | _, _ => cur
                end in
              scan l' (if par then Some 0%Q else ce) cur'
          | _, _ => scan l' cursor cur
          end
      end in
    match scan cs (Some 0%Q) (get_attr attrs A_display) with
    | Some v => negb (text_eqb v V_none)
    | None => true
    end.

  Definition own_region (k : ekind) (attrs : list (qname * text)) : option text :=
    match k with
    | KBr | KSet | KRegion => None
    | _ => match get_attr attrs A_region with
           | Some r => if existsb (text_eqb r) regions then Some r else None
           | None => None
           end
    end.

  Definition otext_eq (a b : option text) : bool :=
    match a, b with None, None => true | Some x, Some y => text_eqb x y | _, _ => false end.

  (* texts presented in the selected region [sel] (None = the default region of a document without regions) *)
  Fixpoint visible (t : Q) (sel : option text) (assoc : option text) (pseq : bool) (sync : Q)
                   (pabs_b : Q) (pabs_e : option Q) (x : xml) {struct x} : list text :=
    match x with
    | X tag attrs txt tail cs =>
      match s_kind tag attrs with
      | None | Some KSet | Some KRegion => []
      | Some k =>
        let '(b, e) := interval pseq sync x in
        let abs_b := (pabs_b + b)%Q in
        let abs_e := omin_r (oadd pabs_b e) pabs_e in
        let par := negb (s_is_seq attrs) in
        let own := own_region k attrs in
        let assoc' := match own with Some r => Some r | None => assoc end in
        if negb (active t abs_b abs_e) then [] else
        if match own with Some r => negb (otext_eq (Some r) sel) | None => false end then [] else
        if negb (shown t abs_b abs_e par attrs cs) then [] else
        let here (o : option text) : list text := if s_mixed k && par && otext_eq assoc' sel then leaf o else [] in
        here txt ++
        (fix kids (l : list xml) (cursor : option Q) : list text :=
           match l with
           | [] => []
           | c :: l' =>
               match s_kind (x_tag c) (x_attrs c), cursor with
               | Some _, Some cu =>
                   visible t sel assoc' (negb par) cu abs_b abs_e c ++ here (x_tail c) ++
                   kids l' (if par then Some 0%Q else snd (interval true cu c))
               | _, _ => here (x_tail c) ++ kids l' cursor
               end
           end) cs (Some 0%Q)
      end
    end.
End Timing.

(* the regions of a <tt>: the region children (with xml:id) of the first layout of the first head *)
Definition first_child (l : list xml) (tag : qname) : option xml := find (fun c => qname_eqb (x_tag c) tag) l.
Definition doc_regions (tt : xml) : list xml :=
  match first_child (x_children tt) T_head with
  | Some h => match first_child (x_children h) T_layout with
              | Some l => filter (fun c => qname_eqb (x_tag c) T_region && has_text (get_attr (x_attrs c) A_id)) (x_children l)
              | None => []
              end
  | None => []
  end.
Definition region_name (r : xml) : text := match get_attr (x_attrs r) A_id with Some i => i | None => [] end.

(* what is presented at t: one list of texts per active region (document order), or one for the default region *)
Definition presented (tv : text -> option Q) (tt : xml) (t : Q) : list text :=
  let rs := doc_regions tt in
  let names := List.map region_name rs in
  match first_child (x_children tt) T_body with
  | None => []
  | Some body =>
      match rs with
      | [] => visible tv names t None None false 0%Q 0%Q None body
      | _ =>
          flat_map (fun r =>
            let '(rb, re) := interval tv false 0%Q r in
            if active t rb re && shown tv t rb re (negb (s_is_seq (x_attrs r))) (x_attrs r) (x_children r)
            then visible tv names t (Some (region_name r)) None false 0%Q 0%Q None body else []) rs
      end
  end.
