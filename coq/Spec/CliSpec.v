(* S for C19, written from the property statement and /repo/README.md ("Command line", the configuration
   sections) only; shares the types of Base/CliTypes.v with the model and nothing else.

   Reading conventions (README is a user guide, not a grammar):
   * `true | false` means a JSON boolean; an enumeration of quoted strings means exactly those strings;
     `integer` means a JSON integer; a JSON null is read as "not specified" and is outside the acceptance table.
   * `"fps": "<num>/<denom>"`: two unsigned decimal integers, both positive.
   * `<TTML color>`: TTML2 10.3.5 — #rrggbb, #rrggbbaa, rgb(r,g,b), rgba(r,g,b,a) with components 0..255, or a
     TTML2 named colour; no white space.
   * `<font-families>`: TTML2 10.3.11 — comma-separated families, each a quoted string or an unquoted name.
   * `<RFC 5646 language tag>`: well-formed in the sense of RFC 5646 2.2.9, approximated by: hyphen-separated
     subtags of 1..8 ASCII letters/digits, the first one alphabetic.
   * `"HH:MM:SS:FF"`: four two-digit fields separated by colons.
   * file types: --itype/--otype if given, else the file extension (what follows the last dot of the file
     name, a name that is not made of dots only), case-insensitively; TTML SCC STL SRT VTT can be read,
     TTML SRT VTT can be written. *)
From Coq Require Import String.
From TT Require Import Base.Prelude Base.CliTypes.

(* ------------------------------------------------------------------ characters *)
Definition lc (c : Z) : Z := if (65 <=? c) && (c <=? 90) then c + 32 else c.
Definition ci_eq (a b : text) : bool := text_eqb (List.map lc a) (List.map lc b).
Definition digit (c : Z) : bool := (48 <=? c) && (c <=? 57).
Definition letter (c : Z) : bool := ((65 <=? c) && (c <=? 90)) || ((97 <=? c) && (c <=? 122)).
Definition lower_letter (c : Z) : bool := (97 <=? c) && (c <=? 122).
Definition hexdigit (c : Z) : bool := digit c || ((65 <=? c) && (c <=? 70)) || ((97 <=? c) && (c <=? 102)).
Definition one_of (s : text) (l : list string) : bool := existsb (fun x => text_eqb s (T x)) l.
(* fields of s separated by c *)
Fixpoint fields (c : Z) (s : text) : list text :=
  match s with
  | [] => [[]]
  | x :: r => if x =? c then [] :: fields c r else match fields c r with h :: t => (x :: h) :: t | [] => [[x]] end
  end.

(* ------------------------------------------------------------------ file types *)
Definition tname (t : ftype) : text :=
  match t with TTML => T "ttml" | SCC => T "scc" | SRT => T "srt" | STL => T "stl" | VTT => T "vtt" end.
Definition readable (t : ftype) : bool := true.
Definition writable (t : ftype) : bool := match t with TTML | SRT | VTT => true | SCC | STL => false end.
(* the file name proper: what follows the last '/' *)
Fixpoint until_slash (s : text) : text :=
  match s with c :: r => if c =? 47 then [] else c :: until_slash r | [] => [] end.
Definition last_component (p : text) : text := rev (until_slash (rev p)).
Definition names_a_file (stem : text) : bool := existsb (fun c => negb (c =? 46)) (last_component stem).
(* p = stem ++ "." ++ e with e naming type t and stem ending in a proper file name, the dot being at index k *)
Definition ext_at (p : text) (t : ftype) (k : nat) : bool :=
  match nth_error p k with
  | Some 46 => ci_eq (skipn (S k) p) (tname t) && names_a_file (firstn k p)
  | _ => false
  end.
Definition type_ok (given : option text) (path : text) (t : ftype) : bool :=
  match given with
  | Some g => ci_eq g (tname t)
  | None => existsb (ext_at path t) (seq 0 (length path))
  end.
Definition all_types : list ftype := [TTML; SCC; SRT; STL; VTT].

(* ------------------------------------------------------------------ documented values, per key *)
Definition is_bool (v : json) : bool := match v with JBool _ => true | _ => false end.
Definition all_digits (s : text) : bool := match s with [] => false | _ => forallb digit s end.
Definition positive_number (s : text) : bool := all_digits s && existsb (fun c => negb (c =? 48)) s.

(* RFC 5646 well-formedness, approximated *)
Definition alnum (c : Z) : bool := digit c || letter c.
Definition subtag_ok (s : text) : bool := match s with [] => false | _ => forallb alnum s && (Z.of_nat (length s) <=? 8) end.
Definition langtag_ok (s : text) : bool :=
  match fields 45 s with
  | first :: rest => subtag_ok first && forallb letter first && forallb subtag_ok rest
  | [] => false
  end.

Definition fps_ok (s : text) : bool :=
  match fields 47 s with [a; b] => positive_number a && positive_number b | _ => false end.

Definition tc_ok (s : text) : bool :=
  match fields 58 s with
  | [h; m; sec; f] => forallb (fun x => all_digits x && (Z.of_nat (length x) =? 2)) [h; m; sec; f]
  | _ => false
  end.

(* TTML2 named colours *)
Definition ttml_named_colors : list string :=
  ["transparent"; "black"; "silver"; "gray"; "white"; "maroon"; "red"; "purple"; "fuchsia"; "magenta"; "green"; "lime";
   "olive"; "yellow"; "navy"; "blue"; "teal"; "aqua"; "cyan"]%string.
(* component 0..255: decimal digits; after dropping leading zeros at most three remain and the value is <= 255 *)
Fixpoint drop_zeros (s : text) : text := match s with 48 :: r => drop_zeros r | _ => s end.
Definition component_ok (s : text) : bool :=
  all_digits s &&
  match drop_zeros s with
  | [] => true | [_] => true | [_; _] => true
  | [a; b; c] => (a <? 50) || ((a =? 50) && ((b <? 53) || ((b =? 53) && (c <=? 53))))
  | _ => false
  end.
Fixpoint strip_pre (p s : text) : option text :=
  match p, s with
  | [], _ => Some s
  | a :: p', b :: s' => if a =? b then strip_pre p' s' else None
  | _ :: _, [] => None
  end.
Definition strip_last (c : Z) (s : text) : option text :=
  match rev s with l :: m => if l =? c then Some (rev m) else None | [] => None end.
(* s = pre ++ body ++ [post] *)
Definition strip_both (pre : text) (post : Z) (s : text) : option text :=
  match strip_pre pre s with Some r => strip_last post r | None => None end.
(* the colour forms; `comp` judges one rgb()/rgba() component *)
Definition color_form (comp : text -> bool) (s : text) : bool :=
  one_of s ttml_named_colors ||
  match s with
  | 35 :: h => forallb hexdigit h && ((Z.of_nat (length h) =? 6) || (Z.of_nat (length h) =? 8))
  | _ => false
  end ||
  match strip_both (T "rgb(") 41 s with
  | Some body => match fields 44 body with [r; g; b] => forallb comp [r; g; b] | _ => false end
  | None => false
  end ||
  match strip_both (T "rgba(") 41 s with
  | Some body => match fields 44 body with [r; g; b; a] => forallb comp [r; g; b; a] | _ => false end
  | None => false
  end.
Definition color_ok (s : text) : bool := color_form component_ok s.

(* TTML2 font families: item ("," item)*, item = spaces (quoted | unquoted) spaces.
   quoted: q (escape | any character but q and backslash)+ q, q the apostrophe or the quotation mark;
   unquoted: (escape | any character but comma, apostrophe, quotation mark, backslash)+ *)
Inductive fstate := FsStart | FsUnq | FsQuoted (q : Z) (nonempty : bool) | FsAfter.
Fixpoint fonts_scan (st : fstate) (esc : bool) (s : text) : bool :=
  match s with
  | [] => match st with FsUnq | FsAfter => negb esc | _ => false end
  | c :: r =>
      if esc then
        match st with
        | FsStart | FsUnq => fonts_scan FsUnq false r
        | FsQuoted q _ => fonts_scan (FsQuoted q true) false r
        | FsAfter => false
        end
      else
        match st with
        | FsStart =>
            if c =? 32 then fonts_scan FsStart false r
            else if (c =? 39) || (c =? 34) then fonts_scan (FsQuoted c false) false r
            else if c =? 44 then false
            else if c =? 92 then fonts_scan FsStart true r
            else fonts_scan FsUnq false r
        | FsUnq =>
            if c =? 44 then fonts_scan FsStart false r
            else if (c =? 39) || (c =? 34) then false
            else if c =? 92 then fonts_scan FsUnq true r
            else fonts_scan FsUnq false r
        | FsQuoted q ne =>
            if c =? q then (if ne then fonts_scan FsAfter false r else false)
            else if c =? 92 then fonts_scan (FsQuoted q ne) true r
            else fonts_scan (FsQuoted q true) false r
        | FsAfter =>
            if c =? 32 then fonts_scan FsAfter false r
            else if c =? 44 then fonts_scan FsStart false r
            else false
        end
  end.
Definition fonts_ok (s : text) : bool := fonts_scan FsStart false s.

Definition bool_key (k : key) : bool :=
  match k with
  | KProgressBar | KFillLineGap | KLinePadding | KTextFormatting | KLinePosition | KVttTextAlign | KCueId
  | KPreserveTextAlign => true
  | _ => false
  end.
(* README, per key; v is not null *)
Definition documented (k : key) (v : json) : bool :=
  match k, v with
  | (KProgressBar | KFillLineGap | KLinePadding | KTextFormatting | KLinePosition | KVttTextAlign | KCueId
     | KPreserveTextAlign), _ => is_bool v
  | KLogLevel, JStr s => one_of s ["INFO"; "WARN"; "ERROR"]%string
  | KDocumentLang, JStr s => langtag_ok s
  | KTimeFormat, JStr s => one_of s ["frames"; "clock_time"; "clock_time_with_frames"]%string
  | KFps, JStr s => fps_ok s
  | KSccTextAlign, JStr s => one_of s ["auto"; "left"; "center"; "right"]%string
  | KStartTc, JStr s => text_eqb s (T "TCP") || tc_ok s
  | KFontStack, JStr s => fonts_ok s
  | KMaxRowCount, JStr s => text_eqb s (T "MNR")
  | KMaxRowCount, JInt _ => true
  | KSafeArea, JInt z => (0 <=? z) && (z <=? 30)
  | (KColor | KBgColor), JStr s => color_ok s
  | _, _ => false
  end.

(* ------------------------------------------------------------------ recorded findings: executable triggers
   (findings_proposed/C19.txt).  Each describes, per key, the syntactic class of values on which the code is
   known to depart from the table above; outside them the table must hold exactly. *)
(* 1. bool-decoders-accept-anything: keys decoded by `bool` (and progress_bar, not decoded at all) take any
      JSON value by truthiness *)
Definition trigger_bool (k : key) (v : json) : bool := bool_key k && negb (is_bool v).
(* 2. undocumented-values-accepted *)
(* some prefix of s (s included) has the shape of a colour, components of any size *)
Definition has_color_shaped_prefix (s : text) : bool :=
  existsb (fun n => color_form all_digits (firstn n s)) (seq 0 (S (length s))).
(* characters of the documented colour forms: hexadecimal digits after '#'; lower-case letters, digits, ( ) , otherwise *)
Definition plain_color_text (s : text) : bool :=
  match s with
  | 35 :: h => forallb hexdigit h
  | _ => forallb (fun c => lower_letter c || digit c || (c =? 40) || (c =? 41) || (c =? 44)) s
  end.
Definition trigger_lenient (k : key) (v : json) : bool :=
  match k, v with
  | KLogLevel, (JInt _ | JBool _) => true
  | KLogLevel, JStr s => one_of s ["CRITICAL"; "FATAL"; "WARNING"; "DEBUG"; "NOTSET"]%string
  | KDocumentLang, JStr s => negb (langtag_ok s)
  | KFps, JStr s => negb (forallb (fun c => digit c || (c =? 47)) s) ||
                    match fields 47 s with [a; b] => all_digits a && all_digits b && negb (positive_number a) | _ => false end
  | KSccTextAlign, JStr s => negb (forallb lower_letter s)
  | KStartTc, JStr s => negb (text_eqb s (T "TCP")) &&
                        (ci_eq s (T "TCP") ||
                         match s with
                         | [_; _; x; _; _; y; _; _; z; _; _] => negb ((x =? 58) && (y =? 58) && (z =? 58))
                         | _ => Z.of_nat (length s) >? 11
                         end)
  | KMaxRowCount, JBool _ => true
  | KMaxRowCount, JStr s => negb (text_eqb s (T "MNR")) && ci_eq s (T "MNR")
  | KSafeArea, (JBool _ | JFloat _ _ | JStr _) => true
  | (KColor | KBgColor), JStr s =>
      negb (plain_color_text s) || (negb (color_ok s) && has_color_shaped_prefix s)
  | KFontStack, JStr s => negb (fonts_ok s)
  | _, _ => false
  end.
(* 3. documented-values-rejected: a font family of one unquoted character (the unquoted-name pattern needs two),
      and digit strings longer than CPython's int() limit *)
Definition has_short_family (s : text) : bool :=
  existsb (fun it => match List.filter (fun c => negb (c =? 32)) it with [c] => negb ((c =? 39) || (c =? 34)) | _ => false end)
          (fields 44 s).
Definition trigger_rejected (k : key) (v : json) : bool :=
  match k, v with
  | KFontStack, JStr s => has_short_family s
  | (KFps | KColor | KBgColor), JStr s => Z.of_nat (length s) >? 4300
  | _, _ => false
  end.
Definition trigger (k : key) (v : json) : bool := trigger_bool k v || trigger_lenient k v || trigger_rejected k v.

(* ------------------------------------------------------------------ a whole command line, judged on what the
   code was observed to do (used by the generated case files; the theorems of Properties/C19.v are about M) *)
Definition jget (k : string) (j : json) : option json :=
  match j with
  | JObj l => fold_left (fun acc kv => if text_eqb (T k) (fst kv) then Some (snd kv) else acc) l None
  | _ => None
  end.
(* the configuration in force: the file if one is given, else the inline one *)
Definition effective (i : inline_src) (f : file_src) : option json :=
  match f with
  | FGiven j => Some j
  | _ => match i with IGiven j => Some j | _ => None end
  end.
Definition sources_ok (i : inline_src) (f : file_src) : bool :=
  match i, f with
  | IMalformed, _ | _, FMalformed | _, FUnreadable => false
  | _, _ => true
  end.
Definition section (name : string) (cfg : option json) : option json :=
  match cfg with Some j => match jget name j with Some JNull => None | x => x end | None => None end.
Definition keys_of (sec : string) : list (string * key) :=
  (if String.eqb sec "general" then [("log_level", KLogLevel); ("progress_bar", KProgressBar); ("document_lang", KDocumentLang)]
   else if String.eqb sec "imsc_writer" then [("time_format", KTimeFormat); ("fps", KFps)]
   else if String.eqb sec "scc_reader" then [("text_align", KSccTextAlign)]
   else if String.eqb sec "stl_reader" then [("disable_fill_line_gap", KFillLineGap); ("program_start_tc", KStartTc);
                                             ("disable_line_padding", KLinePadding); ("font_stack", KFontStack);
                                             ("max_row_count", KMaxRowCount)]
   else if String.eqb sec "srt_writer" then [("text_formatting", KTextFormatting)]
   else if String.eqb sec "vtt_writer" then [("line_position", KLinePosition); ("text_align", KVttTextAlign); ("cue_id", KCueId)]
   else if String.eqb sec "lcd" then [("safe_area", KSafeArea); ("preserve_text_align", KPreserveTextAlign);
                                      ("color", KColor); ("bg_color", KBgColor)]
   else [])%string.
(* per section in use: 0 every given value is documented; 1 some value is undocumented but inside a recorded
   trigger; 2 some value is undocumented outside every trigger, or the section is not a JSON object *)
Definition section_status (sec : string) (cfg : option json) : Z :=
  match section sec cfg with
  | None => 0
  | Some (JObj _ as o) =>
      fold_left Z.max
        (List.map (fun nk => match jget (fst nk) o with
                             | None | Some JNull => 0
                             | Some v => if documented (snd nk) v then 0 else if trigger (snd nk) v then 1 else 2
                             end) (keys_of sec)) 0
  | Some _ => 2
  end.
(* a documented value that the code is known to reject (finding 3) sits in the section *)
Definition section_has_rejected (sec : string) (cfg : option json) : bool :=
  match section sec cfg with
  | Some (JObj _ as o) =>
      existsb (fun nk => match jget (fst nk) o with
                         | None | Some JNull => false
                         | Some v => documented (snd nk) v && trigger_rejected (snd nk) v
                         end) (keys_of sec)
  | _ => false
  end.
(* an explicit null: README says nothing about it (outside the colours), so S constrains neither outcome *)
Definition section_has_null (sec : string) (cfg : option json) : bool :=
  match section sec cfg with
  | Some (JObj _ as o) => existsb (fun nk => match jget (fst nk) o with Some JNull => true | _ => false end) (keys_of sec)
  | _ => false
  end.
Definition spec_known_filter (n : text) : bool := text_eqb n (T "lcd").
Definition sections_in_use (rt wt : ftype) (filters : list text) : list string :=
  List.app ["general"%string]
    (List.app (match rt with SCC => ["scc_reader"%string] | STL => ["stl_reader"%string] | _ => [] end)
       (List.app (if existsb spec_known_filter filters then ["lcd"%string] else [])
          (match wt with TTML => ["imsc_writer"%string] | SRT => ["srt_writer"%string] | VTT => ["vtt_writer"%string] | _ => [] end))).
Definition reader_type (r : reader) : ftype :=
  match r with RdTtml => TTML | RdScc _ => SCC | RdStl _ => STL | RdSrt => SRT | RdVtt => VTT end.
Definition writer_type (w : writer) : ftype := match w with WrTtml _ => TTML | WrSrt _ => SRT | WrVtt _ => VTT end.
Definition find_type (g : option text) (p : text) : option ftype := find (type_ok g p) all_types.

(* documented values whose meaning README fixes: the plan must carry them (precedence and "honours options") *)
Definition want_bool (sec k : string) (cfg : option json) (dflt : bool) (got : bool) : bool :=
  match section sec cfg with
  | Some o => match jget k o with
              | Some (JBool b) => Bool.eqb got b
              | None => Bool.eqb got dflt
              | _ => true
              end
  | None => Bool.eqb got dflt
  end.
Definition honours (cfg : option json) (p : plan_t) : bool :=
  (match p_writer p with
   | WrSrt c => want_bool "srt_writer" "text_formatting" cfg true (match c with Some b => b | None => true end)
   | WrVtt c => let c := match c with Some c => c | None => Build_vtt_cfg false false true end in
                want_bool "vtt_writer" "line_position" cfg false (vt_line_position c) &&
                want_bool "vtt_writer" "text_align" cfg false (vt_text_align c) &&
                want_bool "vtt_writer" "cue_id" cfg true (vt_cue_id c)
   | WrTtml c => match section "imsc_writer" cfg with
                 | Some o => match jget "time_format" o, c with
                             | Some (JStr s), Some c =>
                                 if text_eqb s (T "frames") then match im_time_format c with Some TfFrames => true | _ => false end
                                 else if text_eqb s (T "clock_time") then match im_time_format c with Some TfClockTime => true | _ => false end
                                 else if text_eqb s (T "clock_time_with_frames") then match im_time_format c with Some TfClockTimeWithFrames => true | _ => false end
                                 else true
                             | Some (JStr _), None => false
                             | _, _ => true
                             end
                 | None => true
                 end
   end) &&
  (match p_reader p with
   | RdScc c => match section "scc_reader" cfg with
                | Some o => match jget "text_align" o with
                            | Some (JStr s) =>
                                let got := match c with Some a => a | None => AlAuto end in
                                if text_eqb s (T "left") then match got with AlLeft => true | _ => false end
                                else if text_eqb s (T "center") then match got with AlCenter => true | _ => false end
                                else if text_eqb s (T "right") then match got with AlRight => true | _ => false end
                                else if text_eqb s (T "auto") then match got with AlAuto => true | _ => false end
                                else true
                            | _ => true
                            end
                | None => true
                end
   | RdStl c => let c := match c with Some c => c | None => Build_stl_cfg false None false None None end in
                want_bool "stl_reader" "disable_fill_line_gap" cfg false (st_fill_gap c) &&
                want_bool "stl_reader" "disable_line_padding" cfg false (st_line_padding c)
   | _ => true
   end) &&
  forallb (fun fa => match fa with FLcd c =>
             want_bool "lcd" "preserve_text_align" cfg false (lc_preserve_text_align c) &&
             match section "lcd" cfg with
             | Some o => match jget "safe_area" o with
                         | Some (JInt z) => lc_safe_area c =? z
                         | None => lc_safe_area c =? 10
                         | _ => true
                         end
             | None => lc_safe_area c =? 10
             end end) (p_filters p) &&
  (* document_lang overrides the document language *)
  (match section "general" cfg with
   | Some o => match jget "document_lang" o with
               | Some (JStr s) => match p_lang p with Some l => text_eqb l s | None => false end
               | None | Some JNull => match p_lang p with None => true | Some _ => false end
               | _ => true
               end
   | None => match p_lang p with None => true | Some _ => false end
   end).

(* which recorded findings a section's values touch: bit 1 bool, bit 2 lenient, bit 4 rejected *)
Definition section_mask (sec : string) (cfg : option json) : Z :=
  match section sec cfg with
  | Some (JObj _ as o) =>
      fold_left Z.lor
        (List.map (fun nk => match jget (fst nk) o with
                             | None | Some JNull => 0
                             | Some v => let k := snd nk in
                                         if documented k v then (if trigger_rejected k v then 4 else 0)
                                         else if trigger_bool k v then 1 else if trigger_lenient k v then 2 else 0
                             end) (keys_of sec)) 0
  | _ => 0
  end.
Definition case_mask (a : argv) (i : inline_src) (f : file_src) : Z :=
  match a with
  | Subcommand _ o =>
      match find_type (o_itype o) (o_input o), find_type (o_otype o) (o_output o) with
      | Some r, Some w => fold_left Z.lor (List.map (fun s => section_mask s (effective i f)) (sections_in_use r w (o_filters o))) 0
      | _, _ => 0
      end
  | _ => 0
  end.
(* strict = true: no recorded finding is excused *)
Definition spec_case (strict : bool) (a : argv) (i : inline_src) (f : file_src) (obs : outcome) (rc : Z) (out_exists : bool) (cmp : Z) : bool :=
  match a with
  | NoSubcommand => match obs with OHelp => (rc =? 0) && negb out_exists | _ => false end
  | Subcommand n o =>
      if negb (text_eqb n (T "convert"))
      then match obs with OError _ => negb (rc =? 0) && negb out_exists | _ => false end     (* unknown sub-command *)
      else
        let cfg := effective i f in
        let rt := find_type (o_itype o) (o_input o) in
        let wt := find_type (o_otype o) (o_output o) in
        match obs with
        | OHelp => false
        | OError _ =>
            (* an error ends with a non-zero status and no output file, and must have a reason *)
            negb (rc =? 0) && negb out_exists &&
            (negb (sources_ok i f) ||
             match rt, wt with
             | Some r, Some w =>
                 negb (writable w) ||
                 match cfg with Some (JObj _) | None | Some JNull => false | Some _ => true end ||
                 existsb (fun s => negb (section_status s cfg =? 0) || section_has_null s cfg || (negb strict && section_has_rejected s cfg))
                         (sections_in_use r w (o_filters o))
             | _, _ => true
             end)
        | OPlan p =>
            (* cmp: 1 = the library pipeline run on the plan gave exactly the bytes of the output file;
                    0 = the library pipeline itself raised (then so must the command); 2 = bytes differ / file missing *)
            (if cmp =? 1 then (rc =? 0) && out_exists else if cmp =? 0 then negb (rc =? 0) else false) &&
            sources_ok i f &&
            type_ok (o_itype o) (o_input o) (reader_type (p_reader p)) &&
            type_ok (o_otype o) (o_output o) (writer_type (p_writer p)) && writable (writer_type (p_writer p)) &&
            (* filters: the known names of the command line, in order *)
            (Z.of_nat (length (p_filters p)) =? Z.of_nat (length (List.filter spec_known_filter (o_filters o)))) &&
            (* every value of a section in use is documented, or covered by a recorded finding *)
            forallb (fun s => if strict then section_status s cfg =? 0 else negb (section_status s cfg =? 2))
                    (sections_in_use (reader_type (p_reader p)) (writer_type (p_writer p)) (o_filters o)) &&
            honours cfg p
        end
  end.
