(* S for C19, written from the property statement and /repo/README.md ("Command line", the configuration
   sections) only; shares the types of Base/CliTypes.v with the model and nothing else.

   Reading conventions (README is a user guide, not a grammar):
   * `true | false` means a JSON boolean; an enumeration of quoted strings means exactly those strings;
     `integer` means a JSON integer; a JSON null is read as "not specified" and is outside the acceptance table.
   * `"fps": "<num>/<denom>"`: two unsigned decimal integers, both positive.
   * `<TTML color>`: TTML2 10.3.5 — #rrggbb, #rrggbbaa, rgb(r,g,b), rgba(r,g,b,a) with components 0..255, or a
     TTML2 named colour; no white space.
   * `<font-families>`: TTML2 10.3.11 — comma-separated families, each a quoted string or an unquoted name.
   * `<RFC 5646 language tag>`: well-formed in the sense of RFC 5646 2.2.9, approximated by: hyphen-separated
     subtags of 1..8 ASCII letters/digits, the first one alphabetic.
   * `"HH:MM:SS:FF"`: four two-digit fields separated by colons.
   * file types: --itype/--otype if given, else the file extension (what follows the last dot of the file
     name, a name that is not made of dots only), case-insensitively; TTML SCC STL SRT VTT can be read,
     TTML SRT VTT can be written.
   * the command line: see "the command line" below; `spec_plan` is the plan README prescribes for a command line and a
     configuration all of whose values are documented; `lib_pipeline` is the composition of the library calls. *)
From Coq Require Import String.
From TT Require Import Base.Prelude Base.CliTypes.

(* ------------------------------------------------------------------ characters *)
Definition lc (c : Z) : Z := if (65 <=? c) && (c <=? 90) then c + 32 else c.
Definition ci_eq (a b : text) : bool := text_eqb (List.map lc a) (List.map lc b).
Definition digit (c : Z) : bool := (48 <=? c) && (c <=? 57).
Definition letter (c : Z) : bool := ((65 <=? c) && (c <=? 90)) || ((97 <=? c) && (c <=? 122)).
Definition lower_letter (c : Z) : bool := (97 <=? c) && (c <=? 122).
Definition hexdigit (c : Z) : bool := digit c || ((65 <=? c) && (c <=? 70)) || ((97 <=? c) && (c <=? 102)).
Definition one_of (s : text) (l : list string) : bool := existsb (fun x => text_eqb s (T x)) l.
(* fields of s separated by c *)
Fixpoint fields (c : Z) (s : text) : list text :=
  match s with
  | [] => [[]]
  | x :: r => if x =? c then [] :: fields c r else match fields c r with h :: t => (x :: h) :: t | [] => [[x]] end
  end.

(* ------------------------------------------------------------------ file types *)
Definition tname (t : ftype) : text :=
  match t with TTML => T "ttml" | SCC => T "scc" | SRT => T "srt" | STL => T "stl" | VTT => T "vtt" end.
Definition readable (t : ftype) : bool := true.
Definition writable (t : ftype) : bool := match t with TTML | SRT | VTT => true | SCC | STL => false end.
(* the file name proper: what follows the last '/' *)
Fixpoint until_slash (s : text) : text :=
  match s with c :: r => if c =? 47 then [] else c :: until_slash r | [] => [] end.
Definition last_component (p : text) : text := rev (until_slash (rev p)).
Definition names_a_file (stem : text) : bool := existsb (fun c => negb (c =? 46)) (last_component stem).
(* p = stem ++ "." ++ e with e naming type t and stem ending in a proper file name, the dot being at index k *)
Definition ext_at (p : text) (t : ftype) (k : nat) : bool :=
  match nth_error p k with
  | Some 46 => ci_eq (skipn (S k) p) (tname t) && names_a_file (firstn k p)
  | _ => false
  end.
Definition type_ok (given : option text) (path : text) (t : ftype) : bool :=
  match given with
  | Some g => ci_eq g (tname t)
  | None => existsb (ext_at path t) (seq 0 (length path))
  end.
Definition all_types : list ftype := [TTML; SCC; SRT; STL; VTT].

(* ------------------------------------------------------------------ documented values, per key *)
Definition is_bool (v : json) : bool := match v with JBool _ => true | _ => false end.
Definition all_digits (s : text) : bool := match s with [] => false | _ => forallb digit s end.
Definition positive_number (s : text) : bool := all_digits s && existsb (fun c => negb (c =? 48)) s.

(* RFC 5646 well-formedness, approximated *)
Definition alnum (c : Z) : bool := digit c || letter c.
Definition subtag_ok (s : text) : bool := match s with [] => false | _ => forallb alnum s && (Z.of_nat (length s) <=? 8) end.
Definition langtag_ok (s : text) : bool :=
  match fields 45 s with
  | first :: rest => subtag_ok first && forallb letter first && forallb subtag_ok rest
  | [] => false
  end.

Definition fps_ok (s : text) : bool :=
  match fields 47 s with [a; b] => positive_number a && positive_number b | _ => false end.

Definition tc_ok (s : text) : bool :=
  match fields 58 s with
  | [h; m; sec; f] => forallb (fun x => all_digits x && (Z.of_nat (length x) =? 2)) [h; m; sec; f]
  | _ => false
  end.

(* TTML2 named colours *)
Definition ttml_named_colors : list string :=
  ["transparent"; "black"; "silver"; "gray"; "white"; "maroon"; "red"; "purple"; "fuchsia"; "magenta"; "green"; "lime";
   "olive"; "yellow"; "navy"; "blue"; "teal"; "aqua"; "cyan"]%string.
(* component 0..255: decimal digits; after dropping leading zeros at most three remain and the value is <= 255 *)
Fixpoint drop_zeros (s : text) : text := match s with 48 :: r => drop_zeros r | _ => s end.
Definition component_ok (s : text) : bool :=
  all_digits s &&
  match drop_zeros s with
  | [] => true | [_] => true | [_; _] => true
  | [a; b; c] => (a <? 50) || ((a =? 50) && ((b <? 53) || ((b =? 53) && (c <=? 53))))
  | _ => false
  end.
Fixpoint strip_pre (p s : text) : option text :=
  match p, s with
  | [], _ => Some s
  | a :: p', b :: s' => if a =? b then strip_pre p' s' else None
  | _ :: _, [] => None
  end.
Definition strip_last (c : Z) (s : text) : option text :=
  match rev s with l :: m => if l =? c then Some (rev m) else None | [] => None end.
(* s = pre ++ body ++ [post] *)
Definition strip_both (pre : text) (post : Z) (s : text) : option text :=
  match strip_pre pre s with Some r => strip_last post r | None => None end.
(* the colour forms; `comp` judges one rgb()/rgba() component *)
Definition color_form (comp : text -> bool) (s : text) : bool :=
  one_of s ttml_named_colors ||
  match s with
  | c0 :: h => (c0 =? 35) && forallb hexdigit h && ((Z.of_nat (length h) =? 6) || (Z.of_nat (length h) =? 8))
  | [] => false
  end ||
  match strip_both (T "rgb(") 41 s with
  | Some body => match fields 44 body with [r; g; b] => forallb comp [r; g; b] | _ => false end
  | None => false
  end ||
  match strip_both (T "rgba(") 41 s with
  | Some body => match fields 44 body with [r; g; b; a] => forallb comp [r; g; b; a] | _ => false end
  | None => false
  end.
Definition color_ok (s : text) : bool := color_form component_ok s.

(* TTML2 font families: item ("," item)*, item = spaces (quoted | unquoted) spaces.
   quoted: q (escape | any character but q and backslash)+ q, q the apostrophe or the quotation mark;
   unquoted: (escape | any character but comma, apostrophe, quotation mark, backslash)+ *)
Inductive fstate := FsStart | FsUnq | FsQuoted (q : Z) (nonempty : bool) | FsAfter.
Fixpoint fonts_scan (st : fstate) (esc : bool) (s : text) : bool :=
  match s with
  | [] => match st with FsUnq | FsAfter => negb esc | _ => false end
  | c :: r =>
      if esc then
        match st with
        | FsStart | FsUnq => fonts_scan FsUnq false r
        | FsQuoted q _ => fonts_scan (FsQuoted q true) false r
        | FsAfter => false
        end
      else
        match st with
        | FsStart =>
            if c =? 32 then fonts_scan FsStart false r
            else if (c =? 39) || (c =? 34) then fonts_scan (FsQuoted c false) false r
            else if c =? 44 then false
            else if c =? 92 then fonts_scan FsStart true r
            else fonts_scan FsUnq false r
        | FsUnq =>
            if c =? 44 then fonts_scan FsStart false r
            else if (c =? 39) || (c =? 34) then false
            else if c =? 92 then fonts_scan FsUnq true r
            else fonts_scan FsUnq false r
        | FsQuoted q ne =>
            if c =? q then (if ne then fonts_scan FsAfter false r else false)
            else if c =? 92 then fonts_scan (FsQuoted q ne) true r
            else fonts_scan (FsQuoted q true) false r
        | FsAfter =>
            if c =? 32 then fonts_scan FsAfter false r
            else if c =? 44 then fonts_scan FsStart false r
            else false
        end
  end.
Definition fonts_ok (s : text) : bool := fonts_scan FsStart false s.

Definition bool_key (k : key) : bool :=
  match k with
  | KProgressBar | KFillLineGap | KLinePadding | KTextFormatting | KLinePosition | KVttTextAlign | KCueId
  | KPreserveTextAlign => true
  | _ => false
  end.
Definition color_key (k : key) : bool := match k with KColor | KBgColor => true | _ => false end.
Definition is_null_value (v : json) : bool := match v with JNull => true | _ => false end.
(* README, per key.  A null is documented for the two colours only ("<TTML color> | null"); for every other key README
   is silent about null and the table below says nothing about it (in_table). *)
Definition documented (k : key) (v : json) : bool :=
  match k, v with
  | (KProgressBar | KFillLineGap | KLinePadding | KTextFormatting | KLinePosition | KVttTextAlign | KCueId
     | KPreserveTextAlign), _ => is_bool v
  | KLogLevel, JStr s => one_of s ["INFO"; "WARN"; "ERROR"]%string
  | KDocumentLang, JStr s => langtag_ok s
  | KTimeFormat, JStr s => one_of s ["frames"; "clock_time"; "clock_time_with_frames"]%string
  | KFps, JStr s => fps_ok s
  | KSccTextAlign, JStr s => one_of s ["auto"; "left"; "center"; "right"]%string
  | KStartTc, JStr s => text_eqb s (T "TCP") || tc_ok s
  | KFontStack, JStr s => fonts_ok s
  | KMaxRowCount, JStr s => text_eqb s (T "MNR")
  | KMaxRowCount, JInt _ => true
  | KSafeArea, JInt z => (0 <=? z) && (z <=? 30)
  | (KColor | KBgColor), JStr s => color_ok s
  | (KColor | KBgColor), JNull => true
  | _, _ => false
  end.
Definition in_table (k : key) (v : json) : bool := negb (is_null_value v) || color_key k.

(* ------------------------------------------------------------------ what a documented value means (README) *)
Definition number (s : text) : Z := fold_left (fun a c => 10 * a + (c - 48)) s 0.
Definition hexv (c : Z) : Z := if digit c then c - 48 else if (65 <=? c) && (c <=? 70) then c - 55 else c - 87.
Definition mean_bool (v : json) : bool := match v with JBool b => b | _ => false end.
(* Python logging levels behind the three documented names *)
Definition mean_level (v : json) : option Z :=
  match v with
  | JStr s => if text_eqb s (T "INFO") then Some 20 else if text_eqb s (T "WARN") then Some 30
              else if text_eqb s (T "ERROR") then Some 40 else None
  | _ => None
  end.
Definition mean_text (v : json) : option text := match v with JStr s => Some s | _ => None end.
Definition mean_tfmt (v : json) : option tfmt :=
  match v with
  | JStr s => if text_eqb s (T "frames") then Some TfFrames else if text_eqb s (T "clock_time") then Some TfClockTime
              else if text_eqb s (T "clock_time_with_frames") then Some TfClockTimeWithFrames else None
  | _ => None
  end.
(* the rational <num>/<denom> in lowest terms *)
Definition mean_fps (v : json) : option (Z * Z) :=
  match v with
  | JStr s => match fields 47 s with
              | [a; b] => let n := number a in let d := number b in let g := Z.gcd n d in Some (n / g, d / g)
              | _ => None
              end
  | _ => None
  end.
Definition mean_align (v : json) : scc_align :=
  match v with
  | JStr s => if text_eqb s (T "left") then AlLeft else if text_eqb s (T "center") then AlCenter
              else if text_eqb s (T "right") then AlRight else AlAuto
  | _ => AlAuto
  end.
Definition mean_mrc (v : json) : option mrc :=
  match v with JStr _ => Some MrcMNR | JInt z => Some (MrcInt z) | _ => None end.
Definition mean_int (v : json) : Z := match v with JInt z => z | _ => 0 end.
(* TTML2 named colours as RGBA *)
Definition ttml_named_rgba : list (string * rgba) :=
  [("transparent", (0, 0, 0, 0)); ("black", (0, 0, 0, 255)); ("silver", (192, 192, 192, 255)); ("gray", (128, 128, 128, 255));
   ("white", (255, 255, 255, 255)); ("maroon", (128, 0, 0, 255)); ("red", (255, 0, 0, 255)); ("purple", (128, 0, 128, 255));
   ("fuchsia", (255, 0, 255, 255)); ("magenta", (255, 0, 255, 255)); ("green", (0, 128, 0, 255)); ("lime", (0, 255, 0, 255));
   ("olive", (128, 128, 0, 255)); ("yellow", (255, 255, 0, 255)); ("navy", (0, 0, 128, 255)); ("blue", (0, 0, 255, 255));
   ("teal", (0, 128, 128, 255)); ("aqua", (0, 255, 255, 255)); ("cyan", (0, 255, 255, 255))]%string.
Definition hexpair (a b : Z) : Z := 16 * hexv a + hexv b.
Definition mean_color_text (s : text) : option rgba :=
  match find (fun nc => text_eqb s (T (fst nc))) ttml_named_rgba with
  | Some nc => Some (snd nc)
  | None =>
    match (match s with
           | c0 :: h => if c0 =? 35 then
                          match h with
                          | [r1; r2; g1; g2; b1; b2] => Some (hexpair r1 r2, hexpair g1 g2, hexpair b1 b2, 255)
                          | [r1; r2; g1; g2; b1; b2; a1; a2] => Some (hexpair r1 r2, hexpair g1 g2, hexpair b1 b2, hexpair a1 a2)
                          | _ => None
                          end
                        else None
           | [] => None
           end) with
    | Some c => Some c
    | None =>
      match strip_both (T "rgb(") 41 s with
      | Some body => match fields 44 body with [r; g; b] => Some (number r, number g, number b, 255) | _ => None end
      | None =>
        match strip_both (T "rgba(") 41 s with
        | Some body => match fields 44 body with [r; g; b; a] => Some (number r, number g, number b, number a) | _ => None end
        | None => None
        end
      end
    end
  end.
Definition mean_color (v : json) : option rgba := match v with JStr s => mean_color_text s | _ => None end.
Definition ocval {A} (f : A -> cval) (o : option A) : cval := match o with Some a => f a | None => CNone end.
(* one key: the value the conversion must use for a documented v *)
Definition meaning (k : key) (v : json) : cval :=
  match k with
  | KProgressBar | KFillLineGap | KLinePadding | KTextFormatting | KLinePosition | KVttTextAlign | KCueId | KPreserveTextAlign =>
      CBool (mean_bool v)
  | KLogLevel => ocval CInt (mean_level v)
  | KDocumentLang | KStartTc | KFontStack => ocval CText (mean_text v)
  | KTimeFormat => ocval CTfmt (mean_tfmt v)
  | KFps => ocval (fun f => CFrac (fst f) (snd f)) (mean_fps v)
  | KSccTextAlign => CAlign (mean_align v)
  | KMaxRowCount => ocval CMrc (mean_mrc v)
  | KSafeArea => CInt (mean_int v)
  | KColor | KBgColor => ocval (fun c => match c with (r, g, b, a) => CColor r g b a end) (mean_color v)
  end.

(* ------------------------------------------------------------------ recorded findings: executable triggers
   (findings_proposed/C19.txt).  Each describes, per key, the syntactic class of values on which the code is
   known to depart from the table above; outside them the table must hold exactly.
   Repaired and gone: bool keys (any JSON value by truthiness), lcd.safe_area through int(), imsc_writer.fps with signs /
   spaces / underscores / zero, colours with trailing text, components above 255 or non-ASCII digits,
   program_start_tc with trailing text, max_row_count true/false, one-character font families; values that are not strings
   escaping as AttributeError / TypeError (program_start_tc, font_stack, scc_reader.text_align, document_lang, log_level —
   integers as log_level with them), sections that are not JSON objects. *)
(* 2. undocumented-values-accepted (what is left of it) *)
Definition upper_letter (c : Z) : bool := (65 <=? c) && (c <=? 90).
Definition ascii_space (c : Z) : bool := ((9 <=? c) && (c <=? 13)) || (c =? 32).
Definition trigger_lenient (k : key) (v : json) : bool :=
  match k, v with
  (* any logging level name *)
  | KLogLevel, JStr s => one_of s ["CRITICAL"; "FATAL"; "WARNING"; "DEBUG"; "NOTSET"]%string
  (* any string *)
  | KDocumentLang, JStr s => negb (langtag_ok s)
  (* case-insensitive *)
  | KSccTextAlign, JStr s => negb (forallb lower_letter s)
  (* "tcp" in any case; drop-frame separators (any character but a line feed, because of an unescaped dot) *)
  | KStartTc, JStr s => negb (text_eqb s (T "TCP")) &&
                        (ci_eq s (T "TCP") ||
                         match s with
                         | [_; _; x; _; _; y; _; _; z; _; _] => negb ((x =? 58) && (y =? 58) && (z =? 58))
                         | _ => false
                         end)
  (* "mnr" in any case *)
  | KMaxRowCount, JStr s => negb (text_eqb s (T "MNR")) && ci_eq s (T "MNR")
  (* named colours in any letter case (and characters whose lower case is ASCII); white space around rgb()/rgba()
     components — both pinned by test_imsc_color_parser.  Hexadecimal notations (any case of the digits) are exact. *)
  | (KColor | KBgColor), JStr s => match s with
                                   | c0 :: _ => if c0 =? 35 then false       (* #rrggbb[aa]: nothing is left *)
                                                else existsb (fun c => upper_letter c || ascii_space c || (128 <=? c)) s
                                   | [] => false
                                   end
  (* no validation beyond "some family-like token occurs" *)
  | KFontStack, JStr s => negb (fonts_ok s)
  | _, _ => false
  end.
(* 3. documented-values-rejected (what is left of it): digit strings longer than CPython's int() limit *)
Definition trigger_rejected (k : key) (v : json) : bool :=
  match k, v with
  | (KFps | KColor | KBgColor), JStr s => Z.of_nat (length s) >? 4300
  | _, _ => false
  end.
Definition trigger (k : key) (v : json) : bool := trigger_lenient k v || trigger_rejected k v.
(* what is left of the program_start_tc leniency, stated positively: "TCP" in any letter case, or four two-digit fields
   separated by any three characters other than a line feed (the drop-frame pattern's unescaped dot) *)
Definition tc_any_sep (s : text) : bool :=
  match s with
  | [a; b; x; c; d; y; e; f; z; g; h] =>
      forallb digit [a; b; c; d; e; f; g; h] && forallb (fun c => negb (c =? 10)) [x; y; z]
  | _ => false
  end.

(* ------------------------------------------------------------------ the command line (README "Command line":
   tt convert [-h] -i INPUT -o OUTPUT [--itype ITYPE] [--otype OTYPE] [--config CONFIG] [--config_file CONFIG_FILE],
   --filter by name; the long forms of -i / -o; options in any order, written `flag value` or `flag=value`;
   a repeated option: the last value counts, filters accumulate in order) *)
Definition spec_flags : list (string * dest) :=
  [("-i", DInput); ("--input", DInput); ("-o", DOutput); ("--output", DOutput); ("--itype", DItype); ("--otype", DOtype);
   ("--filter", DFilter); ("--config", DConfig); ("--config_file", DConfigFile)]%string.
Definition flag_dest (t : text) : option dest :=
  match find (fun fd => text_eqb t (T (fst fd))) spec_flags with Some fd => Some (snd fd) | None => None end.
Definition dash_first (t : text) : bool := match t with c :: _ => c =? 45 | [] => false end.
(* the grammar, generatively: a list of (option, value) items and the token lists that spell it *)
Inductive tokens_of : list (dest * text) -> list text -> Prop :=
| TNil : tokens_of [] []
| TPair : forall f d v items toks, flag_dest f = Some d -> dash_first v = false -> tokens_of items toks ->
                                   tokens_of ((d, v) :: items) (f :: v :: toks)
| TEq : forall f d v items toks, flag_dest f = Some d -> tokens_of items toks ->
                                 tokens_of ((d, v) :: items) ((f ++ 61 :: v) :: toks).
(* ... and as a recogniser *)
Fixpoint cut_eq (t : text) : option (text * text) :=
  match t with
  | [] => None
  | c :: r => if c =? 61 then Some ([], r) else match cut_eq r with Some (a, b) => Some (c :: a, b) | None => None end
  end.
Fixpoint spec_items (toks : list text) : option (list (dest * text)) :=
  match toks with
  | [] => Some []
  | t :: r =>
      match flag_dest t with
      | Some d => match r with
                  | v :: r' => if dash_first v then None else option_map (cons (d, v)) (spec_items r')
                  | [] => None
                  end
      | None => match cut_eq t with
                | Some (f, v) => match flag_dest f with Some d => option_map (cons (d, v)) (spec_items r) | None => None end
                | None => None
                end
      end
  end.
Definition dest_code (d : dest) : Z :=
  match d with DHelp => 0 | DInput => 1 | DOutput => 2 | DItype => 3 | DOtype => 4 | DFilter => 5 | DConfig => 6 | DConfigFile => 7 end.
Definition last_of (d : dest) (items : list (dest * text)) : option text :=
  fold_left (fun acc it => if dest_code (fst it) =? dest_code d then Some (snd it) else acc) items None.
Definition all_of (d : dest) (items : list (dest * text)) : list text :=
  List.map snd (List.filter (fun it => dest_code (fst it) =? dest_code d) items).
(* the options a well-formed `convert` command line denotes; None: -i or -o is missing *)
Definition spec_options (items : list (dest * text)) : option (options * option text * option text) :=
  match last_of DInput items, last_of DOutput items with
  | Some i, Some o => Some (Build_options i o (last_of DItype items) (last_of DOtype items) (all_of DFilter items),
                            last_of DConfig items, last_of DConfigFile items)
  | _, _ => None
  end.

(* ------------------------------------------------------------------ a whole command line, judged on what the
   code was observed to do (used by the generated case files; the theorems of Properties/C19.v are about M) *)
Definition jget (k : string) (j : json) : option json :=
  match j with
  | JObj l => fold_left (fun acc kv => if text_eqb (T k) (fst kv) then Some (snd kv) else acc) l None
  | _ => None
  end.
(* the configuration in force: the file if one is given, else the inline one *)
Definition effective (i : inline_src) (f : file_src) : option json :=
  match f with
  | FGiven j => Some j
  | _ => match i with IGiven j => Some j | _ => None end
  end.
Definition sources_ok (i : inline_src) (f : file_src) : bool :=
  match i, f with
  | IMalformed, _ | _, FMalformed | _, FUnreadable => false
  | _, _ => true
  end.
Definition section (name : string) (cfg : option json) : option json :=
  match cfg with Some j => match jget name j with Some JNull => None | x => x end | None => None end.
Definition keys_of (sec : string) : list (string * key) :=
  (if String.eqb sec "general" then [("log_level", KLogLevel); ("progress_bar", KProgressBar); ("document_lang", KDocumentLang)]
   else if String.eqb sec "imsc_writer" then [("time_format", KTimeFormat); ("fps", KFps)]
   else if String.eqb sec "scc_reader" then [("text_align", KSccTextAlign)]
   else if String.eqb sec "stl_reader" then [("disable_fill_line_gap", KFillLineGap); ("program_start_tc", KStartTc);
                                             ("disable_line_padding", KLinePadding); ("font_stack", KFontStack);
                                             ("max_row_count", KMaxRowCount)]
   else if String.eqb sec "srt_writer" then [("text_formatting", KTextFormatting)]
   else if String.eqb sec "vtt_writer" then [("line_position", KLinePosition); ("text_align", KVttTextAlign); ("cue_id", KCueId)]
   else if String.eqb sec "lcd" then [("safe_area", KSafeArea); ("preserve_text_align", KPreserveTextAlign);
                                      ("color", KColor); ("bg_color", KBgColor)]
   else [])%string.
(* per section in use: 0 every given value is documented; 1 some value is undocumented but inside a recorded
   trigger; 2 some value is undocumented outside every trigger, or the section is not a JSON object.
   A null outside the colours is not judged here (section_has_null). *)
Definition section_status (sec : string) (cfg : option json) : Z :=
  match section sec cfg with
  | None => 0
  | Some (JObj _ as o) =>
      fold_left Z.max
        (List.map (fun nk => match jget (fst nk) o with
                             | None => 0
                             | Some v => if negb (in_table (snd nk) v) then 0
                                         else if documented (snd nk) v then 0 else if trigger (snd nk) v then 1 else 2
                             end) (keys_of sec)) 0
  | Some _ => 2
  end.
(* a documented value that the code is known to reject (finding 3) sits in the section *)
Definition section_has_rejected (sec : string) (cfg : option json) : bool :=
  match section sec cfg with
  | Some (JObj _ as o) =>
      existsb (fun nk => match jget (fst nk) o with
                         | None => false
                         | Some v => in_table (snd nk) v && documented (snd nk) v && trigger_rejected (snd nk) v
                         end) (keys_of sec)
  | _ => false
  end.
(* an explicit null outside the colours: README says nothing about it, so S constrains neither outcome *)
Definition section_has_null (sec : string) (cfg : option json) : bool :=
  match section sec cfg with
  | Some (JObj _ as o) => existsb (fun nk => match jget (fst nk) o with Some v => negb (in_table (snd nk) v) | None => false end) (keys_of sec)
  | _ => false
  end.
(* every given value of the section is inside the table and outside every trigger *)
Definition section_clean (sec : string) (cfg : option json) : bool :=
  match section sec cfg with
  | Some (JObj _ as o) =>
      forallb (fun nk => match jget (fst nk) o with
                         | None => true
                         | Some v => in_table (snd nk) v && negb (trigger (snd nk) v)
                         end) (keys_of sec)
  | _ => true
  end.
Definition spec_known_filter (n : text) : bool := text_eqb n (T "lcd").
Definition sections_in_use (rt wt : ftype) (filters : list text) : list string :=
  List.app ["general"%string]
    (List.app (match rt with SCC => ["scc_reader"%string] | STL => ["stl_reader"%string] | _ => [] end)
       (List.app (if existsb spec_known_filter filters then ["lcd"%string] else [])
          (match wt with TTML => ["imsc_writer"%string] | SRT => ["srt_writer"%string] | VTT => ["vtt_writer"%string] | _ => [] end))).
Definition reader_type (r : reader) : ftype :=
  match r with RdTtml => TTML | RdScc _ => SCC | RdStl _ => STL | RdSrt => SRT | RdVtt => VTT end.
Definition writer_type (w : writer) : ftype := match w with WrTtml _ => TTML | WrSrt _ => SRT | WrVtt _ => VTT end.
Definition find_type (g : option text) (p : text) : option ftype := find (type_ok g p) all_types.

(* ------------------------------------------------------------------ the plan README prescribes.
   A section that is absent (or null) gives the module no configuration object (its defaults apply); a section object
   gives one, each key carrying the meaning of its documented value or, when the key is missing, its README default
   (keys whose README default is a behaviour of the module — time_format, fps, program_start_tc, font_stack,
   max_row_count, document_lang, the colours — are "not specified").  Any undocumented value, a section that is not an
   object, an unresolvable or unwritable type: no plan (an error). *)
Inductive sec_state := SAbsent | SBad | SObj (o : json).
Definition ssection (name : string) (cfg : option json) : sec_state :=
  match cfg with
  | None | Some JNull => SAbsent
  | Some (JObj _ as j) => match jget name j with
                          | None | Some JNull => SAbsent
                          | Some (JObj _ as o) => SObj o
                          | Some _ => SBad
                          end
  | Some _ => SBad
  end.
Definition sval {A} (o : json) (name : string) (k : key) (mean : json -> A) (dflt : A) : option A :=
  match jget name o with
  | None => Some dflt
  | Some v => if documented k v then Some (mean v) else None
  end.
Definition spec_general (o : json) : option (option Z * bool * option text) :=
  match sval o "log_level" KLogLevel mean_level (Some 20), sval o "progress_bar" KProgressBar mean_bool true,
        sval o "document_lang" KDocumentLang mean_text None with
  | Some a, Some b, Some c => Some (a, b, c)
  | _, _, _ => None
  end.
Definition spec_imsc (o : json) : option imsc_cfg :=
  match sval o "time_format" KTimeFormat mean_tfmt None, sval o "fps" KFps mean_fps None with
  | Some a, Some b => Some (Build_imsc_cfg a b)
  | _, _ => None
  end.
Definition spec_scc (o : json) : option scc_align := sval o "text_align" KSccTextAlign mean_align AlAuto.
Definition spec_stl (o : json) : option stl_cfg :=
  match sval o "disable_fill_line_gap" KFillLineGap mean_bool false, sval o "program_start_tc" KStartTc mean_text None,
        sval o "disable_line_padding" KLinePadding mean_bool false, sval o "font_stack" KFontStack mean_text None,
        sval o "max_row_count" KMaxRowCount mean_mrc None with
  | Some a, Some b, Some c, Some e, Some f => Some (Build_stl_cfg a b c e f)
  | _, _, _, _, _ => None
  end.
Definition spec_srt (o : json) : option bool := sval o "text_formatting" KTextFormatting mean_bool true.
Definition spec_vtt (o : json) : option vtt_cfg :=
  match sval o "line_position" KLinePosition mean_bool false, sval o "text_align" KVttTextAlign mean_bool false,
        sval o "cue_id" KCueId mean_bool true with
  | Some a, Some b, Some c => Some (Build_vtt_cfg a b c)
  | _, _, _ => None
  end.
Definition spec_lcd (o : json) : option lcd_cfg :=
  match sval o "safe_area" KSafeArea mean_int 10, sval o "preserve_text_align" KPreserveTextAlign mean_bool false,
        sval o "color" KColor mean_color None, sval o "bg_color" KBgColor mean_color None with
  | Some a, Some b, Some c, Some e => Some (Build_lcd_cfg a b c e)
  | _, _, _, _ => None
  end.
(* an optional module configuration: Some None = the module gets no configuration object *)
Definition smodule {A} (name : string) (spec : json -> option A) (cfg : option json) : option (option A) :=
  match ssection name cfg with
  | SAbsent => Some None
  | SBad => None
  | SObj o => match spec o with Some c => Some (Some c) | None => None end
  end.
Definition spec_plan (o : options) (cfg : option json) : option plan_t :=
  match cfg with
  | None | Some JNull | Some (JObj _) =>
    match smodule "general" spec_general cfg, find_type (o_itype o) (o_input o), find_type (o_otype o) (o_output o) with
    | Some g, Some rt, Some wt =>
        let rd := match rt with
                  | TTML => Some RdTtml | SRT => Some RdSrt | VTT => Some RdVtt
                  | SCC => option_map RdScc (smodule "scc_reader" spec_scc cfg)
                  | STL => option_map RdStl (smodule "stl_reader" spec_stl cfg)
                  end in
        let fs := if existsb spec_known_filter (o_filters o)
                  then match smodule "lcd" spec_lcd cfg with
                       | Some c => let c := match c with Some c => c | None => Build_lcd_cfg 10 false None None end in
                                   Some (List.map (fun _ => FLcd c) (List.filter spec_known_filter (o_filters o)))
                       | None => None
                       end
                  else Some [] in
        let wr := match wt with
                  | TTML => option_map WrTtml (smodule "imsc_writer" spec_imsc cfg)
                  | SRT => option_map WrSrt (smodule "srt_writer" spec_srt cfg)
                  | VTT => option_map WrVtt (smodule "vtt_writer" spec_vtt cfg)
                  | SCC | STL => None
                  end in
        match rd, fs, wr with
        | Some rd, Some fs, Some wr =>
            Some (Build_plan_t rd (match g with Some (_, _, l) => l | None => None end) fs wr
                               (match g with Some (l, _, _) => l | None => None end)
                               (match g with Some (_, b, _) => Some b | None => None end))
        | _, _, _ => None
        end
    | _, _, _ => None
    end
  | Some _ => None
  end.
(* the sections a command line consults *)
Definition sections_consulted (o : options) : list string :=
  match find_type (o_itype o) (o_input o), find_type (o_otype o) (o_output o) with
  | Some r, Some w => sections_in_use r w (o_filters o)
  | _, _ => ["general"%string]
  end.
Definition clean (o : options) (cfg : option json) : bool := forallb (fun s => section_clean s cfg) (sections_consulted o).

(* ------------------------------------------------------------------ the library pipeline: the selected reader, the
   document language override, the named document filters in order, the selected writer *)
Section Pipeline.
  Variables doc bytes : Type.
  Variable read_doc : reader -> text -> res doc.
  Variable set_lang : text -> doc -> doc.
  Variable run_filter : filter_app -> doc -> res doc.
  Variable write_doc : writer -> doc -> res bytes.
  Fixpoint filters_pipeline (fs : list filter_app) (d : doc) : res doc :=
    match fs with [] => Ok d | f :: r => match run_filter f d with Ok d' => filters_pipeline r d' | Raise e => Raise e end end.
  Definition lib_pipeline (p : plan_t) (input : text) : res bytes :=
    match read_doc (p_reader p) input with
    | Raise e => Raise e
    | Ok d => let d := match p_lang p with Some l => set_lang l d | None => d end in
              match filters_pipeline (p_filters p) d with
              | Raise e => Raise e
              | Ok d => write_doc (p_writer p) d
              end
    end.
  (* the effects of a run that follows plan p to the end, in order *)
  Definition plan_events (p : plan_t) (input output : text) : list event :=
    (match p_progress p with Some b => [EvProgress b] | None => [] end) ++
    (match p_level p with Some z => [EvLevel z] | None => [] end) ++
    [EvRead (p_reader p) input] ++
    (match p_lang p with Some l => [EvLang l] | None => [] end) ++
    List.map EvFilter (p_filters p) ++ [EvWrite (p_writer p); EvOutput output].
End Pipeline.

(* ------------------------------------------------------------------ a whole run, judged on what the code was
   observed to do (used by the generated case files; the theorems of Properties/C19.v are about M) *)
(* the shape of the log: [progress] [level] read [lang] filter* write output — an error run stops somewhere before
   `output`; the document language is set at most once, after reading and before the first filter *)
Fixpoint shape_from (st : Z) (ev : list event) : Z :=
  match ev with
  | [] => st
  | e :: r =>
      let next := match e with
                  | EvProgress _ => if st <? 1 then 1 else -1
                  | EvLevel _ => if st <? 2 then 2 else -1
                  | EvRead _ _ => if st <? 3 then 3 else -1
                  | EvLang _ => if st =? 3 then 4 else -1
                  | EvFilter _ => if (3 <=? st) && (st <=? 5) then 5 else -1
                  | EvWrite _ => if (3 <=? st) && (st <=? 5) then 6 else -1
                  | EvOutput _ => if st =? 6 then 7 else -1
                  end in
      if next <? 0 then -1 else shape_from next r
  end.
Definition no_output_event (ev : list event) : bool := forallb (fun e => match e with EvOutput _ => false | _ => true end) ev.
(* the plan a complete log shows *)
Definition plan_of_events (ev : list event) : option plan_t :=
  let rd := fold_left (fun acc e => match e with EvRead r _ => Some r | _ => acc end) ev None in
  let wr := fold_left (fun acc e => match e with EvWrite w => Some w | _ => acc end) ev None in
  match rd, wr with
  | Some rd, Some wr =>
      Some (Build_plan_t rd (fold_left (fun acc e => match e with EvLang l => Some l | _ => acc end) ev None)
              (flat_map (fun e => match e with EvFilter f => [f] | _ => [] end) ev) wr
              (fold_left (fun acc e => match e with EvLevel z => Some z | _ => acc end) ev None)
              (fold_left (fun acc e => match e with EvProgress b => Some b | _ => acc end) ev None))
  | _, _ => None
  end.

(* documented values whose meaning README fixes: the plan must carry them (used where a recorded trigger keeps
   spec_plan from being applicable) *)
Definition want_bool (sec k : string) (cfg : option json) (dflt : bool) (got : bool) : bool :=
  match section sec cfg with
  | Some o => match jget k o with
              | Some (JBool b) => Bool.eqb got b
              | None => Bool.eqb got dflt
              | _ => true
              end
  | None => Bool.eqb got dflt
  end.
Definition honours (cfg : option json) (p : plan_t) : bool :=
  (match p_writer p with
   | WrSrt c => want_bool "srt_writer" "text_formatting" cfg true (match c with Some b => b | None => true end)
   | WrVtt c => let c := match c with Some c => c | None => Build_vtt_cfg false false true end in
                want_bool "vtt_writer" "line_position" cfg false (vt_line_position c) &&
                want_bool "vtt_writer" "text_align" cfg false (vt_text_align c) &&
                want_bool "vtt_writer" "cue_id" cfg true (vt_cue_id c)
   | WrTtml _ => true
   end) &&
  (match p_reader p with
   | RdStl c => let c := match c with Some c => c | None => Build_stl_cfg false None false None None end in
                want_bool "stl_reader" "disable_fill_line_gap" cfg false (st_fill_gap c) &&
                want_bool "stl_reader" "disable_line_padding" cfg false (st_line_padding c)
   | _ => true
   end) &&
  forallb (fun fa => match fa with FLcd c =>
             want_bool "lcd" "preserve_text_align" cfg false (lc_preserve_text_align c) &&
             match section "lcd" cfg with
             | Some o => match jget "safe_area" o with
                         | Some (JInt z) => lc_safe_area c =? z
                         | None => lc_safe_area c =? 10
                         | _ => true
                         end
             | None => lc_safe_area c =? 10
             end end) (p_filters p) &&
  (* document_lang overrides the document language *)
  (match section "general" cfg with
   | Some o => match jget "document_lang" o with
               | Some (JStr s) => match p_lang p with Some l => text_eqb l s | None => false end
               | None | Some JNull => match p_lang p with None => true | Some _ => false end
               | _ => true
               end
   | None => match p_lang p with None => true | Some _ => false end
   end).

(* which recorded findings a section's values touch: bit 2 lenient, bit 4 rejected *)
Definition section_mask (sec : string) (cfg : option json) : Z :=
  match section sec cfg with
  | Some (JObj _ as o) =>
      fold_left Z.lor
        (List.map (fun nk => match jget (fst nk) o with
                             | None => 0
                             | Some v => let k := snd nk in
                                         if negb (in_table k v) then 0
                                         else if documented k v then (if trigger_rejected k v then 4 else 0)
                                         else if trigger_lenient k v then 2 else 0
                             end) (keys_of sec)) 0
  | _ => 0
  end.
Definition options_mask (o : options) (cfg : option json) : Z :=
  fold_left Z.lor (List.map (fun s => section_mask s cfg) (sections_consulted o)) 0.

(* the environment of a run as the case files give it: what json.loads made of each --config string (None: it raised)
   and what reading each --config_file path gave *)
Fixpoint env_get {A} (k : text) (l : list (text * A)) : option A :=
  match l with [] => None | (k', v) :: r => if text_eqb k k' then Some v else env_get k r end.
Definition env_inline (jenv : list (text * option json)) (c : option text) : inline_src :=
  match c with
  | None => IAbsent
  | Some t => match env_get t jenv with Some (Some j) => IGiven j | _ => IMalformed end
  end.
Definition env_file (fenv : list (text * file_src)) (c : option text) : file_src :=
  match c with None => FAbsent | Some p => match env_get p fenv with Some f => f | None => FUnreadable end end.

(* consistency of what was seen, whatever the command line: help = status 0, nothing logged, nothing written;
   error = non-zero status, no output file, no output event; done = status 0 ... judged below *)
Definition quiet_end (ev : list event) (fin : final unit) (rc : Z) (out_exists : bool) : bool :=
  match fin with
  | FHelp => (rc =? 0) && negb out_exists && match ev with [] => true | _ => false end
  | FError _ => negb (rc =? 0) && negb out_exists && no_output_event ev && negb (shape_from 0 ev <? 0)
  | FDone _ _ => false
  end.
(* strict = true: no recorded finding is excused.
   ev, fin: the log and the end of the run observed with the readers, filters and writers replaced by recorders;
   rc, out_exists: exit status of the real process and whether the output file exists afterwards;
   cmp: 1 = the library pipeline run on the observed plan gave exactly the bytes of the output file;
        0 = the library pipeline itself raised (then so must the command, leaving no file); 2 = bytes differ / file missing *)
Definition spec_case (strict : bool) (toks : list text) (jenv : list (text * option json)) (fenv : list (text * file_src))
                     (ev : list event) (fin : final unit) (rc : Z) (out_exists : bool) (cmp : Z) : bool :=
  match toks with
  | [] => match fin with FHelp => quiet_end ev fin rc out_exists | _ => false end
  | sub :: rest =>
      if negb (text_eqb sub (T "convert"))
      then match fin with FError _ => quiet_end ev fin rc out_exists | _ => false end           (* unknown sub-command *)
      else
        match spec_items rest with
        | None =>
            (* outside the grammar (-h, unknown or incomplete options, stray words): help or an error, nothing written *)
            match fin with FDone _ _ => false | _ => quiet_end ev fin rc out_exists end
        | Some items =>
            match spec_options items with
            | None => match fin with FError _ => quiet_end ev fin rc out_exists | _ => false end    (* -i or -o missing *)
            | Some (o, c, cf) =>
                let i := env_inline jenv c in let f := env_file fenv cf in
                let cfg := effective i f in
                let rt := find_type (o_itype o) (o_input o) in
                let wt := find_type (o_otype o) (o_output o) in
                match fin with
                | FHelp => false
                | FError _ =>
                    (* an error ends with a non-zero status and no output file, and must have a reason *)
                    quiet_end ev fin rc out_exists &&
                    (negb (sources_ok i f) ||
                     match cfg with Some (JObj _) | None | Some JNull => false | Some _ => true end ||
                     negb (section_status "general" cfg =? 0) || section_has_null "general" cfg ||
                     match rt, wt with
                     | Some r, Some w =>
                         negb (writable w) ||
                         existsb (fun s => negb (section_status s cfg =? 0) || section_has_null s cfg || (negb strict && section_has_rejected s cfg))
                                 (sections_in_use r w (o_filters o))
                     | _, _ => true
                     end)
                | FDone path _ =>
                    (if cmp =? 1 then (rc =? 0) && out_exists else if cmp =? 0 then negb (rc =? 0) && negb out_exists else false) &&
                    text_eqb path (o_output o) && (shape_from 0 ev =? 7) &&
                    sources_ok i f &&
                    match plan_of_events ev with
                    | None => false
                    | Some p =>
                        type_ok (o_itype o) (o_input o) (reader_type (p_reader p)) &&
                        type_ok (o_otype o) (o_output o) (writer_type (p_writer p)) && writable (writer_type (p_writer p)) &&
                        (* filters: the known names of the command line, in order *)
                        (Z.of_nat (length (p_filters p)) =? Z.of_nat (length (List.filter spec_known_filter (o_filters o)))) &&
                        (* every value of a section in use is documented, or covered by a recorded finding *)
                        forallb (fun s => if strict then section_status s cfg =? 0 else negb (section_status s cfg =? 2))
                                (sections_in_use (reader_type (p_reader p)) (writer_type (p_writer p)) (o_filters o)) &&
                        honours cfg p
                    end
                end
            end
        end
  end.
