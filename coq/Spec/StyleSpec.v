(* S for C03: TTML2/IMSC style resolution, written property by property (not pass by pass):
   specified value  = value of the last active set step, else the specified attribute value;
   cascade          = specified, else (inheritable property, element is not a region) the parent's computed value
                      — text decoration merged per component, ruby text (rt, or rtc) at half the parent's font size —
                      else the document's initial value, else the TTML default; on a region a missing tts:direction
                      follows tts:writingMode (lrtb -> ltr, rltb -> rtl);
   computed         = relative lengths resolved to root-container-relative ones:
                      font size: % and em of the parent's computed font size (1c for a region), c and px of the cell /
                      pixel height; extent/origin: % of the root container, c/px per axis, em of the own font size;
                      line height, line padding, outline thickness, shadow offsets, ruby reserve: %, em of the own
                      font size; padding: % of the region extent along the axis the writing mode (of the region) gives;
                      position: % of (100 - extent) from the left/top edge, (100 - extent) - offset from the
                      right/bottom edge, and it overrides origin; emphasis auto: filled sesame in vertical writing
                      modes OF THE REGION, filled circle otherwise; missing emphasis/outline/shadow colours = computed colour.
   The element is given as its chain of ancestors: itself first, then its parent, ..., the region last. *)
From TT Require Import Model.Doc Gen.StyleTables Spec.IsdSpec.

Definition link := (attrs * interval)%type.

Fixpoint last_step (t : Q) (iv : interval) (p : Z) (l : list anim) (acc : option value) : option value :=
  match l with
  | [] => acc
  | s :: l' => if (a_prop s =? p) && is_active t (resolve iv (a_begin s) (a_end s)) then last_step t iv p l' (Some (a_val s))
               else last_step t iv p l' acc
  end.
Definition specified (t : Q) (x : link) (p : Z) : option value :=
  match last_step t (snd x) p (e_anims (fst x)) None with
  | Some v => Some v
  | None => sget (e_styles (fst x)) p
  end.

Definition inheritable (p : Z) : bool := existsb (Z.eqb p) inherited_props.
Definition default_of (d : doc) (p : Z) : option value :=
  match sget (d_initials d) p with Some v => Some v | None => sget initial_values p end.

Definition slen (v : option value) : option len := match v with Some (VLen l) => Some l | _ => None end.
Definition cell_h (d : doc) := mkLen (Qdiv 100 (inject_Z (d_rows d))) Urh.
Definition cell_w (d : doc) := mkLen (Qdiv 100 (inject_Z (d_cols d))) Urw.
Definition pixel_h (d : doc) := mkLen (Qdiv 100 (inject_Z (d_pxh d))) Urh.
Definition pixel_w (d : doc) := mkLen (Qdiv 100 (inject_Z (d_pxw d))) Urw.

(* a relative length against its references; None when the reference needed does not exist *)
Definition rel (l : len) (pct em c px : option len) : option len :=
  match lu l with
  | Upct => match pct with Some r => Some (mkLen (Qdiv (Qmult (lv l) (lv r)) 100) (lu r)) | None => None end
  | Uem => match em with Some r => Some (mkLen (Qmult (lv l) (lv r)) (lu r)) | None => None end
  | Uc => match c with Some r => Some (mkLen (Qmult (lv l) (lv r)) (lu r)) | None => None end
  | Upx => match px with Some r => Some (mkLen (Qmult (lv l) (lv r)) (lu r)) | None => None end
  | _ => Some l
  end.

(* was the value specified on the element itself (it then needs computing) or inherited (already computed)? *)
Definition is_region (x : link) : bool := kind_eqb (e_kind (fst x)) KRegion.

(* computed font size of the element at the head of the chain *)
Fixpoint font_size (d : doc) (t : Q) (chain : list link) : option len :=
  match chain with
  | [] => None
  | x :: up =>
      let parent := font_size d t up in
      let ref := match up with [] => Some (cell_h d) | _ => parent end in
      match slen (specified t x p_FontSize) with
      | Some l => rel l ref ref (Some (cell_h d)) (Some (pixel_h d))
      | None =>
          match up with
          | y :: _ =>
              (* inherited: ruby text defaults to half the parent's size (rt directly under ruby, and rtc) *)
              let halve := match e_kind (fst x) with KRtc => true | KRt => negb (kind_eqb (e_kind (fst y)) KRtc) | _ => false end in
              match parent with Some pl => Some (if halve then mkLen (Qdiv (lv pl) 2) (lu pl) else pl) | None => None end
          | [] => match slen (default_of d p_FontSize) with
                  | Some l => rel l (Some (cell_h d)) (Some (cell_h d)) (Some (cell_h d)) (Some (pixel_h d))
                  | None => None
                  end
          end
      end
  end.

(* a property whose computed value is its cascaded value (no length resolution) *)
Fixpoint plain (d : doc) (t : Q) (p : Z) (chain : list link) : option value :=
  match chain with
  | [] => None
  | x :: up =>
      match specified t x p with
      | Some v => Some v
      | None =>
          if inheritable p && negb (is_region x) && match up with [] => false | _ => true end then plain d t p up
          else default_of d p
      end
  end.

Definition merge3 (u pu : Z) : Z := if u =? -1 then pu else u.
Fixpoint text_decoration (d : doc) (t : Q) (chain : list link) : option value :=
  match chain with
  | [] => None
  | x :: up =>
      let own := specified t x p_TextDecoration in
      match up with
      | [] => match own with Some v => Some v | None => default_of d p_TextDecoration end
      | _ =>
          match text_decoration d t up, own with
          | Some (VTextDec pu pl po), Some (VTextDec u l o) => Some (VTextDec (merge3 u pu) (merge3 l pl) (merge3 o po))
          | Some pv, None => Some pv
          | _, _ => None
          end
      end
  end.

(* the values of tts:textDecoration in effect have the type of the property (model.py validates values in set_style,
   add_animation_step and put_initial_value, so every constructible document is typed) *)
Definition is_td_o (o : option value) : bool := match o with Some (VTextDec _ _ _) => true | Some _ => false | None => true end.
Definition td_typed (d : doc) (t : Q) (chain : list link) : bool :=
  is_td_o (sget (d_initials d) p_TextDecoration) && forallb (fun x => is_td_o (specified t x p_TextDecoration)) chain.

Definition region_link (chain : list link) : option link := match rev chain with r :: _ => Some r | [] => None end.
Definition vertical (v : option value) : bool :=
  match v with Some (VEnum w) => (w =? e_WritingModeType_tblr) || (w =? e_WritingModeType_tbrl) | _ => false end.

(* direction: on a region, a missing tts:direction follows the specified tts:writingMode; inherited below *)
Fixpoint direction (d : doc) (t : Q) (chain : list link) : option value :=
  match chain with
  | [] => None
  | x :: up =>
      match up with
      | [] =>
          match sget (e_styles (fst x)) p_Direction with
          | Some _ => plain d t p_Direction chain
          | None =>
              match sget (e_styles (fst x)) p_WritingMode with
              | Some (VEnum w) => if w =? e_WritingModeType_lrtb then Some (VEnum e_DirectionType_ltr)
                                  else if w =? e_WritingModeType_rltb then Some (VEnum e_DirectionType_rtl)
                                  else plain d t p_Direction chain
              | _ => plain d t p_Direction chain
              end
          end
      | _ =>
          match specified t x p_Direction with
          | Some v => Some v
          | None => if is_region x then default_of d p_Direction else direction d t up
          end
      end
  end.

(* tts:writingMode applies to regions and is not inherited: the writing mode that governs an element is the
   computed writing mode of its region (the last link of the chain) *)
Definition writing_mode (d : doc) (t : Q) (chain : list link) : option value :=
  match region_link chain with Some r => plain d t p_WritingMode [r] | None => None end.

Definition ocolor (c : option Z) (d : doc) (t : Q) (chain : list link) : option Z :=
  match c with Some x => Some x | None => match plain d t p_Color chain with Some (VColor k) => Some k | _ => None end end.

(* an inheritable length-bearing property: Some (v, true) = specified here or defaulted (needs computing),
   Some (v, false) = the parent's computed value *)
Definition own_or_default (d : doc) (t : Q) (p : Z) (x : link) : option value :=
  match specified t x p with Some v => Some v | None => default_of d p end.

Definition fs_rel (d : doc) (t : Q) (chain : list link) (l : len) : option len :=
  rel l (font_size d t chain) (font_size d t chain) (Some (cell_h d)) (Some (pixel_h d)).

Definition compute_font_relative (d : doc) (t : Q) (p : Z) (chain : list link) (v : value) : option value :=
  match v with
  | VSpecial s => Some (VSpecial s)
  | VLen l => match fs_rel d t chain l with Some l' => Some (VLen l') | None => None end
  | VReserve pos (Some l) => match fs_rel d t chain l with Some l' => Some (VReserve pos (Some l')) | None => None end
  | VReserve pos None => match font_size d t chain with Some f => Some (VReserve pos (Some (mkLen (Qdiv (lv f) 2) (lu f)))) | None => None end
  | VOutline c th => match fs_rel d t chain th with Some l' => Some (VOutline (ocolor c d t chain) l') | None => None end
  | VShadow ss =>
      let f := fix f (l : list (len * len * option len * option Z)) : option (list (len * len * option len * option Z)) :=
                 match l with
                 | [] => Some []
                 | (x, y, b, c) :: l' =>
                     match fs_rel d t chain x, fs_rel d t chain y, f l' with
                     | Some x', Some y', Some rest =>
                         match b with
                         | None => Some ((x', y', None, ocolor c d t chain) :: rest)
                         | Some bl => match fs_rel d t chain bl with Some b' => Some ((x', y', Some b', ocolor c d t chain) :: rest) | None => None end
                         end
                     | _, _, _ => None
                     end
                 end in
      match f ss with Some ss' => Some (VShadow ss') | None => None end
  | VEmph style c pos =>
      let wm := writing_mode d t chain in
      let style' := if style =? e_TextEmphasisType_Style_auto
                    then (if vertical wm then e_TextEmphasisType_Style_filled_sesame else e_TextEmphasisType_Style_filled_circle)
                    else style in
      Some (VEmph style' (ocolor c d t chain) pos)
  | other => Some other
  end.

(* line height, line padding, ruby reserve, text outline, text shadow, text emphasis (all inheritable) *)
Fixpoint font_relative_prop (d : doc) (t : Q) (p : Z) (chain : list link) : option value :=
  match chain with
  | [] => None
  | x :: up =>
      match specified t x p with
      | Some v => compute_font_relative d t p chain v
      | None =>
          if negb (is_region x) && match up with [] => false | _ => true end then font_relative_prop d t p up
          else match default_of d p with Some v => compute_font_relative d t p chain v | None => None end
      end
  end.

(* region geometry (not inheritable) *)
Definition extent (d : doc) (t : Q) (chain : list link) : option (len * len) :=
  match chain with
  | x :: _ =>
      match own_or_default d t p_Extent x with
      | Some (VExtent h w) =>
          match rel h (Some (mkLen 100 Urh)) (font_size d t chain) (Some (cell_h d)) (Some (pixel_h d)),
                rel w (Some (mkLen 100 Urw)) (font_size d t chain) (Some (cell_w d)) (Some (pixel_w d)) with
          | Some h', Some w' => Some (h', w')
          | _, _ => None
          end
      | _ => None
      end
  | [] => None
  end.
Definition origin (d : doc) (t : Q) (chain : list link) : option (len * len) :=   (* x, y *)
  match chain with
  | x :: _ =>
      (* tts:position applies when it is specified (on the region or as the document's initial value); otherwise tts:origin does *)
      match (match specified t x p_Position with Some v => Some v | None => sget (d_initials d) p_Position end) with
      | Some (VPos ho he vo ve) =>
          match extent d t chain with
          | Some (eh, ew) =>
              match rel vo (Some (mkLen (Qminus 100 (lv eh)) Urh)) None (Some (cell_h d)) (Some (pixel_h d)),
                    rel ho (Some (mkLen (Qminus 100 (lv ew)) Urw)) None (Some (cell_w d)) (Some (pixel_w d)) with
              | Some v1, Some h1 =>
                  let v2 := if ve =? e_PositionType_VEdge_bottom then mkLen (Qminus (Qminus 100 (lv eh)) (lv v1)) (lu v1) else v1 in
                  let h2 := if he =? e_PositionType_HEdge_right then mkLen (Qminus (Qminus 100 (lv ew)) (lv h1)) (lu h1) else h1 in
                  Some (h2, v2)
              | _, _ => None
              end
          | None => None
          end
      | _ =>
          match own_or_default d t p_Origin x with
          | Some (VCoord ox oy) =>
              match rel ox (Some (mkLen 100 Urw)) None (Some (cell_w d)) (Some (pixel_w d)),
                    rel oy (Some (mkLen 100 Urh)) None (Some (cell_h d)) (Some (pixel_h d)) with
              | Some x', Some y' => Some (x', y')
              | _, _ => None
              end
          | _ => None
          end
      end
  | [] => None
  end.
Definition padding (d : doc) (t : Q) (chain : list link) : option value :=
  match chain with
  | x :: _ =>
      match own_or_default d t p_Padding x, extent d t chain with
      | Some (VPad b e a s), Some (eh, ew) =>
          let vert := vertical (writing_mode d t chain) in
          let fs := font_size d t chain in
          let block := if vert then (ew, cell_w d, pixel_w d) else (eh, cell_h d, pixel_h d) in
          let inline := if vert then (eh, cell_h d, pixel_h d) else (ew, cell_w d, pixel_w d) in
          let r (l : len) (ax : len * len * len) := rel l (Some (fst (fst ax))) fs (Some (snd (fst ax))) (Some (snd ax)) in
          match r b block, r e inline, r a block, r s inline with
          | Some b', Some e', Some a', Some s' => Some (VPad b' e' a' s')
          | _, _, _, _ => None
          end
      | _, _ => None
      end
  | [] => None
  end.

(* disparity (not inheritable): % of the root container width, c/px of the cell / pixel width, em of the own font size *)
Definition disparity (d : doc) (t : Q) (chain : list link) : option value :=
  match chain with
  | x :: _ =>
      match own_or_default d t p_Disparity x with
      | Some (VLen l) =>
          match rel l (Some (mkLen 100 Urw)) (font_size d t chain) (Some (cell_w d)) (Some (pixel_w d)) with
          | Some l' => Some (VLen l')
          | None => None
          end
      | _ => None
      end
  | [] => None
  end.

(* the computed value of property p for the element at the head of the chain *)
Definition computed_spec (d : doc) (t : Q) (chain : list link) (p : Z) : option value :=
  if p =? p_FontSize then match font_size d t chain with Some l => Some (VLen l) | None => None end
  else if p =? p_TextDecoration then text_decoration d t chain
  else if p =? p_Direction then direction d t chain
  else if (p =? p_LineHeight) || (p =? p_LinePadding) || (p =? p_RubyReserve) || (p =? p_TextOutline) || (p =? p_TextShadow) || (p =? p_TextEmphasis)
       then font_relative_prop d t p chain
  else if p =? p_Extent then match extent d t chain with Some (h, w) => Some (VExtent h w) | None => None end
  else if p =? p_Origin then match origin d t chain with Some (x, y) => Some (VCoord x y) | None => None end
  else if p =? p_Position then match origin d t chain with Some (x, y) => Some (VPos x e_PositionType_HEdge_left y e_PositionType_VEdge_top) | None => None end
  else if p =? p_Padding then padding d t chain
  else if p =? p_WritingMode then writing_mode d t chain
  else if p =? p_Disparity then disparity d t chain
  else plain d t p chain.

(* ---- the statement about whole snapshots --------------------------------------------------------------------------------
   The ancestor chains of a document: for a region r, the chain [r] and, for every element of the body, the element,
   its ancestors and r, each with its interval (begin/end relative to the parent; the body is timed against the root).
   Every element of a snapshot other than br and text nodes must carry, for every property applicable to its kind, the
   computed value of the source element with its kind and xml:id along such a chain. *)
Definition region_link_of (r : elem) : link := (eattrs r, resolve root_interval (e_begin (eattrs r)) (e_end (eattrs r))).
Fixpoint chains_of (piv : interval) (acc : list link) (e : elem) : list (list link) :=
  match e with
  | Elem a cs =>
      let iv := resolve piv (e_begin a) (e_end a) in
      let acc' := (a, iv) :: acc in
      acc' :: (fix go (l : list elem) : list (list link) := match l with [] => [] | c :: l' => chains_of iv acc' c ++ go l' end) cs
  end.
Definition the_default_region : elem := Elem (mkAttrs KRegion (Some default_region_id) None None None [] [] false [] []) [].
Definition source_regions (d : doc) : list elem := match d_regions d with [] => [the_default_region] | l => l end.
Definition doc_chains (d : doc) (r : elem) : list (list link) :=
  [region_link_of r] :: match d_body d with Some b => chains_of root_interval [region_link_of r] b | None => [] end.

(* content model facts: regions are regions, the body contains none, br and text nodes have no children *)
Fixpoint content_wf (e : elem) : bool :=
  match e with
  | Elem a cs =>
      negb (kind_eqb (e_kind a) KRegion) &&
      match e_kind a with KBr | KText => match cs with [] => true | _ => false end | _ => true end &&
      (fix go (l : list elem) : bool := match l with [] => true | c :: l' => content_wf c && go l' end) cs
  end.
Definition styles_wf (d : doc) : bool :=
  forallb (fun r => kind_eqb (e_kind (eattrs r)) KRegion) (d_regions d) && match d_body d with Some b => content_wf b | None => true end.
Definition doc_td_typed (d : doc) (t : Q) : Prop :=
  forall r chain, In r (source_regions d) -> In chain (doc_chains d r) -> td_typed d t chain = true.

Definition applicable_props (k : kind) : list Z :=
  match assoc_z applicable_table (kind_num k) with Some l => l | None => [] end.
Definition elem_resolved (d : doc) (t : Q) (a' : attrs) : Prop :=
  match e_kind a' with
  | KBr | KText => True
  | _ => exists r x up, In r (source_regions d) /\ In (x :: up) (doc_chains d r) /\
                        e_kind (fst x) = e_kind a' /\ e_id (fst x) = e_id a' /\
                        forall p, In p (applicable_props (e_kind a')) -> sget (e_styles a') p = computed_spec d t (x :: up) p
  end.
