(* S for C12: SMPTE ST 12-1 time-address counting, written independently of the code.
   A label is valid when its fields are in range and, for drop-frame counting, it is not one of
   the skipped addresses: frame numbers 0 .. D-1 of second 0 of every minute not divisible by 10
   (D = 2 at 30000/1001, 4 at 60000/1001).  succ is the counting sequence. *)
From TT Require Import Base.Prelude.

Definition label := (Z * Z * Z * Z)%type.

Section Counting.
  Variable F : Z.      (* nominal (integer) frames per second *)
  Variable D : Z.      (* dropped frame numbers per minute; 0 = non-drop counting *)

  Definition valid (l : label) : Prop :=
    let '(h, m, s, f) := l in
    0 <= h /\ 0 <= m < 60 /\ 0 <= s < 60 /\ 0 <= f < F /\ (s = 0 -> m mod 10 <> 0 -> D <= f).

  Definition succ (l : label) : label :=
    let '(h, m, s, f) := l in
    if f + 1 <? F then (h, m, s, f + 1) else
    if s + 1 <? 60 then (h, m, s + 1, 0) else
    if m + 1 <? 60 then (h, m + 1, 0, if (m + 1) mod 10 =? 0 then 0 else D) else
    (h + 1, 0, 0, 0).

  Definition label_spec (n : nat) : label := iter_n n succ (0, 0, 0, 0).

  (* lexicographic order on labels = order of display *)
  Definition lt_label (a b : label) : Prop :=
    let '(h, m, s, f) := a in let '(h', m', s', f') := b in
    h < h' \/ (h = h' /\ (m < m' \/ (m = m' /\ (s < s' \/ (s = s' /\ f < f'))))).
End Counting.
