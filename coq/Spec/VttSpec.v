(* S for C11: what the property statement and WebVTT (W3C, sections 4 "syntax", 6 "parsing", 7 "rendering")
   require of a reader, written independently of Model/Vtt*.v:

   * the WebVTT file / cue-text GRAMMAR as data (vfile, cue, cnode) and its PRINTER (print_file …);
   * the meaning of a cue's text as a list of styled, timed RUNS (runs_cue): which characters are shown,
     with which of bold / italic / underline / class colours / language / ruby role, from which time on;
     this includes what the cue text parsing rules (6.4) say about end tags that close nothing and about elements
     whose end tag is missing (CEnd, COpen, CRubyOmit and the side condition cue_text_valid);
   * the meaning of a timestamp (ts_ms) and of cue settings as far as the property states it (region_ok):
     region inside the root container, non-negative extent, writing mode, text alignment, display
     alignment and - for horizontal cues - the edge of the region the `line` setting fixes.

   Nothing here mentions tokens, spans, parser states or Python. *)
From Coq Require Import QArith Qminmax.
From TT Require Import Base.Prelude.
Local Open Scope Z_scope.

(* ================================================================ timestamps *)
(* hours are optional and have at least two digits; minutes, seconds two digits; milliseconds three *)
Record tstamp := mkTs { ts_hours : option (list Z); ts_min : Z; ts_sec : Z; ts_frac : Z }.

Definition digit_ok (d : Z) : Prop := 0 <= d <= 9.
Definition wf_ts (t : tstamp) : Prop :=
  match ts_hours t with Some hd => (2 <= length hd)%nat /\ Forall digit_ok hd | None => True end /\
  0 <= ts_min t < 60 /\ 0 <= ts_sec t < 60 /\ 0 <= ts_frac t < 1000.

(* value of a digit string, most significant first *)
Fixpoint digits_value (ds : list Z) : Z :=
  match ds with [] => 0 | d :: r => d * 10 ^ Z.of_nat (length r) + digits_value r end.
Definition ts_ms (t : tstamp) : Z :=
  ((match ts_hours t with Some hd => digits_value hd | None => 0 end * 60 + ts_min t) * 60 + ts_sec t) * 1000 + ts_frac t.

Definition pad2 (n : Z) : text := [48 + n / 10; 48 + n mod 10].
Definition pad3 (n : Z) : text := [48 + n / 100; 48 + (n / 10) mod 10; 48 + n mod 10].
Definition print_ts (t : tstamp) : text :=
  match ts_hours t with Some hd => map (fun d => 48 + d) hd ++ [58] | None => [] end ++
  pad2 (ts_min t) ++ [58] ++ pad2 (ts_sec t) ++ [46] ++ pad3 (ts_frac t).

(* ================================================================ cue text *)
Inductive cref := RefNamed (name : text) | RefDec (n : Z) | RefHex (n : Z).
Inductive ctag := TgB | TgI | TgU | TgC (classes : list text) | TgLang (l : text) | TgV (name : text).
Inductive cnode :=
| CText (t : text)                                   (* literal characters; LF is a line break *)
| CRef (r : cref)                                    (* character reference *)
| CTs (t : tstamp)                                   (* <hh:mm:ss.ttt> *)
| CTag (k : ctag) (cs : list cnode)                  (* <b>…</b> etc. *)
| CRuby (segs : list (list cnode * list cnode))      (* <ruby> base <rt> text </rt> … </ruby> *)
(* WebVTT 6.4, cue text parsing rules, end tag token: "if the tag name is that of the current node (c / i / b / u / ruby /
   rt / v / lang for a class / italic / bold / underline / ruby / ruby text / voice / language object), let current be
   its parent; otherwise, if the tag name is ruby and current is a ruby text object, let current be the parent of its
   parent; otherwise ignore the token."  At the end of the cue text every element that is still open ends.  Hence: *)
| CEnd (name : text)                                 (* </name> that does not name the innermost open element: ignored *)
| COpen (k : ctag) (cs : list cnode)                 (* <b>… whose end tag is missing: it lasts to the end of the cue text *)
| CRubyOmit (segs : list (list cnode * list cnode)). (* a ruby whose last </rt> is omitted: </ruby> ends the ruby text too *)

(* ---- printer *)
Definition escape_char (c : Z) : text :=
  if c =? 38 then [38;97;109;112;59]            (* &amp; *)
  else if c =? 60 then [38;108;116;59]          (* &lt; *)
  else if c =? 62 then [38;103;116;59]          (* &gt; *)
  else [c].
Definition escape (t : text) : text := flat_map escape_char t.

Fixpoint print_nat_digits (fuel : nat) (n : Z) (acc : text) : text :=
  match fuel with
  | O => acc
  | S f => if n <? 10 then (48 + n) :: acc else print_nat_digits f (n / 10) ((48 + n mod 10) :: acc)
  end.
Definition print_dec (n : Z) : text := print_nat_digits 40 n [].
Definition hex_digit (d : Z) : Z := if d <? 10 then 48 + d else 87 + d.
Fixpoint print_hex_digits (fuel : nat) (n : Z) (acc : text) : text :=
  match fuel with
  | O => acc
  | S f => if n <? 16 then hex_digit n :: acc else print_hex_digits f (n / 16) (hex_digit (n mod 16) :: acc)
  end.
Definition print_cref (r : cref) : text :=
  match r with
  | RefNamed n => [38] ++ n ++ [59]
  | RefDec n => [38;35] ++ print_dec n ++ [59]
  | RefHex n => [38;35;120] ++ print_hex_digits 40 n [] ++ [59]
  end.

Definition tag_name (k : ctag) : text :=
  match k with
  | TgB => [98] | TgI => [105] | TgU => [117] | TgC _ => [99]
  | TgLang _ => [108;97;110;103] | TgV _ => [118]
  end.
Definition print_open (k : ctag) : text :=
  [60] ++ tag_name k ++
  match k with
  | TgC cls => flat_map (fun c => 46 :: c) cls
  | TgLang l => 32 :: escape l
  | TgV n => 32 :: escape n
  | _ => []
  end ++ [62].
Definition print_close (k : ctag) : text := [60;47] ++ tag_name k ++ [62].

(* base <rt> text </rt> … base <rt> text   (the last </rt> omitted); pn prints a list of nodes *)
Definition print_segs_omit (pn : list cnode -> text) : list (list cnode * list cnode) -> text :=
  fix go (sg : list (list cnode * list cnode)) : text :=
    match sg with
    | [] => []
    | seg :: sg' =>
      pn (fst seg) ++ [60;114;116;62] ++ pn (snd seg) ++
      match sg' with [] => [] | _ => [60;47;114;116;62] ++ go sg' end
    end.
Fixpoint print_node (n : cnode) : text :=
  match n with
  | CText t => escape t
  | CRef r => print_cref r
  | CTs t => [60] ++ print_ts t ++ [62]
  | CTag k cs => print_open k ++ flat_map print_node cs ++ print_close k
  | CRuby segs =>
    [60;114;117;98;121;62] ++
    flat_map (fun seg : list cnode * list cnode =>
                flat_map print_node (fst seg) ++ [60;114;116;62] ++ flat_map print_node (snd seg) ++ [60;47;114;116;62]) segs ++
    [60;47;114;117;98;121;62]
  | CEnd name => [60;47] ++ name ++ [62]
  | COpen k cs => print_open k ++ flat_map print_node cs
  | CRubyOmit segs => [60;114;117;98;121;62] ++ print_segs_omit (flat_map print_node) segs ++ [60;47;114;117;98;121;62]
  end.
Definition print_cue_text (ns : list cnode) : text := flat_map print_node ns.

(* ---- when a derivation describes its printed text (side condition of the parsing rules quoted above)
   * a CEnd directly inside an element must not name it (it would end it); directly inside a ruby text it must not be
     </ruby> either (that ends the ruby); at the top level of the cue every end tag is ignored; no name holds `>` or LF;
   * an element whose end tag is missing stays the current node to the end of the cue text: COpen may only be the last
     node of the cue text or of another COpen (inside a closed element, the end tag of that element would be ignored);
   * a ruby with its last </rt> omitted has at least one base / text pair. *)
Inductive ctx := XTop | XTag (name : text) | XBase | XRt.
Definition nm_ruby : text := [114;117;98;121].
Definition nm_rt : text := [114;116].
Definition end_ignored (c : ctx) (name : text) : bool :=
  forallb (fun ch => negb (ch =? 62) && negb (ch =? 10)) name &&
  match c with
  | XTop => true
  | XTag n => negb (text_eqb name n)
  | XBase => negb (text_eqb name nm_ruby)
  | XRt => negb (text_eqb name nm_rt) && negb (text_eqb name nm_ruby)
  end.
Fixpoint node_valid (c : ctx) (may_open : bool) (n : cnode) {struct n} : bool :=
  let fix go (c : ctx) (may_open : bool) (ns : list cnode) {struct ns} : bool :=
    match ns with
    | [] => true
    | n :: ns' => node_valid c (may_open && match ns' with [] => true | _ => false end) n && go c may_open ns'
    end in
  let fix segs_valid (sg : list (list cnode * list cnode)) {struct sg} : bool :=
    match sg with
    | [] => true
    | seg :: sg' => go XBase false (fst seg) && go XRt false (snd seg) && segs_valid sg'
    end in
  match n with
  | CText _ | CRef _ | CTs _ => true
  | CTag k cs => go (XTag (tag_name k)) false cs
  | CRuby segs => segs_valid segs
  | CEnd name => end_ignored c name
  | COpen k cs => may_open && go (XTag (tag_name k)) true cs
  | CRubyOmit segs => match segs with [] => false | _ => segs_valid segs end
  end.
Fixpoint nodes_valid (c : ctx) (may_open : bool) (ns : list cnode) : bool :=
  match ns with
  | [] => true
  | n :: ns' => node_valid c (may_open && match ns' with [] => true | _ => false end) n && nodes_valid c may_open ns'
  end.
Definition cue_text_valid (ns : list cnode) : bool := nodes_valid XTop true ns.

(* ---- meaning: styled, timed runs *)
Inductive role := RolePlain | RoleBase | RoleRt.
Record style := mkStyle {
  st_bold : bool; st_italic : bool; st_under : bool;
  st_color : option Z; st_bg : option Z;        (* packed RGBA of the WebVTT default colour classes *)
  st_lang : option text;
  st_role : role;
  st_time : option Z                             (* ms on the media timeline from which the text counts as shown *)
}.
Inductive run := RText (s : style) (t : text) | RBreak.

Definition plain_style : style := mkStyle false false false None None None RolePlain None.

(* WebVTT 5.1 default classes *)
Definition webvtt_colors : list (text * Z) :=
  [ ([119;104;105;116;101], 4294967295);        (* white   ffffffff *)
    ([108;105;109;101], 16711935);              (* lime    00ff00ff *)
    ([99;121;97;110], 16777215);                (* cyan    00ffffff *)
    ([114;101;100], 4278190335);                (* red     ff0000ff *)
    ([121;101;108;108;111;119], 4294902015);    (* yellow  ffff00ff *)
    ([109;97;103;101;110;116;97], 4278255615);  (* magenta ff00ffff *)
    ([98;108;117;101], 65535);                  (* blue    0000ffff *)
    ([98;108;97;99;107], 255) ].                (* black   000000ff *)
Fixpoint color_of (n : text) (l : list (text * Z)) : option Z :=
  match l with [] => None | (a, v) :: l' => if text_eqb n a then Some v else color_of n l' end.
Definition is_bg_class (c : text) : option text :=
  match c with 98 :: 103 :: 95 :: r => Some r | _ => None end.

Definition set_color (s : style) (c : Z) : style :=
  mkStyle (st_bold s) (st_italic s) (st_under s) (Some c) (st_bg s) (st_lang s) (st_role s) (st_time s).
Definition set_bg (s : style) (c : Z) : style :=
  mkStyle (st_bold s) (st_italic s) (st_under s) (st_color s) (Some c) (st_lang s) (st_role s) (st_time s).
Definition class_style (s : style) (c : text) : style :=
  match is_bg_class c with
  | Some n => match color_of n webvtt_colors with Some col => set_bg s col | None => s end
  | None => match color_of c webvtt_colors with Some col => set_color s col | None => s end
  end.
Definition apply_tag (k : ctag) (s : style) : style :=
  match k with
  | TgB => mkStyle true (st_italic s) (st_under s) (st_color s) (st_bg s) (st_lang s) (st_role s) (st_time s)
  | TgI => mkStyle (st_bold s) true (st_under s) (st_color s) (st_bg s) (st_lang s) (st_role s) (st_time s)
  | TgU => mkStyle (st_bold s) (st_italic s) true (st_color s) (st_bg s) (st_lang s) (st_role s) (st_time s)
  | TgC cls => fold_left class_style cls s
  | TgLang l => mkStyle (st_bold s) (st_italic s) (st_under s) (st_color s) (st_bg s) (Some l) (st_role s) (st_time s)
  | TgV _ => s
  end.
Definition with_role (r : role) (s : style) : style :=
  mkStyle (st_bold s) (st_italic s) (st_under s) (st_color s) (st_bg s) (st_lang s) r (st_time s).
Definition with_time (t : option Z) (s : style) : style :=
  mkStyle (st_bold s) (st_italic s) (st_under s) (st_color s) (st_bg s) (st_lang s) (st_role s) t.

(* the six references WebVTT allows by name, and numeric ones *)
Definition cref_value (r : cref) : text :=
  match r with
  | RefNamed n =>
    if text_eqb n [97;109;112] then [38] else if text_eqb n [108;116] then [60]
    else if text_eqb n [103;116] then [62] else if text_eqb n [108;114;109] then [8206]
    else if text_eqb n [114;108;109] then [8207] else if text_eqb n [110;98;115;112] then [160]
    else [38] ++ n ++ [59]
  | RefDec n | RefHex n => [n]
  end.

(* text with line breaks *)
Fixpoint text_runs_aux (s : style) (cur : text) (t : text) : list run :=
  match t with
  | [] => [RText s cur]
  | c :: t' => if c =? 10 then RText s cur :: RBreak :: text_runs_aux s [] t' else text_runs_aux s (cur ++ [c]) t'
  end.
Definition text_runs (s : style) (t : text) : list run := text_runs_aux s [] t.

(* a timestamp applies to everything that follows it in the cue, whatever the nesting: `now` is threaded
   left to right through the whole tree *)
Fixpoint runs_node (s : style) (now : option Z) (n : cnode) {struct n} : list run * option Z :=
  let fix go (st : style) (now : option Z) (ns : list cnode) {struct ns} : list run * option Z :=
    match ns with
    | [] => ([], now)
    | n :: ns' =>
      let '(r1, now1) := runs_node st now n in
      let '(r2, now2) := go st now1 ns' in (r1 ++ r2, now2)
    end in
  match n with
  | CText t => (text_runs (with_time now s) t, now)
  | CRef r => ([RText (with_time now s) (cref_value r)], now)
  | CTs t => ([], Some (ts_ms t))
  | CTag k cs => go (apply_tag k s) now cs
  | CRuby segs =>
    (fix go_segs (now : option Z) (sg : list (list cnode * list cnode)) {struct sg} : list run * option Z :=
       match sg with
       | [] => ([], now)
       | (base, rt) :: sg' =>
         let '(rb, nowb) := go (with_role RoleBase s) now base in
         let '(rr, nowr) := go (with_role RoleRt s) nowb rt in
         let '(rest, nowz) := go_segs nowr sg' in
         (rb ++ rr ++ rest, nowz)
       end) now segs
  | CEnd _ => ([], now)                       (* an ignored end tag shows nothing and ends nothing *)
  | COpen k cs => go (apply_tag k s) now cs   (* the element lasts to the end of the text, where its content ends *)
  | CRubyOmit segs =>
    (fix go_segs (now : option Z) (sg : list (list cnode * list cnode)) {struct sg} : list run * option Z :=
       match sg with
       | [] => ([], now)
       | (base, rt) :: sg' =>
         let '(rb, nowb) := go (with_role RoleBase s) now base in
         let '(rr, nowr) := go (with_role RoleRt s) nowb rt in
         let '(rest, nowz) := go_segs nowr sg' in
         (rb ++ rr ++ rest, nowz)
       end) now segs
  end.
Fixpoint runs_nodes (s : style) (now : option Z) (ns : list cnode) : list run * option Z :=
  match ns with
  | [] => ([], now)
  | n :: ns' =>
    let '(r1, now1) := runs_node s now n in
    let '(r2, now2) := runs_nodes s now1 ns' in (r1 ++ r2, now2)
  end.

(* normal form of a run list: empty texts dropped, neighbours of identical style merged *)
Definition oz_eq (a b : option Z) : bool :=
  match a, b with None, None => true | Some x, Some y => x =? y | _, _ => false end.
Definition otext_eq (a b : option text) : bool :=
  match a, b with None, None => true | Some x, Some y => text_eqb x y | _, _ => false end.
Definition role_eq (a b : role) : bool :=
  match a, b with RolePlain, RolePlain | RoleBase, RoleBase | RoleRt, RoleRt => true | _, _ => false end.
Definition style_eq (a b : style) : bool :=
  Bool.eqb (st_bold a) (st_bold b) && Bool.eqb (st_italic a) (st_italic b) && Bool.eqb (st_under a) (st_under b) &&
  oz_eq (st_color a) (st_color b) && oz_eq (st_bg a) (st_bg b) && otext_eq (st_lang a) (st_lang b) &&
  role_eq (st_role a) (st_role b) && oz_eq (st_time a) (st_time b).
Fixpoint merge_runs (l : list run) : list run :=
  match l with
  | [] => []
  | RBreak :: l' => RBreak :: merge_runs l'
  | RText s t :: l' =>
    match t with
    | [] => merge_runs l'
    | _ =>
      match merge_runs l' with
      | RText s' t' :: m => if style_eq s s' then RText s (t ++ t') :: m else RText s t :: RText s' t' :: m
      | m => RText s t :: m
      end
    end
  end.
Definition runs_cue (ns : list cnode) : list run := merge_runs (fst (runs_nodes plain_style None ns)).
Fixpoint runs_eq (a b : list run) : bool :=
  match a, b with
  | [], [] => true
  | RBreak :: a', RBreak :: b' => runs_eq a' b'
  | RText s t :: a', RText s' t' :: b' => style_eq s s' && text_eqb t t' && runs_eq a' b'
  | _, _ => false
  end.

(* ================================================================ cue settings *)
Inductive vdir := VLr | VRl.
Inductive lalign := LaStart | LaCenter | LaEnd.
Inductive palign := PaLineLeft | PaCenter | PaLineRight.
Inductive calign := CaStart | CaCenter | CaEnd | CaLeft | CaRight.
Inductive lineval := LinePct (p : Z) | LineNum (n : Z).
Inductive setting :=
| SetVertical (v : vdir)
| SetLine (l : lineval) (a : option lalign)
| SetPosition (p : Z) (a : option palign)
| SetSize (p : Z)
| SetAlign (a : calign).

Definition print_int (n : Z) : text := if n <? 0 then 45 :: print_dec (- n) else print_dec n.
Definition print_setting (s : setting) : text :=
  match s with
  | SetVertical VLr => [118;101;114;116;105;99;97;108;58;108;114]
  | SetVertical VRl => [118;101;114;116;105;99;97;108;58;114;108]
  | SetLine l a =>
    [108;105;110;101;58] ++
    match l with LinePct p => print_dec p ++ [37] | LineNum n => print_int n end ++
    match a with
    | None => []
    | Some LaStart => [44;115;116;97;114;116]
    | Some LaCenter => [44;99;101;110;116;101;114]
    | Some LaEnd => [44;101;110;100]
    end
  | SetPosition p a =>
    [112;111;115;105;116;105;111;110;58] ++ print_dec p ++ [37] ++
    match a with
    | None => []
    | Some PaLineLeft => [44;108;105;110;101;45;108;101;102;116]
    | Some PaCenter => [44;99;101;110;116;101;114]
    | Some PaLineRight => [44;108;105;110;101;45;114;105;103;104;116]
    end
  | SetSize p => [115;105;122;101;58] ++ print_dec p ++ [37]
  | SetAlign a =>
    [97;108;105;103;110;58] ++
    match a with
    | CaStart => [115;116;97;114;116] | CaCenter => [99;101;110;116;101;114] | CaEnd => [101;110;100]
    | CaLeft => [108;101;102;116] | CaRight => [114;105;103;104;116]
    end
  end.

(* the last occurrence of a setting wins (WebVTT 6.3: later settings overwrite earlier ones) *)
Definition get_vertical (l : list setting) : option vdir :=
  fold_left (fun a s => match s with SetVertical v => Some v | _ => a end) l None.
Definition get_line (l : list setting) : option (lineval * option lalign) :=
  fold_left (fun a s => match s with SetLine v al => Some (v, al) | _ => a end) l None.
Definition get_position (l : list setting) : option (Z * option palign) :=
  fold_left (fun a s => match s with SetPosition p al => Some (p, al) | _ => a end) l None.
Definition get_size (l : list setting) : option Z :=
  fold_left (fun a s => match s with SetSize p => Some p | _ => a end) l None.
Definition get_align (l : list setting) : option calign :=
  fold_left (fun a s => match s with SetAlign p => Some p | _ => a end) l None.

(* the observable part of a region: origin, extent (percent of the root container), alignments, mode.
   Enumerations are numbered so that this file does not depend on the model's types:
   mode 0 lrtb, 1 rltb, 2 tblr, 3 tbrl; display 0 before, 1 center, 2 after; text 0 start, 1 center, 2 end *)
Record region_view := mkRV { rv_mode : Z; rv_x : Q; rv_y : Q; rv_w : Q; rv_h : Q; rv_display : Z; rv_text : Z }.

Definition eps : Q := Qmake 1 1000000.      (* slack for the code's binary floating point *)
Definition qle (a b : Q) : bool := Qle_bool a (b + eps).
Definition qnear (a b : Q) : bool := qle a b && qle b a.

(* inside the root container with non-negative extent *)
Definition region_inside (r : region_view) : bool :=
  qle 0 (rv_w r) && qle 0 (rv_h r) && qle 0 (rv_x r) && qle 0 (rv_y r) &&
  qle (rv_x r + rv_w r) 100 && qle (rv_y r + rv_h r) 100.

Definition rows : Z := 23.        (* lines of a cue box area in the 32x15-cell convention the reader documents *)
Definition mode_spec (l : list setting) : Z :=
  match get_vertical l with None => 0 | Some VLr => 2 | Some VRl => 3 end.
Definition text_spec (l : list setting) : Z :=
  match get_align l with
  | None | Some CaCenter => 1
  | Some CaStart | Some CaLeft => 0           (* left-to-right base direction *)
  | Some CaEnd | Some CaRight => 2
  end.
Definition display_spec (l : list setting) : Z :=
  match get_line l with
  | None => 2                                 (* line auto: cues stack from the bottom *)
  | Some (_, None) | Some (_, Some LaStart) => 0
  | Some (_, Some LaCenter) => 1
  | Some (_, Some LaEnd) => 2
  end.
(* distance of the line position from the top, percent: percentages as given; line number n >= 0 is the
   n-th line from the top, n < 0 the |n|-th line from the bottom; a line beyond the first or last line of the
   grid is shown on the first / last edge (WebVTT moves a cue box that leaves the viewport back into it) *)
Definition line_offset_spec (v : lineval) : Q :=
  match v with
  | LinePct p => inject_Z p
  | LineNum n =>
    if 0 <=? n then (if rows <=? n then 100%Q else (100 * inject_Z n / inject_Z rows)%Q)
    else (if n <=? - rows then 0%Q else (100 + 100 * inject_Z n / inject_Z rows)%Q)
  end.
(* which edge of a horizontal region the line setting fixes *)
Definition line_edge_ok (l : list setting) (r : region_view) : bool :=
  match get_vertical l, get_line l with
  | None, Some (v, a) =>
    let lo := line_offset_spec v in
    match a with
    | None | Some LaStart => qnear (rv_y r) lo
    | Some LaCenter => qnear (rv_y r + rv_h r / 2)%Q lo
    | Some LaEnd => qnear (rv_y r + rv_h r)%Q lo
    end
  | _, _ => true
  end.

(* writing mode, text alignment and display alignment are what the settings call for *)
Definition region_align_ok (l : list setting) (r : region_view) : bool :=
  (rv_mode r =? mode_spec l) && (rv_text r =? text_spec l) && (rv_display r =? display_spec l).
Definition region_ok (l : list setting) (r : region_view) : bool :=
  region_inside r && region_align_ok l r && line_edge_ok l r.

(* ================================================================ files *)
Record cue := mkCue {
  c_id : option text;
  c_begin : tstamp; c_end : tstamp;
  c_settings : list setting;
  c_payload : list cnode
}.
Inductive block :=
| BCue (c : cue)
| BNote (body : text)            (* "NOTE " + body; body may span lines, none of them blank *)
| BStyle (body : text)           (* "STYLE" LF body *)
| BRegion (body : text).         (* "REGION" LF body *)
Record vfile := mkFile { f_header : text; f_blocks : list block }.   (* "WEBVTT" + header text *)

Definition print_cue (c : cue) : text :=
  match c_id c with Some i => i ++ [10] | None => [] end ++
  print_ts (c_begin c) ++ [32;45;45;62;32] ++ print_ts (c_end c) ++
  flat_map (fun s => 32 :: print_setting s) (c_settings c) ++ [10] ++
  print_cue_text (c_payload c) ++ [10].
Definition print_block (b : block) : text :=
  match b with
  | BCue c => print_cue c
  | BNote t => [78;79;84;69;32] ++ t ++ [10]
  | BStyle t => [83;84;89;76;69;10] ++ t ++ [10]
  | BRegion t => [82;69;71;73;79;78;10] ++ t ++ [10]
  end.
Definition print_file (f : vfile) : text :=
  [87;69;66;86;84;84] ++ f_header f ++ [10] ++ flat_map (fun b => 10 :: print_block b) (f_blocks f).

Definition cues_of (f : vfile) : list cue :=
  flat_map (fun b => match b with BCue c => [c] | _ => [] end) (f_blocks f).
(* a cue without payload shows nothing: it needs no paragraph (and must not disturb the other cues) *)
Definition shown_cues (f : vfile) : list cue :=
  filter (fun c => match print_cue_text (c_payload c) with [] => false | _ => true end) (cues_of f).
