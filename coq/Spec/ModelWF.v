(* S for C15: what "the document is well formed" means, written from the statement of the property
   and from doc/data_model.md (content model), independently of Model/Heap.v (only the heap
   *types* of Base/HeapTypes.v are shared).

     WF h  :=  links agree  /\  acyclic  /\  one document per tree  /\  content model
               /\  region references registered  /\  stored values valid

   `WF` is the declarative statement; `wf_b` is an executable checker for it (soundness
   `wf_b h = true -> WF h` is Proofs/C15/WfSound.v) which the correspondence harness evaluates on the
   object graph dumped from the running Python code. *)
From Coq Require Import List Arith Bool.
From TT Require Import Base.HeapTypes.
Import ListNotations.

(* ---------------------------------------------------------------- 1. links ------------------- *)
Definition ref_ok (h : heap) (o : option nat) : Prop := match o with None => True | Some i => i < nnodes h end.
Definition dref_ok (h : heap) (o : option nat) : Prop := match o with None => True | Some d => d < ndocs h end.

(* every link and every registry entry denotes an element / a document of the universe *)
Definition Closed (h : heap) : Prop :=
  (forall i, i < nnodes h ->
     ref_ok h (n_parent (nd h i)) /\ ref_ok h (n_first (nd h i)) /\ ref_ok h (n_last (nd h i)) /\
     ref_ok h (n_next (nd h i)) /\ ref_ok h (n_prev (nd h i)) /\ ref_ok h (n_region (nd h i)) /\
     dref_ok h (n_doc (nd h i))) /\
  (forall d, d < ndocs h ->
     ref_ok h (d_body (dc h d)) /\ forall id r, In (id, r) (d_regions (dc h d)) -> r < nnodes h).

(* cs is a run of siblings under p: each member's parent is p, its previous sibling is the member
   before it (pv for the first), its next sibling the member after it (none for the last) *)
Fixpoint Chain (h : heap) (p : nat) (pv : option nat) (cs : list nat) : Prop :=
  match cs with
  | [] => True
  | c :: t => c < nnodes h /\ n_parent (nd h c) = Some p /\ n_prev (nd h c) = pv /\
              n_next (nd h c) = hd_error t /\ Chain h p (Some c) t
  end.
Definition last_error (cs : list nat) : option nat := match cs with [] => None | _ => Some (last cs 0) end.

(* cs is the list of children of p: first/last child, sibling links and parent links all agree with
   it, no element occurs twice, and every element whose parent is p is in it *)
Definition Children (h : heap) (p : nat) (cs : list nat) : Prop :=
  n_first (nd h p) = hd_error cs /\ n_last (nd h p) = last_error cs /\ Chain h p None cs /\ NoDup cs /\
  (forall c, c < nnodes h -> n_parent (nd h c) = Some p -> In c cs).

Definition WF_links (h : heap) : Prop :=
  Closed h /\
  (forall p, p < nnodes h -> exists cs, Children h p cs) /\
  (forall c, c < nnodes h -> n_parent (nd h c) = None -> n_next (nd h c) = None /\ n_prev (nd h c) = None).

(* ---------------------------------------------------------------- 2. acyclic ----------------- *)
(* following parent() from any element ends at a root *)
Inductive Rooted (h : heap) : nat -> Prop :=
| Rooted_root i : n_parent (nd h i) = None -> Rooted h i
| Rooted_step i p : n_parent (nd h i) = Some p -> Rooted h p -> Rooted h i.
Definition WF_acyclic (h : heap) : Prop := forall i, i < nnodes h -> Rooted h i.

(* b is a proper ancestor of a (used to state the corollary: nobody is its own ancestor) *)
Inductive up (h : heap) : nat -> nat -> Prop :=
| up_one a b : n_parent (nd h a) = Some b -> up h a b
| up_step a b c : n_parent (nd h a) = Some b -> up h b c -> up h a c.

(* ---------------------------------------------------------------- 3. one document per tree --- *)
Definition WF_doc (h : heap) : Prop :=
  forall c p, c < nnodes h -> n_parent (nd h c) = Some p -> n_doc (nd h c) = n_doc (nd h p).

(* ---------------------------------------------------------------- 4. content model ----------- *)
(* doc/data_model.md:
     Body: Div*   Div: (P | Div)*   P: (Span | Ruby | Br)*   Span: (Span | Br | Text)*
     Ruby: Rb? Rt? | Rb? Rp Rt? Rp | Rbc Rtc Rtc?      Rbc: Rb*     Rtc: Rt* | Rp Rt* Rp
     Rb, Rt, Rp: Span*        Br, Text, Region: no children *)
Definition kmem (k : kind) (l : list kind) : bool := existsb (fun x => if kind_eq_dec x k then true else false) l.
Definition klist_eqb (a b : list kind) : bool := if list_eq_dec kind_eq_dec a b then true else false.
Definition opt (b : bool) (k : kind) : list kind := if b then [k] else [].
Definition ruby_forms : list (list kind) :=
  flat_map (fun a => flat_map (fun b =>
     [opt a KRb ++ opt b KRt; opt a KRb ++ [KRp] ++ opt b KRt ++ [KRp]]) [false; true]) [false; true]
  ++ [[KRbc; KRtc]; [KRbc; KRtc; KRtc]].
Definition all_rt (ks : list kind) : bool := forallb (fun k => kmem k [KRt]) ks.
Definition rtc_form (ks : list kind) : bool :=
  all_rt ks ||
  match ks with
  | KRp :: t => match rev t with KRp :: m => all_rt m | _ => false end
  | _ => false
  end.
Definition allowed (k : kind) (ks : list kind) : bool :=
  match k with
  | KBody => forallb (fun c => kmem c [KDiv]) ks
  | KDiv => forallb (fun c => kmem c [KP; KDiv]) ks
  | KP => forallb (fun c => kmem c [KSpan; KRuby; KBr]) ks
  | KSpan => forallb (fun c => kmem c [KSpan; KBr; KText]) ks
  | KRuby => existsb (klist_eqb ks) ruby_forms
  | KRbc => forallb (fun c => kmem c [KRb]) ks
  | KRtc => rtc_form ks
  | KRb | KRt | KRp => forallb (fun c => kmem c [KSpan]) ks
  | KBr | KText | KRegion => match ks with [] => true | _ => false end
  end.
Definition WF_content (h : heap) : Prop :=
  forall p cs, p < nnodes h -> Children h p cs -> allowed (n_kind (nd h p)) (map (fun c => n_kind (nd h c)) cs) = true.

(* ---------------------------------------------------------------- 5. regions ----------------- *)
Fixpoint lookup (l : list (nat * nat)) (k : nat) : option nat :=
  match l with [] => None | (k', v) :: t => if Nat.eqb k k' then Some v else lookup t k end.
Definition region_capable (k : kind) : bool := match k with KBr | KText | KRegion => false | _ => true end.
Definition WF_regions (h : heap) : Prop :=
  (* the region an element references is the one registered under its id in the element's document *)
  (forall i r, i < nnodes h -> n_region (nd h i) = Some r ->
     region_capable (n_kind (nd h i)) = true /\
     exists d id, n_doc (nd h i) = Some d /\ n_id (nd h r) = Some id /\ lookup (d_regions (dc h d)) id = Some r) /\
  (* a registry only holds Region elements, under their own id, and holds each id once *)
  (forall d id r, d < ndocs h -> lookup (d_regions (dc h d)) id = Some r ->
     n_kind (nd h r) = KRegion /\ n_id (nd h r) = Some id) /\
  (forall d, d < ndocs h -> NoDup (map fst (d_regions (dc h d)))).

(* ---------------------------------------------------------------- 6. values ------------------ *)
(* the value domain of each style property (TTML2 / IMSC 1.1 as constrained by the canonical model:
   lengths along the horizontal axis of the root container may use %, px, c, rw; along the vertical
   axis %, px, c, rh) *)
Inductive vtype :=
| TColor | TEnum (e : enumty) | TLength (us : list lunit) | TNormalOrLength | TNumber | TBool
| TFontFamilies | TExtent | TOrigin | TPosition | TPadding | TTextDecoration
| TNoneOrRubyReserve | TNoneOrEmphasis | TNoneOrOutline | TNoneOrShadow.
Definition any_unit := [Uem; Upct; Urh; Urw; Uc; Upx].
Definition type_of (p : prop) : vtype :=
  match p with
  | PBackgroundColor => TColor | PColor => TColor | PDirection => TEnum EDirection
  | PDisparity => TLength any_unit | PDisplay => TEnum EDisplay | PDisplayAlign => TEnum EDisplayAlign
  | PExtent => TExtent | PFillLineGap => TBool | PFontFamily => TFontFamilies | PFontSize => TLength any_unit
  | PFontStyle => TEnum EFontStyle | PFontWeight => TEnum EFontWeight | PLineHeight => TNormalOrLength
  | PLinePadding => TLength [Uc; Urh; Urw] | PLuminanceGain => TNumber | PMultiRowAlign => TEnum EMultiRowAlign
  | POpacity => TNumber | POrigin => TOrigin | POverflow => TEnum EOverflow | PPadding => TPadding
  | PPosition => TPosition | PRubyAlign => TEnum ERubyAlign | PRubyPosition => TEnum EAnnotationPosition
  | PRubyReserve => TNoneOrRubyReserve | PShear => TNumber | PShowBackground => TEnum EShowBackground
  | PTextAlign => TEnum ETextAlign | PTextCombine => TEnum ETextCombine | PTextDecoration => TTextDecoration
  | PTextEmphasis => TNoneOrEmphasis | PTextOutline => TNoneOrOutline | PTextShadow => TNoneOrShadow
  | PUnicodeBidi => TEnum EUnicodeBidi | PVisibility => TEnum EVisibility | PWrapOption => TEnum EWrapOption
  | PWritingMode => TEnum EWritingMode
  end.
Definition umem (u : lunit) (l : list lunit) : bool := existsb (fun x => if lunit_eq_dec u x then true else false) l.
Definition horizontal := [Upct; Upx; Uc; Urw].
Definition vertical := [Upct; Upx; Uc; Urh].
Definition hv (x y : option lunit) : bool :=        (* both components are lengths in units of their axis *)
  match x, y with Some ux, Some uy => umem ux horizontal && umem uy vertical | _, _ => false end.
Definition family_item (i : fitem) : bool := match i with FStr => true | FGeneric => true | FOther => false end.
Definition has_type (t : vtype) (v : sval) : bool :=
  match t, v with
  | TColor, VColor => true
  | TEnum e, VEnum e' => if enumty_eq_dec e e' then true else false
  | TLength us, VLen u => umem u us
  | TNormalOrLength, VLen _ => true
  | TNormalOrLength, VSpecial SNormal => true
  | TNumber, VNum => true
  | TNumber, VBool => true                       (* bool is an integer type in Python *)
  | TBool, VBool => true
  | TFontFamilies, VTuple l => forallb family_item l
  | TExtent, VExtent hh ww => hv ww hh
  | TOrigin, VCoord x y => hv x y
  | TPosition, VPos ho vo => hv ho vo
  | TPadding, VPadding => true
  | TTextDecoration, VTextDec => true
  | TNoneOrRubyReserve, VRubyReserve => true
  | TNoneOrEmphasis, VTextEmph => true
  | TNoneOrOutline, VTextOutline => true
  | TNoneOrShadow, VTextShadow => true
  | TNoneOrRubyReserve, VSpecial SNone | TNoneOrEmphasis, VSpecial SNone
  | TNoneOrOutline, VSpecial SNone | TNoneOrShadow, VSpecial SNone => true
  | _, _ => false
  end.
Definition spec_valid (p : prop) (v : sval) : bool := has_type (type_of p) v.
Definition all_valid (l : list (prop * sval)) : Prop := forall p v, In (p, v) l -> spec_valid p v = true.
Definition WF_values (h : heap) : Prop :=
  (forall i, i < nnodes h -> all_valid (n_styles (nd h i)) /\ all_valid (n_anims (nd h i))) /\
  (forall d, d < ndocs h -> all_valid (d_initials (dc h d))).

(* ---------------------------------------------------------------- WF ------------------------- *)
Definition WF (h : heap) : Prop :=
  WF_links h /\ WF_acyclic h /\ WF_doc h /\ WF_content h /\ WF_regions h /\ WF_values h.

(* ================================================================ executable checker ========= *)
Definition oeq (a b : option nat) : bool := if onat_eq_dec a b then true else false.
Definition ref_ok_b (h : heap) (o : option nat) : bool := match o with None => true | Some i => i <? nnodes h end.
Definition dref_ok_b (h : heap) (o : option nat) : bool := match o with None => true | Some d => d <? ndocs h end.
Definition nodes_of (h : heap) : list nat := seq 0 (nnodes h).
Definition docs_of (h : heap) : list nat := seq 0 (ndocs h).
Definition closed_b (h : heap) : bool :=
  forallb (fun i => let n := nd h i in
     ref_ok_b h (n_parent n) && ref_ok_b h (n_first n) && ref_ok_b h (n_last n) && ref_ok_b h (n_next n) &&
     ref_ok_b h (n_prev n) && ref_ok_b h (n_region n) && dref_ok_b h (n_doc n)) (nodes_of h) &&
  forallb (fun d => ref_ok_b h (d_body (dc h d)) && forallb (fun e => snd e <? nnodes h) (d_regions (dc h d))) (docs_of h).

(* the sequence first, first.next, first.next.next, ... (None if it does not end within `fuel` steps) *)
Fixpoint follow (h : heap) (fuel : nat) (cur : option nat) : option (list nat) :=
  match cur with
  | None => Some []
  | Some c => match fuel with O => None | S k =>
                match follow h k (n_next (nd h c)) with Some l => Some (c :: l) | None => None end end
  end.
Fixpoint chain_b (h : heap) (p : nat) (pv : option nat) (cs : list nat) : bool :=
  match cs with
  | [] => true
  | c :: t => (c <? nnodes h) && oeq (n_parent (nd h c)) (Some p) && oeq (n_prev (nd h c)) pv &&
              oeq (n_next (nd h c)) (hd_error t) && chain_b h p (Some c) t
  end.
Definition mem (x : nat) (l : list nat) : bool := existsb (Nat.eqb x) l.
Fixpoint nodup_b (l : list nat) : bool := match l with [] => true | x :: t => negb (mem x t) && nodup_b t end.
Definition children_b (h : heap) (p : nat) : option (list nat) :=
  match follow h (S (nnodes h)) (n_first (nd h p)) with
  | None => None
  | Some cs =>
    if oeq (n_last (nd h p)) (last_error cs) && chain_b h p None cs && nodup_b cs &&
       forallb (fun c => negb (oeq (n_parent (nd h c)) (Some p)) || mem c cs) (nodes_of h)
    then Some cs else None
  end.
Definition links_b (h : heap) : bool :=
  closed_b h &&
  forallb (fun p => match children_b h p with Some _ => true | None => false end) (nodes_of h) &&
  forallb (fun c => match n_parent (nd h c) with
                    | None => oeq (n_next (nd h c)) None && oeq (n_prev (nd h c)) None
                    | Some _ => true end) (nodes_of h).
Fixpoint climb (h : heap) (fuel : nat) (i : nat) : bool :=
  match n_parent (nd h i) with
  | None => true
  | Some p => match fuel with O => false | S k => climb h k p end
  end.
Definition acyclic_b (h : heap) : bool := forallb (climb h (nnodes h)) (nodes_of h).
Definition doc_b (h : heap) : bool :=
  forallb (fun c => match n_parent (nd h c) with
                    | None => true
                    | Some p => oeq (n_doc (nd h c)) (n_doc (nd h p)) end) (nodes_of h).
Definition content_b (h : heap) : bool :=
  forallb (fun p => match children_b h p with
                    | Some cs => allowed (n_kind (nd h p)) (map (fun c => n_kind (nd h c)) cs)
                    | None => false end) (nodes_of h).
Definition regions_b (h : heap) : bool :=
  forallb (fun i => match n_region (nd h i) with
                    | None => true
                    | Some r => region_capable (n_kind (nd h i)) &&
                                match n_doc (nd h i), n_id (nd h r) with
                                | Some d, Some id => oeq (lookup (d_regions (dc h d)) id) (Some r)
                                | _, _ => false
                                end
                    end) (nodes_of h) &&
  forallb (fun d => forallb (fun e =>
                      match lookup (d_regions (dc h d)) (fst e) with
                      | Some r => (if kind_eq_dec (n_kind (nd h r)) KRegion then true else false) &&
                                  oeq (n_id (nd h r)) (Some (fst e))
                      | None => true
                      end) (d_regions (dc h d)) && nodup_b (map fst (d_regions (dc h d)))) (docs_of h).
Definition all_valid_b (l : list (prop * sval)) : bool := forallb (fun e => spec_valid (fst e) (snd e)) l.
Definition values_b (h : heap) : bool :=
  forallb (fun i => all_valid_b (n_styles (nd h i)) && all_valid_b (n_anims (nd h i))) (nodes_of h) &&
  forallb (fun d => all_valid_b (d_initials (dc h d))) (docs_of h).

Definition wf_b (h : heap) : bool :=
  links_b h && acyclic_b h && doc_b h && content_b h && regions_b h && values_b h.

(* which clauses fail, for reports: [links; acyclic; doc; content; regions; values] *)
Definition wf_report (h : heap) : list bool :=
  [links_b h; acyclic_b h; doc_b h; content_b h; regions_b h; values_b h].
