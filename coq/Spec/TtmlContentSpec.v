(* S for C04 (content model): children that are not content elements are transparent.

   TTML2 allows, in every content element (body, div, p, span and the ruby containers, br, region), in head, styling and
   layout, children of Metadata.class - tt:metadata and the ttm: vocabulary (ttm:title, ttm:desc, ttm:copyright, ttm:agent with
   ttm:name / ttm:actor) - and, anywhere, elements of foreign namespaces; a processor ignores tt: elements it does not
   know where it does not know them; an XML document carries comments and processing instructions anywhere.  None of them is
   content: such a child contributes nothing - no text, no interval, no style - whatever its attributes and whatever it contains,
   and the character data that follows it (its tail, in ElementTree terms) is character content of the parent exactly like
   the text before it (TTML2 8.1.5 / 8.1.6: the content of p and span is any mixture of #PCDATA, Metadata.class,
   Animation.class and Inline.class; anonymous spans are made of the #PCDATA).

   This file says what "such children are transparent" means:
     1. [keeps]: which children an element reads (its content model as far as the reader's result depends on it);
     2. [strip]: the document without the other children, each one's tail kept in place - appended to the text that precedes it
        (the tail of the previous kept child, or the text of the parent);
     3. [same_node]: two trees of the canonical model are the same up to the split of adjacent anonymous spans: where the
        first has the anonymous spans (text nodes, inside a span) t1, ..., tn side by side, the second has the single
        anonymous span t1 ++ ... ++ tn; everything else - kinds, ids, begin / end, xml:space, xml:lang, regions, styles, animation
        steps, order - is equal.
   The statement (Properties/C04.v C04_noncontent_children_transparent): reading x and reading [strip x] give [same_node] results,
   for every tree.
   It shares no code with the model of the reader. *)
From TT Require Import Base.Prelude Base.ImscXml Spec.TtmlTimingSpec.
Local Open Scope Z_scope.

(* ---- the metadata vocabulary of TTML2 (section 14): never timed, never content ----------------------------------------- *)
Definition metadata_vocabulary : list qname :=
  [T_metadata; T_ttm_title; T_ttm_desc; T_ttm_copyright; T_ttm_agent; T_ttm_name; T_ttm_actor].
(* a comment or a processing instruction, as ElementTree presents it *)
Definition is_comment_or_pi (q : qname) : bool := (fst q =? NS_COMMENT) || (fst q =? NS_PI).
(* an element of a namespace that is not one of TTML's *)
Definition is_foreign (q : qname) : bool := (100 <=? fst q) || (fst q =? NS_NONE).

(* ---- 1. the children an element reads ------------------------------------------------------------------------------------ *)
Definition tag_is (c : xml) (q : qname) : bool := qname_eqb (x_tag c) q.

Definition keeps (ptag : qname) (pattrs : list (qname * text)) (c : xml) : bool :=
  if qname_eqb ptag T_tt then tag_is c T_head || tag_is c T_body else
  if qname_eqb ptag T_head then tag_is c T_layout || tag_is c T_styling else
  if qname_eqb ptag T_layout then tag_is c T_region else
  if qname_eqb ptag T_styling then tag_is c T_initial || tag_is c T_style else
  match s_kind ptag pattrs with
  | Some KSet => false                                  (* set: Metadata.class only *)
  | Some KRegion => timed c || tag_is c T_style         (* region: animation and nested styles *)
  | Some _ => timed c                                   (* content elements: the timed vocabulary *)
  | None => false                                       (* not read at all *)
  end.

(* ---- 2. the document without the other children ------------------------------------------------------------------------ *)
Definition oapp (a b : option text) : option text :=
  match a, b with Some x, Some y => Some (x ++ y) | Some x, None => Some x | None, o => o end.

Section StripChildren.
  Variable keep : xml -> bool.
  Variable f : xml -> xml.
  (* (the text that the removed children at the front of l leave behind, the kept children of l) *)
  Fixpoint strip_children (l : list xml) : option text * list xml :=
    match l with
    | [] => (None, [])
    | c :: l' =>
        let '(pre, r) := strip_children l' in
        if keep c then (None, set_tail (f c) (oapp (x_tail c) pre) :: r)
        else (oapp (x_tail c) pre, r)
    end.
End StripChildren.

Fixpoint strip (x : xml) : xml :=
  match x with
  | X tag attrs txt tail cs =>
      let '(pre, r) := strip_children (keeps tag attrs) strip cs in
      X tag attrs (oapp txt pre) tail r
  end.

(* ---- 3. the same model tree up to the split of adjacent anonymous spans ---------------------------------------------------- *)
(* an anonymous span: a text node (in a span), or a span without attributes around one text node that has the white-space handling
   and the language of its parent (in p and the ruby text containers) *)
Definition anon_node (am : option (bool * text)) (t : text) : mnode :=
  match am with
  | None => MText t
  | Some (p, l) => MElem KSpan None None None p l None [] [] [MText t]
  end.

Inductive same_node : mnode -> mnode -> Prop :=
  | SN_text t : same_node (MText t) (MText t)
  | SN_elem k rid b e p l g s a cs cs' : same_list cs cs' ->
      same_node (MElem k rid b e p l g s a cs) (MElem k rid b e p l g s a cs')
with same_list : list mnode -> list mnode -> Prop :=
  | SL_nil : same_list [] []
  | SL_cons n n' l l' : same_node n n' -> same_list l l' -> same_list (n :: l) (n' :: l')
  | SL_split am ts l l' : ts <> [] -> same_list l l' ->
      same_list (List.map (anon_node am) ts ++ l) (anon_node am (concat ts) :: l').
