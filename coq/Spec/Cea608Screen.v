(* S for C08: a reference CEA-608 caption decoder for data channel 1 of field 1, written from
   ANSI/CTA-608-E section 6 (caption modes, memories, PAC / mid-row / miscellaneous control codes, section 6.4
   on the transmission of control codes in pairs) and section 7 / 47 CFR 15.119(f) (receiver behaviour:
   roll-up base row and depth, carriage return, backspace, delete to end of row, erase and flip of the
   displayed and non-displayed memories), together with the comparison of its displayed memory with a
   document produced by the reader.

   Two 15 x 32 memories of cells (character, colour, italic, underline); the mode; the cursor; the pen.
   Word classification and the attributes carried by a word (class, channel, PAC row / indent / colour,
   mid-row colour, characters) are taken from `decode`, which C17 proves equal to the bit layout of the
   standard for every word.  Nothing of the reader's model (Model/SccReader.v) is used: the document type
   is the shared observation type of Base/SccDoc.v.

   Time convention (DESIGN section 5 C08): word i (0-based) of a line whose time code denotes frame T is
   transmitted during frame T+i and is in effect from frame T+i+1; a change of the display it triggers must be
   stamped within [T+i, T+i+2].  Overlapping or touching windows form a chain; outside all chains the document
   must show exactly the reference display, inside a chain one of the reference displays of the chain or the
   one before it.  S_word uses one window per display-changing word, S_line one window [T, T+len+1] per line.

   The property as stated is `oracle dev0 0 0` (= S_word): the standard, word windows, rows + characters +
   attributes.  For the recorded findings (Findings/C08.v) the file also defines: the deviations `dev` that
   replace one rule of the standard by what the reader does; coarser window granularities and views (`oracle`);
   and executable `triggers` saying on which streams a recorded deviation can show.  The check accepts a weaker
   oracle only on a stream on which the trigger justifying that weakening fires (harness/c08.py judge). *)
From Coq Require Import QArith.
From TT Require Import Base.Prelude Base.SccTypes Base.SccDoc Model.SccWord.
Open Scope Z_scope.

(* ------------------------------------------------------------------ memories *)
Record cell := mkCell { ce_ch : Z ; ce_col : Z ; ce_ita : bool ; ce_und : bool }.   (* ce_ch = -1: transparent *)
Definition white := 4294967295.
Definition blank := mkCell (-1) white false false.
Definition mem := list (list cell).          (* rows 1..15 (index row-1), columns 0..31 *)
Definition blank_row : list cell := repeat blank 32.
Definition mem0 : mem := repeat blank_row 15.
Fixpoint upd {A} (i : nat) (f : A -> A) (l : list A) : list A :=
  match l, i with [], _ => [] | x :: l', O => f x :: l' | x :: l', S k => x :: upd k f l' end.
Definition row_get (m : mem) (r : Z) : list cell := if (1 <=? r) && (r <=? 15) then nth (Z.to_nat (r - 1)) m blank_row else blank_row.
Definition row_set (m : mem) (r : Z) (x : list cell) : mem := if (1 <=? r) && (r <=? 15) then upd (Z.to_nat (r - 1)) (fun _ => x) m else m.
Definition cell_set (m : mem) (r c : Z) (x : cell) : mem :=
  if (0 <=? c) && (c <=? 31) then row_set m r (upd (Z.to_nat c) (fun _ => x) (row_get m r)) else m.

Inductive mode := PopOn | RollUp (n : Z) | PaintOn.
Record scr := mkScr { disp : mem ; nond : mem ; md : mode ; crow : Z ; ccol : Z ;
                      pcol : Z ; pita : bool ; pund : bool ;       (* pen: colour, italics, underline *)
                      last : option Z ;                             (* last control pair, for section 6.4 *)
                      chan : Z ;                                    (* data channel being addressed: 1 or 2 *)
                      (* bookkeeping, not used by the word semantics of the standard: it delimits the stream classes of
                         the simulation theorems (Properties/C08.v: no two mid-row codes in a row) *)
                      pmid : bool }.                                (* the last channel-1 word was a mid-row code *)
Definition scr0 : scr := mkScr mem0 mem0 PopOn 15 0 white false false None 1 false.

Definition set_disp s x := mkScr x (nond s) (md s) (crow s) (ccol s) (pcol s) (pita s) (pund s) (last s) (chan s) (pmid s).
Definition set_nond s x := mkScr (disp s) x (md s) (crow s) (ccol s) (pcol s) (pita s) (pund s) (last s) (chan s) (pmid s).
Definition set_md s x := mkScr (disp s) (nond s) x (crow s) (ccol s) (pcol s) (pita s) (pund s) (last s) (chan s) (pmid s).
Definition set_pos s r c := mkScr (disp s) (nond s) (md s) r c (pcol s) (pita s) (pund s) (last s) (chan s) (pmid s).
Definition set_pen s co i u := mkScr (disp s) (nond s) (md s) (crow s) (ccol s) co i u (last s) (chan s) (pmid s).
Definition set_last s x := mkScr (disp s) (nond s) (md s) (crow s) (ccol s) (pcol s) (pita s) (pund s) x (chan s) (pmid s).
Definition set_chan s x := mkScr (disp s) (nond s) (md s) (crow s) (ccol s) (pcol s) (pita s) (pund s) (last s) x (pmid s).
Definition set_pmid s x := mkScr (disp s) (nond s) (md s) (crow s) (ccol s) (pcol s) (pita s) (pund s) (last s) (chan s) x.

(* Recorded deviations of the reader from the standard (Findings/C08.v).  dev0 is the standard; each flag
   replaces one rule by what the reader does, so that a recorded finding excuses exactly its own effect:
     v_base15      in roll-up mode every PAC addresses row 15; PACs for rows 5-11 also lose indent and attributes
     v_pac_clears  in paint-on mode a PAC erases the row it addresses
     v_cr_erases   a carriage return outside roll-up mode erases the displayed memory (the standard: no effect) *)
Record dev := mkDev { v_base15 : bool ; v_pac_clears : bool ; v_cr_erases : bool }.
Definition dev0 := mkDev false false false.
Definition dev_all := mkDev true true true.

(* the memory characters are written to: the non-displayed one in pop-on mode, the displayed one otherwise *)
Definition cur_mem (s : scr) : mem := match md s with PopOn => nond s | _ => disp s end.
Definition set_cur_mem (s : scr) (m : mem) : scr := match md s with PopOn => set_nond s m | _ => set_disp s m end.
(* a character is stored at the cursor with the pen attributes; the cursor advances, stopping at column 32 *)
Definition put (s : scr) (ch : Z) : scr :=
  let s1 := set_cur_mem s (cell_set (cur_mem s) (crow s) (ccol s) (mkCell ch (pcol s) (pita s) (pund s))) in
  set_pos s1 (crow s) (Z.min 31 (ccol s + 1)).
(* backspace: one column to the left (not from column 1), erasing the cell arrived at *)
Definition back (s : scr) : scr :=
  if ccol s =? 0 then s else
  let c := ccol s - 1 in
  set_pos (set_cur_mem s (cell_set (cur_mem s) (crow s) c blank)) (crow s) c.
Fixpoint blank_from (c : nat) (l : list cell) : list cell :=
  match l, c with [], _ => [] | _ :: l', O => blank :: blank_from O l' | x :: l', S k => x :: blank_from k l' end.
(* roll-up window of depth n with base row b: rows b-n+1 .. b *)
Definition in_window (b n r : Z) : bool := (b - n <? r) && (r <=? b).
Fixpoint rows_from (k : nat) (r : Z) (f : Z -> list cell) : mem :=
  match k with O => [] | S k' => f r :: rows_from k' (r + 1) f end.
Definition mem_of (f : Z -> list cell) : mem := rows_from 15 1 f.
(* keep only the window *)
Definition trim_window (m : mem) (b n : Z) : mem := mem_of (fun r => if in_window b n r then row_get m r else blank_row).
(* move the window so that its base row becomes b' *)
Definition move_window (m : mem) (b n b' : Z) : mem :=
  mem_of (fun r => if in_window b' n r then row_get m (r - b' + b) else blank_row).
(* carriage return: every row of the window moves up one row, the top row is lost, the base row is cleared *)
Definition roll (m : mem) (b n : Z) : mem :=
  mem_of (fun r => if in_window b n r then (if r =? b then blank_row else row_get m (r + 1)) else row_get m r).

Definition kRCL := 0.  Definition kBS := 1.  Definition kDER := 4.  Definition kRU2 := 5.  Definition kRU3 := 6.
Definition kRU4 := 7.  Definition kRDC := 9.  Definition kEDM := 12.  Definition kCR := 13.  Definition kENM := 14.
Definition kEOC := 15.  Definition kTO1 := 16.

(* miscellaneous control codes (CTA-608-E Table 52; receiver behaviour 47 CFR 15.119(f)) *)
Definition control (v : dev) (s : scr) (code : Z) : scr :=
  if code =? kRCL then set_md s PopOn
  else if code =? kRDC then set_md s PaintOn
  else if (kRU2 <=? code) && (code <=? kRU4) then
    let n := code - kRU2 + 2 in
    match md s with
    | RollUp _ => set_md (set_disp s (trim_window (disp s) (crow s) n)) (RollUp n)
    | _ => set_pos (set_md (set_nond (set_disp s mem0) mem0) (RollUp n)) 15 0      (* 15.119(f)(1)(ii), (iii) *)
    end
  else if code =? kCR then
    match md s with
    | RollUp n => set_pos (set_disp s (roll (disp s) (crow s) n)) (crow s) 0
    | _ => if v_cr_erases v then set_disp s mem0 else s
    end
  else if code =? kBS then back s
  else if code =? kDER then
    set_cur_mem s (row_set (cur_mem s) (crow s) (blank_from (Z.to_nat (ccol s)) (row_get (cur_mem s) (crow s))))
  else if code =? kEDM then set_disp s mem0
  else if code =? kENM then set_nond s mem0
  else if code =? kEOC then set_md (set_nond (set_disp s (nond s)) (disp s)) PopOn
  else if (kTO1 <=? code) && (code <=? kTO1 + 2) then set_pos s (crow s) (Z.min 31 (ccol s + (code - kTO1 + 1)))
  else s.

(* preamble address code: row, and either an indent (white, no italics) or a colour / italics; underline flag.
   In roll-up mode the PAC's row becomes the base row and the window moves with it (15.119(f)(1)(iii)). *)
Definition pac (v : dev) (s : scr) (d : dec) : scr :=
  let r := d_row d in
  let c := if d_indent d =? -1 then 0 else d_indent d in
  let s1 := set_pen s (if d_color d =? -1 then white else d_color d) (d_italic d) (d_under d) in
  match md s with
  | RollUp n =>
      if v_base15 v then
        if (5 <=? r) && (r <=? 11) then set_pos (set_disp s (move_window (disp s) (crow s) n 15)) 15 0
        else set_pos (set_disp s1 (move_window (disp s1) (crow s1) n 15)) 15 c
      else
        let r' := Z.max r n in
        set_pos (set_disp s1 (move_window (disp s1) (crow s1) n r')) r' c
  | PaintOn => if v_pac_clears v then set_pos (set_disp s1 (row_set (disp s1) r blank_row)) r c else set_pos s1 r c
  | PopOn => set_pos s1 r c
  end.
(* mid-row code: occupies one cell shown as a space, then changes the pen: a colour code ends italics, the
   italics code keeps the colour; the underline flag is set by every code *)
Definition midrow (v : dev) (s : scr) (d : dec) : scr :=
  let s1 := put s 32 in
  if d_italic d then set_pen s1 (pcol s1) true (d_under d)
  else set_pen s1 (d_color d) false (d_under d).

(* a channel-1 control pair that is acted upon *)
Definition act (v : dev) (s : scr) (d : dec) : scr :=
  let s1 :=
    if d_cls d =? cPac then pac v s d else if d_cls d =? cMidRow then midrow v s d
    else if d_cls d =? cControl then control v s (d_code d)
    else if d_cls d =? cSpecial then put s (d_t1 d)
    else if d_cls d =? cExtended then put (back s) (d_t1 d) else s in
  set_pmid s1 (d_cls d =? cMidRow).
(* is this word the second copy of a doubled control pair (section 6.4)? *)
Definition is_second_copy (s : scr) (w : Z) : bool :=
  match last s with Some pv => pv =? value w | None => false end.

Definition feed (v : dev) (s : scr) (w : Z) : scr :=
  let d := decode w in
  let x := value w in
  if d_cls d =? cPad then set_last s None
  else if d_cls d =? cChars then
    let s := set_last s None in
    if chan s =? 1 then
      let s1 := put (set_pmid s false) (d_t1 d) in if d_t2 d =? -1 then s1 else put s1 (d_t2 d)
    else s
  else if negb (d_chan d =? 1) then
    (* a control pair of the other data channel (or of no channel): data channel 1 is no longer addressed *)
    let s := set_last s (if is_second_copy s w then None else Some x) in
    if d_chan d =? 2 then set_chan s 2 else s
  else if is_second_copy s w then set_last s None
  else act v (set_chan (set_last s (Some x)) 1) d.

(* ------------------------------------------------------------------ what is seen: rows of styled characters *)
Definition is_blank (c : cell) : bool := (ce_ch c =? -1) || (ce_ch c =? 32).
Fixpoint drop_blank (l : list cell) : list cell := match l with c :: l' => if is_blank c then drop_blank l' else l | [] => [] end.
Definition trim (l : list cell) : list cell := rev (drop_blank (rev (drop_blank l))).
Definition vrows := list (Z * list cell).
Fixpoint rows_of_mem_from (m : mem) (r : Z) : vrows :=
  match m with
  | [] => []
  | x :: m' => match trim x with [] => rows_of_mem_from m' (r + 1) | t => (r, t) :: rows_of_mem_from m' (r + 1) end
  end.
Definition rows_of_mem (m : mem) : vrows := rows_of_mem_from m 1.
(* equality of what is seen: the same characters (a transparent cell inside a row is a space); colour,
   italics and underline are compared on the visible characters *)
Definition cell_eqb (a b : cell) : bool :=
  if is_blank a then is_blank b
  else (ce_ch a =? ce_ch b) && (ce_col a =? ce_col b) && Bool.eqb (ce_ita a) (ce_ita b) && Bool.eqb (ce_und a) (ce_und b).
Fixpoint cells_eqb (a b : list cell) : bool :=
  match a, b with [], [] => true | x :: a', y :: b' => cell_eqb x y && cells_eqb a' b' | _, _ => false end.
Fixpoint vrows_eqb (a b : vrows) : bool :=
  match a, b with
  | [], [] => true
  | (r1, x) :: a', (r2, y) :: b' => (r1 =? r2) && cells_eqb x y && vrows_eqb a' b'
  | _, _ => false
  end.
(* weaker views used to delimit recorded findings: characters only; characters in row order without the row numbers *)
Definition cell_chars_eqb (a b : cell) : bool := if is_blank a then is_blank b else ce_ch a =? ce_ch b.
Fixpoint cells_chars_eqb (a b : list cell) : bool :=
  match a, b with [], [] => true | x :: a', y :: b' => cell_chars_eqb x y && cells_chars_eqb a' b' | _, _ => false end.
Fixpoint vrows_chars_eqb (a b : vrows) : bool :=
  match a, b with
  | [], [] => true
  | (r1, x) :: a', (r2, y) :: b' => (r1 =? r2) && cells_chars_eqb x y && vrows_chars_eqb a' b'
  | _, _ => false
  end.
Fixpoint vrows_order_eqb (a b : vrows) : bool :=
  match a, b with
  | [], [] => true
  | (_, x) :: a', (_, y) :: b' => cells_chars_eqb x y && vrows_order_eqb a' b'
  | _, _ => false
  end.

(* ------------------------------------------------------------------ the document rendered to rows *)
(* a region whose origin is y percent of a root container of 19 rows starts at cell row round(19 y / 100);
   the safe area starts two cells below the top, so caption row 1 is cell row 2 *)
Definition row_of_pct (y : Z) : Z := (y * 19 + 50) / 100 - 2 + 1.
Definition cells_of_span (st : tstyle) (tx : text) : list cell :=
  map (fun ch => mkCell ch (if ts_color st =? -1 then white else ts_color st) (ts_italic st) (ts_under st)) tx.
(* the lines of a paragraph at time t (seconds): spans whose own begin (relative to the paragraph) has passed *)
Fixpoint lines_of (pb t : Q) (cs : list childq) (cur : list cell) : list (list cell) :=
  match cs with
  | [] => [cur]
  | QBr :: cs' => cur :: lines_of pb t cs' []
  | QSpan b st tx :: cs' =>
      let vis := match b with Some sb => Qle_bool (Qplus pb sb) t | None => true end in
      lines_of pb t cs' (if vis then cur ++ cells_of_span st tx else cur)
  end.
Fixpoint number_rows (r : Z) (ls : list (list cell)) : vrows :=
  match ls with
  | [] => []
  | l :: ls' => match trim l with [] => number_rows (r + 1) ls' | x => (r, x) :: number_rows (r + 1) ls' end
  end.
Fixpoint find_reg (rs : list region) (id : Z * Z) : option region :=
  match rs with [] => None | r :: rs' => if (r_kind r =? fst id) && (r_num r =? snd id) then Some r else find_reg rs' id end.
Definition active (p : pq) (t : Q) : bool :=
  match q_begin p with Some b => Qle_bool b t | None => true end &&
  match q_end p with Some e => negb (Qle_bool e t) | None => true end.
Definition nlen {A} (l : list A) : Z := Z.of_nat (length l).
Definition rows_of_p (rs : list region) (p : pq) (t : Q) : vrows :=
  match find_reg rs (q_region p) with
  | None => [(-1, [])]
  | Some r =>
      let ls := lines_of (match q_begin p with Some b => b | None => 0%Q end) t (q_children p) [] in
      (* displayAlign after: the last line sits on the last row of the region (height round(19 h / 100) rows) *)
      let first := if r_after r then row_of_pct (r_oy r) + (r_eh r * 19 + 50) / 100 - nlen ls else row_of_pct (r_oy r) in
      number_rows first ls
  end.
(* rows of all active paragraphs in row order (paragraphs on the same row stay separate entries) *)
Fixpoint rinsert (x : Z * list cell) (l : vrows) : vrows :=
  match l with [] => [x] | y :: l' => if fst y <=? fst x then y :: rinsert x l' else x :: l end.
Definition rows_of_doc (d : doc) (t : Q) : vrows :=
  match d with
  | DocErr => [(-2, [])]
  | Doc rs ps => fold_left (fun acc p => if active p t then fold_left (fun a x => rinsert x a) (rows_of_p rs p t) acc else acc) ps []
  end.

(* ------------------------------------------------------------------ time: lines, frames, windows *)
(* an SCC line: drop-frame flag, the fields of its time code, its words *)
Record sline := mkSL { sl_df : bool ; sl_h : Z ; sl_m : Z ; sl_s : Z ; sl_f : Z ; sl_words : list Z }.
(* SMPTE ST 12-1 frame count of a time code address at nominal 30 fps; in drop-frame counting two addresses are
   skipped at the start of every minute that is not a multiple of ten *)
Definition frame_of (l : sline) : Z :=
  let tm := 60 * sl_h l + sl_m l in
  (tm * 60 + sl_s l) * 30 + sl_f l - (if sl_df l then 2 * (tm - tm / 10) else 0).
(* the instant at which frame n starts: n / 30 s, or n * 1001 / 30000 s in drop-frame (29.97 fps) material *)
Definition time_of (df : bool) (n : Z) : Q := if df then Qmake (n * 1001) 30000 else Qmake n 30.

(* the display after the words received before frame f: word i of a line at frame T is received at T+i+1 *)
Fixpoint feed_until (v : dev) (s : scr) (F f : Z) (ws : list Z) : scr :=
  match ws with [] => s | w :: ws' => if F <? f then feed_until v (feed v s w) (F + 1) f ws' else s end.
Definition screen_state (v : dev) (ls : list sline) (f : Z) : scr :=
  fold_left (fun s l => feed_until v s (frame_of l) f (sl_words l)) ls scr0.
(* the reference display at frame f *)
Definition screen (ls : list sline) (f : Z) : vrows := rows_of_mem (disp (screen_state dev0 ls f)).

(* a window: frames lo..hi during which the display may be any of `states` (in order) or what it was before *)
Record win := mkWin { w_lo : Z ; w_hi : Z ; w_states : list vrows }.
(* one line: the display-changing words, with the number of second copies of doubled codes seen before them in
   the line.  Result: final state, last display, windows (most recent first). *)
Fixpoint line_wins (v : dev) (ext : bool) (s : scr) (F : Z) (ws : list Z) (prev : vrows) (dups : Z) (acc : list win)
  : scr * vrows * list win :=
  match ws with
  | [] => (s, prev, acc)
  | w :: ws' =>
      let s' := feed v s w in
      let now := rows_of_mem (disp s') in
      let d := decode w in
      let second := negb (d_cls d =? cPad) && negb (d_cls d =? cChars) && (d_chan d =? 1) && is_second_copy s w in
      let dups' := if second then dups + 1 else dups in
      if vrows_eqb prev now then line_wins v ext s' (F + 1) ws' prev dups' acc
      else line_wins v ext s' (F + 1) ws' now dups' (mkWin (if ext then F - dups else F) (F + 2) [now] :: acc)
  end.
(* S_word windows (ext = false) and the same windows extended to the left by the frames the reader does not
   count for the second copy of a doubled control code (ext = true) *)
Definition word_wins (v : dev) (ext : bool) (ls : list sline) : list win :=
  let '(_, _, acc) := fold_left (fun '(s, prev, acc) l => line_wins v ext s (frame_of l) (sl_words l) prev 0 acc) ls (scr0, [], []) in
  rev acc.
(* S_line windows: one per line that changes the display, [T, T+len+1], with the displays reached during the line *)
Definition line_win (v : dev) (ls : list sline) : list win :=
  let '(_, _, acc) :=
    fold_left (fun '(s, prev, acc) l =>
                 let '(s', prev', ws) := line_wins v false s (frame_of l) (sl_words l) prev 0 [] in
                 match ws with
                 | [] => (s', prev', acc)
                 | _ => (s', prev', mkWin (frame_of l) (frame_of l + nlen (sl_words l) + 1) (flat_map w_states (rev ws)) :: acc)
                 end) ls (scr0, [], []) in
  rev acc.
(* overlapping or touching windows form a chain *)
Fixpoint chains (cur : option win) (ws : list win) : list win :=
  match ws with
  | [] => match cur with Some c => [c] | None => [] end
  | w :: ws' =>
      match cur with
      | None => chains (Some w) ws'
      | Some c => if w_lo w <=? w_hi c then chains (Some (mkWin (Z.min (w_lo c) (w_lo w)) (Z.max (w_hi c) (w_hi w)) (w_states c ++ w_states w))) ws'
                  else c :: chains (Some w) ws'
      end
  end.
Fixpoint last_state (d : vrows) (l : list vrows) : vrows := match l with [] => d | x :: l' => last_state x l' end.
(* what the document may show at frame f: exactly `cur` outside the chains, any display of the chain (or the one
   before it) inside *)
Fixpoint accepts (eq : vrows -> vrows -> bool) (cs : list win) (cur : vrows) (f : Z) (seen : vrows) : bool :=
  match cs with
  | [] => eq cur seen
  | c :: cs' =>
      if f <? w_lo c then eq cur seen
      else if f <=? w_hi c then eq cur seen || existsb (fun x => eq x seen) (w_states c)
      else accepts eq cs' (last_state cur (w_states c)) f seen
  end.
Fixpoint frames_from (k : nat) (f : Z) : list Z := match k with O => [] | S k' => f :: frames_from k' (f + 1) end.
(* the frames examined: around every line, from 3 frames before its time code to 6 frames after its last word
   (the document cannot change elsewhere: every begin / end is a stamp T+1 .. T+len+1 of some line, Properties/C08.v
   C08_stamps), and 40 more frames after the last line *)
Definition frame_range (ls : list sline) : list Z :=
  flat_map (fun l => frames_from (Z.to_nat (nlen (sl_words l) + 10)) (frame_of l - 3)) ls ++
  match rev ls with [] => [] | l :: _ => frames_from 34 (frame_of l + nlen (sl_words l) + 7) end.
(* first frame at which the document is not accepted (None: accepted at every frame) *)
Fixpoint first_bad (eq : vrows -> vrows -> bool) (cs : list win) (seen : list (Z * vrows)) : option Z :=
  match seen with
  | [] => None
  | (f, x) :: seen' => if accepts eq cs [] f x then first_bad eq cs seen' else Some f
  end.
Definition seen_rows (df : bool) (d : doc) (fs : list Z) : list (Z * vrows) := map (fun f => (f, rows_of_doc d (time_of df f))) fs.

(* the oracles, parametrised by the deviations admitted (dev0: none), the window granularity
   (0: S_word, 1: S_word with the windows extended by the uncounted second copies, 2: S_line) and the view
   compared (0: rows, characters and attributes; 1: rows and characters; 2: characters in row order) *)
Definition wins_of (v : dev) (gran : Z) (ls : list sline) : list win :=
  chains None (if gran =? 0 then word_wins v false ls else if gran =? 1 then word_wins v true ls else line_win v ls).
Definition view_eqb (view : Z) : vrows -> vrows -> bool :=
  if view =? 0 then vrows_eqb else if view =? 1 then vrows_chars_eqb else vrows_order_eqb.
Definition oracle (v : dev) (gran view : Z) (ls : list sline) (seen : list (Z * vrows)) : option Z :=
  first_bad (view_eqb view) (wins_of v gran ls) seen.
(* the property as stated: the standard, one window per display-changing word, everything compared *)
Definition S_word (ls : list sline) (df : bool) (d : doc) : option Z := oracle dev0 0 0 ls (seen_rows df d (frame_range ls)).
Definition S_line (ls : list sline) (df : bool) (d : doc) : option Z := oracle dev0 2 0 ls (seen_rows df d (frame_range ls)).

(* ------------------------------------------------------------------ triggers of the recorded findings *)
(* Executable predicates on the stream saying where a recorded deviation can show.  They are evaluated on the
   run of the decoder with all deviations admitted (the run the reader follows). *)
Definition tDUP := 1.        (* a second copy of a doubled pair precedes a display-changing word of its line *)
Definition tLATE := 4.       (* roll-up / paint-on: characters, mid-row code or backspace changing the display without directly
                                following the CR (roll-up) / PAC (paint-on) that opened their paragraph *)
Definition tBASE := 8.       (* roll-up PAC for a row other than 15 *)
Definition tCLEAR := 32.     (* paint-on PAC for a row that shows something *)
Definition tNEGCUR := 512.   (* pop-on / paint-on PAC for a row that already holds text, without indent (colour / italics PAC) or
                                to the left of that text *)
Definition tROW0 := 2048.    (* roll-up characters after EDM with no PAC / RUx in between *)
Definition tOVER := 4096.    (* a character is stored over a cell that already shows one, or a pop-on / paint-on PAC puts the cursor
                                on or directly behind the text of its row *)
Definition tCR := 8192.      (* carriage return outside roll-up mode while something is displayed *)
Definition row_blank (m : mem) (r : Z) : bool := forallb is_blank (row_get m r).
Definition bor (a b : Z) : Z := Z.lor a b.
Fixpoint first_col (l : list cell) (c : Z) : Z := match l with [] => -1 | x :: l' => if is_blank x then first_col l' (c + 1) else c end.
Fixpoint last_col (l : list cell) (c : Z) (acc : Z) : Z := match l with [] => acc | x :: l' => last_col l' (c + 1) (if is_blank x then acc else c) end.
(* bookkeeping of the trigger scan: words since the CR (roll-up) / PAC (paint-on) that opened the paragraph;
   no character since the last PAC / mid-row code; no caption being displayed since an EDM *)
Record tstate := mkTst { g_gap : Z ; g_fresh : bool ; g_noact : bool }.
(* one word: flags raised by it and the new bookkeeping *)
Definition word_triggers (s : scr) (w : Z) (g : tstate) : Z * tstate :=
  let d := decode w in
  let gap := g_gap g in let fresh := g_fresh g in let noact := g_noact g in
  let direct := match md s with PopOn => false | _ => true end in
  if d_cls d =? cPad then (0, mkTst (gap + 1) fresh noact)
  else if d_cls d =? cChars then
    if chan s =? 1 then
      let r0 := match md s with RollUp _ => if noact then tROW0 else 0 | _ => 0 end in
      let cell_at c := nth (Z.to_nat c) (row_get (cur_mem s) (crow s)) blank in
      let ov := if negb (is_blank (cell_at (ccol s))) || (negb (d_t2 d =? -1) && negb (is_blank (cell_at (ccol s + 1)))) then tOVER else 0 in
      (bor r0 ov, mkTst (gap + 1) false (if direct then false else noact))
    else (0, mkTst (gap + 1) fresh noact)
  else if negb (d_chan d =? 1) then (0, mkTst (gap + 1) fresh noact)
  else if is_second_copy s w then (0, g)
  else
    let c := d_cls d in
    let code := d_code d in
    if c =? cPac then
      let base := match md s with RollUp _ => if d_row d =? 15 then 0 else tBASE | _ => 0 end in
      let clr := match md s with PaintOn => if row_blank (disp s) (d_row d) then 0 else tCLEAR | _ => 0 end in
      let row := row_get (cur_mem s) (d_row d) in
      let col := if d_indent d =? -1 then 0 else d_indent d in
      let pos := match md s with
                 | RollUp _ => 0
                 | _ => if forallb is_blank row then 0
                        else bor (if (d_indent d =? -1) || (col <? first_col row 0) then tNEGCUR else 0)
                                 (* the cursor lands on the text of the row or directly behind it: what is written next joins the
                                    text element that is there and shares its attributes *)
                                 (if col <=? last_col row 0 (-1) + 1 then tOVER else 0)
                 end in
      (bor (bor base clr) pos, mkTst (match md s with PaintOn => 0 | _ => gap + 1 end) true (if direct then false else noact))
    else if c =? cMidRow then
      (0, mkTst (gap + 1) true noact)
    else if c =? cControl then
      if code =? kCR then
        ((match md s with RollUp _ => 0 | _ => if forallb (fun r => forallb is_blank r) (disp s) then 0 else tCR end),
         mkTst (match md s with RollUp _ => 0 | _ => gap + 1 end) fresh (match md s with RollUp _ => noact | _ => true end))
      else if code =? kDER then
        (0, mkTst (gap + 1) fresh noact)
      else if code =? kEDM then (0, mkTst (gap + 1) fresh true)
      else if (code =? kEOC) || ((kRU2 <=? code) && (code <=? kRU4)) then (0, mkTst (gap + 1) fresh false)
      else (0, mkTst (gap + 1) fresh noact)
    else if (c =? cSpecial) || (c =? cExtended) then
      (bor (match md s with RollUp _ => if noact then tROW0 else 0 | _ => 0 end)
           (if negb (is_blank (nth (Z.to_nat (ccol s)) (row_get (cur_mem s) (crow s)) blank)) && (c =? cSpecial) then tOVER else 0),
       mkTst (gap + 1) false (if direct then false else noact))
    else (0, mkTst (gap + 1) fresh noact).
Fixpoint line_triggers (s : scr) (ws : list Z) (g : tstate) (dups : Z) (prev : vrows) (acc : Z)
  : scr * tstate * vrows * Z :=
  match ws with
  | [] => (s, g, prev, acc)
  | w :: ws' =>
      let '(fl, g') := word_triggers s w g in
      let d := decode w in
      let second := negb (d_cls d =? cPad) && negb (d_cls d =? cChars) && (d_chan d =? 1) && is_second_copy s w in
      let s' := feed dev_all s w in
      let now := rows_of_mem (disp s') in
      let changed := negb (vrows_eqb prev now) in
      let fl := if changed && (0 <? dups) then bor fl tDUP else fl in
      (* roll-up / paint-on: a change of the display by characters, a mid-row code or a backspace that do not directly
         follow the code that opened the paragraph *)
      let direct := match md s with PopOn => false | _ => true end in
      let textual := (d_cls d =? cChars) || (d_cls d =? cSpecial) || (d_cls d =? cExtended) || (d_cls d =? cMidRow) ||
                     ((d_cls d =? cControl) && (d_code d =? kBS)) in
      let fl := if changed && direct && textual && (0 <? g_gap g) then bor fl tLATE else fl in
      line_triggers s' ws' g' (if second then dups + 1 else dups) now (bor acc fl)
  end.
Definition triggers (ls : list sline) : Z :=
  let '(_, _, _, acc) :=
    fold_left (fun '(s, g, prev, acc) l => line_triggers s (sl_words l) (mkTst (g_gap g + 100) (g_fresh g) (g_noact g)) 0 prev acc)
              ls (scr0, mkTst 100 false true, [], 0) in
  acc.
