(* S for C05: what "writing a document as IMSC and reading it back presents identically" requires of the values
   that go through the file, written from the property statement; it shares no code with the models.

   * times: a time that is representable in the chosen syntax (a multiple of 1 ms for clock time, of one frame for the
     frame syntaxes) is reproduced exactly; any other time moves by less than one unit; order is never changed;
   * values: text, keywords and integers are reproduced exactly; numbers agree to the written precision of six
     significant digits (relative error at most 5e-6).
   A value is given as the flat list of its atoms (the harness flattens original and re-read values the same way). *)
From TT Require Import Base.Prelude.
From Coq Require Import QArith Qabs.
Local Open Scope Z_scope.

Inductive syntax := Clock | Frames | ClockFrames.

(* the unit of the syntax *)
Definition unit_of (syn : syntax) (fps : Q) : Q :=
  match syn with Clock => (1 # 1000)%Q | _ => (1 / fps)%Q end.

(* t is an integral number of units *)
Definition representable (u t : Q) : bool := Zpos (Qden (Qred (t / u))) =? 1.

Definition Qlt_bool (a b : Q) : bool := negb (Qle_bool b a).

(* a written-and-re-read time t' for t *)
Definition time_ok (syn : syntax) (fps : Q) (t t' : Q) : bool :=
  let u := unit_of syn fps in
  if representable u t then Qeq_bool t' t else Qlt_bool (Qabs (t' - t)) u.

(* order: t1 <= t2 implies t1' <= t2', for every pair *)
Fixpoint order_ok_with (p : Q * Q) (l : list (Q * Q)) : bool :=
  match l with
  | [] => true
  | q :: l' =>
      (if Qle_bool (fst p) (fst q) then Qle_bool (snd p) (snd q) else true) &&
      (if Qle_bool (fst q) (fst p) then Qle_bool (snd q) (snd p) else true) && order_ok_with p l'
  end.
Fixpoint order_ok (l : list (Q * Q)) : bool :=
  match l with [] => true | p :: l' => order_ok_with p l' && order_ok l' end.

(* numbers to six significant digits *)
Definition close6 (a b : Q) : bool := Qle_bool (Qabs (a - b) * inject_Z 1000000) (inject_Z 5 * Qabs a).

Inductive atom := AI (n : Z) | AQ (q : Q) | AT (t : text).
Definition atom_ok (a b : atom) : bool :=
  match a, b with
  | AI x, AI y => x =? y
  | AQ x, AQ y => close6 x y
  | AI x, AQ y => close6 (inject_Z x) y
  | AQ x, AI y => close6 x (inject_Z y)
  | AT x, AT y => text_eqb x y
  | _, _ => false
  end.
Fixpoint atoms_ok (a b : list atom) : bool :=
  match a, b with
  | [], [] => true
  | x :: a', y :: b' => atom_ok x y && atoms_ok a' b'
  | _, _ => false
  end.
