(* S for C10: the SubRip cue grammar as abstract syntax, its meaning (`cues`) and its concrete syntax
   (`print_file`).  Written from the property statement and the SubRip conventions
   (counter line / "HH..:MM:SS,mmm --> HH..:MM:SS,mmm", hours of two or more digits / 1..n text lines / blank line;
   <b> <i> <u> <font color=..> and the brace forms {b} {i} {u} {bold} {italic} {underline}); shares no code with
   Model/SrtReader.v (own digit printing, own white-space and colour tables).

   The property reads:  reading `print_file f` gives exactly `cues f`:
   one cue per `cue_src`, begin/end = h*3600 + m*60 + s + ms/1000 as exact rationals, the
   characters of the payload in order with a line break where the payload has one, each character
   carrying exactly the styles of the tags that enclose it; the counter text, the number and
   content of blank lines, the width of the hour field, the white space around "-->" and the line
   terminator do not occur in `cues f` at all (that is the "tolerated" clause). *)
From TT Require Import Base.Prelude Base.SrtTypes.
From Coq Require Import QArith.
Local Open Scope Z_scope.

(* ------------------------------------------------------------------ abstract syntax *)
Inductive syn := AngleShort | AngleLong | AngleUpper | BraceLong | BraceShort.
Inductive tagk := KB | KI | KU.
Inductive quoting := QDouble | QSingle | QBare.
Inductive colspec :=
| CHex6 (r g b : Z) (upper : bool)           (* #rrggbb *)
| CHex8 (r g b a : Z) (upper : bool)         (* #rrggbbaa *)
| CNamed (i : nat) (upper : bool).           (* i-th entry of spec_colors *)
Inductive cref := RAmp | RLt | RGt | RQuot | RNbsp | RDec (n : Z) | RHex (n : Z).

Inductive node :=
| NChar (c : Z)
| NRef (r : cref)
| NBreak
| NTag (k : tagk) (sy : syn) (body : list node)
| NFont (c : colspec) (q : quoting) (body : list node)
| NStray (k : tagk) (sy : syn).              (* a closing tag that closes nothing: encloses nothing *)

(* k_hw: the number of digits the hour field is written with (leading zeros as needed) *)
Record clock := mkClock { k_h : Z; k_hw : nat; k_m : Z; k_s : Z; k_ms : Z }.

Record cue_src := mkCue {
  c_counter : text;        (* the counter line (without terminator) *)
  c_begin : clock;
  c_ws1 : text;            (* white space before "-->" *)
  c_ws2 : text;            (* white space after "-->" *)
  c_end : clock;
  c_tail : text;           (* rest of the timing line (coordinates etc.) *)
  c_payload : list node;
  c_blank : list text      (* the blank lines that follow, each without terminator *)
}.
Record file_src := mkFile { f_lead : list text; f_cues : list cue_src; f_crlf : bool; f_final_eol : bool }.

(* ------------------------------------------------------------------ tables of S *)
(* TTML / CSS named colours *)
Definition spec_colors : list (text * rgba) := [
  ([116;114;97;110;115;112;97;114;101;110;116], (0, 0, 0, 0));       (* transparent *)
  ([98;108;97;99;107], (0, 0, 0, 255));                              (* black *)
  ([115;105;108;118;101;114], (192, 192, 192, 255));                 (* silver *)
  ([103;114;97;121], (128, 128, 128, 255));                          (* gray *)
  ([119;104;105;116;101], (255, 255, 255, 255));                     (* white *)
  ([109;97;114;111;111;110], (128, 0, 0, 255));                      (* maroon *)
  ([114;101;100], (255, 0, 0, 255));                                 (* red *)
  ([112;117;114;112;108;101], (128, 0, 128, 255));                   (* purple *)
  ([102;117;99;104;115;105;97], (255, 0, 255, 255));                 (* fuchsia *)
  ([109;97;103;101;110;116;97], (255, 0, 255, 255));                 (* magenta *)
  ([103;114;101;101;110], (0, 128, 0, 255));                         (* green *)
  ([108;105;109;101], (0, 255, 0, 255));                             (* lime *)
  ([111;108;105;118;101], (128, 128, 0, 255));                       (* olive *)
  ([121;101;108;108;111;119], (255, 255, 0, 255));                   (* yellow *)
  ([110;97;118;121], (0, 0, 128, 255));                              (* navy *)
  ([98;108;117;101], (0, 0, 255, 255));                              (* blue *)
  ([116;101;97;108], (0, 128, 128, 255));                            (* teal *)
  ([97;113;117;97], (0, 255, 255, 255));                             (* aqua *)
  ([99;121;97;110], (0, 255, 255, 255))].                            (* cyan *)

(* white space: Unicode White_Space plus the information separators U+001C..U+001F *)
Definition ws_char (c : Z) : bool :=
  ((9 <=? c) && (c <=? 13)) || ((28 <=? c) && (c <=? 32)) || (c =? 133) || (c =? 160) || (c =? 5760)
  || ((8192 <=? c) && (c <=? 8202)) || (c =? 8232) || (c =? 8233) || (c =? 8239) || (c =? 8287) || (c =? 12288).
Definition blank_char (c : Z) : bool := (c =? 32) || (c =? 9).

(* ------------------------------------------------------------------ meaning *)
Definition clock_seconds (k : clock) : Q :=
  Qred (Qmake ((k_h k * 3600 + k_m k * 60 + k_s k) * 1000 + k_ms k) 1000).

Definition colspec_rgba (c : colspec) : rgba :=
  match c with
  | CHex6 r g b _ => (r, g, b, 255)
  | CHex8 r g b a _ => (r, g, b, a)
  | CNamed i _ => snd (nth i spec_colors ([], (0, 0, 0, 0)))
  end.
Definition cref_char (r : cref) : Z :=
  match r with RAmp => 38 | RLt => 60 | RGt => 62 | RQuot => 34 | RNbsp => 160 | RDec n => n | RHex n => n end.

Definition with_tag (k : tagk) (s : sstyle) : sstyle :=
  match k with
  | KB => mkSt true (st_i s) (st_u s) (st_c s)
  | KI => mkSt (st_b s) true (st_u s) (st_c s)
  | KU => mkSt (st_b s) (st_i s) true (st_c s)
  end.
Definition with_color (c : rgba) (s : sstyle) : sstyle := mkSt (st_b s) (st_i s) (st_u s) (Some c).

Fixpoint items (s : sstyle) (n : node) : list item :=
  match n with
  | NChar c => [Ch c s]
  | NRef r => [Ch (cref_char r) s]
  | NBreak => [Brk]
  | NTag k _ body =>
      (fix go (l : list node) : list item :=
         match l with [] => [] | x :: l' => items (with_tag k s) x ++ go l' end) body
  | NFont c _ body =>
      (fix go (l : list node) : list item :=
         match l with [] => [] | x :: l' => items (with_color (colspec_rgba c) s) x ++ go l' end) body
  | NStray _ _ => []
  end.
Fixpoint items_list (s : sstyle) (l : list node) : list item :=
  match l with [] => [] | x :: l' => items s x ++ items_list s l' end.

Definition cue_of (c : cue_src) : cue :=
  (clock_seconds (c_begin c), clock_seconds (c_end c), items_list st0 (c_payload c)).
Definition cues (f : file_src) : list cue := map cue_of (f_cues f).

(* the value of a printed time, digit by digit (positional notation), for the exactness clause:
   begin = h*3600 + m*60 + s + ms/1000 as a rational, whatever the digits are *)
Fixpoint dec_value (ds : text) : Z :=
  match ds with
  | [] => 0
  | d :: r => (d - 48) * 10 ^ Z.of_nat (length r) + dec_value r
  end.
Definition printed_seconds (h m s ms : text) : Q :=
  Qplus (inject_Z (dec_value h * 3600 + dec_value m * 60 + dec_value s)) (Qmake (dec_value ms) 1000).
Definition dec_digits (ds : text) : bool := forallb (fun c => (48 <=? c) && (c <=? 57)) ds.

(* ------------------------------------------------------------------ concrete syntax *)
Definition dig (n : Z) : Z := 48 + n.
Definition pad2 (n : Z) : text := [dig (n / 10); dig (n mod 10)].
Definition pad3 (n : Z) : text := [dig (n / 100); dig ((n / 10) mod 10); dig (n mod 10)].
(* n in w digits, most significant first *)
Fixpoint padn (w : nat) (n : Z) : text :=
  match w with O => [] | S k => padn k (n / 10) ++ [dig (n mod 10)] end.
Definition print_clock (k : clock) : text :=
  padn (k_hw k) (k_h k) ++ [58] ++ pad2 (k_m k) ++ [58] ++ pad2 (k_s k) ++ [44] ++ pad3 (k_ms k).

Definition hexdig (upper : bool) (n : Z) : Z := if n <? 10 then 48 + n else (if upper then 55 else 87) + n.
Definition hex2 (upper : bool) (n : Z) : text := [hexdig upper (n / 16); hexdig upper (n mod 16)].
Definition upcase (c : Z) : Z := if (97 <=? c) && (c <=? 122) then c - 32 else c.
Definition print_colspec (c : colspec) : text :=
  match c with
  | CHex6 r g b u => 35 :: hex2 u r ++ hex2 u g ++ hex2 u b
  | CHex8 r g b a u => 35 :: hex2 u r ++ hex2 u g ++ hex2 u b ++ hex2 u a
  | CNamed i u => let n := fst (nth i spec_colors ([], (0, 0, 0, 0))) in if u then map upcase n else n
  end.

(* decimal / hexadecimal digits of a non-negative number, most significant first (fuel = digits) *)
Fixpoint digits_fuel (fuel : nat) (base : Z) (n : Z) (acc : text) : text :=
  match fuel with
  | O => acc
  | S k => let d := n mod base in
           let ch := if d <? 10 then 48 + d else 87 + d in
           if n / base =? 0 then ch :: acc else digits_fuel k base (n / base) (ch :: acc)
  end.
Definition print_cref (r : cref) : text :=
  match r with
  | RAmp => [38;97;109;112;59]
  | RLt => [38;108;116;59]
  | RGt => [38;103;116;59]
  | RQuot => [38;113;117;111;116;59]
  | RNbsp => [38;110;98;115;112;59]
  | RDec n => [38;35] ++ digits_fuel 8 10 n [] ++ [59]
  | RHex n => [38;35;120] ++ digits_fuel 8 16 n [] ++ [59]
  end.

Definition tag_name (k : tagk) (sy : syn) : text :=
  match k, sy with
  | KB, (AngleShort | BraceShort) => [98]
  | KI, (AngleShort | BraceShort) => [105]
  | KU, (AngleShort | BraceShort) => [117]
  | KB, AngleUpper => [66]
  | KI, AngleUpper => [73]
  | KU, AngleUpper => [85]
  | KB, (AngleLong | BraceLong) => [98;111;108;100]
  | KI, (AngleLong | BraceLong) => [105;116;97;108;105;99]
  | KU, (AngleLong | BraceLong) => [117;110;100;101;114;108;105;110;101]
  end.
Definition is_brace (sy : syn) : bool := match sy with BraceLong | BraceShort => true | _ => false end.
Definition open_tag (k : tagk) (sy : syn) : text :=
  (if is_brace sy then [123] else [60]) ++ tag_name k sy ++ (if is_brace sy then [125] else [62]).
Definition close_tag (k : tagk) (sy : syn) : text :=
  (if is_brace sy then [123;47] else [60;47]) ++ tag_name k sy ++ (if is_brace sy then [125] else [62]).
Definition quote_chars (q : quoting) : text := match q with QDouble => [34] | QSingle => [39] | QBare => [] end.
Definition open_font (c : colspec) (q : quoting) : text :=
  [60;102;111;110;116;32;99;111;108;111;114;61] ++ quote_chars q ++ print_colspec c ++ quote_chars q ++ [62].
Definition close_font : text := [60;47;102;111;110;116;62].

Fixpoint print_node (n : node) : text :=
  match n with
  | NChar c => [c]
  | NRef r => print_cref r
  | NBreak => [10]
  | NTag k sy body =>
      open_tag k sy ++
      (fix go (l : list node) : text := match l with [] => [] | x :: l' => print_node x ++ go l' end) body ++
      close_tag k sy
  | NFont c q body =>
      open_font c q ++
      (fix go (l : list node) : text := match l with [] => [] | x :: l' => print_node x ++ go l' end) body ++
      close_font
  | NStray k sy => close_tag k sy
  end.
Fixpoint print_nodes (l : list node) : text :=
  match l with [] => [] | x :: l' => print_node x ++ print_nodes l' end.

(* the payload as lines (split at the line breaks it contains) *)
Fixpoint split_at_lf (s : text) (cur : text) : list text :=
  match s with
  | [] => [rev cur]
  | c :: s' => if c =? 10 then rev cur :: split_at_lf s' [] else split_at_lf s' (c :: cur)
  end.
Definition payload_lines (p : list node) : list text := split_at_lf (print_nodes p) [].

Definition timing_line (c : cue_src) : text :=
  print_clock (c_begin c) ++ c_ws1 c ++ [45;45;62] ++ c_ws2 c ++ print_clock (c_end c) ++ c_tail c.
Definition cue_lines (c : cue_src) : list text :=
  c_counter c :: timing_line c :: payload_lines (c_payload c) ++ c_blank c.
Definition file_lines (f : file_src) : list text := f_lead f ++ flat_map cue_lines (f_cues f).

Definition eol (crlf : bool) : text := if crlf then [13;10] else [10].
Fixpoint join_lines (e : text) (final : bool) (ls : list text) : text :=
  match ls with
  | [] => []
  | [l] => if final then l ++ e else l
  | l :: ls' => l ++ e ++ join_lines e final ls'
  end.
Definition print_file (f : file_src) : text := join_lines (eol (f_crlf f)) (f_final_eol f) (file_lines f).

(* ------------------------------------------------------------------ the grammar's side conditions *)
Definition byte_ok (n : Z) : bool := (0 <=? n) && (n <=? 255).
(* a clock that can be written: an hour field of two or more digits that holds the hour, minutes and seconds 00-99,
   milliseconds 000-999 *)
Definition clock_shape (k : clock) : bool :=
  (2 <=? k_hw k)%nat && (0 <=? k_h k) && (k_h k <? 10 ^ Z.of_nat (k_hw k)) &&
  (0 <=? k_m k) && (k_m k <=? 99) && (0 <=? k_s k) && (k_s k <=? 99) && (0 <=? k_ms k) && (k_ms k <=? 999).
(* a clock of the files that must be read: in addition the hour field is no longer than the longest digit string the
   interpreter converts to a number (CPython: sys.get_int_max_str_digits(), 4 300 unless reconfigured) *)
Definition max_hour_digits : Z := 4300.
Definition wf_clock (k : clock) : bool := clock_shape k && (Z.of_nat (k_hw k) <=? max_hour_digits).
Definition wf_colspec (c : colspec) : bool :=
  match c with
  | CHex6 r g b _ => byte_ok r && byte_ok g && byte_ok b
  | CHex8 r g b a _ => byte_ok r && byte_ok g && byte_ok b && byte_ok a
  | CNamed i _ => Nat.ltb i (length spec_colors)
  end.
(* a literal character of the payload: not a line terminator and not one of the characters that start markup *)
Definition plain_char (c : Z) : bool :=
  (0 <? c) && (c <? 1114112) && negb ((55296 <=? c) && (c <=? 57343)) &&
  negb ((c =? 10) || (c =? 13) || (c =? 60) || (c =? 38) || (c =? 123)).
Definition wf_cref (r : cref) : bool :=
  match r with
  | RDec n | RHex n => ((32 <=? n) && (n <=? 126)) || ((160 <=? n) && (n <=? 55295))
  | _ => true
  end.
Fixpoint wf_node (n : node) : bool :=
  match n with
  | NChar c => plain_char c
  | NRef r => wf_cref r
  | NBreak => true
  | NTag _ _ body => (fix go (l : list node) : bool := match l with [] => true | x :: l' => wf_node x && go l' end) body
  | NFont c _ body => wf_colspec c && (fix go (l : list node) : bool := match l with [] => true | x :: l' => wf_node x && go l' end) body
  | NStray _ _ => true
  end.
(* A closing tag closes the innermost open element when it carries that element's name (names compare without
   regard to case, and the brace form of a name is the name).  `NStray k sy` stands for a closer that closes
   nothing, so it must not carry the name of the tag that directly encloses it - otherwise the printed text
   would also be the printed form of a different payload (<b>x</b>y</b>).  ctx = the directly enclosing b/i/u tag. *)
Definition long_syn (sy : syn) : bool := match sy with AngleLong | BraceLong => true | _ => false end.
Definition tagk_eqb (a b : tagk) : bool := match a, b with KB, KB | KI, KI | KU, KU => true | _, _ => false end.
Definition same_name (k : tagk) (sy : syn) (k' : tagk) (sy' : syn) : bool :=
  tagk_eqb k k' && Bool.eqb (long_syn sy) (long_syn sy').
Fixpoint stray_ok (ctx : option (tagk * syn)) (n : node) : bool :=
  match n with
  | NStray k sy => match ctx with Some (k', sy') => negb (same_name k sy k' sy') | None => true end
  | NTag k sy body =>
      (fix go (l : list node) : bool := match l with [] => true | x :: l' => stray_ok (Some (k, sy)) x && go l' end) body
  | NFont _ _ body =>
      (fix go (l : list node) : bool := match l with [] => true | x :: l' => stray_ok None x && go l' end) body
  | _ => true
  end.
Definition all_ws (l : text) : bool := forallb ws_char l.
Definition no_eol (l : text) : bool := forallb (fun c => negb ((c =? 10) || (c =? 13))) l.
Definition is_dec (c : Z) : bool := (48 <=? c) && (c <=? 57).
Definition wf_cue (last : bool) (c : cue_src) : bool :=
  no_eol (c_counter c) && existsb is_dec (c_counter c) &&
  wf_clock (c_begin c) && wf_clock (c_end c) &&
  negb (match c_ws1 c with [] => true | _ => false end) && forallb blank_char (c_ws1 c) &&
  negb (match c_ws2 c with [] => true | _ => false end) && forallb blank_char (c_ws2 c) &&
  no_eol (c_tail c) && (match c_tail c with [] => true | x :: _ => negb (is_dec x) end) &&
  forallb wf_node (c_payload c) && forallb (stray_ok None) (c_payload c) &&
  forallb (fun l => negb (all_ws l)) (payload_lines (c_payload c)) &&
  forallb (forallb blank_char) (c_blank c) &&
  (last || negb (match c_blank c with [] => true | _ => false end)).
Fixpoint wf_cues (l : list cue_src) : bool :=
  match l with
  | [] => true
  | [c] => wf_cue true c
  | c :: l' => wf_cue false c && wf_cues l'
  end.
Definition wf_file (f : file_src) : bool :=
  forallb (forallb blank_char) (f_lead f) && wf_cues (f_cues f).

(* sub-grammars used by the proofs *)
Definition plain_node (n : node) : bool := match n with NChar _ | NBreak => true | _ => false end.
Definition plain_file (f : file_src) : bool := forallb (fun c => forallb plain_node (c_payload c)) (f_cues f).
(* the payloads written in angle syntax only (short, long, upper case names; <font color=..>; stray closers) *)
Fixpoint angle_node (n : node) : bool :=
  match n with
  | NChar _ | NRef _ | NBreak => true
  | NTag _ sy body =>
      negb (is_brace sy) && (fix go (l : list node) : bool := match l with [] => true | x :: l' => angle_node x && go l' end) body
  | NFont _ _ body =>
      (fix go (l : list node) : bool := match l with [] => true | x :: l' => angle_node x && go l' end) body
  | NStray _ sy => negb (is_brace sy)
  end.
Definition angle_file (f : file_src) : bool := forallb (fun c => forallb angle_node (c_payload c)) (f_cues f).

(* two cues say the same thing: same clock fields (the width of the hour field is free) and same payload *)
Definition same_clock (a b : clock) : Prop := k_h a = k_h b /\ k_m a = k_m b /\ k_s a = k_s b /\ k_ms a = k_ms b.
Definition same_content (c c' : cue_src) : Prop :=
  same_clock (c_begin c) (c_begin c') /\ same_clock (c_end c) (c_end c') /\ c_payload c = c_payload c'.
