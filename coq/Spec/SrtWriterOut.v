(* S for C10, last clause ("reading the SRT writer's own output returns the cues that were written"):
   an abstract description of what ttconv's SRT writer emits, independent of the writer's model
   (Model/CueWriter.v, property C06/C07) and of the reader's model.

   A written cue is: the counter (a decimal number), begin and end as millisecond counts (the writer rounds
   every time to a millisecond multiple), and a payload made of characters, line breaks and the four tags of
   the writer's repertoire, properly nested:  <font color="#rrggbbaa"> <b> <i> <u>.
   `wprint` is the text the writer produces for a list of such cues:
       counter LF  HH:MM:SS,mmm " --> " HH:MM:SS,mmm LF  payload LF          cues separated by one empty line
   (hours with two digits, or as many as the number needs), and `wmeaning` is what the cue says: exact
   rational times and the characters in order, each with the styles of the tags that enclose it.
   Whether a concrete output of the writer is of this form is checked by harness/c10.py on every generated
   document (the output is parsed back into a `list wcue` and `wprint` of it compared with the output in Coq). *)
From TT Require Import Base.Prelude Base.SrtTypes Spec.SrtCueSpec.
From Coq Require Import QArith.
Local Open Scope Z_scope.

Inductive wnode :=
| WChar (c : Z)
| WBreak
| WFont (r g b a : Z) (body : list wnode)
| WBold (body : list wnode)
| WItalic (body : list wnode)
| WUnder (body : list wnode).

Record wcue := mkW { wc_counter : text; wc_begin : Z; wc_end : Z; wc_payload : list wnode }.

(* ------------------------------------------------------------------ what the writer prints *)
(* two digits, or as many as the number has (fuel: a number has no more decimal digits than binary ones) *)
Definition whours (h : Z) : text := if h <? 100 then pad2 h else digits_fuel (S (Z.to_nat (Z.log2 h))) 10 h [].
Definition wclock (ms : Z) : text :=
  whours (ms / 3600000) ++ [58] ++ pad2 ((ms / 60000) mod 60) ++ [58] ++ pad2 ((ms / 1000) mod 60) ++ [44] ++ pad3 (ms mod 1000).

Definition wfont_open (r g b a : Z) : text :=
  [60;102;111;110;116;32;99;111;108;111;114;61;34;35] ++ hex2 false r ++ hex2 false g ++ hex2 false b ++ hex2 false a ++ [34;62].
Fixpoint wprint_node (n : wnode) : text :=
  match n with
  | WChar c => [c]
  | WBreak => [10]
  | WFont r g b a body =>
      wfont_open r g b a ++
      (fix go (l : list wnode) : text := match l with [] => [] | x :: l' => wprint_node x ++ go l' end) body ++
      [60;47;102;111;110;116;62]
  | WBold body =>
      [60;98;62] ++ (fix go (l : list wnode) : text := match l with [] => [] | x :: l' => wprint_node x ++ go l' end) body ++ [60;47;98;62]
  | WItalic body =>
      [60;105;62] ++ (fix go (l : list wnode) : text := match l with [] => [] | x :: l' => wprint_node x ++ go l' end) body ++ [60;47;105;62]
  | WUnder body =>
      [60;117;62] ++ (fix go (l : list wnode) : text := match l with [] => [] | x :: l' => wprint_node x ++ go l' end) body ++ [60;47;117;62]
  end.
Fixpoint wprint_nodes (l : list wnode) : text :=
  match l with [] => [] | x :: l' => wprint_node x ++ wprint_nodes l' end.

Definition wprint_cue (last : bool) (c : wcue) : text :=
  wc_counter c ++ [10] ++ wclock (wc_begin c) ++ [32;45;45;62;32] ++ wclock (wc_end c) ++ [10] ++
  wprint_nodes (wc_payload c) ++ [10] ++ (if last then [] else [10]).
Fixpoint wprint (cs : list wcue) : text :=
  match cs with
  | [] => []
  | [c] => wprint_cue true c
  | c :: cs' => wprint_cue false c ++ wprint cs'
  end.

(* ------------------------------------------------------------------ what the cues say *)
Fixpoint witems (s : sstyle) (n : wnode) : list item :=
  match n with
  | WChar c => [Ch c s]
  | WBreak => [Brk]
  | WFont r g b a body =>
      (fix go (l : list wnode) : list item :=
         match l with [] => [] | x :: l' => witems (mkSt (st_b s) (st_i s) (st_u s) (Some (r, g, b, a))) x ++ go l' end) body
  | WBold body =>
      (fix go (l : list wnode) : list item :=
         match l with [] => [] | x :: l' => witems (mkSt true (st_i s) (st_u s) (st_c s)) x ++ go l' end) body
  | WItalic body =>
      (fix go (l : list wnode) : list item :=
         match l with [] => [] | x :: l' => witems (mkSt (st_b s) true (st_u s) (st_c s)) x ++ go l' end) body
  | WUnder body =>
      (fix go (l : list wnode) : list item :=
         match l with [] => [] | x :: l' => witems (mkSt (st_b s) (st_i s) true (st_c s)) x ++ go l' end) body
  end.
Fixpoint witems_list (s : sstyle) (l : list wnode) : list item :=
  match l with [] => [] | x :: l' => witems s x ++ witems_list s l' end.

Definition wmeaning (c : wcue) : cue :=
  (Qred (Qmake (wc_begin c) 1000), Qred (Qmake (wc_end c) 1000), witems_list st0 (wc_payload c)).

(* ------------------------------------------------------------------ side conditions *)
(* the characters of a payload: anything but a line terminator and the three characters that start markup for the
   reader ('<', '&', '{' - SubRip has no escape syntax, so a text that contains them is not described here);
   colour components are bytes; no line of the payload is blank (a blank line ends a cue in a SubRip file) *)
Fixpoint wwf_node (n : wnode) : bool :=
  match n with
  | WChar c => plain_char c
  | WBreak => true
  | WFont r g b a body =>
      byte_ok r && byte_ok g && byte_ok b && byte_ok a &&
      (fix go (l : list wnode) : bool := match l with [] => true | x :: l' => wwf_node x && go l' end) body
  | WBold body | WItalic body | WUnder body =>
      (fix go (l : list wnode) : bool := match l with [] => true | x :: l' => wwf_node x && go l' end) body
  end.
(* the writer formats the hour with Python's integer formatting, which refuses numbers of more than
   sys.get_int_max_str_digits() = 4 300 digits (ValueError): no output has a longer hour field *)
Definition wtime_ok (ms : Z) : bool := (0 <=? ms) && (Z.of_nat (length (whours (ms / 3600000))) <=? max_hour_digits).
Definition wwf_cue (c : wcue) : bool :=
  negb (match wc_counter c with [] => true | _ => false end) && forallb is_dec (wc_counter c) &&
  wtime_ok (wc_begin c) && wtime_ok (wc_end c) &&
  forallb wwf_node (wc_payload c) &&
  forallb (fun l => negb (all_ws l)) (split_at_lf (wprint_nodes (wc_payload c)) []).
Definition wwf (cs : list wcue) : bool := forallb wwf_cue cs.
