(* S for C01: which text and line breaks a snapshot must show, written from the property statement and
   TTML2 (time containment 12.x, region association 11.3.1.3, display): a declarative, per-leaf formulation.
   For every Br/Text leaf of the body, look at the CHAIN of elements from the body down to the leaf:
     - intervals: each element's begin/end are offsets from its parent's begin, the end clipped by the
       parent's end; active means begin <= t < end;
     - region: the region an element is associated with is its own region attribute, else the one inherited
       from the nearest ancestor that has one; a leaf is shown in region R iff it is associated with R
       (when the document has no region at all: iff it is associated with none — the default region) and no
       ancestor is associated with a different region;
     - display: the value of tts:display is that of the last active set step, else the specified value, else
       the document's initial value, else auto; display is not inherited.
   The snapshot of region R shows, in document order, exactly the leaves whose whole chain is active, selected
   and not display:none — provided R itself is active and not display:none.
   White-space handling may remove white space (and nodes made only of it), so leaves are compared through
   their non-white-space characters. *)
From TT Require Import Model.Doc Gen.StyleTables.

Definition interval := (Q * option Q)%type.
(* TTML2: begin/end relative to the parent's begin; end clipped to the parent's end *)
Definition resolve (parent : interval) (b e : option Q) : interval :=
  let pb := fst parent in
  let b' := Qplus pb (match b with Some x => x | None => 0%Q end) in
  let e' := match e, snd parent with
            | Some x, Some pe => Some (Qmin (Qplus pb x) pe)
            | Some x, None => Some (Qplus pb x)
            | None, pe => pe
            end in
  (b', e').
Definition root_interval : interval := (0%Q, None).
Definition is_active (t : Q) (iv : interval) : bool :=
  Qle_bool (fst iv) t && match snd iv with Some e => negb (Qle_bool e t) | None => true end.

(* the value of tts:display on one element at t *)
Fixpoint last_active_display (t : Q) (iv : interval) (l : list anim) (acc : option value) : option value :=
  match l with
  | [] => acc
  | s :: l' =>
      if (a_prop s =? p_Display) && is_active t (resolve iv (a_begin s) (a_end s))
      then last_active_display t iv l' (Some (a_val s)) else last_active_display t iv l' acc
  end.
Definition displayed (d : doc) (t : Q) (iv : interval) (a : attrs) : bool :=
  let v := match last_active_display t iv (e_anims a) None with
           | Some v => Some v
           | None => match sget (e_styles a) p_Display with
                     | Some v => Some v
                     | None => match e_kind a with KBr | KText => None | _ => sget (d_initials d) p_Display end
                     end
           end in
  match v with Some (VEnum x) => negb (x =? e_DisplayType_none) | _ => true end.

(* chains of attributes from an element down to each Br/Text leaf, in document order *)
Fixpoint chains (e : elem) : list (list attrs) :=
  match e with
  | Elem a cs =>
      match e_kind a with
      | KBr | KText => [[a]]
      | _ => map (cons a) ((fix go (l : list elem) : list (list attrs) :=
                              match l with [] => [] | c :: l' => chains c ++ go l' end) cs)
      end
  end.

Definition otext_eqb (a b : option text) : bool :=
  match a, b with Some x, Some y => text_eqb x y | None, None => true | _, _ => false end.

(* the whole chain is active, selected for region sel and displayed *)
Fixpoint chain_visible (d : doc) (t : Q) (sel : option text) (parent : interval) (inh : option text) (c : list attrs) : bool :=
  match c with
  | [] => true
  | a :: c' =>
      let iv := resolve parent (e_begin a) (e_end a) in
      let assoc := match e_region a with Some r => Some r | None => inh end in
      let is_leaf := match c' with [] => true | _ => false end in
      is_active t iv &&
      (otext_eqb assoc sel || (negb is_leaf && match assoc with None => true | Some _ => false end)) &&
      displayed d t iv a &&
      chain_visible d t sel iv assoc c'
  end.

Inductive leaf := LBr | LText (nonspace : text).
Definition leaf_eqb (a b : leaf) : bool :=
  match a, b with LBr, LBr => true | LText x, LText y => text_eqb x y | _, _ => false end.
Definition is_space (c : Z) : bool := (c =? 9) || (c =? 10) || (c =? 13) || (c =? 32).
Definition nonspace (t : text) : text := filter (fun c => negb (is_space c)) t.
Definition leaf_of (a : attrs) : list leaf :=
  match e_kind a with
  | KBr => [LBr]
  | KText => match nonspace (e_text a) with [] => [] | t => [LText t] end
  | _ => []
  end.

(* what region r (an element of d_regions, or the default region when there is none) must show at t *)
Definition leaves_spec (d : doc) (t : Q) (r : attrs) (sel : option text) : list leaf :=
  let riv := resolve root_interval (e_begin r) (e_end r) in
  if is_active t riv && displayed d t riv r then
    match d_body d with
    | None => []
    | Some b => flat_map (fun c => leaf_of (last c r)) (filter (chain_visible d t sel root_interval None) (chains b))
    end
  else [].

(* content model fact used by the theorems: br and text elements have no children *)
Fixpoint leaf_wf (e : elem) : bool :=
  match e with
  | Elem a cs =>
      match e_kind a with KBr | KText => match cs with [] => true | _ => false end | _ => true end &&
      (fix go (l : list elem) : bool := match l with [] => true | c :: l' => leaf_wf c && go l' end) cs
  end.

(* the leaves a snapshot region actually shows: its Br and Text elements, in document order *)
Fixpoint shown_leaves (e : elem) : list leaf :=
  match e with
  | Elem a cs =>
      match e_kind a with
      | KBr | KText => leaf_of a
      | _ => (fix go (l : list elem) : list leaf := match l with [] => [] | c :: l' => shown_leaves c ++ go l' end) cs
      end
  end.
