(* S for the colour values of C04 / C05: the TTML2 <color> style value expression (TTML2 section 10.3, <color> and <named-color>;
   IMSC 1.1 uses it unchanged), written from the standard as a grammar of derivation trees.  It shares no code with the models.

     <color> : "#" rrggbb | "#" rrggbbaa | "rgb(" r "," g "," b ")" | "rgba(" r "," g "," b "," a ")" | <named-color>
     rr, gg, bb, aa : two hexadecimal digits, either case;     r, g, b, a : a non-negative decimal integer in [0, 255]

   TTML2 permits no white space between the tokens of a style value expression unless stated ("no linear whitespace (LWSP) is implied
   or permitted between tokens unless explicitly specified"), and spells the named colours in lower case: that is the STRICT grammar
   ([strict]).  ttconv reads a documented superset, the TOLERANT grammar ([wf_color]): white space (space, TAB, LF, VT, FF, CR) around
   the decimal components - everywhere but between the first component of rgba() and its comma - and named colours in any letter case
   (the KELVIN SIGN, whose lower case is k, counts as a K).  One limit of the platform is part of both grammars: a decimal component
   has at most 4300 digits (CPython's int() refuses longer strings, leading zeros included).  Nothing else is a colour: no trailing characters, no component above
   255, no digits outside ASCII, no white space at the ends or inside "#rrggbb".

   A derivation tree [color_ast] has a yield (the string) and a denotation (the RGBA8 colour); [color_expr s c]: s is a colour
   expression of the tolerant grammar that denotes c.  Everything is executable, so that the harness can hand Coq a tree and have
   the code's answer on its yield judged. *)
From TT Require Import Base.Prelude.
From Coq Require String Ascii.
Import String.StringSyntax.
Local Open Scope Z_scope.

Definition rgba := (Z * Z * Z * Z)%type.
Definition rgba8 (c : rgba) : Prop := let '(r, g, b, a) := c in 0 <= r <= 255 /\ 0 <= g <= 255 /\ 0 <= b <= 255 /\ 0 <= a <= 255.

Definition str (s : String.string) : text := List.map (fun a => Z.of_N (Ascii.N_of_ascii a)) (String.list_ascii_of_string s).
Arguments str s%string_scope.

(* ---- <named-color> (TTML2 10.3: the table of named colours, RGBA) ------------------------------------------------------------ *)
Definition ttml_named_colors : list (text * rgba) :=
  [ (str "transparent", (0, 0, 0, 0));     (str "black", (0, 0, 0, 255));       (str "silver", (192, 192, 192, 255));
    (str "gray", (128, 128, 128, 255));    (str "white", (255, 255, 255, 255)); (str "maroon", (128, 0, 0, 255));
    (str "red", (255, 0, 0, 255));         (str "purple", (128, 0, 128, 255));  (str "fuchsia", (255, 0, 255, 255));
    (str "magenta", (255, 0, 255, 255));   (str "green", (0, 128, 0, 255));     (str "lime", (0, 255, 0, 255));
    (str "olive", (128, 128, 0, 255));     (str "yellow", (255, 255, 0, 255));  (str "navy", (0, 0, 128, 255));
    (str "blue", (0, 0, 255, 255));        (str "teal", (0, 128, 128, 255));    (str "aqua", (0, 255, 255, 255));
    (str "cyan", (0, 255, 255, 255)) ].

(* character c spells the lower-case letter k: itself, its capital, or (for k) the KELVIN SIGN U+212A *)
Definition spells (c k : Z) : bool := (c =? k) || (c =? k - 32) || ((k =? 107) && (c =? 8490)).
Fixpoint spells_name (s n : text) : bool :=
  match s, n with
  | [], [] => true
  | c :: s', k :: n' => spells c k && spells_name s' n'
  | _, _ => false
  end.
Fixpoint named_color (tbl : list (text * rgba)) (s : text) : option rgba :=
  match tbl with [] => None | (n, c) :: t => if spells_name s n then Some c else named_color t s end.

(* ---- digits ---------------------------------------------------------------------------------------------------------------------- *)
Fixpoint index_of (c : Z) (l : text) (i : Z) : option Z :=
  match l with [] => None | x :: l' => if x =? c then Some i else index_of c l' (i + 1) end.
(* the value of a hexadecimal digit: its place in "0123456789abcdef" or "0123456789ABCDEF" *)
Definition hex_digit (c : Z) : option Z :=
  match index_of c (str "0123456789abcdef") 0 with Some v => Some v | None => index_of c (str "0123456789ABCDEF") 0 end.
Definition dec_digit (c : Z) : option Z := index_of c (str "0123456789") 0.
Definition is_some {A} (o : option A) : bool := match o with Some _ => true | None => false end.
Definition get (o : option Z) : Z := match o with Some v => v | None => 0 end.

(* a non-empty string of decimal digits and its value *)
Definition is_decimal (d : text) : bool := negb (Nat.eqb (length d) 0) && forallb (fun c => is_some (dec_digit c)) d.
Definition decimal_value (d : text) : Z := fold_left (fun acc c => 10 * acc + get (dec_digit c)) d 0.
Definition hex_pair_value (p : Z * Z) : Z := 16 * get (hex_digit (fst p)) + get (hex_digit (snd p)).
Definition is_hex_pair (p : Z * Z) : bool := is_some (hex_digit (fst p)) && is_some (hex_digit (snd p)).

(* linear white space *)
Definition lwsp_char (c : Z) : bool := existsb (Z.eqb c) [32; 9; 10; 11; 12; 13].
Definition is_lwsp (w : text) : bool := forallb lwsp_char w.

(* ---- derivation trees -------------------------------------------------------------------------------------------------------------- *)
(* a decimal component with the white space before and after it *)
Record comp := mkComp { c_pre : text; c_digits : text; c_post : text }.
Definition comp_yield (c : comp) : text := c_pre c ++ c_digits c ++ c_post c.
Definition comp_value (c : comp) : Z := decimal_value (c_digits c).
Definition max_component_digits : Z := 4300.
Definition wf_comp (c : comp) : bool :=
  is_lwsp (c_pre c) && is_decimal (c_digits c) && (Z.of_nat (List.length (c_digits c)) <=? max_component_digits) && (comp_value c <=? 255) && is_lwsp (c_post c).
Definition comp_strict (c : comp) : bool := match c_pre c, c_post c with [], [] => true | _, _ => false end.

Inductive color_ast :=
| ANamed (spelling : text)
| AHex6 (rr gg bb : Z * Z)
| AHex8 (rr gg bb aa : Z * Z)
| ARgb (r g b : comp)
| ARgba (r g b a : comp).

Definition pair_yield (p : Z * Z) : text := [fst p; snd p].
Definition yield (t : color_ast) : text :=
  match t with
  | ANamed s => s
  | AHex6 r g b => str "#" ++ pair_yield r ++ pair_yield g ++ pair_yield b
  | AHex8 r g b a => str "#" ++ pair_yield r ++ pair_yield g ++ pair_yield b ++ pair_yield a
  | ARgb r g b => str "rgb(" ++ comp_yield r ++ str "," ++ comp_yield g ++ str "," ++ comp_yield b ++ str ")"
  | ARgba r g b a => str "rgba(" ++ comp_yield r ++ str "," ++ comp_yield g ++ str "," ++ comp_yield b ++ str "," ++ comp_yield a ++ str ")"
  end.

Definition denote (t : color_ast) : rgba :=
  match t with
  | ANamed s => match named_color ttml_named_colors s with Some c => c | None => (0, 0, 0, 0) end
  | AHex6 r g b => (hex_pair_value r, hex_pair_value g, hex_pair_value b, 255)
  | AHex8 r g b a => (hex_pair_value r, hex_pair_value g, hex_pair_value b, hex_pair_value a)
  | ARgb r g b => (comp_value r, comp_value g, comp_value b, 255)
  | ARgba r g b a => (comp_value r, comp_value g, comp_value b, comp_value a)
  end.

(* the tolerant grammar *)
Definition wf_color (t : color_ast) : bool :=
  match t with
  | ANamed s => is_some (named_color ttml_named_colors s)
  | AHex6 r g b => is_hex_pair r && is_hex_pair g && is_hex_pair b
  | AHex8 r g b a => is_hex_pair r && is_hex_pair g && is_hex_pair b && is_hex_pair a
  | ARgb r g b => wf_comp r && wf_comp g && wf_comp b
  | ARgba r g b a => wf_comp r && (match c_post r with [] => true | _ :: _ => false end) && wf_comp g && wf_comp b && wf_comp a
  end.

(* the strict grammar of TTML2: no white space, named colours as the standard spells them *)
Definition strict (t : color_ast) : bool :=
  match t with
  | ANamed s => existsb (fun e => text_eqb (fst e) s) ttml_named_colors
  | AHex6 _ _ _ | AHex8 _ _ _ _ => true
  | ARgb r g b => comp_strict r && comp_strict g && comp_strict b
  | ARgba r g b a => comp_strict r && comp_strict g && comp_strict b && comp_strict a
  end.

(* s is a colour expression (tolerant grammar) denoting c *)
Definition color_expr (s : text) (c : rgba) : Prop := exists t, wf_color t = true /\ yield t = s /\ denote t = c.
(* s is a TTML2 <color> denoting c *)
Definition ttml_color (s : text) (c : rgba) : Prop := exists t, wf_color t = true /\ strict t = true /\ yield t = s /\ denote t = c.

(* what the harness evaluates: the code's answer [got] on the yield of the tree it generated (a tree outside the grammar, e.g. with
   a component above 255 or a character that is not white space in a white-space place, must be rejected unless its yield happens to
   be the yield of a tree of the grammar - which the harness decides with an independent recogniser) *)
Definition judge_tree (t : color_ast) (got : option rgba) : bool :=
  if wf_color t then
    match got with
    | Some (r, g, b, a) => let '(r', g', b', a') := denote t in (r =? r') && (g =? g') && (b =? b') && (a =? a')
    | None => false
    end
  else true.
