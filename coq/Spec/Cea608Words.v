(* S for C17: an arithmetic decoder of 16-bit CEA-608 words written from the bit layout of
   ANSI/CTA-608-E (Tables 50-53: miscellaneous control codes, PACs, mid-row codes, special and extended
   characters) and 47 CFR 15.119.  It shares no table with the code: classes come from bit fields,
   characters from the lists below.
   bits:  b1 = P 0 0 1 C x x x  for codes (C = channel bit 0x08), b2 = P 1 x x x x x x for PACs. *)
From TT Require Import Base.Prelude Base.SccTypes.

Definition sb1 (w : Z) : Z := Z.land (w / 256) 127.      (* parity bit 7 of each byte is ignored *)
Definition sb2 (w : Z) : Z := Z.land (w mod 256) 127.

(* PAC rows, CTA-608-E Table 53: (b1 with the channel bit cleared, bit 5 of b2) -> row *)
Definition spec_row (c1 hi : Z) : option Z :=
  match c1, hi with
  | 17, 0 => Some 1 | 17, 1 => Some 2 | 18, 0 => Some 3 | 18, 1 => Some 4
  | 21, 0 => Some 5 | 21, 1 => Some 6 | 22, 0 => Some 7 | 22, 1 => Some 8
  | 23, 0 => Some 9 | 23, 1 => Some 10 | 16, 0 => Some 11
  | 19, 0 => Some 12 | 19, 1 => Some 13 | 20, 0 => Some 14 | 20, 1 => Some 15
  | _, _ => None
  end.

Definition nth_z {A} (l : list A) (i : Z) (d : A) : A := nth (Z.to_nat i) l d.
Definition mem_z (x : Z) (l : list Z) : bool := existsb (Z.eqb x) l.

Definition rgba (r g b a : Z) : Z := ((r * 256 + g) * 256 + b) * 256 + a.
(* colour attribute, 3 bits: white green blue cyan red yellow magenta (7 = italics, white).  The standard
   names colours, not RGB triples: for "green" both the full-intensity primary and the CSS colour of that
   name are accepted. *)
Definition spec_colour3 (k : Z) : list Z :=
  match k with
  | 0 => [rgba 255 255 255 255] | 1 => [rgba 0 255 0 255; rgba 0 128 0 255] | 2 => [rgba 0 0 255 255]
  | 3 => [rgba 0 255 255 255] | 4 => [rgba 255 0 0 255] | 5 => [rgba 255 255 0 255] | 6 => [rgba 255 0 255 255]
  | _ => [rgba 255 255 255 255]
  end.
(* background colours (0x10 0x20-0x2F): white green blue cyan red yellow magenta black; odd = semi-transparent *)
Definition spec_bg3 (k : Z) (semi : bool) : Z :=
  let a := if semi then 136 else 255 in
  match k with
  | 0 => rgba 255 255 255 a | 1 => rgba 0 255 0 a | 2 => rgba 0 0 255 a | 3 => rgba 0 255 255 a
  | 4 => rgba 255 0 0 a | 5 => rgba 255 255 0 a | 6 => rgba 255 0 255 a | _ => rgba 0 0 0 a
  end.

(* the standard character set: ASCII except for ten substitutions (CTA-608-E Table 50 / 47 CFR 15.119(g)) *)
Definition spec_std_char (b : Z) : Z :=
  match b with
  | 42 => 225   (* 2A a-acute *)   | 92 => 233   (* 5C e-acute *)   | 94 => 237  (* 5E i-acute *)
  | 95 => 243   (* 5F o-acute *)   | 96 => 250   (* 60 u-acute *)   | 123 => 231 (* 7B c-cedilla *)
  | 124 => 247  (* 7C division *)  | 125 => 209  (* 7D N-tilde *)   | 126 => 241 (* 7E n-tilde *)
  | 127 => 9608 (* 7F solid block *)
  | _ => b
  end.
(* 16 special characters 0x11 0x30-0x3F *)
Definition spec_special : list Z :=
  [174; 176; 189; 191; 8482; 162; 163; 9834; 224; 32; 232; 226; 234; 238; 244; 251].
(* 64 extended characters: 0x12 0x20-0x3F (Spanish, miscellaneous, French), 0x13 0x20-0x3F (Portuguese,
   German, Danish).  Each entry is the list of acceptable code points: CTA-608 shows six of these only as
   glyphs (em dash, vertical bar, four box corners), for which the light and heavy box-drawing code points
   and the plain punctuation are all accepted. *)
Definition spec_ext12 : list (list Z) :=
  [[193]; [201]; [211]; [218]; [220]; [252]; [8216]; [161];
   [42]; [39]; [8212; 9472; 9473]; [169]; [8480]; [8226]; [8220]; [8221];
   [192]; [194]; [199]; [200]; [202]; [203]; [235]; [206]; [207]; [239]; [212]; [217]; [249]; [219]; [171]; [187]].
Definition spec_ext13 : list (list Z) :=
  [[195]; [227]; [205]; [204]; [236]; [210]; [242]; [213]; [245]; [123]; [125]; [92]; [94]; [95]; [124; 166]; [126];
   [196]; [228]; [214]; [246]; [223]; [165]; [164]; [124; 9474; 9475]; [197]; [229]; [216]; [248];
   [9484; 9487; 9121]; [9488; 9491; 9124]; [9492; 9495; 9123]; [9496; 9499; 9126]].

(* control code identities: 0x14/0x15 0x20-0x2F = RCL BS AOF AON DER RU2 RU3 RU4 FON RDC TR RTD EDM CR ENM EOC
   (ids 0..15); 0x17 0x21-0x23 = TO1 TO2 TO3 (ids 16..18) *)

(* spec_ok w d: the decoded view d is what CTA-608 prescribes for the word w *)
Definition spec_ok (w : Z) (d : dec) : bool :=
  let b1 := sb1 w in let b2 := sb2 w in
  let none := (d_code d =? -1) && (d_row d =? -1) && (d_indent d =? -1) && (d_color d =? -1) &&
              negb (d_italic d) && negb (d_under d) && negb (d_bg d) in
  let notext := (d_t1 d =? -1) && (d_t2 d =? -1) in
  if (b1 =? 0) && (b2 =? 0) then (d_cls d =? cPad) && (d_chan d =? 0) && none && notext
  else if 32 <=? b1 then
    (* a pair of characters; a zero second byte is a filler.  CTA-608 gives no meaning to a second byte in
       0x01..0x1F, so nothing is required of the second character there *)
    (d_cls d =? cChars) && (d_chan d =? 0) && none && (d_t1 d =? spec_std_char b1) &&
    (if b2 =? 0 then d_t2 d =? -1 else if 32 <=? b2 then d_t2 d =? spec_std_char b2 else true)
  else if b1 <? 16 then (d_cls d =? cUnknown) && (d_chan d =? 0) && none && notext
  else
    let ch := if Z.land b1 8 =? 0 then 1 else 2 in
    let c1 := Z.land b1 247 in            (* channel bit cleared *)
    let code1 := c1 * 256 + b2 in         (* the channel-1 form of the code *)
    if 64 <=? b2 then
      match spec_row c1 (Z.land (b2 / 32) 1) with
      | Some r =>
          let a := Z.land b2 31 in
          let u := Z.odd a in
          (d_cls d =? cPac) && (d_chan d =? ch) && (d_code d =? -1) && (d_row d =? r) && negb (d_bg d) && notext &&
          Bool.eqb (d_under d) u &&
          (if a <? 16 then (d_indent d =? -1) && mem_z (d_color d) (spec_colour3 (a / 2)) && Bool.eqb (d_italic d) (a / 2 =? 7)
           else (d_indent d =? (a / 2 - 8) * 4) && (d_color d =? -1) && negb (d_italic d))
      | None => (d_cls d =? cUnknown) && (d_chan d =? 0) && none && notext
      end
    else if (c1 =? 16) && (32 <=? b2) && (b2 <=? 47) then
      (d_cls d =? cAttr) && (d_chan d =? ch) && (d_code d =? code1) && (d_row d =? -1) && (d_indent d =? -1) &&
      (d_color d =? spec_bg3 ((b2 - 32) / 2) (Z.odd b2)) && negb (d_italic d) && negb (d_under d) && d_bg d && notext
    else if (c1 =? 17) && (32 <=? b2) && (b2 <=? 47) then
      let a := b2 - 32 in
      (d_cls d =? cMidRow) && (d_chan d =? ch) && (d_code d =? code1) && (d_row d =? -1) && (d_indent d =? -1) &&
      (* mid-row italics keeps the current colour: no colour is decoded *)
      (if a / 2 =? 7 then d_color d =? -1 else mem_z (d_color d) (spec_colour3 (a / 2))) && Bool.eqb (d_italic d) (a / 2 =? 7) &&
      Bool.eqb (d_under d) (Z.odd a) && negb (d_bg d) && notext
    else if (c1 =? 17) && (48 <=? b2) && (b2 <=? 63) then
      (d_cls d =? cSpecial) && (d_chan d =? ch) && (d_code d =? code1) && (d_row d =? -1) && (d_indent d =? -1) &&
      (d_color d =? -1) && negb (d_italic d) && negb (d_under d) && negb (d_bg d) &&
      (d_t1 d =? nth_z spec_special (b2 - 48) (-2)) && (d_t2 d =? -1)
    else if ((c1 =? 18) || (c1 =? 19)) && (32 <=? b2) && (b2 <=? 63) then
      (d_cls d =? cExtended) && (d_chan d =? ch) && (d_code d =? code1) && (d_row d =? -1) && (d_indent d =? -1) &&
      (d_color d =? -1) && negb (d_italic d) && negb (d_under d) && negb (d_bg d) &&
      mem_z (d_t1 d) (nth_z (if c1 =? 18 then spec_ext12 else spec_ext13) (b2 - 32) []) && (d_t2 d =? -1)
    else if ((c1 =? 20) || (c1 =? 21)) && (32 <=? b2) && (b2 <=? 47) then
      (* miscellaneous control codes; 0x15/0x1D are the field-2 forms: attributed to neither channel *)
      (d_cls d =? cControl) && (d_chan d =? (if c1 =? 20 then ch else 0)) && (d_code d =? b2 - 32) &&
      (d_row d =? -1) && (d_indent d =? -1) && (d_color d =? -1) && negb (d_italic d) && negb (d_under d) &&
      negb (d_bg d) && notext
    else if (c1 =? 23) && (33 <=? b2) && (b2 <=? 35) then
      (d_cls d =? cControl) && (d_chan d =? ch) && (d_code d =? 16 + (b2 - 33)) &&
      (d_row d =? -1) && (d_indent d =? -1) && (d_color d =? -1) && negb (d_italic d) && negb (d_under d) &&
      negb (d_bg d) && notext
    else if (c1 =? 23) && (45 <=? b2) && (b2 <=? 47) then
      (* 2D background transparent, 2E foreground black, 2F foreground black underline *)
      (d_cls d =? cAttr) && (d_chan d =? ch) && (d_code d =? code1) && (d_row d =? -1) && (d_indent d =? -1) &&
      (d_color d =? (if b2 =? 45 then rgba 0 0 0 0 else rgba 0 0 0 255)) && negb (d_italic d) &&
      Bool.eqb (d_under d) (b2 =? 47) && Bool.eqb (d_bg d) (b2 =? 45) && notext
    else (d_cls d =? cUnknown) && (d_chan d =? 0) && none && notext.

(* words on which the recorded finding fires: extended character 0x13 0x2C (caret) *)
Definition trigger_caret (w : Z) : bool := (Z.land (sb1 w) 247 =? 19) && (sb2 w =? 44).
