(* S for C09: an interpreter of EBU Tech 3264-E subtitle data files written from the standard and from the
   property statement, sharing no definition with Model/Iso6937.v, Model/StlTf.v, Model/StlDatafile.v and no
   table regenerated from ttconv (it uses Gen/Iso6937Spec.v, which is derived from Unicode data alone).

   Contents
     1. character code tables: ISO 6937 (Tech 3264 Appendix 2, CCT 00) and ISO 8859-5/6/7/8 (CCT 01..04)
     2. the text field (Tech 3264 TTI block, TF): tokens, attributes, runs
     3. time codes (TCI/TCO) as SMPTE 12M counts at the DFC frame rate
     4. vertical position and justification -> region and alignment
     5. the file: GSI fields, grouping of TTI blocks into subtitles, cumulative sets *)
From Coq Require Import QArith.
From TT Require Import Base.Prelude Gen.Iso6937Spec.
Open Scope Z_scope.

Definition replacement : Z := 0xFFFD.

(* ================================================================================================ 1 *)
(* ISO 6937 (ITU-T T.51) G2 set, columns A, B, D, E, F; column C holds the non-spacing diacritical marks.
   Position A/4 is the dollar sign (ISO 6937/2:1983, the edition Tech 3264 reproduces; not assigned in later
   editions), A/6 (number sign in 1983) is treated as not assigned, like the later editions do. *)
Definition iso6937_single : list (Z * Z) :=
  [(0xA0, 0x00A0); (0xA1, 0x00A1); (0xA2, 0x00A2); (0xA3, 0x00A3); (0xA4, 0x0024); (0xA5, 0x00A5); (0xA7, 0x00A7);
   (0xA8, 0x00A4); (0xA9, 0x2018); (0xAA, 0x201C); (0xAB, 0x00AB); (0xAC, 0x2190); (0xAD, 0x2191); (0xAE, 0x2192);
   (0xAF, 0x2193); (0xB0, 0x00B0); (0xB1, 0x00B1); (0xB2, 0x00B2); (0xB3, 0x00B3); (0xB4, 0x00D7); (0xB5, 0x00B5);
   (0xB6, 0x00B6); (0xB7, 0x00B7); (0xB8, 0x00F7); (0xB9, 0x2019); (0xBA, 0x201D); (0xBB, 0x00BB); (0xBC, 0x00BC);
   (0xBD, 0x00BD); (0xBE, 0x00BE); (0xBF, 0x00BF);
   (0xD0, 0x2014); (0xD1, 0x00B9); (0xD2, 0x00AE); (0xD3, 0x00A9); (0xD4, 0x2122); (0xD5, 0x266A); (0xD6, 0x00AC);
   (0xD7, 0x00A6); (0xDC, 0x215B); (0xDD, 0x215C); (0xDE, 0x215D); (0xDF, 0x215E);
   (0xE0, 0x2126); (0xE1, 0x00C6); (0xE2, 0x00D0); (0xE3, 0x00AA); (0xE4, 0x0126); (0xE6, 0x0132); (0xE7, 0x013F);
   (0xE8, 0x0141); (0xE9, 0x00D8); (0xEA, 0x0152); (0xEB, 0x00BA); (0xEC, 0x00DE); (0xED, 0x0166); (0xEE, 0x014A);
   (0xEF, 0x0149);
   (0xF0, 0x0138); (0xF1, 0x00E6); (0xF2, 0x0111); (0xF3, 0x00F0); (0xF4, 0x0127); (0xF5, 0x0131); (0xF6, 0x0133);
   (0xF7, 0x0140); (0xF8, 0x0142); (0xF9, 0x00F8); (0xFA, 0x0153); (0xFB, 0x00DF); (0xFC, 0x00FE); (0xFD, 0x0167);
   (0xFE, 0x014B); (0xFF, 0x00AD)].

Fixpoint assoc1 (m : list (Z * Z)) (k : Z) : option Z :=
  match m with [] => None | (k', v) :: m' => if k' =? k then Some v else assoc1 m' k end.
Fixpoint assoc2 (m : list (Z * Z * Z)) (k1 k2 : Z) : option Z :=
  match m with [] => None | (a, b, v) :: m' => if (a =? k1) && (b =? k2) then Some v else assoc2 m' k1 k2 end.
Definition or_replacement (o : option Z) : Z := match o with Some c => c | None => replacement end.

Definition is_diacritic (b : Z) : bool := (0xC1 <=? b) && (b <=? 0xCF).
(* one coded character that is not a diacritical combination *)
Definition iso6937_char (b : Z) : Z :=
  if (0x20 <=? b) && (b <=? 0x7E) then b else or_replacement (assoc1 iso6937_single b).
(* a non-spacing diacritical mark and the character that follows it form one coded character; a combination
   outside the repertoire (Gen/Iso6937Spec.v), or a mark with nothing after it, is one replacement character *)
Fixpoint decode_iso6937 (bs : list Z) : text :=
  match bs with
  | [] => []
  | b :: rest =>
      if is_diacritic b then
        match rest with
        | [] => [replacement]
        | l :: rest' => or_replacement (assoc2 iso6937_pairs_spec b l) :: decode_iso6937 rest'
        end
      else iso6937_char b :: decode_iso6937 rest
  end.

(* ISO/IEC 8859-5:1999, 8859-6:1999, 8859-7:2003, 8859-8:1999 with the C0/C1 controls (positions 00..9F are
   identical to ISO 8859-1); positions that the part leaves unassigned give the replacement character *)
Definition in_range (lo hi b : Z) : bool := (lo <=? b) && (b <=? hi).
Definition iso8859_5 (b : Z) : Z :=
  if b <? 0xA0 then b else
  if b =? 0xA0 then 0xA0 else if b =? 0xAD then 0xAD else if b =? 0xF0 then 0x2116 else if b =? 0xFD then 0xA7
  else b - 0xA0 + 0x400.
Definition iso8859_6 (b : Z) : Z :=
  if b <? 0xA0 then b else
  if (b =? 0xA0) || (b =? 0xA4) || (b =? 0xAD) then b
  else if b =? 0xAC then 0x060C else if b =? 0xBB then 0x061B else if b =? 0xBF then 0x061F
  else if in_range 0xC1 0xDA b || in_range 0xE0 0xF2 b then b - 0xC1 + 0x0621
  else replacement.
Definition iso8859_7 (b : Z) : Z :=
  if b <? 0xA0 then b else
  if b =? 0xA1 then 0x2018 else if b =? 0xA2 then 0x2019 else if b =? 0xA4 then 0x20AC else if b =? 0xA5 then 0x20AF
  else if b =? 0xAA then 0x037A else if b =? 0xAF then 0x2015
  else if (b =? 0xAE) || (b =? 0xD2) || (b =? 0xFF) then replacement
  else if b <? 0xB4 then b
  else if (b =? 0xB7) || (b =? 0xBB) || (b =? 0xBD) then b
  else b - 0xB4 + 0x0384.
Definition iso8859_8 (b : Z) : Z :=
  if b <? 0xA0 then b else
  if b =? 0xA1 then replacement else if b =? 0xAA then 0xD7 else if b =? 0xBA then 0xF7
  else if b <? 0xBF then b
  else if b =? 0xDF then 0x2017
  else if in_range 0xE0 0xFA b then b - 0xE0 + 0x05D0
  else if b =? 0xFD then 0x200E else if b =? 0xFE then 0x200F
  else replacement.

(* GSI CCT (two ASCII digits) -> decoder of the text field; Tech 3264 defines 00..04 only, and the Latin
   alphabet is the fallback for anything else *)
Definition cct_is (cct : list Z) (digit : Z) : bool :=
  match cct with [a; b] => (a =? 0x30) && (b =? digit) | _ => false end.
Definition decoder_spec (cct : list Z) : list Z -> text :=
  if cct_is cct 0x31 then map iso8859_5
  else if cct_is cct 0x32 then map iso8859_6
  else if cct_is cct 0x33 then map iso8859_7
  else if cct_is cct 0x34 then map iso8859_8
  else decode_iso6937.

(* ================================================================================================ 2 *)
(* Text field.  Codes (Tech 3264, TTI block, TF):
     20..7F, A0..FF  characters of the code table          00..07  teletext alpha colours (foreground)
     0A/0B end/start box, 0C/0D normal/double height        1C black background, 1D new background
     80/81 italics on/off, 82/83 underline on/off, 84/85 boxing on/off
     8A new line (CR/LF)                                    8F unused space
   every other value is reserved and ignored.  The text ends at the first unused-space byte.
   An attribute code takes effect for the characters that follow it; it occupies a character position, which
   is presented as a space only when it separates two printable characters (spaces, and the positions of
   attribute codes, at the start or end of a row or next to another space carry no text).  A new-line code
   starts a new row unless nothing follows it on the row (another new-line, as with double height rows, or the
   end of the text).  Teletext rows start with the teletext defaults (white on black); open subtitles keep
   their attributes across rows. *)
Definition filler : Z := 0x8F.
Definition newline_code : Z := 0x8A.

Definition graphic (b : Z) : bool := in_range 0x20 0x7F b || in_range 0xA0 0xFF b.
Definition printable (b : Z) : bool := graphic b && negb (b =? 0x20).
Definition attribute_code (b : Z) : bool :=
  in_range 0x00 0x07 b || in_range 0x0A 0x0D b || in_range 0x1C 0x1D b || in_range 0x80 0x85 b.

Record attrs := mkAttrs { a_fg : Z ; a_bg : Z ; a_italic : bool ; a_underline : bool }.
(* colours as r<<24 | g<<16 | b<<8 | a; the teletext level 1 palette *)
Definition rgba (r g b a : Z) : Z := ((r * 256 + g) * 256 + b) * 256 + a.
Definition teletext_colour (n : Z) : Z :=
  rgba (if Z.odd n then 255 else 0) (if Z.odd (n / 2) then 255 else 0) (if Z.odd (n / 4) then 255 else 0) 255.
Definition white := teletext_colour 7.
Definition black := teletext_colour 0.
Definition transparent := rgba 0 0 0 0.
Definition default_attrs (teletext : bool) : attrs := mkAttrs white (if teletext then black else transparent) false false.

Definition apply_attribute (c : Z) (a : attrs) : attrs :=
  if in_range 0x00 0x07 c then mkAttrs (teletext_colour c) (a_bg a) (a_italic a) (a_underline a)
  else if c =? 0x1C then mkAttrs (a_fg a) black (a_italic a) (a_underline a)
  else if c =? 0x1D then mkAttrs (a_fg a) (a_fg a) (a_italic a) (a_underline a)
  else if c =? 0x80 then mkAttrs (a_fg a) (a_bg a) true (a_underline a)
  else if c =? 0x81 then mkAttrs (a_fg a) (a_bg a) false (a_underline a)
  else if c =? 0x82 then mkAttrs (a_fg a) (a_bg a) (a_italic a) true
  else if c =? 0x83 then mkAttrs (a_fg a) (a_bg a) (a_italic a) false
  else if c =? 0x85 then mkAttrs (a_fg a) transparent (a_italic a) (a_underline a)
  else a.   (* box, height and boxing-on codes change nothing that is presented *)

Inductive token := TChar (c : Z) | TBreak | TAttr (c : Z) (spacing : bool).
Inductive piece := Run (a : attrs) (t : text) | Break.

(* the text: everything before the first unused-space byte *)
Fixpoint text_of_field (bs : list Z) : list Z :=
  match bs with [] => [] | b :: rest => if b =? filler then [] else b :: text_of_field rest end.

(* each position with its neighbours (the unused-space code stands outside the text) *)
Definition with_neighbours (t : list Z) : list (Z * Z * Z) := combine (combine (filler :: t) t) (tl t ++ [filler]).

Definition token_at (pcn : Z * Z * Z) : list token :=
  let '(p, c, n) := pcn in
  let between := printable p && printable n in
  if printable c then [TChar c]
  else if c =? 0x20 then (if between then [TChar c] else [])
  else if c =? newline_code then (if (n =? newline_code) || (n =? filler) then [] else [TBreak])
  else if attribute_code c then [TAttr c between]
  else [].
Definition tokens (t : list Z) : list token := flat_map token_at (with_neighbours t).

Definition flush (dec : list Z -> text) (a : attrs) (run : list Z) : list piece :=
  match run with [] => [] | _ => [Run a (dec run)] end.

(* runs: the characters between two attribute codes or row ends, decoded together, with the attributes in force *)
Fixpoint interpret (dec : list Z -> text) (teletext : bool) (a : attrs) (run : list Z) (ts : list token) : list piece :=
  match ts with
  | [] => flush dec a run
  | TChar c :: ts' => interpret dec teletext a (run ++ [c]) ts'
  | TBreak :: ts' => flush dec a run ++ Break :: interpret dec teletext (if teletext then default_attrs true else a) [] ts'
  | TAttr c sp :: ts' => flush dec a run ++ interpret dec teletext (apply_attribute c a) (if sp then [0x20] else []) ts'
  end.

Definition tf_spec (dec : list Z -> text) (teletext : bool) (field : list Z) : list piece :=
  interpret dec teletext (default_attrs teletext) [] (tokens (text_of_field field)).
