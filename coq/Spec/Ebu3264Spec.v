(* S for C09: an interpreter of EBU Tech 3264-E subtitle data files written from the standard and from the
   property statement, sharing no definition with Model/Iso6937.v, Model/StlTf.v, Model/StlDatafile.v and no
   table regenerated from ttconv (it uses Gen/Iso6937Spec.v, which is derived from Unicode data alone).

   Contents
     1. character code tables: ISO 6937 (Tech 3264 Appendix 2, CCT 00) and ISO 8859-5/6/7/8 (CCT 01..04)
     2. the text field (Tech 3264 TTI block, TF): tokens, attributes, runs
     3. time codes (TCI/TCO) as SMPTE 12M counts at the DFC frame rate
     4. vertical position and justification -> region and alignment
     5. the file: GSI fields, grouping of TTI blocks into subtitles, cumulative sets *)
From Coq Require Import QArith.
From TT Require Import Base.Prelude Gen.Iso6937Spec Spec.Smpte12M.
Open Scope Z_scope.

Definition replacement : Z := 0xFFFD.

(* ================================================================================================ 1 *)
(* ISO 6937 (ITU-T T.51) G2 set, columns A, B, D, E, F; column C holds the non-spacing diacritical marks.
   Position A/4 is the dollar sign (ISO 6937/2:1983, the edition Tech 3264 reproduces; not assigned in later
   editions), A/6 (number sign in 1983) is treated as not assigned, like the later editions do. *)
Definition iso6937_single : list (Z * Z) :=
  [(0xA0, 0x00A0); (0xA1, 0x00A1); (0xA2, 0x00A2); (0xA3, 0x00A3); (0xA4, 0x0024); (0xA5, 0x00A5); (0xA7, 0x00A7);
   (0xA8, 0x00A4); (0xA9, 0x2018); (0xAA, 0x201C); (0xAB, 0x00AB); (0xAC, 0x2190); (0xAD, 0x2191); (0xAE, 0x2192);
   (0xAF, 0x2193); (0xB0, 0x00B0); (0xB1, 0x00B1); (0xB2, 0x00B2); (0xB3, 0x00B3); (0xB4, 0x00D7); (0xB5, 0x00B5);
   (0xB6, 0x00B6); (0xB7, 0x00B7); (0xB8, 0x00F7); (0xB9, 0x2019); (0xBA, 0x201D); (0xBB, 0x00BB); (0xBC, 0x00BC);
   (0xBD, 0x00BD); (0xBE, 0x00BE); (0xBF, 0x00BF);
   (0xD0, 0x2014); (0xD1, 0x00B9); (0xD2, 0x00AE); (0xD3, 0x00A9); (0xD4, 0x2122); (0xD5, 0x266A); (0xD6, 0x00AC);
   (0xD7, 0x00A6); (0xDC, 0x215B); (0xDD, 0x215C); (0xDE, 0x215D); (0xDF, 0x215E);
   (0xE0, 0x2126); (0xE1, 0x00C6); (0xE2, 0x00D0); (0xE3, 0x00AA); (0xE4, 0x0126); (0xE6, 0x0132); (0xE7, 0x013F);
   (0xE8, 0x0141); (0xE9, 0x00D8); (0xEA, 0x0152); (0xEB, 0x00BA); (0xEC, 0x00DE); (0xED, 0x0166); (0xEE, 0x014A);
   (0xEF, 0x0149);
   (0xF0, 0x0138); (0xF1, 0x00E6); (0xF2, 0x0111); (0xF3, 0x00F0); (0xF4, 0x0127); (0xF5, 0x0131); (0xF6, 0x0133);
   (0xF7, 0x0140); (0xF8, 0x0142); (0xF9, 0x00F8); (0xFA, 0x0153); (0xFB, 0x00DF); (0xFC, 0x00FE); (0xFD, 0x0167);
   (0xFE, 0x014B); (0xFF, 0x00AD)].

Fixpoint assoc1 (m : list (Z * Z)) (k : Z) : option Z :=
  match m with [] => None | (k', v) :: m' => if k' =? k then Some v else assoc1 m' k end.
Fixpoint assoc2 (m : list (Z * Z * Z)) (k1 k2 : Z) : option Z :=
  match m with [] => None | (a, b, v) :: m' => if (a =? k1) && (b =? k2) then Some v else assoc2 m' k1 k2 end.
Definition or_replacement (o : option Z) : Z := match o with Some c => c | None => replacement end.

Definition is_diacritic (b : Z) : bool := (0xC1 <=? b) && (b <=? 0xCF).
(* one coded character that is not a diacritical combination *)
Definition iso6937_char (b : Z) : Z :=
  if (0x20 <=? b) && (b <=? 0x7E) then b else or_replacement (assoc1 iso6937_single b).
(* a non-spacing diacritical mark and the character that follows it form one coded character; a combination
   outside the repertoire (Gen/Iso6937Spec.v), or a mark with nothing after it, is one replacement character *)
Fixpoint decode_iso6937 (bs : list Z) : text :=
  match bs with
  | [] => []
  | b :: rest =>
      if is_diacritic b then
        match rest with
        | [] => [replacement]
        | l :: rest' => or_replacement (assoc2 iso6937_pairs_spec b l) :: decode_iso6937 rest'
        end
      else iso6937_char b :: decode_iso6937 rest
  end.

(* ISO/IEC 8859-5:1999, 8859-6:1999, 8859-7:2003, 8859-8:1999 with the C0/C1 controls (positions 00..9F are
   identical to ISO 8859-1); positions that the part leaves unassigned give the replacement character *)
Definition in_range (lo hi b : Z) : bool := (lo <=? b) && (b <=? hi).
Definition iso8859_5 (b : Z) : Z :=
  if b <? 0xA0 then b else
  if b =? 0xA0 then 0xA0 else if b =? 0xAD then 0xAD else if b =? 0xF0 then 0x2116 else if b =? 0xFD then 0xA7
  else b - 0xA0 + 0x400.
Definition iso8859_6 (b : Z) : Z :=
  if b <? 0xA0 then b else
  if (b =? 0xA0) || (b =? 0xA4) || (b =? 0xAD) then b
  else if b =? 0xAC then 0x060C else if b =? 0xBB then 0x061B else if b =? 0xBF then 0x061F
  else if in_range 0xC1 0xDA b || in_range 0xE0 0xF2 b then b - 0xC1 + 0x0621
  else replacement.
Definition iso8859_7 (b : Z) : Z :=
  if b <? 0xA0 then b else
  if b =? 0xA1 then 0x2018 else if b =? 0xA2 then 0x2019 else if b =? 0xA4 then 0x20AC else if b =? 0xA5 then 0x20AF
  else if b =? 0xAA then 0x037A else if b =? 0xAF then 0x2015
  else if (b =? 0xAE) || (b =? 0xD2) || (b =? 0xFF) then replacement
  else if b <? 0xB4 then b
  else if (b =? 0xB7) || (b =? 0xBB) || (b =? 0xBD) then b
  else b - 0xB4 + 0x0384.
Definition iso8859_8 (b : Z) : Z :=
  if b <? 0xA0 then b else
  if b =? 0xA1 then replacement else if b =? 0xAA then 0xD7 else if b =? 0xBA then 0xF7
  else if b <? 0xBF then b
  else if b =? 0xDF then 0x2017
  else if in_range 0xE0 0xFA b then b - 0xE0 + 0x05D0
  else if b =? 0xFD then 0x200E else if b =? 0xFE then 0x200F
  else replacement.

(* GSI CCT (two ASCII digits) -> decoder of the text field; Tech 3264 defines 00..04 only, and the Latin
   alphabet is the fallback for anything else *)
Definition cct_is (cct : list Z) (digit : Z) : bool :=
  match cct with [a; b] => (a =? 0x30) && (b =? digit) | _ => false end.
Definition decoder_spec (cct : list Z) : list Z -> text :=
  if cct_is cct 0x31 then map iso8859_5
  else if cct_is cct 0x32 then map iso8859_6
  else if cct_is cct 0x33 then map iso8859_7
  else if cct_is cct 0x34 then map iso8859_8
  else decode_iso6937.

(* ================================================================================================ 2 *)
(* Text field.  Codes (Tech 3264, TTI block, TF):
     20..7F, A0..FF  characters of the code table          00..07  teletext alpha colours (foreground)
     0A/0B end/start box, 0C/0D normal/double height        1C black background, 1D new background
     80/81 italics on/off, 82/83 underline on/off, 84/85 boxing on/off
     8A new line (CR/LF)                                    8F unused space
   every other value is reserved and ignored.  The text ends at the first unused-space byte.
   An attribute code takes effect for the characters that follow it; it occupies a character position, which
   is presented as a space only when it separates two printable characters (spaces, and the positions of
   attribute codes, at the start or end of a row or next to another space carry no text).  A new-line code
   starts a new row unless the text ends there (and see double height below).  Teletext rows start with the teletext defaults (white on black); open subtitles keep
   their attributes across rows. *)
Definition filler : Z := 0x8F.
Definition newline_code : Z := 0x8A.

Definition graphic (b : Z) : bool := in_range 0x20 0x7F b || in_range 0xA0 0xFF b.
Definition printable (b : Z) : bool := graphic b && negb (b =? 0x20).
Definition attribute_code (b : Z) : bool :=
  in_range 0x00 0x07 b || in_range 0x0A 0x0D b || in_range 0x1C 0x1D b || in_range 0x80 0x85 b.

Record attrs := mkAttrs { a_fg : Z ; a_bg : Z ; a_italic : bool ; a_underline : bool }.
(* colours as r<<24 | g<<16 | b<<8 | a; the teletext level 1 palette *)
Definition rgba (r g b a : Z) : Z := ((r * 256 + g) * 256 + b) * 256 + a.
Definition teletext_colour (n : Z) : Z :=
  rgba (if Z.odd n then 255 else 0) (if Z.odd (n / 2) then 255 else 0) (if Z.odd (n / 4) then 255 else 0) 255.
Definition white := teletext_colour 7.
Definition black := teletext_colour 0.
Definition transparent := rgba 0 0 0 0.
Definition default_attrs (teletext : bool) : attrs := mkAttrs white (if teletext then black else transparent) false false.

Definition apply_attribute (c : Z) (a : attrs) : attrs :=
  if in_range 0x00 0x07 c then mkAttrs (teletext_colour c) (a_bg a) (a_italic a) (a_underline a)
  else if c =? 0x1C then mkAttrs (a_fg a) black (a_italic a) (a_underline a)
  else if c =? 0x1D then mkAttrs (a_fg a) (a_fg a) (a_italic a) (a_underline a)
  else if c =? 0x80 then mkAttrs (a_fg a) (a_bg a) true (a_underline a)
  else if c =? 0x81 then mkAttrs (a_fg a) (a_bg a) false (a_underline a)
  else if c =? 0x82 then mkAttrs (a_fg a) (a_bg a) (a_italic a) true
  else if c =? 0x83 then mkAttrs (a_fg a) (a_bg a) (a_italic a) false
  else if c =? 0x85 then mkAttrs (a_fg a) transparent (a_italic a) (a_underline a)
  else a.   (* box, height and boxing-on codes change nothing that is presented *)

Inductive token := TChar (c : Z) | TBreak | TAttr (c : Z) (spacing : bool).
Inductive piece := Run (a : attrs) (t : text) | Break.

(* the text: everything before the first unused-space byte *)
Fixpoint text_of_field (bs : list Z) : list Z :=
  match bs with [] => [] | b :: rest => if b =? filler then [] else b :: text_of_field rest end.

(* each position with its neighbours (the unused-space code stands outside the text) *)
Definition with_neighbours (t : list Z) : list (Z * Z * Z) := combine (combine (filler :: t) t) (tl t ++ [filler]).

(* double height: the field contains the double-height code; its rows are two teletext rows high and are
   separated by two new-line codes, of which the first does not start a row of its own *)
Definition double_height (t : list Z) : bool := existsb (fun b => b =? 0x0D) t.

Definition token_at (dh : bool) (pcn : Z * Z * Z) : list token :=
  let '(p, c, n) := pcn in
  let between := printable p && printable n in
  if printable c then [TChar c]
  else if c =? 0x20 then (if between then [TChar c] else [])
  else if c =? newline_code then (if (n =? filler) || (dh && (n =? newline_code)) then [] else [TBreak])
  else if attribute_code c then [TAttr c between]
  else [].
Definition tokens (t : list Z) : list token := flat_map (token_at (double_height t)) (with_neighbours t).

Definition flush (dec : list Z -> text) (a : attrs) (run : list Z) : list piece :=
  match run with [] => [] | _ => [Run a (dec run)] end.

(* runs: the characters between two attribute codes or row ends, decoded together, with the attributes in force *)
Fixpoint interpret (dec : list Z -> text) (teletext : bool) (a : attrs) (run : list Z) (ts : list token) : list piece :=
  match ts with
  | [] => flush dec a run
  | TChar c :: ts' => interpret dec teletext a (run ++ [c]) ts'
  | TBreak :: ts' => flush dec a run ++ Break :: interpret dec teletext (if teletext then default_attrs true else a) [] ts'
  | TAttr c sp :: ts' => flush dec a run ++ interpret dec teletext (apply_attribute c a) (if sp then [0x20] else []) ts'
  end.

Definition tf_spec (dec : list Z -> text) (teletext : bool) (field : list Z) : list piece :=
  interpret dec teletext (default_attrs teletext) [] (tokens (text_of_field field)).

(* two consecutive new-line codes in a field without double height are an empty row *)
Fixpoint adjacent_newlines (t : list Z) : bool :=
  match t with
  | a :: ((b :: _) as r) => ((a =? newline_code) && (b =? newline_code)) || adjacent_newlines r
  | _ => false
  end.

(* ================================================================================================ 3 *)
(* Time codes.  TCI/TCO are SMPTE 12M time addresses (hours, minutes, seconds, frames) counted at the frame
   rate named by the disk format code.  The address of frame number n of the counting sequence
   (Spec/Smpte12M.v label_spec) is presented n frame periods after 00:00:00:00.  Closed form of n: nominal
   count minus the frame numbers skipped by drop-frame counting (D per minute, except every tenth minute).
   Only 30000/1001 uses drop-frame counting; SMPTE 12M defines none for 24000/1001. *)
Record frame_rate := mkFR { fr_num : Z ; fr_den : Z ; fr_nominal : Z ; fr_drop : Z }.
Definition dfc_rate (dfc : list Z) : option frame_rate :=
  match dfc with
  | [0x53; 0x54; 0x4C; a; b; 0x2E; 0x30; 0x31] =>          (* "STLnn.01" *)
      if (a =? 0x32) && (b =? 0x33) then Some (mkFR 24000 1001 24 0)
      else if (a =? 0x32) && (b =? 0x34) then Some (mkFR 24 1 24 0)
      else if (a =? 0x32) && (b =? 0x35) then Some (mkFR 25 1 25 0)
      else if (a =? 0x33) && (b =? 0x30) then Some (mkFR 30000 1001 30 2)
      else if (a =? 0x35) && (b =? 0x30) then Some (mkFR 50 1 50 0)
      else None
  | _ => None
  end.
Definition smpte_count (F D : Z) (l : label) : Z :=
  let '(h, m, s, f) := l in
  let minutes := 60 * h + m in
  (minutes * 60 + s) * F + f - D * (minutes - minutes / 10).
(* seconds since 00:00:00:00 *)
Definition time_of (r : frame_rate) (l : label) : Q :=
  Qmake (smpte_count (fr_nominal r) (fr_drop r) l * fr_den r) (Z.to_pos (fr_num r)).

(* ================================================================================================ 4 *)
(* Vertical position and justification.  The safe area is the root container minus 5 % left and right and
   10 % top and bottom; it is divided into `rows` equal rows, row 1 at the top.  A subtitle whose first row is
   VP and that occupies k rows is presented either in a region that starts at the top edge of row VP and ends at
   the bottom of the safe area, text aligned to its top ("before"), or in a region that starts at the top of the
   safe area and ends at the bottom edge of its last row VP + k - 1, text aligned to its bottom ("after"). *)
Definition safe_left : Q := 5.   Definition safe_top : Q := 10.
Definition safe_width : Q := 90. Definition safe_height : Q := 80.
(* VP is 01..17h for teletext and 00..63h for open subtitles: the value 0 denotes the top row, like 1 *)
Definition first_row (vp : Z) : Z := if vp <? 1 then 1 else vp.
Definition row_top (rows r : Z) : Q := (safe_top + (inject_Z (r - 1) / inject_Z rows) * safe_height)%Q.
Definition row_bottom (rows r : Z) : Q := (safe_top + (inject_Z r / inject_Z rows) * safe_height)%Q.

Record rect := mkRect { x0 : Q ; y0 : Q ; width : Q ; height : Q ; align_after : bool }.
Definition top_anchored (rows vp : Z) : rect :=
  mkRect safe_left (row_top rows vp) safe_width (safe_top + safe_height - row_top rows vp)%Q false.
Definition bottom_anchored (rows last_row : Z) : rect :=
  mkRect safe_left safe_top safe_width (row_bottom rows last_row - safe_top)%Q true.
Definition inside_safe_area (r : rect) : Prop :=
  (safe_left <= x0 r /\ x0 r + width r <= safe_left + safe_width /\
   safe_top <= y0 r /\ y0 r + height r <= safe_top + safe_height /\ 0 <= height r)%Q.
Definition inside_safe_area_b (r : rect) : bool :=
  Qle_bool safe_left (x0 r) && Qle_bool (x0 r + width r) (safe_left + safe_width) &&
  Qle_bool safe_top (y0 r) && Qle_bool (y0 r + height r) (safe_top + safe_height) && Qle_bool 0 (height r).

(* rows occupied by a field: one more than its new-line codes, a pair of new-line codes counting once in double
   height; each row is two teletext rows high in double height *)
Fixpoint count_breaks (dh : bool) (t : list Z) (after_break : bool) : Z :=
  match t with
  | [] => 0
  | c :: r => if c =? newline_code
              then (if dh && after_break then count_breaks dh r false else 1 + count_breaks dh r true)
              else count_breaks dh r false
  end.
Definition rows_occupied (t : list Z) : Z :=
  let dh := double_height t in (count_breaks dh t false + 1) * (if dh then 2 else 1).

(* JC: 01 left, 02 centred, 03 right; 00 (unchanged presentation) is centred teletext practice *)
Inductive alignment := AlignStart | AlignCenter | AlignEnd.
Definition justification (jc : Z) : alignment := if jc =? 1 then AlignStart else if jc =? 3 then AlignEnd else AlignCenter.

(* ================================================================================================ 5 *)
(* The file: a 1024-byte GSI block followed by 128-byte TTI blocks. *)
Definition sub (off len : nat) (bs : list Z) : list Z := firstn len (skipn off bs).
Definition byte_at (off : nat) (bs : list Z) : Z := nth off bs 0.

(* GSI fields used: DFC 3..10, DSC 11, CCT 12..13, MNR 253..254, TCP 256..263 *)
Definition gsi_dfc (g : list Z) := sub 3 8 g.
Definition gsi_dsc (g : list Z) := byte_at 11 g.
Definition gsi_cct (g : list Z) := sub 12 2 g.
Definition gsi_mnr (g : list Z) := sub 253 2 g.
Definition gsi_tcp (g : list Z) := sub 256 8 g.
Definition teletext_dsc (dsc : Z) : bool := (dsc =? 0x31) || (dsc =? 0x32).     (* level-1 / level-2 teletext *)

Definition digit_val (c : Z) : option Z := if (0x30 <=? c) && (c <=? 0x39) then Some (c - 0x30) else None.
Definition two_digit (a b : Z) : option Z :=
  match digit_val a, digit_val b with Some x, Some y => Some (10 * x + y) | _, _ => None end.

(* TTI fields: SGN 0, SN 1..2 (low byte first), EBN 3, CS 4, TCI 5..8, TCO 9..12, VP 13, JC 14, CF 15, TF 16..127 *)
Record block := mkBlock { b_sgn : Z ; b_sn : Z ; b_ebn : Z ; b_cs : Z ; b_tci : label ; b_tco : label ;
                          b_vp : Z ; b_jc : Z ; b_cf : Z ; b_tf : list Z }.
Definition block_of (b : list Z) : block :=
  mkBlock (byte_at 0 b) (byte_at 1 b + 256 * byte_at 2 b) (byte_at 3 b) (byte_at 4 b)
          (byte_at 5 b, byte_at 6 b, byte_at 7 b, byte_at 8 b) (byte_at 9 b, byte_at 10 b, byte_at 11 b, byte_at 12 b)
          (byte_at 13 b) (byte_at 14 b) (byte_at 15 b) (sub 16 112 b).
Fixpoint blocks_of (fuel : nat) (bs : list Z) : option (list block) :=
  match fuel with
  | O => Some []
  | S k => match bs with
           | [] => Some []
           | _ => if Nat.eqb (length (firstn 128 bs)) 128
                  then match blocks_of k (skipn 128 bs) with Some r => Some (block_of (firstn 128 bs) :: r) | None => None end
                  else None
           end
  end.

(* user data (EBN FE), reserved (F0..FD) and comment (CF = 01) blocks carry no subtitle text *)
Definition carries_text (b : block) : bool := negb ((0xF0 <=? b_ebn b) && (b_ebn b <=? 0xFE)) && negb (b_cf b =? 1).

Definition label_eqb (a b : label) : bool :=
  let '(h, m, s, f) := a in let '(h', m', s', f') := b in (h =? h') && (m =? m') && (s =? s') && (f =? f').
Definition same_subtitle (a b : block) : bool :=
  (b_sgn a =? b_sgn b) && (b_sn a =? b_sn b) && (b_cs a =? b_cs b) && label_eqb (b_tci a) (b_tci b) &&
  label_eqb (b_tco a) (b_tco b) && (b_vp a =? b_vp b) && (b_jc a =? b_jc b).

(* a subtitle: the blocks up to and including the one with EBN = FF, text fields concatenated *)
Record subtitle := mkSub { s_head : block ; s_field : list Z }.
Fixpoint subtitles_go (bs : list block) (pending : option subtitle) : option (list subtitle) :=
  match bs with
  | [] => match pending with None => Some [] | Some _ => None end          (* an unterminated subtitle *)
  | b :: r =>
      match pending with
      | Some p => if negb (same_subtitle (s_head p) b) then None else
                  let p' := mkSub b (s_field p ++ text_of_field (b_tf b)) in
                  if b_ebn b =? 0xFF then match subtitles_go r None with Some l => Some (p' :: l) | None => None end
                  else subtitles_go r (Some p')
      | None => let p' := mkSub b (text_of_field (b_tf b)) in
                if b_ebn b =? 0xFF then match subtitles_go r None with Some l => Some (p' :: l) | None => None end
                else subtitles_go r (Some p')
      end
  end.
Definition subtitles_of (bs : list block) : option (list subtitle) := subtitles_go (filter carries_text bs) None.

(* reader configuration *)
Inductive start_cfg := StartNone | StartTCP | StartLabel (l : label).
Inductive rows_cfg := RowsDefault | RowsMNR | RowsInt (n : Z).

(* the values documented for the stl_reader section (README: program_start_tc "TCP" | "HH:MM:SS:FF", max_row_count
   "MNR" | integer, disable_fill_line_gap / disable_line_padding true | false), as predicates on the text of a value:
   a keyword in any letter case; a complete time code - two ASCII digits, a separator, ... eleven characters and nothing
   after them - whose separators satisfy `sep` *)
Definition any_case (keyword t : text) : Prop := Forall2 (fun k c => c = k \/ c = k + 32) keyword t.
Definition ascii_digit (c : Z) : Prop := 48 <= c <= 57.
Definition complete_time_code (sep : Z -> Prop) (t : text) : Prop :=
  exists h1 h2 s1 m1 m2 s2 c1 c2 s3 f1 f2,
    t = [h1; h2; s1; m1; m2; s2; c1; c2; s3; f1; f2] /\
    Forall ascii_digit [h1; h2; m1; m2; c1; c2; f1; f2] /\ Forall sep [s1; s2; s3].

(* numeric GSI fields are ASCII digits.  A field holding something else is "not a number" (the reader falls back to
   a default) - except that fields padded or decorated with blanks, signs or underscores are left outside this
   specification (None), because number parsers differ on them *)
Definition lenient_char (c : Z) : bool := (c =? 0x20) || in_range 9 13 c || (c =? 0x2B) || (c =? 0x2D) || (c =? 0x5F).
Definition digits_value (bs : list Z) : option Z :=
  fold_left (fun acc c => match acc, digit_val c with Some a, Some d => Some (10 * a + d) | _, _ => None end) bs (Some 0).
Inductive field := Number (n : Z) | NotANumber.
Definition numeric_field (bs : list Z) : option field :=
  match digits_value bs with
  | Some n => Some (Number n)
  | None => if existsb lenient_char bs then None else Some NotANumber
  end.

Definition programme_start (r : frame_rate) (g : list Z) (c : start_cfg) : option Q :=
  match c with
  | StartNone => Some 0%Q
  | StartLabel l => Some (time_of r l)
  | StartTCP =>
      let t := gsi_tcp g in
      match numeric_field (sub 0 2 t), numeric_field (sub 2 2 t), numeric_field (sub 4 2 t), numeric_field (sub 6 2 t) with
      | Some (Number hh), Some (Number mm), Some (Number ss), Some (Number ff) => Some (time_of r (hh, mm, ss, ff))
      | Some _, Some _, Some _, Some _ => Some 0%Q                (* not a time code: no shift *)
      | _, _, _, _ => None
      end
  end.
(* the rows of the grid: 23 for teletext; for open subtitles the configured number or MNR (Tech 3264: 01..99).  A
   declared count that is not a positive number (MNR 00, a configured 0 or a negative number) declares no grid, like
   a field that is not a number: the 23 rows are used *)
Definition grid_rows (n : Z) : Z := match n with Zpos _ => n | _ => 23 end.
Definition max_rows (g : list Z) (c : rows_cfg) : option Z :=
  if teletext_dsc (gsi_dsc g) then Some 23 else
  match c with
  | RowsDefault => Some 23
  | RowsInt n => Some (grid_rows n)
  | RowsMNR => match numeric_field (gsi_mnr g) with
               | Some (Number n) => Some (grid_rows n)
               | Some NotANumber => Some 23
               | None => None
               end
  end.

(* what is presented: paragraphs (a subtitle, or a cumulative set) made of timed parts *)
Record part := mkPart { pt_begin : Q ; pt_end : Q ; pt_text : list piece }.
(* pg_vp: the first row of the paragraph, pg_rows: the number of rows it occupies *)
Record paragraph := mkParagraph { pg_sgn : Z ; pg_align : alignment ; pg_vp : Z ; pg_rows : Z ; pg_parts : list part }.

Definition q_ltb (a b : Q) : bool := negb (Qle_bool b a).

(* cumulative status: 00 not cumulative, 01 first, 02 intermediate, 03 last of a cumulative set.  The parts of
   a cumulative set accumulate in one paragraph, each on a row of its own.  `open_set`: the last paragraph is a
   cumulative set that has not seen its last member.  A subtitle that begins before the programme start is not
   presented.  None: the sequence is outside this specification (cumulative sets not bracketed, a member of a
   set dropped while another is kept, TCO before TCI, subtitle numbers not increasing). *)
Fixpoint paragraphs_go (r : frame_rate) (start : Q) (dec : list Z -> text) (teletext : bool)
         (subs : list subtitle) (last_sn : Z) (acc : list paragraph) (open_set : option bool) : option (list paragraph) :=
  match subs with
  | [] => match open_set with None => Some acc | Some _ => None end
  | s :: rest =>
      let h := s_head s in
      let b := (time_of r (b_tci h) - start)%Q in
      let e := (time_of r (b_tco h) - start)%Q in
      if negb (last_sn <? b_sn h) then None else
      if q_ltb e b then None else
      let kept := negb (q_ltb b 0) in
      let txt := tf_spec dec teletext (s_field s) in
      let cs := b_cs h in
      if cs =? 0 then
        match open_set with
        | Some _ => None
        | None => paragraphs_go r start dec teletext rest (b_sn h)
                    (if kept then acc ++ [mkParagraph (b_sgn h) (justification (b_jc h)) (first_row (b_vp h)) (rows_occupied (s_field s)) [mkPart b e txt]] else acc) None
        end
      else if cs =? 1 then
        match open_set with
        | Some _ => None
        | None => paragraphs_go r start dec teletext rest (b_sn h)
                    (if kept then acc ++ [mkParagraph (b_sgn h) (justification (b_jc h)) (first_row (b_vp h)) (rows_occupied (s_field s)) [mkPart b e (txt ++ [Break])]] else acc) (Some kept)
        end
      else if (cs =? 2) || (cs =? 3) then
        match open_set with
        | None => None
        | Some k =>
            if negb (Bool.eqb k kept) then None else
            let piece_list := if cs =? 2 then txt ++ [Break] else txt in
            let acc' := if kept then
                          match rev acc with
                          | p :: before => rev before ++ [mkParagraph (pg_sgn p) (pg_align p) (pg_vp p) (pg_rows p) (pg_parts p ++ [mkPart b e piece_list])]
                          | [] => acc
                          end
                        else acc in
            paragraphs_go r start dec teletext rest (b_sn h) acc' (if cs =? 2 then Some k else None)
        end
      else None
  end.

(* subtitles of one subtitle group (SGN) are kept together, groups in order of first appearance *)
Fixpoint sgn_order (ps : list paragraph) (seen : list Z) : list Z :=
  match ps with
  | [] => rev seen
  | p :: r => if existsb (fun s => s =? pg_sgn p) seen then sgn_order r seen else sgn_order r (pg_sgn p :: seen)
  end.
Definition by_group (ps : list paragraph) : list (list paragraph) :=
  map (fun g => filter (fun p => pg_sgn p =? g) ps) (sgn_order ps []).

(* the presentation of a file; None = outside the domain of this specification *)
Definition presentation (file : list Z) (sc : start_cfg) (rc : rows_cfg) : option (list (list paragraph) * Z) :=
  let g := firstn 1024 file in
  if negb (Nat.eqb (length g) 1024) then None else
  match dfc_rate (gsi_dfc g), blocks_of (S (length file)) (skipn 1024 file) with
  | Some r, Some bs =>
      match subtitles_of bs with
      | None => None
      | Some subs =>
          match max_rows g rc, programme_start r g sc with
          | Some rows, Some start =>
              match paragraphs_go r start (decoder_spec (gsi_cct g)) (teletext_dsc (gsi_dsc g)) subs (-1) [] None with
              | Some ps => Some (by_group ps, rows)
              | None => None
              end
          | _, _ => None
          end
      end
  | _, _ => None
  end.
