(* line-oriented driver around the extracted C12 model; integers cross as decimal text *)
open Tc_model
let rec pos_of_int n = if n = 1 then XH else if n land 1 = 0 then XO (pos_of_int (n lsr 1)) else XI (pos_of_int (n lsr 1))
let z_of_int n = if n = 0 then Z0 else if n > 0 then Zpos (pos_of_int n) else Zneg (pos_of_int (-n))
let rec int_of_pos = function XH -> 1 | XO p -> 2 * int_of_pos p | XI p -> 2 * int_of_pos p + 1
let int_of_z = function Z0 -> 0 | Zpos p -> int_of_pos p | Zneg p -> - (int_of_pos p)
let lab (((h, m), s), f) = Printf.sprintf "%d %d %d %d" (int_of_z h) (int_of_z m) (int_of_z s) (int_of_z f)
let mk h m s f = (((z_of_int h, z_of_int m), z_of_int s), z_of_int f)
let txt l = String.concat "," (List.map (fun c -> string_of_int (int_of_z c)) l)
let of_txt s = if s = "" then [] else List.map (fun c -> z_of_int (int_of_string c)) (String.split_on_char ',' s)
let () =
  try while true do
    let line = input_line stdin in
    match String.split_on_char ' ' line with
    | ["FR"; rn; rd; lo; hi; step] ->
        let r = { rn = z_of_int (int_of_string rn); rd = z_of_int (int_of_string rd) } in
        let hi = int_of_string hi and step = int_of_string step in
        let n = ref (int_of_string lo) in
        let b = Buffer.create 65536 in
        while !n < hi do
          let l = from_frames r (z_of_int !n) in
          Buffer.add_string b (lab l); Buffer.add_char b ' ';
          Buffer.add_string b (string_of_int (int_of_z (to_frames r l))); Buffer.add_char b '\n';
          n := !n + step
        done; print_string (Buffer.contents b); print_endline "END"
    | "FL" :: rn :: rd :: ns ->
        let r = { rn = z_of_int (int_of_string rn); rd = z_of_int (int_of_string rd) } in
        let b = Buffer.create 65536 in
        List.iter (fun n ->
          let l = from_frames r (z_of_int (int_of_string n)) in
          Buffer.add_string b (lab l); Buffer.add_char b ' ';
          Buffer.add_string b (string_of_int (int_of_z (to_frames r l))); Buffer.add_char b '\n') ns;
        print_string (Buffer.contents b); print_endline "END"
    | ["F"; rn; rd; n] ->
        let r = { rn = z_of_int (int_of_string rn); rd = z_of_int (int_of_string rd) } in
        print_endline (lab (from_frames r (z_of_int (int_of_string n))))
    | ["T"; rn; rd; h; m; s; f] ->
        let r = { rn = z_of_int (int_of_string rn); rd = z_of_int (int_of_string rd) } in
        print_endline (string_of_int (int_of_z (to_frames r (mk (int_of_string h) (int_of_string m) (int_of_string s) (int_of_string f)))))
    | ["A"; rn; rd; k; h; m; s; f] ->
        let r = { rn = z_of_int (int_of_string rn); rd = z_of_int (int_of_string rd) } in
        print_endline (lab (add_frames r (z_of_int (int_of_string k)) (mk (int_of_string h) (int_of_string m) (int_of_string s) (int_of_string f))))
    | ["S"; rn; rd; sn; sd] ->
        let r = { rn = z_of_int (int_of_string rn); rd = z_of_int (int_of_string rd) } in
        print_endline (lab (from_seconds r (z_of_int (int_of_string sn)) (z_of_int (int_of_string sd))))
    | ["O"; rn; rd; h; m; s; f] ->
        let r = { rn = z_of_int (int_of_string rn); rd = z_of_int (int_of_string rd) } in
        let (a, b) = to_temporal_offset r (mk (int_of_string h) (int_of_string m) (int_of_string s) (int_of_string f)) in
        Printf.printf "%d %d\n" (int_of_z a) (int_of_z b)
    | ["P"; rn; rd; h; m; s; f] ->
        let r = { rn = z_of_int (int_of_string rn); rd = z_of_int (int_of_string rd) } in
        print_endline (txt (print_tc r (mk (int_of_string h) (int_of_string m) (int_of_string s) (int_of_string f))))
    | ["R"; rn; rd; t] ->
        let r = { rn = z_of_int (int_of_string rn); rd = z_of_int (int_of_string rd) } in
        (match parse_tc (of_txt t) r with
         | None -> print_endline "NONE"
         | Some (l, r') -> Printf.printf "%s %d %d\n" (lab l) (int_of_z r'.rn) (int_of_z r'.rd))
    | ["C"; n; d] ->
        (match clock_from_seconds (z_of_int (int_of_string n)) (z_of_int (int_of_string d)) with
         | None -> print_endline "NONE"
         | Some l -> print_endline (lab l ^ " " ^ txt (print_clock (z_of_int 46) l)))
    | _ -> print_endline "BADCMD"
  done with End_of_file -> ()
