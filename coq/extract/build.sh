#!/bin/sh
# builds the extracted OCaml model driver (coq/extract/tc_driver); needs the .vo of Model/TimeCode.v
set -e
cd "$(dirname "$0")"
timeout 300 coqc -Q .. TT Extract.v > /dev/null
timeout 300 ocamlfind ocamlopt -w -a -O2 tc_model.mli tc_model.ml driver.ml -o tc_driver 2>/dev/null || \
  timeout 300 ocamlfind ocamlopt -w -a tc_model.mli tc_model.ml driver.ml -o tc_driver
rm -f *.cmi *.cmx *.o *.glob *.vo* .*.aux
