(* Extraction of the integer models (C12) to OCaml for the volume correspondence runs.
   Only ExtrOcamlBasic is used: bool, option, unit, list, prod, sumbool to OCaml datatypes;
   Z, positive stay the inductive types of the standard library (no Extract Constant of ours). *)
From Coq Require Import Extraction ExtrOcamlBasic.
From TT Require Import Base.Prelude Model.TimeCode.
Extraction Language OCaml.
Extraction "tc_model.ml" mkRate from_frames to_frames add_frames from_seconds to_temporal_offset
  print_tc parse_tc clock_from_seconds print_clock.
