(* C14: soundness of the content interval — a region (or document) that the cache skips at t paints nothing at t. *)
From TT Require Import Model.Doc Gen.StyleTables Model.Isd Model.SigTimes Model.CloneTrigger Spec.IsdSpec Spec.StyleSpec Spec.RenderSpec Spec.DocWf.
From TT Require Import Proofs.Common.ElemInd Proofs.Common.StyleFrame Proofs.C01.Leaves Proofs.C01.Lwsp Proofs.C01.Display.
From TT Require Import Proofs.C13.Shape Proofs.C13.Styles Proofs.C03.Values Proofs.C03.Cascade Proofs.C14.Cache Proofs.C14.Restrict.

(* ---- the interval covers t ------------------------------------------------------------------------------- *)
Definition covers (ci : option Q * option Q) (t : Q) : Prop :=
  match fst ci with
  | None => False
  | Some c0 => Qle c0 t /\ match snd ci with None => True | Some c1 => Qlt t c1 end
  end.

Lemma active_at_bounds t iv : active_at t iv = true ->
  Qle (fst iv) t /\ match snd iv with Some e => Qlt t e | None => True end.
Proof.
  unfold active_at, Qltb. rewrite negb_involutive. intros H. apply andb_true_iff in H as [H1 H2].
  apply Qle_bool_iff in H1. split; [exact H1|]. destruct (snd iv) as [e|]; [|exact I].
  apply negb_true_iff in H2. destruct (Qlt_le_dec t e) as [Hl|Hg]; [exact Hl|]. apply Qle_bool_iff in Hg. congruence.
Qed.

Lemma widen_covers ci iv t : covers ci t \/ active_at t iv = true -> covers (widen ci iv) t.
Proof.
  destruct ci as [[c0|] c1]; destruct iv as [b e]; unfold covers, widen; cbn [fst snd]; intros [H|H].
  - destruct H as [H0 H1]. split.
    + apply Qle_trans with c0; [apply Q.le_min_r | exact H0].
    + destruct e as [e|]; [|exact I]. destruct c1 as [c1|]; [|exact I].
      apply Qlt_le_trans with c1; [exact H1 | apply Q.le_max_r].
  - apply active_at_bounds in H as [Hb He]. cbn [fst snd] in Hb, He. split.
    + apply Qle_trans with b; [apply Q.le_min_l | exact Hb].
    + destruct e as [e|]; [|exact I]. destruct c1 as [c1|]; [|exact I].
      apply Qlt_le_trans with e; [exact He | apply Q.le_max_l].
  - destruct H.
  - apply active_at_bounds in H as [Hb He]. cbn [fst snd] in Hb, He. split; [exact Hb|].
    destruct e as [e|]; [|exact I]. destruct c1 as [c1|]; [|exact I].
    apply Qlt_le_trans with e; [exact He | apply Q.le_max_l].
Qed.

Lemma content_elem_mono t : forall e pb pe ci, covers ci t -> covers (content_elem pb pe e ci) t.
Proof.
  induction e as [a cs IH] using elem_ind2. intros pb pe ci H. cbn [content_elem].
  set (iv := make_absolute (e_begin a) (e_end a) pb pe).
  set (ci1 := match e_kind a with
              | KBr | KSpan => widen ci iv
              | KRegion => if region_always_has_background a then widen ci iv else ci
              | _ => ci
              end).
  assert (H1 : covers ci1 t).
  { unfold ci1. destruct (e_kind a); try exact H; try (apply widen_covers; left; exact H).
    destruct (region_always_has_background a); [apply widen_covers; left; exact H | exact H]. }
  clearbody ci1. revert ci1 H1. induction cs as [|c cs IHcs]; intros ci1 H1; [exact H1|].
  inversion IH as [|? ? Hc Hcs]; subst. apply (IHcs Hcs). apply Hc. exact H1.
Qed.

(* ---- the content model (Spec/DocWf.v), ruby included -------------------------------------------------------- *)
Lemma cm_ok_node a cs :
  cm_ok (Elem a cs) = forallb (fun c => child_ok (e_kind a) (e_kind (eattrs c))) cs && forallb cm_ok cs.
Proof.
  reflexivity.
Qed.

(* kinds whose presence in a snapshot implies an active span or br below (or at) them *)
Definition content_kind (k : kind) : bool := match k with KText | KRb | KRbc | KRegion => false | _ => true end.

Lemma child_ok_content pk ck : child_ok pk ck = true -> pk <> KRuby -> pk <> KSpan -> pk <> KRbc -> content_kind ck = true.
Proof. destruct pk, ck; cbn; congruence. Qed.

(* the snapshot element has the kind of its source *)
Lemma finish_kind a st children r : finish_element a st children = Ok (Some r) -> e_kind (eattrs r) = e_kind a.
Proof.
  unfold finish_element. intros H.
  destruct (negb (push_children_ok (e_kind a) children) && is_nonempty_l children); [discriminate|].
  match type of H with context [Elem ?at_ ?ch] => set (e' := Elem at_ ch) in H end.
  assert (Hk : e_kind (eattrs e') = e_kind a) by reflexivity.
  destruct (keep_always (e_kind a)); [injection H as <-; exact Hk|].
  match type of H with match ?c with _ => _ end = _ => destruct c end; [|injection H as <-; exact Hk].
  destruct (e_kind a); try discriminate.
  destruct (sget (strip_inapplicable KRegion st) p_ShowBackground) as [v|]; [|discriminate].
  destruct v; try discriminate. destruct (tag =? e_ShowBackgroundType_always); [injection H as <-; exact Hk | discriminate].
Qed.
Lemma proc_kind d t sel : forall e inh par pb pe r, proc d t sel inh par pb pe e = Ok (Some r) -> e_kind (eattrs r) = e_kind (eattrs e).
Proof.
  intros [a cs] inh par pb pe r H. cbn [proc] in H.
  destruct (negb (active_at t _)); [discriminate|].
  match type of H with (if ?b then _ else _) = _ => destruct b end; [discriminate|].
  destruct (style_phase d t a par _) as [st|]; [|discriminate]. cbn [bind] in H.
  destruct (display_none st); [discriminate|].
  match type of H with bind ?g _ = _ => destruct g as [children|] end; [|discriminate]. cbn [bind] in H.
  apply finish_kind in H. exact H.
Qed.

(* every child of the snapshot element comes from a child of the source *)
Lemma go_children_src d t sel assoc par pbx pex : forall cs children,
  (fix go (l : list elem) : res (list elem) :=
     match l with
     | [] => Ok []
     | c :: l' => bind (proc d t sel assoc par pbx pex c) (fun r => bind (go l') (fun rs => Ok (match r with Some x => x :: rs | None => rs end)))
     end) cs = Ok children ->
  forall x, In x children -> exists c, In c cs /\ proc d t sel assoc par pbx pex c = Ok (Some x).
Proof.
  induction cs as [|c cs IH]; intros children H x Hx; [injection H as <-; destruct Hx|].
  destruct (proc d t sel assoc par pbx pex c) as [rc|] eqn:Ec; cbn [bind] in H; [|discriminate].
  match type of H with bind ?g _ = _ => destruct g as [rs|] eqn:Er end; [|discriminate]. cbn [bind] in H. injection H as <-.
  destruct rc as [y|].
  - destruct Hx as [<-|Hx]; [exists c; split; [left; reflexivity | exact Ec]|].
    destruct (IH rs eq_refl x Hx) as (c' & Hin & Hp). exists c'. split; [right; exact Hin | exact Hp].
  - destruct (IH rs eq_refl x Hx) as (c' & Hin & Hp). exists c'. split; [right; exact Hin | exact Hp].
Qed.

Lemma finish_some_children a st children r :
  finish_element a st children = Ok (Some r) -> keep_always (e_kind a) = false -> e_kind a <> KRegion ->
  children <> [] /\ push_children_ok (e_kind a) children = true.
Proof.
  unfold finish_element. intros H Hk Hr.
  destruct children as [|c0 cs0].
  - exfalso. cbn [is_nonempty_l andb] in H. rewrite andb_false_r in H.
    rewrite Hk in H. destruct (e_kind a); try discriminate; try congruence; cbn in H; discriminate.
  - split; [discriminate|]. cbn [is_nonempty_l] in H. rewrite andb_true_r in H.
    destruct (push_children_ok (e_kind a) (c0 :: cs0)); [reflexivity | discriminate].
Qed.

(* every admissible sequence of ruby children contains a ruby text (rt) or a ruby text container (rtc) *)
Lemma kinds_eqb_eq : forall a b, kinds_eqb a b = true -> a = b.
Proof.
  induction a as [|x a IH]; intros [|y b] H; cbn [kinds_eqb] in H; try discriminate; [reflexivity|].
  apply andb_true_iff in H as [H1 H2]. rewrite (IH b H2). destruct x, y; try discriminate; reflexivity.
Qed.
Lemma ruby_has_text cs : ruby_children_ok cs = true ->
  exists x, In x cs /\ (e_kind (eattrs x) = KRt \/ e_kind (eattrs x) = KRtc).
Proof.
  unfold ruby_children_ok. intros H.
  assert (Hin : In KRt (kinds_of cs) \/ In KRtc (kinds_of cs)).
  { repeat (apply orb_true_iff in H as [H|H]); apply kinds_eqb_eq in H; rewrite H; cbn; tauto. }
  unfold kinds_of in Hin. destruct Hin as [Hin|Hin]; apply in_map_iff in Hin as (x & Hk & Hx); exists x; tauto.
Qed.

Fixpoint content_children (pb pe : option Q) (cs : list elem) (ci : option Q * option Q) : option Q * option Q :=
  match cs with [] => ci | c :: l' => content_children pb pe l' (content_elem pb pe c ci) end.
Lemma content_elem_node pb pe a cs ci :
  content_elem pb pe (Elem a cs) ci =
  let iv := make_absolute (e_begin a) (e_end a) pb pe in
  content_children (Some (fst iv)) (snd iv) cs
    (match e_kind a with
     | KBr | KSpan => widen ci iv
     | KRegion => if region_always_has_background a then widen ci iv else ci
     | _ => ci
     end).
Proof.
  cbn [content_elem]. cbv zeta.
  generalize (match e_kind a with
              | KBr | KSpan => widen ci (make_absolute (e_begin a) (e_end a) pb pe)
              | KRegion => if region_always_has_background a then widen ci (make_absolute (e_begin a) (e_end a) pb pe) else ci
              | _ => ci
              end).
  induction cs as [|c cs IH]; intros ci0; [reflexivity|]. cbn [content_children]. apply IH.
Qed.
Lemma content_children_mono t pb pe : forall cs ci, covers ci t -> covers (content_children pb pe cs ci) t.
Proof. induction cs as [|c cs IH]; intros ci H; [exact H|]. cbn [content_children]. apply IH, content_elem_mono, H. Qed.

Lemma content_children_hit d t sel assoc par pb pe : forall cs c rc,
  Forall (fun e => forall inh par pb pe r ci, cm_ok e = true -> content_kind (e_kind (eattrs e)) = true ->
                   proc d t sel inh par pb pe e = Ok (Some r) -> covers (content_elem pb pe e ci) t) cs ->
  In c cs -> cm_ok c = true -> content_kind (e_kind (eattrs c)) = true -> proc d t sel assoc par pb pe c = Ok (Some rc) ->
  forall ci, covers (content_children pb pe cs ci) t.
Proof.
  induction cs as [|c0 cs IH]; intros c rc HF Hin Hwf Hk Hp ci; [destruct Hin|].
  inversion HF as [|? ? Hc0 Hcs]; subst. cbn [content_children]. destruct Hin as [->|Hin].
  - apply content_children_mono. apply (Hc0 _ _ _ _ rc ci Hwf Hk Hp).
  - apply (IH c rc Hcs Hin Hwf Hk Hp).
Qed.

(* a surviving element of any kind other than text, ruby base (container) lies in the content interval: an active
   span or br is at or below it *)
Lemma proc_covered d t sel : forall e inh par pb pe r ci,
  cm_ok e = true -> content_kind (e_kind (eattrs e)) = true ->
  proc d t sel inh par pb pe e = Ok (Some r) -> covers (content_elem pb pe e ci) t.
Proof.
  induction e as [a cs IH] using elem_ind2. intros inh par pb pe r ci Hwf Hck H.
  rewrite cm_ok_node in Hwf. apply andb_true_iff in Hwf as [Hk Hwfcs]. rewrite forallb_forall in Hk, Hwfcs.
  cbn [eattrs] in Hck. cbn [proc] in H. rewrite content_elem_node. cbv zeta.
  set (iv := make_absolute (e_begin a) (e_end a) pb pe) in *.
  destruct (active_at t iv) eqn:Eact; cbn [negb] in H; [|discriminate].
  match type of H with (if ?b then _ else _) = _ => destruct b end; [discriminate|].
  destruct (style_phase d t a par iv) as [st|]; [|discriminate]. cbn [bind] in H.
  destruct (display_none st); [discriminate|].
  match type of H with bind ?g _ = _ => destruct g as [children|] eqn:Eg end; [|discriminate]. cbn [bind] in H.
  (* a container: some surviving child of a content kind *)
  assert (Hhit : forall c rc, In c cs -> content_kind (e_kind (eattrs c)) = true ->
                 proc d t sel (match e_region a with Some r => Some r | None => inh end) (Some (e_kind a, st)) (Some (fst iv)) (snd iv) c = Ok (Some rc) ->
                 forall ci', covers (content_children (Some (fst iv)) (snd iv) cs ci') t).
  { intros c rc Hin Hc Hpc ci'. apply (content_children_hit d t sel _ _ _ _ cs c rc IH Hin (Hwfcs c Hin) Hc Hpc). }
  assert (Hcontainer : keep_always (e_kind a) = false -> e_kind a <> KRegion -> e_kind a <> KRuby -> e_kind a <> KSpan -> e_kind a <> KRbc ->
            forall ci', covers (content_children (Some (fst iv)) (snd iv) cs ci') t).
  { intros Hka Hnr H1 H2 H3 ci'.
    destruct (finish_some_children a st children r H Hka Hnr) as [Hne _].
    destruct children as [|x xs]; [congruence|].
    destruct (go_children_src _ _ _ _ _ _ _ cs _ Eg x (or_introl eq_refl)) as (c & Hin & Hpc).
    apply (Hhit c x Hin (child_ok_content _ _ (Hk c Hin) H1 H2 H3) Hpc). }
  destruct (e_kind a) eqn:Ek; try discriminate Hck.
  - apply Hcontainer; try reflexivity; discriminate.
  - apply Hcontainer; try reflexivity; discriminate.
  - apply Hcontainer; try reflexivity; discriminate.
  - apply content_children_mono. apply widen_covers. right. exact Eact.
  - apply content_children_mono. apply widen_covers. right. exact Eact.
  - (* ruby: the admissible child sequences all contain rt or rtc *)
    intros. assert (Hka : keep_always (e_kind a) = false) by (rewrite Ek; reflexivity).
    assert (Hnr : e_kind a <> KRegion) by (rewrite Ek; discriminate).
    destruct (finish_some_children a st children r H Hka Hnr) as [_ Hpush]. rewrite Ek in Hpush. cbn [push_children_ok] in Hpush.
    destruct (ruby_has_text children Hpush) as (x & Hx & Hkx).
    destruct (go_children_src _ _ _ _ _ _ _ cs _ Eg x Hx) as (c & Hin & Hpc).
    apply (Hhit c x Hin); [|exact Hpc]. rewrite <- (proc_kind _ _ _ _ _ _ _ _ _ Hpc). destruct Hkx as [-> | ->]; reflexivity.
  - apply Hcontainer; try reflexivity; discriminate.
  - apply Hcontainer; try reflexivity; discriminate.
  - apply Hcontainer; try reflexivity; discriminate.
Qed.

(* ---- the region's own painting: background shown, not transparent, opaque, visible -------------------------- *)
Lemma region_facts :
  plain_prop p_Opacity = true /\ plain_prop p_Visibility = true /\ plain_prop p_ShowBackground = true /\ plain_prop p_BackgroundColor = true /\
  In p_Opacity all_props /\ In p_Visibility all_props /\ In p_ShowBackground all_props /\ In p_BackgroundColor all_props /\
  applicable KRegion p_Opacity = true /\ applicable KRegion p_Visibility = true /\ applicable KRegion p_ShowBackground = true /\
  applicable KRegion p_BackgroundColor = true /\
  sget initial_values p_BackgroundColor = Some (VColor 0) /\ e_ShowBackgroundType_whenActive <> e_ShowBackgroundType_always.
Proof. repeat split; try (vm_compute; reflexivity); try (cbn; tauto); discriminate. Qed.

(* the computed value of a plain property of a region element that carries no animation step *)
Lemma region_plain d t a iv st p :
  e_kind a = KRegion -> e_anims a = [] -> plain_prop p = true -> In p all_props ->
  style_phase d t a None iv = Ok st ->
  sget st p = match sget (e_styles a) p with Some v => Some v | None => default_of d p end.
Proof.
  intros Hk Han Hp Hin H.
  assert (Hl : is_leaf_kind (e_kind a) = false) by (rewrite Hk; reflexivity).
  assert (Hpar : forall pk pst, @None (kind * smap) = Some (pk, pst) -> shas pst p = true) by (intros; discriminate).
  rewrite (style_phase_plain d t a None iv st p Hl Hp Hin Hpar H).
  unfold specified. cbn [fst snd]. rewrite Han. reflexivity.
Qed.

(* what finish_element returns for a region *)
Lemma finish_region a st children x :
  e_kind a = KRegion -> finish_element a st children = Ok (Some x) ->
  x = Elem (isd_attrs a (strip_inapplicable KRegion st)) children.
Proof.
  intros Hk H. unfold finish_element in H. rewrite Hk in H. cbn [push_children_ok negb andb keep_always] in H.
  destruct children as [|c cs]; [|injection H as <-; rewrite ?Hk; reflexivity].
  destruct (sget (strip_inapplicable KRegion st) p_ShowBackground) as [v|]; [|discriminate].
  destruct v; try discriminate. destruct (tag =? e_ShowBackgroundType_always); [injection H as <-; rewrite ?Hk; reflexivity | discriminate].
Qed.

(* a childless region that paints: the computed style shows a background *)
Definition shows_background (st : smap) : bool :=
  match sget st p_ShowBackground with Some (VEnum x) => x =? e_ShowBackgroundType_always | _ => false end &&
  match sget st p_BackgroundColor with Some (VColor c) => negb (c mod 256 =? 0) | _ => false end &&
  match sget st p_Opacity with Some (VNum q) => negb (Qeq_bool q 0) | _ => true end &&
  match sget st p_Visibility with Some (VEnum x) => negb (x =? e_VisibilityType_hidden) | _ => true end.
Lemma paints_childless a st : paints (Elem (isd_attrs a (strip_inapplicable KRegion st)) []) = shows_background st.
Proof.
  destruct region_facts as (_ & _ & _ & _ & _ & _ & _ & _ & A1 & A2 & A3 & A4 & _).
  unfold paints, shows_background. cbn [echildren eattrs isd_attrs e_styles]. rewrite !sget_strip, A1, A2, A3, A4. reflexivity.
Qed.

(* _region_always_has_background is a sound test: a region element without animation steps for which it answers
   False never shows a background (its specified styles win over initial values) *)
Lemma rahb_sound d t a iv st :
  e_kind a = KRegion -> style_phase d t a None iv = Ok st -> display_none st = false ->
  region_always_has_background a = false -> shows_background st = false.
Proof.
  destruct region_facts as (P1 & P2 & P3 & P4 & I1 & I2 & I3 & I4 & _ & _ & _ & _ & _ & Hwa).
  intros Hk Hst Hdn Hr. unfold region_always_has_background in Hr.
  destruct (e_anims a) as [|s l] eqn:Han; [|discriminate]. cbn [is_nonempty_l] in Hr.
  pose proof (region_plain d t a iv st p_Opacity Hk Han P1 I1 Hst) as GO.
  pose proof (region_plain d t a iv st p_Visibility Hk Han P2 I2 Hst) as GV.
  pose proof (region_plain d t a iv st p_ShowBackground Hk Han P3 I3 Hst) as GS.
  pose proof (region_plain d t a iv st p_BackgroundColor Hk Han P4 I4 Hst) as GB.
  set (bop := match sget (e_styles a) p_Opacity with Some (VNum q) => Qeq_bool q 0 | _ => false end) in Hr.
  set (bdisp := match sget (e_styles a) p_Display with Some (VEnum x) => x =? e_DisplayType_none | _ => false end) in Hr.
  set (bvis := match sget (e_styles a) p_Visibility with Some (VEnum x) => x =? e_VisibilityType_hidden | _ => false end) in Hr.
  set (bsb := match sget (e_styles a) p_ShowBackground with Some (VEnum x) => x =? e_ShowBackgroundType_whenActive | _ => false end) in Hr.
  set (bbg := match sget (e_styles a) p_BackgroundColor with Some (VColor c) => c mod 256 =? 0 | _ => false end) in Hr.
  assert (Hcases : bop = true \/ bdisp = true \/ bvis = true \/ bsb = true \/ bbg = true).
  { destruct bop; [tauto|]. destruct bdisp; [tauto|]. destruct bvis; [tauto|]. destruct bsb; [tauto|]. destruct bbg; [tauto|]. discriminate Hr. }
  clear Hr. unfold shows_background.
  destruct Hcases as [Hc|[Hc|[Hc|[Hc|Hc]]]].
  - unfold bop in Hc. destruct (sget (e_styles a) p_Opacity) as [v|]; [|discriminate]. destruct v; try discriminate.
    rewrite GO, Hc. cbn [negb]. rewrite !andb_false_r. reflexivity.
  - (* specified display none: the region is not in the snapshot at all *)
    exfalso. unfold bdisp in Hc. rewrite (style_phase_display d t a None iv st Hst) in Hdn. apply negb_false_iff in Hdn.
    unfold displayed in Hdn. rewrite Han in Hdn. cbn [last_active_display] in Hdn.
    destruct (sget (e_styles a) p_Display) as [v|]; [|discriminate]. destruct v; try discriminate. rewrite Hc in Hdn. discriminate.
  - unfold bvis in Hc. destruct (sget (e_styles a) p_Visibility) as [v|]; [|discriminate]. destruct v; try discriminate.
    rewrite GV, Hc. cbn [negb]. rewrite !andb_false_r. reflexivity.
  - unfold bsb in Hc. destruct (sget (e_styles a) p_ShowBackground) as [v|]; [|discriminate]. destruct v; try discriminate.
    rewrite GS. apply Z.eqb_eq in Hc. subst tag.
    destruct (e_ShowBackgroundType_whenActive =? e_ShowBackgroundType_always) eqn:E2; [apply Z.eqb_eq in E2; congruence | reflexivity].
  - unfold bbg in Hc. destruct (sget (e_styles a) p_BackgroundColor) as [v|]; [|discriminate]. destruct v; try discriminate.
    rewrite GB, Hc. cbn [negb]. rewrite !andb_false_r. reflexivity.
Qed.

(* ---- one region of the snapshot --------------------------------------------------------------------------- *)
Definition body_wf (d : doc) : Prop := match d_body d with Some b => body_ok b = true | None => True end.

Lemma proc_region_paints d t sel r x :
  body_wf d -> e_kind (eattrs r) = KRegion -> proc_region d t sel r = Ok (Some x) -> paints x = true ->
  (exists b, d_body d = Some b /\ forall ci, covers (content_elem None None b ci) t) \/
  (active_at t (make_absolute (e_begin (eattrs r)) (e_end (eattrs r)) None None) = true /\
   exists st, style_phase d t (eattrs r) None (make_absolute (e_begin (eattrs r)) (e_end (eattrs r)) None None) = Ok st /\
              display_none st = false /\ shows_background st = true).
Proof.
  intros Hwf Hk H Hp. unfold proc_region in H.
  set (a := eattrs r) in *. set (iv := make_absolute (e_begin a) (e_end a) None None) in *.
  destruct (active_at t iv) eqn:Eact; cbn [negb] in H; [|discriminate].
  destruct (style_phase d t a None iv) as [st|] eqn:Est; [|discriminate]. cbn [bind] in H.
  destruct (display_none st) eqn:Edn; [discriminate|].
  match type of H with bind ?g _ = _ => destruct g as [children|] eqn:Eg end; [|discriminate]. cbn [bind] in H.
  apply (finish_region a st children x Hk) in H. subst x.
  destruct children as [|c cs].
  - right. split; [reflexivity|]. exists st. rewrite paints_childless in Hp. repeat split; assumption.
  - left. unfold body_wf in Hwf. destruct (d_body d) as [b|]; [|discriminate].
    exists b. split; [reflexivity|]. intros ci.
    destruct (proc d t sel None (Some (KRegion, st)) None None b) as [[xb|]|] eqn:Eb; cbn [bind] in Eg; try discriminate.
    unfold body_ok in Hwf. apply andb_true_iff in Hwf as [Hkb Hcm].
    apply (proc_covered d t sel b None (Some (KRegion, st)) None None xb ci Hcm); [|exact Eb].
    destruct (e_kind (eattrs b)); try discriminate Hkb. reflexivity.
Qed.

Lemma region_ok_shape r : region_ok r = true -> e_kind (eattrs r) = KRegion /\ echildren r = [] /\ exists rid, e_id (eattrs r) = Some rid.
Proof.
  unfold region_ok. intros H. apply andb_true_iff in H as [H H3]. apply andb_true_iff in H as [H1 H2].
  split; [destruct (e_kind (eattrs r)); try discriminate; reflexivity|].
  split; [destruct (echildren r); [reflexivity | discriminate]|].
  destruct (e_id (eattrs r)) as [rid|]; [exists rid; reflexivity | discriminate].
Qed.

(* a region that is in the snapshot and paints is inside the content interval: through its own background
   (_region_always_has_background answered True) or through the content of the body *)
Lemma region_covered d t sel r x :
  body_wf d -> region_ok r = true -> proc_region d t sel r = Ok (Some x) -> paints x = true ->
  (forall ci, covers (content_elem None None r ci) t) \/
  (exists b, d_body d = Some b /\ forall ci, covers (content_elem None None b ci) t).
Proof.
  intros Hwf Hr H Hp. destruct (region_ok_shape r Hr) as (Hk & Hcs & _).
  destruct (proc_region_paints d t sel r x Hwf Hk H Hp) as [Hb|(Hact & st & Hst & Hdn & Hsb)]; [right; exact Hb|].
  left. intros ci. destruct r as [a cs]. cbn [echildren eattrs] in *. subst cs. rewrite content_elem_node. cbv zeta.
  cbn [content_children]. rewrite Hk.
  destruct (region_always_has_background a) eqn:Er.
  - apply widen_covers. right. exact Hact.
  - rewrite (rahb_sound d t a _ st Hk Hst Hdn Er) in Hsb. discriminate.
Qed.

(* ---- the whole cached document ---------------------------------------------------------------------------- *)
Lemma fold_regions_mono t : forall l ci, covers ci t -> covers (fold_left (fun ci r => content_elem None None r ci) l ci) t.
Proof. induction l as [|r l IH]; intros ci H; [exact H|]. cbn [fold_left]. apply IH, content_elem_mono, H. Qed.
Lemma fold_regions_hit t r : forall l ci, In r l -> (forall ci, covers (content_elem None None r ci) t) ->
  covers (fold_left (fun ci r => content_elem None None r ci) l ci) t.
Proof.
  induction l as [|r0 l IH]; intros ci Hin H; [destruct Hin|]. cbn [fold_left]. destruct Hin as [->|Hin].
  - apply fold_regions_mono, H.
  - apply IH; assumption.
Qed.

Lemma covers_not_skipped ci t : covers ci t -> skip_cached t (match fst ci with None => None | Some c0 => Some (c0, snd ci) end) = false.
Proof.
  unfold covers. destruct (fst ci) as [c0|]; [|intros []]. intros [H0 H1]. unfold skip_cached, Qltb, Qleb.
  apply Qle_bool_iff in H0. rewrite H0. cbn [negb orb].
  destruct (snd ci) as [c1|]; [|reflexivity].
  destruct (Qle_bool c1 t) eqn:E; [|reflexivity]. apply Qle_bool_iff in E. exfalso. apply (Qlt_not_le _ _ H1 E).
Qed.

Lemma collect_single f rs : collect_regions [f] = Ok rs -> exists o, f = Ok o /\ rs = match o with Some e => [e] | None => [] end.
Proof.
  cbn [collect_regions]. destruct f as [o|]; [|discriminate]. cbn [bind]. intros H. injection H as <-. exists o. split; [reflexivity | destruct o; reflexivity].
Qed.

Lemma default_region_background d t st :
  style_phase d t (eattrs default_region) None (make_absolute None None None None) = Ok st ->
  shas (d_initials d) p_BackgroundColor = false -> shows_background st = false.
Proof.
  destruct region_facts as (_ & _ & _ & P4 & _ & _ & _ & I4 & _ & _ & _ & _ & Hinit & _).
  intros Hst Hi.
  pose proof (region_plain d t (eattrs default_region) _ st p_BackgroundColor eq_refl eq_refl P4 I4 Hst) as GB.
  cbn [default_region eattrs e_styles sget] in GB. unfold default_of in GB. unfold shas in Hi.
  destruct (sget (d_initials d) p_BackgroundColor); [discriminate|]. rewrite Hinit in GB.
  unfold shows_background. rewrite GB. cbn. rewrite andb_false_r. reflexivity.
Qed.

(* MAIN (i): whatever the cache skips paints nothing.  c is a cached document: the document itself, or a clone. *)
Theorem skipped_paints_nothing c t rs :
  doc_wf c = true -> skip_cached t (content_interval c) = true -> isd c t = Ok rs -> Forall (fun r => paints r = false) rs.
Proof.
  intros Hwf Hskip Hi. apply Forall_forall. intros x Hx. destruct (paints x) eqn:Hp; [exfalso|reflexivity].
  unfold doc_wf in Hwf. apply andb_true_iff in Hwf as [Hregs Hbody]. rewrite forallb_forall in Hregs.
  assert (Hbw : body_wf c) by (unfold body_wf; destruct (d_body c); [exact Hbody | exact I]).
  unfold content_interval in Hskip. unfold isd in Hi.
  destruct (d_regions c) as [|r0 rest] eqn:Er.
  - (* no region: the default region *)
    apply collect_single in Hi as (o & Ho & ->). destruct o as [y|]; [|destruct Hx]. destruct Hx as [<-|[]].
    cbn [fold_left] in Hskip.
    destruct (shas (d_initials c) p_BackgroundColor) eqn:Ebg; [cbn in Hskip; discriminate|].
    destruct (proc_region_paints c t None default_region y Hbw eq_refl Ho Hp) as [(b & Eb & Hcov)|(_ & st & Hst & _ & Hsb)].
    + rewrite Eb in Hskip. rewrite (covers_not_skipped _ t (Hcov _)) in Hskip. discriminate.
    + rewrite (default_region_background c t st Hst Ebg) in Hsb. discriminate.
  - apply collect_map_ok in Hi as (outs & HF & ->).
    apply in_flat_map in Hx as (o & Ho & Hxo). destruct o as [y|]; [|destruct Hxo]. destruct Hxo as [<-|[]].
    assert (exists r, In r (r0 :: rest) /\ proc_region c t (e_id (eattrs r)) r = Ok (Some y)) as (r & Hr & Hpr).
    { clear - HF Ho. induction HF as [|r o' l l' Hro HF IH]; [destruct Ho|].
      destruct Ho as [->|Ho]; [exists r; split; [left; reflexivity | exact Hro]|].
      destruct (IH Ho) as (r' & Hin & Hp'). exists r'. split; [right; exact Hin | exact Hp']. }
    assert (Hcov : covers (match d_body c with
                           | Some b => content_elem None None b (fold_left (fun ci r => content_elem None None r ci) (r0 :: rest) (None, Some 0%Q))
                           | None => fold_left (fun ci r => content_elem None None r ci) (r0 :: rest) (None, Some 0%Q)
                           end) t).
    { destruct (region_covered c t _ r y Hbw (Hregs r Hr) Hpr Hp) as [Hc|(b & Eb & Hc)].
      - pose proof (fold_regions_hit t r (r0 :: rest) (None, Some 0%Q) Hr Hc) as Hf.
        destruct (d_body c); [apply content_elem_mono; exact Hf | exact Hf].
      - rewrite Eb. apply Hc. }
    rewrite (covers_not_skipped _ t Hcov) in Hskip. discriminate.
Qed.

(* ---- the clones are well formed ------------------------------------------------------------------------------ *)
Lemma restrict_children_src rid assoc : forall cs cs',
  (fix go (l : list elem) : res (list elem) :=
     match l with
     | [] => Ok []
     | c :: l' => bind (restrict rid assoc c) (fun r => bind (go l') (fun rs => Ok (match r with Some x => x :: rs | None => rs end)))
     end) cs = Ok cs' ->
  forall x, In x cs' -> exists c, In c cs /\ restrict rid assoc c = Ok (Some x).
Proof.
  induction cs as [|c cs IH]; intros cs' H x Hx; [injection H as <-; destruct Hx|].
  destruct (restrict rid assoc c) as [rc|] eqn:Ec; cbn [bind] in H; [|discriminate].
  match type of H with bind ?g _ = _ => destruct g as [rs|] eqn:Er end; [|discriminate]. cbn [bind] in H. injection H as <-.
  destruct rc as [y|].
  - destruct Hx as [<-|Hx]; [exists c; split; [left; reflexivity | exact Ec]|].
    destruct (IH rs eq_refl x Hx) as (c' & Hin & Hp). exists c'. split; [right; exact Hin | exact Hp].
  - destruct (IH rs eq_refl x Hx) as (c' & Hin & Hp). exists c'. split; [right; exact Hin | exact Hp].
Qed.

Lemma restrict_cm rid : forall e inh e', cm_ok e = true -> restrict rid inh e = Ok (Some e') ->
  cm_ok e' = true /\ e_kind (eattrs e') = e_kind (eattrs e).
Proof.
  induction e as [a cs IH] using elem_ind2. intros inh e' Hwf H.
  rewrite cm_ok_node in Hwf. apply andb_true_iff in Hwf as [Hk Hwfcs]. rewrite forallb_forall in Hk, Hwfcs.
  cbn [restrict] in H.
  match type of H with (if ?b then _ else _) = _ => destruct b end; [discriminate|].
  match type of H with bind ?g _ = _ => destruct g as [cs'|] eqn:Eg end; [|discriminate]. cbn [bind] in H.
  destruct (is_nonempty_l cs' && negb (push_children_ok (e_kind a) cs')); [discriminate|]. injection H as <-.
  split; [|reflexivity]. rewrite cm_ok_node. apply andb_true_iff. rewrite Forall_forall in IH.
  split; apply forallb_forall; intros x Hx;
    destruct (restrict_children_src rid _ cs cs' Eg x Hx) as (c & Hc & Hrc);
    destruct (IH c Hc _ x (Hwfcs c Hc) Hrc) as [H1 H2].
  - cbn [eattrs]. rewrite H2. apply Hk, Hc.
  - exact H1.
Qed.

Lemma clone_wf d r c : doc_wf d = true -> In r (d_regions d) -> clone_one_region d r = Ok c -> doc_wf c = true.
Proof.
  unfold doc_wf. intros Hwf Hr Hc. apply andb_true_iff in Hwf as [Hregs Hbody]. rewrite forallb_forall in Hregs.
  unfold clone_one_region in Hc. destruct (e_id (eattrs r)) as [rid|]; [|discriminate].
  destruct (d_body d) as [b|].
  - destruct (restrict rid None b) as [b'|] eqn:Eb; [|discriminate]. cbn [bind] in Hc. injection Hc as <-.
    cbn [d_regions d_body forallb]. rewrite (Hregs r Hr). cbn [andb].
    destruct b' as [x|]; [|reflexivity]. unfold body_ok in *. apply andb_true_iff in Hbody as [H1 H2].
    destruct (restrict_cm rid b None x H2 Eb) as [G1 G2]. rewrite G2, H1, G1. reflexivity.
  - cbn [bind] in Hc. injection Hc as <-. cbn [d_regions d_body forallb]. rewrite (Hregs r Hr). reflexivity.
Qed.

Lemma doc_wf_ids d : doc_wf d = true -> Forall (fun r => exists rid, e_id (eattrs r) = Some rid) (d_regions d).
Proof.
  unfold doc_wf. intros H. apply andb_true_iff in H as [H _]. rewrite forallb_forall in H.
  apply Forall_forall. intros r Hr. destruct (region_ok_shape r (H r Hr)) as (_ & _ & Hid). exact Hid.
Qed.

(* MAIN: the cached snapshot renders like the uncached one — it is the uncached snapshot minus regions that paint
   nothing — for every well-formed document (ruby included) and every time, outside the recorded trigger *)
Theorem cached_render_equiv d t ds rs :
  doc_wf d = true -> clone_empties_doc d = false -> cached_docs d = Ok ds -> isd d t = Ok rs ->
  exists rs', isd_cached d t = Ok rs' /\ omits_only (fun r => paints r = false) rs' rs /\ render rs' = render rs.
Proof.
  intros Hwf Htr Hc Hi.
  destruct (cached_omits_only (fun r => paints r = false) d t ds rs) as (rs' & H1 & H2); try assumption.
  - intros r c rs0 Hr Hcl Hsk Hic. apply (skipped_paints_nothing c t rs0 (clone_wf d r c Hwf Hr Hcl) Hsk Hic).
  - intros rs0 _ Hsk Hic. apply (skipped_paints_nothing d t rs0 Hwf Hsk Hic).
  - intros Hlen. apply clones_keep_of_trigger; [apply doc_wf_ids, Hwf | exact Htr | exact Hlen].
  - exists rs'. split; [exact H1|]. split; [exact H2 | apply omits_only_render, H2].
Qed.

(* with at most one region nothing is cloned: no trigger, and the statement holds for every well-formed document *)
Lemma small_no_trigger d : (length (d_regions d) <= 1)%nat -> clone_empties_doc d = false.
Proof. unfold clone_empties_doc. destruct (d_regions d) as [|r1 [|r2 rs]]; cbn [length]; intros H; try reflexivity. lia. Qed.

Theorem render_equiv_small d t rs :
  doc_wf d = true -> (length (d_regions d) <= 1)%nat -> isd d t = Ok rs ->
  exists rs', isd_cached d t = Ok rs' /\ omits_only (fun r => paints r = false) rs' rs /\ render rs' = render rs.
Proof.
  intros Hwf Hlen Hi. apply (cached_render_equiv d t [d] rs Hwf (small_no_trigger d Hlen) (cached_docs_small d Hlen) Hi).
Qed.
