(* C14: soundness of the content interval — a region (or document) that the cache skips at t paints nothing at t. *)
From TT Require Import Model.Doc Gen.StyleTables Model.Isd Model.SigTimes Spec.IsdSpec Spec.StyleSpec Spec.RenderSpec.
From TT Require Import Proofs.Common.ElemInd Proofs.Common.StyleFrame Proofs.C01.Leaves Proofs.C01.Lwsp.
From TT Require Import Proofs.C13.Shape Proofs.C13.Styles Proofs.C03.Values Proofs.C03.Cascade Proofs.C14.Restrict.

(* ---- the interval covers t ------------------------------------------------------------------------------- *)
Definition covers (ci : option Q * option Q) (t : Q) : Prop :=
  match fst ci with
  | None => False
  | Some c0 => Qle c0 t /\ match snd ci with None => True | Some c1 => Qlt t c1 end
  end.

Lemma active_at_bounds t iv : active_at t iv = true ->
  Qle (fst iv) t /\ match snd iv with Some e => Qlt t e | None => True end.
Proof.
  unfold active_at, Qltb. rewrite negb_involutive. intros H. apply andb_true_iff in H as [H1 H2].
  apply Qle_bool_iff in H1. split; [exact H1|]. destruct (snd iv) as [e|]; [|exact I].
  apply negb_true_iff in H2. destruct (Qlt_le_dec t e) as [Hl|Hg]; [exact Hl|]. apply Qle_bool_iff in Hg. congruence.
Qed.

Lemma widen_covers ci iv t : covers ci t \/ active_at t iv = true -> covers (widen ci iv) t.
Proof.
  destruct ci as [[c0|] c1]; destruct iv as [b e]; unfold covers, widen; cbn [fst snd]; intros [H|H].
  - destruct H as [H0 H1]. split.
    + apply Qle_trans with c0; [apply Q.le_min_r | exact H0].
    + destruct e as [e|]; [|exact I]. destruct c1 as [c1|]; [|exact I].
      apply Qlt_le_trans with c1; [exact H1 | apply Q.le_max_r].
  - apply active_at_bounds in H as [Hb He]. cbn [fst snd] in Hb, He. split.
    + apply Qle_trans with b; [apply Q.le_min_l | exact Hb].
    + destruct e as [e|]; [|exact I]. destruct c1 as [c1|]; [|exact I].
      apply Qlt_le_trans with e; [exact He | apply Q.le_max_l].
  - destruct H.
  - apply active_at_bounds in H as [Hb He]. cbn [fst snd] in Hb, He. split; [exact Hb|].
    destruct e as [e|]; [|exact I]. destruct c1 as [c1|]; [|exact I].
    apply Qlt_le_trans with e; [exact He | apply Q.le_max_l].
Qed.

Lemma content_elem_mono t : forall e pb pe ci, covers ci t -> covers (content_elem pb pe e ci) t.
Proof.
  induction e as [a cs IH] using elem_ind2. intros pb pe ci H. cbn [content_elem].
  set (iv := make_absolute (e_begin a) (e_end a) pb pe).
  set (ci1 := match e_kind a with
              | KBr | KSpan => widen ci iv
              | KRegion => if region_always_has_background a then widen ci iv else ci
              | _ => ci
              end).
  assert (H1 : covers ci1 t).
  { unfold ci1. destruct (e_kind a); try exact H; try (apply widen_covers; left; exact H).
    destruct (region_always_has_background a); [apply widen_covers; left; exact H | exact H]. }
  clearbody ci1. revert ci1 H1. induction cs as [|c cs IHcs]; intros ci1 H1; [exact H1|].
  inversion IH as [|? ? Hc Hcs]; subst. apply (IHcs Hcs). apply Hc. exact H1.
Qed.

(* ---- content model of documents without ruby --------------------------------------------------------------- *)
Fixpoint cm_wf (e : elem) : bool :=
  match e with
  | Elem a cs =>
      match e_kind a with
      | KBody => forallb (fun c => kind_eqb (e_kind (eattrs c)) KDiv) cs
      | KDiv => forallb (fun c => kind_eqb (e_kind (eattrs c)) KP || kind_eqb (e_kind (eattrs c)) KDiv) cs
      | KP => forallb (fun c => kind_eqb (e_kind (eattrs c)) KSpan || kind_eqb (e_kind (eattrs c)) KBr) cs
      | KSpan => forallb (fun c => kind_eqb (e_kind (eattrs c)) KSpan || kind_eqb (e_kind (eattrs c)) KBr || kind_eqb (e_kind (eattrs c)) KText) cs
      | KBr | KText => match cs with [] => true | _ => false end
      | _ => false
      end && forallb cm_wf cs
  end.

(* a surviving element (other than a text node, which only occurs below a span) lies in the content interval *)
Lemma go_some_child d t sel assoc par pbx pex : forall cs children,
  (fix go (l : list elem) : res (list elem) :=
     match l with
     | [] => Ok []
     | c :: l' => bind (proc d t sel assoc par pbx pex c) (fun r => bind (go l') (fun rs => Ok (match r with Some x => x :: rs | None => rs end)))
     end) cs = Ok children ->
  children <> [] -> exists c r, In c cs /\ proc d t sel assoc par pbx pex c = Ok (Some r).
Proof.
  induction cs as [|c cs IH]; intros children H Hne; [injection H as <-; congruence|].
  destruct (proc d t sel assoc par pbx pex c) as [[r|]|] eqn:Ec; cbn [bind] in H; try discriminate.
  - exists c, r. split; [left; reflexivity | exact Ec].
  - match type of H with bind ?g _ = _ => destruct g as [rs|] eqn:Er end; [|discriminate]. cbn [bind] in H. injection H as <-.
    destruct (IH rs eq_refl Hne) as (c' & r' & Hin & Hp). exists c', r'. split; [right; exact Hin | exact Hp].
Qed.

Lemma finish_some_children a st children r :
  finish_element a st children = Ok (Some r) -> keep_always (e_kind a) = false -> e_kind a <> KRegion -> children <> [].
Proof.
  unfold finish_element. intros H Hk Hr Hnil. subst children. cbn [is_nonempty_l andb] in H. rewrite andb_false_r in H.
  rewrite Hk in H. destruct (e_kind a); try discriminate; try congruence; cbn in H; discriminate.
Qed.

Fixpoint content_children (pb pe : option Q) (cs : list elem) (ci : option Q * option Q) : option Q * option Q :=
  match cs with [] => ci | c :: l' => content_children pb pe l' (content_elem pb pe c ci) end.
Lemma content_elem_node pb pe a cs ci :
  content_elem pb pe (Elem a cs) ci =
  let iv := make_absolute (e_begin a) (e_end a) pb pe in
  content_children (Some (fst iv)) (snd iv) cs
    (match e_kind a with
     | KBr | KSpan => widen ci iv
     | KRegion => if region_always_has_background a then widen ci iv else ci
     | _ => ci
     end).
Proof.
  cbn [content_elem]. cbv zeta.
  generalize (match e_kind a with
              | KBr | KSpan => widen ci (make_absolute (e_begin a) (e_end a) pb pe)
              | KRegion => if region_always_has_background a then widen ci (make_absolute (e_begin a) (e_end a) pb pe) else ci
              | _ => ci
              end).
  induction cs as [|c cs IH]; intros ci0; [reflexivity|]. cbn [content_children]. apply IH.
Qed.
Lemma content_children_mono t pb pe : forall cs ci, covers ci t -> covers (content_children pb pe cs ci) t.
Proof. induction cs as [|c cs IH]; intros ci H; [exact H|]. cbn [content_children]. apply IH, content_elem_mono, H. Qed.

Lemma content_children_hit d t sel assoc par pb pe : forall cs c rc,
  Forall (fun e => forall inh par pb pe r ci, cm_wf e = true -> e_kind (eattrs e) <> KText ->
                   proc d t sel inh par pb pe e = Ok (Some r) -> covers (content_elem pb pe e ci) t) cs ->
  In c cs -> cm_wf c = true -> e_kind (eattrs c) <> KText -> proc d t sel assoc par pb pe c = Ok (Some rc) ->
  forall ci, covers (content_children pb pe cs ci) t.
Proof.
  induction cs as [|c0 cs IH]; intros c rc HF Hin Hwf Hk Hp ci; [destruct Hin|].
  inversion HF as [|? ? Hc0 Hcs]; subst. cbn [content_children]. destruct Hin as [->|Hin].
  - apply content_children_mono. apply (Hc0 _ _ _ _ rc ci Hwf Hk Hp).
  - apply (IH c rc Hcs Hin Hwf Hk Hp).
Qed.

Lemma proc_covered d t sel : forall e inh par pb pe r ci,
  cm_wf e = true -> e_kind (eattrs e) <> KText ->
  proc d t sel inh par pb pe e = Ok (Some r) -> covers (content_elem pb pe e ci) t.
Proof.
  induction e as [a cs IH] using elem_ind2. intros inh par pb pe r ci Hwf Hnt H.
  cbn [cm_wf] in Hwf. apply andb_true_iff in Hwf as [Hk Hwfcs]. rewrite forallb_forall in Hwfcs.
  cbn [eattrs] in Hnt. cbn [proc] in H. rewrite content_elem_node. cbv zeta.
  set (iv := make_absolute (e_begin a) (e_end a) pb pe) in *.
  destruct (active_at t iv) eqn:Eact; cbn [negb] in H; [|discriminate].
  match type of H with (if ?b then _ else _) = _ => destruct b end; [discriminate|].
  destruct (style_phase d t a par iv) as [st|]; [|discriminate]. cbn [bind] in H.
  destruct (display_none st); [discriminate|].
  match type of H with bind ?g _ = _ => destruct g as [children|] eqn:Eg end; [|discriminate]. cbn [bind] in H.
  assert (Hcontainer : keep_always (e_kind a) = false -> e_kind a <> KRegion ->
            (forall c, In c cs -> e_kind (eattrs c) <> KText) ->
            forall ci', covers (content_children (Some (fst iv)) (snd iv) cs ci') t).
  { intros Hka Hnr Hkids ci'.
    destruct (go_some_child _ _ _ _ _ _ _ cs children Eg (finish_some_children a st children r H Hka Hnr)) as (c & rc & Hin & Hpc).
    apply (content_children_hit d t sel _ _ _ _ cs c rc IH Hin (Hwfcs c Hin) (Hkids c Hin) Hpc). }
  destruct (e_kind a) eqn:Ek; try discriminate Hk; try congruence.
  - apply Hcontainer; [reflexivity | discriminate|]. intros c Hin E. rewrite forallb_forall in Hk. specialize (Hk c Hin). rewrite E in Hk. discriminate.
  - apply Hcontainer; [reflexivity | discriminate|]. intros c Hin E. rewrite forallb_forall in Hk. specialize (Hk c Hin). rewrite E in Hk. discriminate.
  - apply Hcontainer; [reflexivity | discriminate|]. intros c Hin E. rewrite forallb_forall in Hk. specialize (Hk c Hin). rewrite E in Hk. discriminate.
  - apply content_children_mono. apply widen_covers. right. exact Eact.
  - apply content_children_mono. apply widen_covers. right. exact Eact.
Qed.
