(* C14: the per-region clone of the significant-times cache gives the same region snapshot as the document. *)
From TT Require Import Model.Doc Gen.StyleTables Model.Isd Model.SigTimes Proofs.Common.ElemInd.

(* ---- snapshot generation reads the document only through its initial values and its cell/pixel resolution ---- *)
Definition same_params (d d' : doc) : Prop :=
  d_initials d = d_initials d' /\ d_rows d = d_rows d' /\ d_cols d = d_cols d' /\ d_pxh d = d_pxh d' /\ d_pxw d = d_pxw d'.

Section Params.
  Variables d d' : doc.
  Hypothesis Hp : same_params d d'.

  Lemma refs_ext : c_h d = c_h d' /\ c_w d = c_w d' /\ px_h d = px_h d' /\ px_w d = px_w d'.
  Proof. destruct Hp as (_ & H1 & H2 & H3 & H4). unfold c_h, c_w, px_h, px_w. rewrite H1, H2, H3, H4. repeat split. Qed.

  Lemma font_relative_ext st l : font_relative d st l = font_relative d' st l.
  Proof. destruct refs_ext as (H1 & _ & H3 & _). unfold font_relative. rewrite H1, H3. reflexivity. Qed.

  Lemma compute_shadows_ext st : forall ss, compute_shadows d st ss = compute_shadows d' st ss.
  Proof.
    induction ss as [|[[[x y] blur] col] ss IH]; [reflexivity|]. cbn [compute_shadows].
    rewrite !font_relative_ext, IH. destruct blur as [b|]; [rewrite font_relative_ext|]; reflexivity.
  Qed.

  Lemma compute_prop_ext par st p : compute_prop d par st p = compute_prop d' par st p.
  Proof.
    destruct refs_ext as (H1 & H2 & H3 & H4). unfold compute_prop, font_relative. rewrite H1, H2, H3, H4.
    destruct (sget st p) as [v|]; [destruct v|]; try reflexivity.
    rewrite compute_shadows_ext. reflexivity.
  Qed.

  Lemma compute_styles_ext par todo : forall order st, compute_styles d par todo order st = compute_styles d' par todo order st.
  Proof.
    induction order as [|p order IH]; intros st; [reflexivity|]. cbn [compute_styles].
    destruct (existsb (Z.eqb p) todo); [|apply IH]. rewrite compute_prop_ext.
    destruct (compute_prop d' par st p); [cbn [bind]; apply IH | reflexivity].
  Qed.

  Lemma apply_initial_ext : forall props st todo, apply_initial d props st todo = apply_initial d' props st todo.
  Proof.
    destruct Hp as (Hi & _). induction props as [|p props IH]; intros st todo; [reflexivity|]. cbn [apply_initial].
    rewrite Hi. destruct (shas st p); [apply IH|]. destruct (sget (d_initials d') p); [apply IH|].
    destruct (p =? p_Position); [apply IH|]. destruct (sget initial_values p); apply IH.
  Qed.

  Lemma style_phase_ext t a par iv : style_phase d t a par iv = style_phase d' t a par iv.
  Proof.
    unfold style_phase.
    destruct (apply_anims t iv (e_anims a) [] []) as [st0 todo0].
    destruct (apply_specified (e_styles a) st0 todo0) as [st1 todo1].
    match goal with |- (let '(st, todo) := ?X in _) = _ => destruct X as [st2 todo2] end.
    rewrite apply_initial_ext.
    match goal with |- (let '(st, todo) := ?X in _) = _ => destruct X as [st4 todo4] end.
    apply compute_styles_ext.
  Qed.

  Lemma proc_ext t sel : forall e inh par pb pe, proc d t sel inh par pb pe e = proc d' t sel inh par pb pe e.
  Proof.
    induction e as [a cs IH] using elem_ind2. intros inh par pb pe. cbn [proc].
    destruct (negb (active_at t _)); [reflexivity|].
    match goal with |- (if ?b then _ else _) = _ => destruct b end; [reflexivity|].
    rewrite style_phase_ext. destruct (style_phase d' t a par _) as [st|]; [|reflexivity]. cbn [bind].
    destruct (display_none st); [reflexivity|]. f_equal.
    induction cs as [|c cs IHcs]; [reflexivity|]. inversion IH as [|? ? Hc Hcs]; subst.
    rewrite Hc, (IHcs Hcs). reflexivity.
  Qed.
End Params.

(* ---- the clone's pruning test and the trigger of the recorded finding ----------------------------------------- *)
From TT Require Import Model.CloneTrigger.

Lemma clone_empties_node sel inh a cs :
  clone_empties sel inh (Elem a cs) =
  let assoc := match e_region a with Some r => Some r | None => inh end in
  let has_children := match cs with [] => false | _ => true end in
  if negb (oid_eqb assoc (Some sel)) && (negb has_children || match assoc with Some _ => true | None => false end)
  then false
  else existsb (clone_empties sel assoc) cs ||
       (kept_childless (e_kind a) && has_children && negb (oid_eqb assoc (Some sel)) && forallb (clone_prunes sel assoc) cs).
Proof. reflexivity. Qed.

(* restrict answers "not in this region" exactly when the pruning test fires *)
Lemma restrict_none sel inh e : restrict sel inh e = Ok None -> clone_prunes sel inh e = true.
Proof.
  destruct e as [a cs]. cbn [restrict]. unfold clone_prunes. cbn [eattrs echildren].
  match goal with |- (if ?b then _ else _) = _ -> _ => destruct b end; [reflexivity|].
  match goal with |- bind ?g _ = _ -> _ => destruct g as [cs'|] end; cbn [bind]; [|discriminate].
  destruct (is_nonempty_l cs' && negb (push_children_ok (e_kind a) cs')); discriminate.
Qed.

(* restricting the body to what can appear in region rid does not change the region's snapshot — for EVERY element
   tree (ruby included, no content-model hypothesis) on which the trigger of the recorded finding does not fire *)
Lemma restrict_proc d t rid : forall e inh par pb pe r e',
  clone_empties rid inh e = false -> restrict rid inh e = Ok e' ->
  proc d t (Some rid) inh par pb pe e = Ok r ->
  match e' with Some x => proc d t (Some rid) inh par pb pe x = Ok r | None => r = None end.
Proof.
  induction e as [a cs IH] using elem_ind2. intros inh par pb pe r e' Htr Hres Hproc.
  rewrite clone_empties_node in Htr. cbv zeta in Htr.
  cbn [restrict] in Hres. cbn [proc] in Hproc.
  set (assoc := match e_region a with Some r => Some r | None => inh end) in *.
  destruct (negb (oid_eqb assoc (Some rid)) && (negb (match cs with [] => false | _ => true end) || match assoc with Some _ => true | None => false end)) eqn:Epr.
  - injection Hres as <-. destruct (negb (active_at t _)); injection Hproc as <-; reflexivity.
  - apply orb_false_iff in Htr as [Htrcs Htrself]. 
    assert (Htrcs' : forall x, In x cs -> clone_empties rid assoc x = false).
    { intros x Hx. destruct (clone_empties rid assoc x) eqn:E; [|reflexivity].
      assert (existsb (clone_empties rid assoc) cs = true) by (apply existsb_exists; exists x; split; assumption). congruence. }
    match type of Hres with bind ?g _ = _ => destruct g as [cs'|] eqn:Eg end; [|discriminate]. cbn [bind] in Hres.
    destruct (is_nonempty_l cs' && negb (push_children_ok (e_kind a) cs')) eqn:Epush; [discriminate|].
    injection Hres as <-.
    cbn [proc]. fold assoc.
    set (iv := make_absolute (e_begin a) (e_end a) pb pe) in *.
    destruct (negb (active_at t iv)); [exact Hproc|].
    destruct (style_phase d t a par iv) as [st|] eqn:Est; [|discriminate]. cbn [bind] in Hproc |- *.
    (* the children: pruned ones contribute nothing, kept ones give the same result *)
    set (goP := fix go (l : list elem) : res (list elem) :=
                 match l with
                 | [] => Ok []
                 | c :: l' => bind (proc d t (Some rid) assoc (Some (e_kind a, st)) (Some (fst iv)) (snd iv) c) (fun r0 =>
                              bind (go l') (fun rs => Ok (match r0 with Some x => x :: rs | None => rs end)))
                 end) in *.
    set (goR := fix go (l : list elem) : res (list elem) :=
                 match l with
                 | [] => Ok []
                 | c :: l' => bind (restrict rid assoc c) (fun r0 =>
                              bind (go l') (fun rs => Ok (match r0 with Some x => x :: rs | None => rs end)))
                 end) in *.
    assert (Hch : forall l, Forall (fun e => forall inh par pb pe r e', clone_empties rid inh e = false -> restrict rid inh e = Ok e' ->
                                   proc d t (Some rid) inh par pb pe e = Ok r ->
                                   match e' with Some x => proc d t (Some rid) inh par pb pe x = Ok r | None => r = None end) l ->
                     (forall x, In x l -> clone_empties rid assoc x = false) ->
                     forall l', goR l = Ok l' -> forall children, goP l = Ok children -> goP l' = Ok children).
    { clear. induction l as [|c l IHl]; intros HF Hwf l' Eg children Hc.
      - cbn in Eg. injection Eg as <-. exact Hc.
      - inversion HF as [|? ? Hic Hics]; subst. cbn [goR] in Eg. fold goR in Eg.
        destruct (restrict rid assoc c) as [oc|] eqn:Erc; [|discriminate]. cbn [bind] in Eg.
        destruct (goR l) as [rs'|] eqn:Ers; [|discriminate]. cbn [bind] in Eg. injection Eg as <-.
        cbn [goP] in Hc. fold goP in Hc.
        destruct (proc d t (Some rid) assoc (Some (e_kind a, st)) (Some (fst iv)) (snd iv) c) as [rc|] eqn:Epc; [|discriminate]. cbn [bind] in Hc.
        destruct (goP l) as [rest|] eqn:Erest; [|discriminate]. cbn [bind] in Hc. injection Hc as <-.
        assert (Hwf' : forall x, In x l -> clone_empties rid assoc x = false) by (intros x Hx; apply Hwf; right; exact Hx).
        specialize (IHl Hics Hwf' rs' eq_refl rest eq_refl).
        specialize (Hic assoc (Some (e_kind a, st)) (Some (fst iv)) (snd iv) rc oc (Hwf c (or_introl eq_refl)) Erc Epc).
        destruct oc as [c'|].
        + cbn [goP]. fold goP. rewrite Hic. cbn [bind]. rewrite IHl. reflexivity.
        + subst rc. exact IHl. }
    (* when every child is removed by the restriction, every child satisfies the pruning test *)
    assert (Hgone : forall l, goR l = Ok [] -> forallb (clone_prunes rid assoc) l = true).
    { clear. induction l as [|c l IHl]; intros Eg; [reflexivity|]. cbn [goR] in Eg. fold goR in Eg.
      destruct (restrict rid assoc c) as [oc|] eqn:Erc; [|discriminate]. cbn [bind] in Eg.
      destruct (goR l) as [rs'|] eqn:Ers; [|discriminate]. cbn [bind] in Eg.
      destruct oc as [x|]; [discriminate|]. injection Eg as ->.
      cbn [forallb]. rewrite (restrict_none _ _ _ Erc), (IHl eq_refl). reflexivity. }
    specialize (Hch cs IH Htrcs' cs' Eg).
    destruct (display_none st); [match goal with |- (if ?b then _ else _) = _ => destruct b end; exact Hproc|].
    match type of Hproc with bind ?g _ = _ => destruct g as [children|] eqn:Ego end; [|discriminate]. cbn [bind] in Hproc.
    (* region selection may now see a childless element: it is then pruned, and the document's own result was None *)
    destruct (negb (oid_eqb assoc (Some rid)) && (negb (match cs' with [] => false | _ => true end) || match assoc with Some _ => true | None => false end)) eqn:Epr'.
    + (* pruned in the clone only: all children were pruned, so the original produced no children and was dropped *)
      apply andb_true_iff in Epr' as [E1 E2]. rewrite E1 in Epr. cbn [andb] in Epr. apply orb_false_iff in Epr as [E3 E4].
      rewrite E4, orb_false_r in E2. destruct cs' as [|x xs]; [|discriminate].
      specialize (Hch children eq_refl). cbn in Hch. injection Hch as <-.
      rewrite E1, (Hgone cs Eg) in Htrself. apply negb_false_iff in E3. rewrite E3 in Htrself.
      rewrite !andb_true_r in Htrself. unfold kept_childless in Htrself. apply orb_false_iff in Htrself as [Hka Hreg].
      unfold finish_element in Hproc. cbn [is_nonempty_l andb] in Hproc. rewrite andb_false_r in Hproc.
      rewrite Hka in Hproc.
      destruct (e_kind a) eqn:Ek; try discriminate Hreg; cbn in Hproc; injection Hproc as <-; reflexivity.
    + rewrite (Hch children eq_refl). cbn [bind]. exact Hproc.
Qed.

(* ---- a whole region through its clone ------------------------------------------------------------------ *)
From TT Require Import Spec.RenderSpec.

Lemma clone_params d r c : clone_one_region d r = Ok c -> same_params d c.
Proof.
  unfold clone_one_region. destruct (e_id (eattrs r)); [|discriminate].
  destruct (match d_body d with Some b => restrict t None b | None => Ok None end); [|discriminate]. cbn [bind].
  intros H. injection H as <-. repeat split.
Qed.

(* the trigger does not fire for region rid *)
Definition clone_keeps (d : doc) (rid : text) : Prop :=
  match d_body d with Some b => clone_empties rid None b = false | None => True end.

Lemma clone_region_same d r c t rid o :
  clone_keeps d rid -> e_id (eattrs r) = Some rid -> clone_one_region d r = Ok c ->
  proc_region d t (Some rid) r = Ok o -> isd c t = Ok (match o with Some x => [x] | None => [] end).
Proof.
  intros Hwf Hid Hc Hp. pose proof (clone_params _ _ _ Hc) as Hpar.
  unfold clone_one_region in Hc. rewrite Hid in Hc.
  unfold isd. unfold proc_region in Hp.
  destruct (match d_body d with Some b => restrict rid None b | None => Ok None end) as [b'|] eqn:Eb; [|discriminate].
  cbn [bind] in Hc. injection Hc as <-. cbn [d_regions map collect_regions]. rewrite Hid.
  set (c := mkDoc [r] b' (d_initials d) (d_rows d) (d_cols d) (d_pxh d) (d_pxw d) (d_active d) (d_dar d) (d_lang d)) in *.
  assert (Hpr : proc_region c t (Some rid) r = Ok o).
  { unfold proc_region. destruct (negb (active_at t _)); [exact Hp|].
    rewrite <- (style_phase_ext d c Hpar). destruct (style_phase d t (eattrs r) None _) as [st|]; [|discriminate].
    cbn [bind] in Hp |- *. destruct (display_none st); [exact Hp|].
    cbn [d_body c].
    unfold clone_keeps in Hwf. destruct (d_body d) as [b|].
    - destruct (proc d t (Some rid) None (Some (KRegion, st)) None None b) as [rb|] eqn:Epb; [|discriminate]. cbn [bind] in Hp.
      pose proof (restrict_proc d t rid b None (Some (KRegion, st)) None None rb b' Hwf Eb Epb) as Hr.
      destruct b' as [x|].
      + rewrite <- (proc_ext d c Hpar). rewrite Hr. cbn [bind]. exact Hp.
      + subst rb. cbn [bind] in Hp |- *. exact Hp.
    - injection Eb as <-. exact Hp. }
  rewrite Hpr. cbn [bind]. destruct o; reflexivity.
Qed.

(* the cached snapshot is the uncached one with whole regions left out (documents without ruby) *)
Lemma collect_map_ok {A} (f : A -> res (option elem)) : forall l rs, collect_regions (map f l) = Ok rs ->
  exists outs, Forall2 (fun x o => f x = Ok o) l outs /\ rs = flat_map (fun o => match o with Some e => [e] | None => [] end) outs.
Proof.
  induction l as [|x l IH]; intros rs H; cbn [map collect_regions] in H.
  - injection H as <-. exists []. split; [constructor | reflexivity].
  - destruct (f x) as [o|] eqn:E; [|discriminate]. cbn [bind] in H.
    destruct (collect_regions (map f l)) as [xs|] eqn:Ex; [|discriminate]. cbn [bind] in H. injection H as <-.
    destruct (IH xs eq_refl) as (outs & HF & ->). exists (o :: outs). split; [constructor; assumption|]. destruct o; reflexivity.
Qed.

Lemma omits_refl l : omits_regions l l.
Proof. induction l; constructor; assumption. Qed.
Lemma omits_app a b c e : omits_regions a b -> omits_regions c e -> omits_regions (a ++ c) (b ++ e).
Proof. intros H Hc. induction H; cbn [app]; [exact Hc | constructor; exact IHomits_regions | constructor; exact IHomits_regions]. Qed.
Lemma omits_all l : omits_regions [] l.
Proof. induction l; constructor; assumption. Qed.

(* omissions restricted to regions satisfying P; P := "paints nothing" gives render equality (Proofs/C14/Sound.v) *)
Lemma omits_only_weaken (P : elem -> Prop) a b : omits_only P a b -> omits_regions a b.
Proof. induction 1; constructor; assumption. Qed.
Lemma omits_only_refl (P : elem -> Prop) l : omits_only P l l.
Proof. induction l; constructor; assumption. Qed.
Lemma omits_only_app (P : elem -> Prop) a b c e : omits_only P a b -> omits_only P c e -> omits_only P (a ++ c) (b ++ e).
Proof. intros H Hc. induction H; cbn [app]; [exact Hc | constructor; assumption | constructor; assumption]. Qed.
Lemma omits_only_all (P : elem -> Prop) l : Forall P l -> omits_only P [] l.
Proof. induction 1; constructor; assumption. Qed.
Lemma omits_only_render a b : omits_only (fun r => paints r = false) a b -> render a = render b.
Proof.
  induction 1 as [|r a b Hr H IH|r a b H IH]; [reflexivity| |]; unfold render in *; cbn [filter].
  - rewrite Hr. exact IH.
  - rewrite IH. reflexivity.
Qed.

Definition opt_regions (o : option elem) : list elem := match o with Some e => [e] | None => [] end.

(* the trigger does not fire for any region of the document *)
Definition clones_keep (d : doc) (regs : list elem) : Prop :=
  Forall (fun r => exists rid, e_id (eattrs r) = Some rid /\ clone_keeps d rid) regs.

(* what a skipped clone would have contributed satisfies P *)
Definition skip_sound_clones (P : elem -> Prop) (d : doc) (t : Q) : Prop :=
  forall r c rs, In r (d_regions d) -> clone_one_region d r = Ok c ->
    skip_cached t (content_interval c) = true -> isd c t = Ok rs -> Forall P rs.
(* a document with at most one region is its own cache entry *)
Definition skip_sound_self (P : elem -> Prop) (d : doc) (t : Q) : Prop :=
  forall rs, (length (d_regions d) <= 1)%nat ->
    skip_cached t (content_interval d) = true -> isd d t = Ok rs -> Forall P rs.

  Lemma cached_clones (P : elem -> Prop) d t (Hskip : skip_sound_clones P d t) : forall regs outs ds,
    incl regs (d_regions d) -> clones_keep d regs ->
    Forall2 (fun r o => proc_region d t (e_id (eattrs r)) r = Ok o) regs outs -> clones d regs = Ok ds ->
    exists rs', isd_cached_docs t ds = Ok rs' /\ omits_only P rs' (flat_map opt_regions outs).
  Proof.
    induction regs as [|r regs IH]; intros outs ds Hincl Hids HF Hc.
    - inversion HF; subst. cbn [clones] in Hc. injection Hc as <-. exists []. split; [reflexivity | constructor].
    - inversion HF as [|? o ? outs' Ho HF']; subst. cbn [clones] in Hc.
      destruct (clone_one_region d r) as [c|] eqn:Ecl; [|discriminate]. cbn [bind] in Hc.
      destruct (clones d regs) as [cs|] eqn:Ecs; [|discriminate]. cbn [bind] in Hc. injection Hc as <-.
      inversion Hids as [|? ? (rid & Hrid & Hkeep) Hids']; subst.
      assert (Hincl' : incl regs (d_regions d)) by (intros x Hx; apply Hincl; right; exact Hx).
      destruct (IH outs' cs Hincl' Hids' HF' eq_refl) as (rs' & Hrs' & Hom).
      rewrite Hrid in Ho. pose proof (clone_region_same d r c t rid o Hkeep Hrid Ecl Ho) as Hisd.
      cbn [isd_cached_docs flat_map]. destruct (skip_cached t (content_interval c)) eqn:Esk.
      + exists rs'. split; [exact Hrs'|].
        pose proof (Hskip r c _ (Hincl r (or_introl eq_refl)) Ecl Esk Hisd) as HP.
        destruct o as [x|]; cbn [opt_regions app]; [|exact Hom]. inversion HP; subst. constructor; assumption.
      + rewrite Hisd, Hrs'. cbn [bind]. eexists. split; [reflexivity|].
        apply omits_only_app; [apply omits_only_refl | exact Hom].
  Qed.

  Theorem cached_omits_only (P : elem -> Prop) d t ds rs :
    skip_sound_clones P d t -> skip_sound_self P d t ->
    ((2 <= length (d_regions d))%nat -> clones_keep d (d_regions d)) -> cached_docs d = Ok ds -> isd d t = Ok rs ->
    exists rs', isd_cached d t = Ok rs' /\ omits_only P rs' rs.
  Proof.
    intros Hskip Hskip_self Hids Hc Hi. unfold skip_sound_self in Hskip_self.
    assert (Hcl := cached_clones P d t Hskip). clear Hskip. unfold isd_cached. rewrite Hc. cbn [bind]. unfold cached_docs in Hc.
    destruct (d_regions d) as [|r1 [|r2 rest]] eqn:Er.
    - injection Hc as <-. cbn [isd_cached_docs]. destruct (skip_cached t (content_interval d)) eqn:Esk.
      + exists []. split; [reflexivity|]. apply omits_only_all. apply Hskip_self; [cbn; lia | reflexivity | exact Hi].
      + rewrite Hi. cbn [bind]. exists rs. rewrite app_nil_r. split; [reflexivity | apply omits_only_refl].
    - injection Hc as <-. cbn [isd_cached_docs]. destruct (skip_cached t (content_interval d)) eqn:Esk.
      + exists []. split; [reflexivity|]. apply omits_only_all. apply Hskip_self; [cbn; lia | reflexivity | exact Hi].
      + rewrite Hi. cbn [bind]. exists rs. rewrite app_nil_r. split; [reflexivity | apply omits_only_refl].
    - unfold isd in Hi. rewrite Er in Hi.
      apply collect_map_ok in Hi as (outs & HF & ->).
      apply (Hcl (r1 :: r2 :: rest) outs ds (incl_refl _) (Hids ltac:(cbn; lia)) HF Hc).
  Qed.

(* the cached snapshot is the uncached one with whole regions left out — every document, ruby included, on which the
   trigger of the recorded finding does not fire *)
Theorem cached_omits_regions d t ds rs :
  ((2 <= length (d_regions d))%nat -> clones_keep d (d_regions d)) -> cached_docs d = Ok ds -> isd d t = Ok rs ->
  exists rs', isd_cached d t = Ok rs' /\ omits_regions rs' rs.
Proof.
  intros Hk Hc Hi.
  destruct (cached_omits_only (fun _ => True) d t ds rs) as (rs' & H1 & H2); try assumption.
  - intros ? ? ? ? ? ? ?. apply Forall_forall. intros; exact I.
  - intros ? ? ? ?. apply Forall_forall. intros; exact I.
  - exists rs'. split; [exact H1 | apply (omits_only_weaken _ _ _ H2)].
Qed.

(* the executable form of the hypothesis *)
Lemma clones_keep_of_trigger d :
  Forall (fun r => exists rid, e_id (eattrs r) = Some rid) (d_regions d) ->
  clone_empties_doc d = false -> (2 <= length (d_regions d))%nat -> clones_keep d (d_regions d).
Proof.
  intros Hids Htr Hlen. unfold clones_keep, clone_keeps. unfold clone_empties_doc in Htr.
  destruct (d_regions d) as [|r1 [|r2 rest]] eqn:Er; [cbn in Hlen; lia | cbn in Hlen; lia|].
  destruct (d_body d) as [b|]; [|apply Forall_forall; intros r Hr; rewrite Forall_forall in Hids; destruct (Hids r Hr) as [rid Hrid]; exists rid; split; [exact Hrid | exact I]].
  apply Forall_forall. intros r Hr. rewrite Forall_forall in Hids. destruct (Hids r Hr) as [rid Hrid].
  exists rid. split; [exact Hrid|].
  destruct (clone_empties rid None b) eqn:E; [|reflexivity].
  assert (existsb (fun r => match e_id (eattrs r) with Some rid => clone_empties rid None b | None => false end) (r1 :: r2 :: rest) = true).
  { apply existsb_exists. exists r. split; [exact Hr | rewrite Hrid; exact E]. }
  congruence.
Qed.
