(* C14: the per-region clone of the significant-times cache gives the same region snapshot as the document. *)
From TT Require Import Model.Doc Gen.StyleTables Model.Isd Model.SigTimes Proofs.Common.ElemInd.

(* ---- snapshot generation reads the document only through its initial values and its cell/pixel resolution ---- *)
Definition same_params (d d' : doc) : Prop :=
  d_initials d = d_initials d' /\ d_rows d = d_rows d' /\ d_cols d = d_cols d' /\ d_pxh d = d_pxh d' /\ d_pxw d = d_pxw d'.

Section Params.
  Variables d d' : doc.
  Hypothesis Hp : same_params d d'.

  Lemma refs_ext : c_h d = c_h d' /\ c_w d = c_w d' /\ px_h d = px_h d' /\ px_w d = px_w d'.
  Proof. destruct Hp as (_ & H1 & H2 & H3 & H4). unfold c_h, c_w, px_h, px_w. rewrite H1, H2, H3, H4. repeat split. Qed.

  Lemma font_relative_ext st l : font_relative d st l = font_relative d' st l.
  Proof. destruct refs_ext as (H1 & _ & H3 & _). unfold font_relative. rewrite H1, H3. reflexivity. Qed.

  Lemma compute_shadows_ext st : forall ss, compute_shadows d st ss = compute_shadows d' st ss.
  Proof.
    induction ss as [|[[[x y] blur] col] ss IH]; [reflexivity|]. cbn [compute_shadows].
    rewrite !font_relative_ext, IH. destruct blur as [b|]; [rewrite font_relative_ext|]; reflexivity.
  Qed.

  Lemma compute_prop_ext par st p : compute_prop d par st p = compute_prop d' par st p.
  Proof.
    destruct refs_ext as (H1 & H2 & H3 & H4). unfold compute_prop, font_relative. rewrite H1, H2, H3, H4.
    destruct (sget st p) as [v|]; [destruct v|]; try reflexivity.
    rewrite compute_shadows_ext. reflexivity.
  Qed.

  Lemma compute_styles_ext par todo : forall order st, compute_styles d par todo order st = compute_styles d' par todo order st.
  Proof.
    induction order as [|p order IH]; intros st; [reflexivity|]. cbn [compute_styles].
    destruct (existsb (Z.eqb p) todo); [|apply IH]. rewrite compute_prop_ext.
    destruct (compute_prop d' par st p); [cbn [bind]; apply IH | reflexivity].
  Qed.

  Lemma apply_initial_ext : forall props st todo, apply_initial d props st todo = apply_initial d' props st todo.
  Proof.
    destruct Hp as (Hi & _). induction props as [|p props IH]; intros st todo; [reflexivity|]. cbn [apply_initial].
    rewrite Hi. destruct (shas st p); [apply IH|]. destruct (sget (d_initials d') p); [apply IH|].
    destruct (p =? p_Position); [apply IH|]. destruct (sget initial_values p); apply IH.
  Qed.

  Lemma style_phase_ext t a par iv : style_phase d t a par iv = style_phase d' t a par iv.
  Proof.
    unfold style_phase.
    destruct (apply_anims t iv (e_anims a) [] []) as [st0 todo0].
    destruct (apply_specified (e_styles a) st0 todo0) as [st1 todo1].
    match goal with |- (let '(st, todo) := ?X in _) = _ => destruct X as [st2 todo2] end.
    rewrite apply_initial_ext.
    match goal with |- (let '(st, todo) := ?X in _) = _ => destruct X as [st4 todo4] end.
    apply compute_styles_ext.
  Qed.

  Lemma proc_ext t sel : forall e inh par pb pe, proc d t sel inh par pb pe e = proc d' t sel inh par pb pe e.
  Proof.
    induction e as [a cs IH] using elem_ind2. intros inh par pb pe. cbn [proc].
    destruct (negb (active_at t _)); [reflexivity|].
    match goal with |- (if ?b then _ else _) = _ => destruct b end; [reflexivity|].
    rewrite style_phase_ext. destruct (style_phase d' t a par _) as [st|]; [|reflexivity]. cbn [bind].
    destruct (display_none st); [reflexivity|]. f_equal.
    induction cs as [|c cs IHcs]; [reflexivity|]. inversion IH as [|? ? Hc Hcs]; subst.
    rewrite Hc, (IHcs Hcs). reflexivity.
  Qed.
End Params.

(* ---- documents without ruby: the kinds body, div, p, span, br, text; br and text are leaves ---------------- *)
Fixpoint plain_wf (e : elem) : bool :=
  match e with
  | Elem a cs =>
      match e_kind a with
      | KBody | KDiv | KP | KSpan => true
      | KBr | KText => match cs with [] => true | _ => false end
      | _ => false
      end && forallb plain_wf cs
  end.

(* restricting the body to what can appear in region rid does not change the region's snapshot *)
Lemma restrict_proc d t rid : forall e inh par pb pe r e',
  plain_wf e = true -> restrict rid inh e = Ok e' ->
  proc d t (Some rid) inh par pb pe e = Ok r ->
  match e' with Some x => proc d t (Some rid) inh par pb pe x = Ok r | None => r = None end.
Proof.
  induction e as [a cs IH] using elem_ind2. intros inh par pb pe r e' Hwf Hres Hproc.
  cbn [plain_wf] in Hwf. apply andb_true_iff in Hwf as [Hk Hwfcs]. rewrite forallb_forall in Hwfcs.
  cbn [restrict] in Hres. cbn [proc] in Hproc.
  set (assoc := match e_region a with Some r => Some r | None => inh end) in *.
  destruct (negb (oid_eqb assoc (Some rid)) && (negb (match cs with [] => false | _ => true end) || match assoc with Some _ => true | None => false end)) eqn:Epr.
  - injection Hres as <-. destruct (negb (active_at t _)); injection Hproc as <-; reflexivity.
  - match type of Hres with bind ?g _ = _ => destruct g as [cs'|] eqn:Eg end; [|discriminate]. cbn [bind] in Hres.
    assert (Hpush : push_children_ok (e_kind a) cs' = true) by (destruct (e_kind a); try reflexivity; discriminate).
    rewrite Hpush in Hres. rewrite andb_false_r in Hres. injection Hres as <-.
    cbn [proc]. fold assoc.
    set (iv := make_absolute (e_begin a) (e_end a) pb pe) in *.
    destruct (negb (active_at t iv)); [exact Hproc|].
    destruct (style_phase d t a par iv) as [st|] eqn:Est; [|discriminate]. cbn [bind] in Hproc |- *.
    (* the children: pruned ones contribute nothing, kept ones give the same result *)
    set (goP := fix go (l : list elem) : res (list elem) :=
                 match l with
                 | [] => Ok []
                 | c :: l' => bind (proc d t (Some rid) assoc (Some (e_kind a, st)) (Some (fst iv)) (snd iv) c) (fun r0 =>
                              bind (go l') (fun rs => Ok (match r0 with Some x => x :: rs | None => rs end)))
                 end) in *.
    set (goR := fix go (l : list elem) : res (list elem) :=
                 match l with
                 | [] => Ok []
                 | c :: l' => bind (restrict rid assoc c) (fun r0 =>
                              bind (go l') (fun rs => Ok (match r0 with Some x => x :: rs | None => rs end)))
                 end) in *.
    assert (Hch : forall l, Forall (fun e => forall inh par pb pe r e', plain_wf e = true -> restrict rid inh e = Ok e' ->
                                   proc d t (Some rid) inh par pb pe e = Ok r ->
                                   match e' with Some x => proc d t (Some rid) inh par pb pe x = Ok r | None => r = None end) l ->
                     (forall x, In x l -> plain_wf x = true) ->
                     forall l', goR l = Ok l' -> forall children, goP l = Ok children -> goP l' = Ok children).
    { clear. induction l as [|c l IHl]; intros HF Hwf l' Eg children Hc.
      - cbn in Eg. injection Eg as <-. exact Hc.
      - inversion HF as [|? ? Hic Hics]; subst. cbn [goR] in Eg. fold goR in Eg.
        destruct (restrict rid assoc c) as [oc|] eqn:Erc; [|discriminate]. cbn [bind] in Eg.
        destruct (goR l) as [rs'|] eqn:Ers; [|discriminate]. cbn [bind] in Eg. injection Eg as <-.
        cbn [goP] in Hc. fold goP in Hc.
        destruct (proc d t (Some rid) assoc (Some (e_kind a, st)) (Some (fst iv)) (snd iv) c) as [rc|] eqn:Epc; [|discriminate]. cbn [bind] in Hc.
        destruct (goP l) as [rest|] eqn:Erest; [|discriminate]. cbn [bind] in Hc. injection Hc as <-.
        assert (Hwf' : forall x, In x l -> plain_wf x = true) by (intros x Hx; apply Hwf; right; exact Hx).
        specialize (IHl Hics Hwf' rs' eq_refl rest eq_refl).
        specialize (Hic assoc (Some (e_kind a, st)) (Some (fst iv)) (snd iv) rc oc (Hwf c (or_introl eq_refl)) Erc Epc).
        destruct oc as [c'|].
        + cbn [goP]. fold goP. rewrite Hic. cbn [bind]. rewrite IHl. reflexivity.
        + subst rc. exact IHl. }
    specialize (Hch cs IH Hwfcs cs' Eg).
    destruct (display_none st); [match goal with |- (if ?b then _ else _) = _ => destruct b end; exact Hproc|].
    match type of Hproc with bind ?g _ = _ => destruct g as [children|] eqn:Ego end; [|discriminate]. cbn [bind] in Hproc.
    (* region selection may now see a childless element: it is then pruned, and the document's own result was None *)
    destruct (negb (oid_eqb assoc (Some rid)) && (negb (match cs' with [] => false | _ => true end) || match assoc with Some _ => true | None => false end)) eqn:Epr'.
    + (* pruned in the clone only: all children were pruned, so the original produced no children and was dropped *)
      apply andb_true_iff in Epr' as [E1 E2]. rewrite E1 in Epr. cbn [andb] in Epr. apply orb_false_iff in Epr as [E3 E4].
      rewrite E4, orb_false_r in E2. destruct cs' as [|x xs]; [|discriminate].
      specialize (Hch children eq_refl). cbn in Hch. injection Hch as <-.
      unfold finish_element in Hproc. cbn [is_nonempty_l andb] in Hproc. rewrite andb_false_r in Hproc.
      destruct (e_kind a) eqn:Ek; try discriminate; cbn in Hproc; try (injection Hproc as <-; reflexivity).
      all: destruct cs; [discriminate E3 | discriminate Hk].
    + rewrite (Hch children eq_refl). cbn [bind]. exact Hproc.
Qed.

(* ---- a whole region through its clone ------------------------------------------------------------------ *)
From TT Require Import Spec.RenderSpec.

Lemma clone_params d r c : clone_one_region d r = Ok c -> same_params d c.
Proof.
  unfold clone_one_region. destruct (e_id (eattrs r)); [|discriminate].
  destruct (match d_body d with Some b => restrict t None b | None => Ok None end); [|discriminate]. cbn [bind].
  intros H. injection H as <-. repeat split.
Qed.

Definition body_plain (d : doc) : Prop := match d_body d with Some b => plain_wf b = true | None => True end.

Lemma clone_region_same d r c t rid o :
  body_plain d -> e_id (eattrs r) = Some rid -> clone_one_region d r = Ok c ->
  proc_region d t (Some rid) r = Ok o -> isd c t = Ok (match o with Some x => [x] | None => [] end).
Proof.
  intros Hwf Hid Hc Hp. pose proof (clone_params _ _ _ Hc) as Hpar.
  unfold clone_one_region in Hc. rewrite Hid in Hc.
  unfold isd. unfold proc_region in Hp.
  destruct (match d_body d with Some b => restrict rid None b | None => Ok None end) as [b'|] eqn:Eb; [|discriminate].
  cbn [bind] in Hc. injection Hc as <-. cbn [d_regions map collect_regions]. rewrite Hid.
  set (c := mkDoc [r] b' (d_initials d) (d_rows d) (d_cols d) (d_pxh d) (d_pxw d) (d_active d) (d_dar d) (d_lang d)) in *.
  assert (Hpr : proc_region c t (Some rid) r = Ok o).
  { unfold proc_region. destruct (negb (active_at t _)); [exact Hp|].
    rewrite <- (style_phase_ext d c Hpar). destruct (style_phase d t (eattrs r) None _) as [st|]; [|discriminate].
    cbn [bind] in Hp |- *. destruct (display_none st); [exact Hp|].
    cbn [d_body c].
    unfold body_plain in Hwf. destruct (d_body d) as [b|].
    - destruct (proc d t (Some rid) None (Some (KRegion, st)) None None b) as [rb|] eqn:Epb; [|discriminate]. cbn [bind] in Hp.
      pose proof (restrict_proc d t rid b None (Some (KRegion, st)) None None rb b' Hwf Eb Epb) as Hr.
      destruct b' as [x|].
      + rewrite <- (proc_ext d c Hpar). rewrite Hr. cbn [bind]. exact Hp.
      + subst rb. cbn [bind] in Hp |- *. exact Hp.
    - injection Eb as <-. exact Hp. }
  rewrite Hpr. cbn [bind]. destruct o; reflexivity.
Qed.

(* the cached snapshot is the uncached one with whole regions left out (documents without ruby) *)
Lemma collect_map_ok {A} (f : A -> res (option elem)) : forall l rs, collect_regions (map f l) = Ok rs ->
  exists outs, Forall2 (fun x o => f x = Ok o) l outs /\ rs = flat_map (fun o => match o with Some e => [e] | None => [] end) outs.
Proof.
  induction l as [|x l IH]; intros rs H; cbn [map collect_regions] in H.
  - injection H as <-. exists []. split; [constructor | reflexivity].
  - destruct (f x) as [o|] eqn:E; [|discriminate]. cbn [bind] in H.
    destruct (collect_regions (map f l)) as [xs|] eqn:Ex; [|discriminate]. cbn [bind] in H. injection H as <-.
    destruct (IH xs eq_refl) as (outs & HF & ->). exists (o :: outs). split; [constructor; assumption|]. destruct o; reflexivity.
Qed.

Lemma omits_refl l : omits_regions l l.
Proof. induction l; constructor; assumption. Qed.
Lemma omits_app a b c e : omits_regions a b -> omits_regions c e -> omits_regions (a ++ c) (b ++ e).
Proof. intros H Hc. induction H; cbn [app]; [exact Hc | constructor; exact IHomits_regions | constructor; exact IHomits_regions]. Qed.
Lemma omits_all l : omits_regions [] l.
Proof. induction l; constructor; assumption. Qed.

Lemma cached_clones d t : body_plain d -> forall regs outs ds,
  Forall (fun r => exists rid, e_id (eattrs r) = Some rid) regs ->
  Forall2 (fun r o => proc_region d t (e_id (eattrs r)) r = Ok o) regs outs -> clones d regs = Ok ds ->
  exists rs', isd_cached_docs t ds = Ok rs' /\
              omits_regions rs' (flat_map (fun o => match o with Some e => [e] | None => [] end) outs).
Proof.
  intros Hwf. induction regs as [|r regs IH]; intros outs ds Hids HF Hc.
  - inversion HF; subst. cbn [clones] in Hc. injection Hc as <-. exists []. split; [reflexivity | constructor].
  - inversion HF as [|? o ? outs' Ho HF']; subst. cbn [clones] in Hc.
    destruct (clone_one_region d r) as [c|] eqn:Ecl; [|discriminate]. cbn [bind] in Hc.
    destruct (clones d regs) as [cs|] eqn:Ecs; [|discriminate]. cbn [bind] in Hc. injection Hc as <-.
    inversion Hids as [|? ? [rid Hrid] Hids']; subst.
    destruct (IH outs' cs Hids' HF' eq_refl) as (rs' & Hrs' & Hom).
    rewrite Hrid in Ho. pose proof (clone_region_same d r c t rid o Hwf Hrid Ecl Ho) as Hisd.
    cbn [isd_cached_docs flat_map]. destruct (skip_cached t (content_interval c)).
    + exists rs'. split; [exact Hrs'|]. destruct o; cbn [app]; [constructor; exact Hom | exact Hom].
    + rewrite Hisd, Hrs'. cbn [bind]. eexists. split; [reflexivity|]. apply omits_app; [apply omits_refl | exact Hom].
Qed.

Theorem cached_omits_regions d t ds rs :
  body_plain d -> Forall (fun r => exists rid, e_id (eattrs r) = Some rid) (d_regions d) ->
  cached_docs d = Ok ds -> isd d t = Ok rs -> exists rs', isd_cached d t = Ok rs' /\ omits_regions rs' rs.
Proof.
  intros Hwf Hids Hc Hi. unfold isd_cached. rewrite Hc. cbn [bind]. unfold cached_docs in Hc.
  destruct (d_regions d) as [|r1 [|r2 rest]] eqn:Er.
  - injection Hc as <-. cbn [isd_cached_docs]. destruct (skip_cached t (content_interval d)).
    + exists []. split; [reflexivity | apply omits_all].
    + rewrite Hi. cbn [bind]. exists rs. rewrite app_nil_r. split; [reflexivity | apply omits_refl].
  - injection Hc as <-. cbn [isd_cached_docs]. destruct (skip_cached t (content_interval d)).
    + exists []. split; [reflexivity | apply omits_all].
    + rewrite Hi. cbn [bind]. exists rs. rewrite app_nil_r. split; [reflexivity | apply omits_refl].
  - unfold isd in Hi. rewrite Er in Hi.
    apply collect_map_ok in Hi as (outs & HF & ->).
    apply (cached_clones d t Hwf (r1 :: r2 :: rest) outs ds Hids HF Hc).
Qed.
