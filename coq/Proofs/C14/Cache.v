(* C14: proofs about the significant-times cache. *)
From TT Require Import Model.Doc Gen.StyleTables Model.Isd Model.SigTimes Spec.RenderSpec Proofs.Common.ElemInd.

(* with at most one region the cache holds the document itself *)
Lemma cached_docs_small d : (length (d_regions d) <= 1)%nat -> cached_docs d = Ok [d].
Proof. unfold cached_docs. destruct (d_regions d) as [|r [|r2 rs]]; cbn [length]; intros H; try reflexivity. exfalso. apply (Nat.nle_succ_0 _ (le_S_n _ _ H)). Qed.
