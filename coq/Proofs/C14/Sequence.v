(* C14: generate_isd_sequence and repeated use of one significant-times object. *)
From TT Require Import Model.Doc Gen.StyleTables Model.Isd Model.SigTimes Model.CloneTrigger Spec.RenderSpec Spec.DocWf.
From TT Require Import Proofs.C02.Stable Proofs.C02.Sig Proofs.C02.Complete Proofs.C14.Restrict Proofs.C14.Sound.

Lemma sig_cached d l : sig d = Ok l -> exists ds, cached_docs d = Ok ds.
Proof. unfold sig, sig_gen. destruct (cached_docs d) as [ds|]; [exists ds; reflexivity | discriminate]. Qed.

(* (iii) every entry of the generated sequence is the cached snapshot at its significant time, and it renders like
   the snapshot computed without the cache at that time *)
Theorem sequence_render d s :
  doc_wf d = true -> clone_empties_doc d = false -> isd_sequence d = Ok s ->
  exists l, sig d = Ok l /\ map fst s = l /\
            Forall (fun p => isd_cached d (fst p) = Ok (snd p) /\
                             forall rs, isd d (fst p) = Ok rs -> omits_only (fun r => paints r = false) (snd p) rs /\ render (snd p) = render rs) s.
Proof.
  intros Hwf Htr Hs. destruct (sequence_spec d s Hs) as (l & Hl & Hm & HF). exists l. split; [exact Hl|]. split; [exact Hm|].
  destruct (sig_cached d l Hl) as [ds Hds].
  apply Forall_forall. intros p Hp. rewrite Forall_forall in HF. specialize (HF p Hp). split; [exact HF|].
  intros rs Hrs. destruct (cached_render_equiv d (fst p) ds rs Hwf Htr Hds Hrs) as (rs' & H1 & H2 & H3).
  rewrite HF in H1. injection H1 as <-. split; assumption.
Qed.

(* (iv) one significant-times object, built once, then used for any list of query times in any order: each answer is
   the answer a freshly built object gives for that time alone (M is a function of the document and the time; the
   interval cache the object carries is treated in Proofs/C14/CacheState.v) *)
Theorem cache_reuse d ds : cached_docs d = Ok ds ->
  forall ts, map (fun t => isd_cached_docs t ds) ts = map (fun t => isd_cached d t) ts.
Proof. intros Hc ts. apply map_ext. intros t. unfold isd_cached. rewrite Hc. reflexivity. Qed.

(* ... hence, for a well-formed document outside the trigger, every one of those answers renders like the uncached
   snapshot at its time, whatever was asked before *)
Theorem cache_reuse_render d ds : doc_wf d = true -> clone_empties_doc d = false -> cached_docs d = Ok ds ->
  forall ts, Forall (fun t => forall rs, isd d t = Ok rs -> exists rs', isd_cached_docs t ds = Ok rs' /\ render rs' = render rs) ts.
Proof.
  intros Hwf Htr Hc ts. apply Forall_forall. intros t _ rs Hrs.
  destruct (cached_render_equiv d t ds rs Hwf Htr Hc Hrs) as (rs' & H1 & _ & H3).
  exists rs'. split; [|exact H3]. unfold isd_cached in H1. rewrite Hc in H1. exact H1.
Qed.

(* outcomes: with the cache a call raises only if the call without it raises (the converse is not claimed: the clones
   drop more before a style computation or Ruby.push_children can fail) *)
Theorem cached_raises_only_if_uncached d t ds c :
  doc_wf d = true -> clone_empties_doc d = false -> cached_docs d = Ok ds -> isd_cached d t = Err c -> exists c', isd d t = Err c'.
Proof.
  intros Hwf Htr Hc He. destruct (isd d t) as [rs|c'] eqn:Ei; [|exists c'; reflexivity].
  destruct (cached_render_equiv d t ds rs Hwf Htr Hc Ei) as (rs' & H1 & _). rewrite He in H1. discriminate.
Qed.

(* the hypotheses of the theorems are satisfiable: a two-region document with ruby whose spans name regions *)
Definition ex_at (k : kind) (reg : option text) : attrs := mkAttrs k None None None reg [] [] false [] [].
Definition ex_span (reg : option text) (b e : option Q) : elem :=
  Elem (mkAttrs KSpan None b e reg [] [] false [] []) [Elem (mkAttrs KText None None None None [] [] false [] [120%Z]) []].
Definition ex_region (rid : text) : elem := Elem (mkAttrs KRegion (Some rid) None None None [(p_BackgroundColor, VColor 0%Z)] [] false [] []) [].
Definition ex_doc : doc :=
  mkDoc [ex_region [114%Z; 49%Z]; ex_region [114%Z; 50%Z]]
        (Some (Elem (ex_at KBody None)
           [Elem (ex_at KDiv (Some [114%Z; 49%Z]))
              [Elem (ex_at KP None) [Elem (ex_at KRuby None) [Elem (ex_at KRb None) [ex_span None None None]; Elem (ex_at KRt None) [ex_span None None None]]]];
            Elem (ex_at KDiv None) [Elem (ex_at KP None) [ex_span (Some [114%Z; 50%Z]) (Some (Qmake 2 1)) (Some (Qmake 4 1))]]]))
        [] 15%Z 32%Z 1080%Z 1920%Z None None [].
Lemma hypotheses_satisfiable :
  doc_wf ex_doc = true /\ clone_empties_doc ex_doc = false /\ (exists ds, cached_docs ex_doc = Ok ds) /\
  (exists s, isd_sequence ex_doc = Ok s) /\ (exists rs, isd ex_doc (Qmake 3 1) = Ok rs /\ render rs <> []) /\
  (exists rs rs', isd ex_doc (Qmake 5 1) = Ok rs /\ isd_cached ex_doc (Qmake 5 1) = Ok rs' /\ length rs' = 1%nat /\ length rs = 2%nat).
Proof.
  split; [vm_compute; reflexivity|]. split; [vm_compute; reflexivity|].
  split; [eexists; vm_compute; reflexivity|]. split; [eexists; vm_compute; reflexivity|].
  split; [eexists; split; [vm_compute; reflexivity | discriminate]|].
  eexists. eexists. split; [vm_compute; reflexivity|]. split; [vm_compute; reflexivity|]. split; reflexivity.
Qed.
