(* C14: the interval and activity caches never change a result.  Model/IsdCache.v threads the two dictionaries of
   ISD._process_element through the snapshot computation; here: a state is SOUND when every interval entry is the
   element's absolute interval and every activity entry is its activity at the time of the current call.  From a sound
   state every call returns what the cache-free transcription (Model/Isd.v, Model/SigTimes.v) returns, and leaves a sound
   state — so the answers of any sequence of calls on one SignificantTimes object are those of fresh computations. *)
From TT Require Import Model.Doc Gen.StyleTables Model.Isd Model.SigTimes Model.IsdCache Proofs.Common.ElemInd.

Definition act_ok (ot : option Q) (iv : ivl) (b : bool) : Prop :=
  match ot with Some t => b = active_at t iv | None => True end.

Fixpoint cn_sound (ot : option Q) (pb pe : option Q) (e : elem) (cn : cnode) : Prop :=
  match e, cn with
  | Elem a cs, CN civ cact kids =>
      let iv := make_absolute (e_begin a) (e_end a) pb pe in
      (forall x, civ = Some x -> x = iv) /\ (forall b, cact = Some b -> act_ok ot iv b) /\
      (fix go (l : list elem) (ks : list cnode) : Prop :=
         match l, ks with c :: l', k :: ks' => cn_sound ot (Some (fst iv)) (snd iv) c k /\ go l' ks' | _, _ => True end) cs kids
  end.
Fixpoint kids_sound (ot : option Q) (pb pe : option Q) (l : list elem) (ks : list cnode) : Prop :=
  match l, ks with c :: l', k :: ks' => cn_sound ot pb pe c k /\ kids_sound ot pb pe l' ks' | _, _ => True end.
Lemma cn_sound_node ot pb pe a cs civ cact kids :
  cn_sound ot pb pe (Elem a cs) (CN civ cact kids) <->
  let iv := make_absolute (e_begin a) (e_end a) pb pe in
  (forall x, civ = Some x -> x = iv) /\ (forall b, cact = Some b -> act_ok ot iv b) /\ kids_sound ot (Some (fst iv)) (snd iv) cs kids.
Proof.
  cbn [cn_sound]. cbv zeta.
  assert (E : forall pb' pe' l ks,
             (fix go (l : list elem) (ks : list cnode) : Prop :=
                match l, ks with c :: l', k :: ks' => cn_sound ot pb' pe' c k /\ go l' ks' | _, _ => True end) l ks
             <-> kids_sound ot pb' pe' l ks).
  { intros pb' pe'. induction l as [|c l IH]; intros ks; [destruct ks; reflexivity|].
    destruct ks as [|k ks]; [reflexivity|]. cbn [kids_sound]. rewrite IH. reflexivity. }
  rewrite E. reflexivity.
Qed.
Lemma cn_sound_empty ot pb pe e : cn_sound ot pb pe e cn_empty.
Proof. destruct e as [a cs]. apply cn_sound_node. cbv zeta. repeat split; try discriminate. destruct cs; exact I. Qed.
Lemma kids_sound_tl ot pb pe c l ks : kids_sound ot pb pe (c :: l) ks -> cn_sound ot pb pe c (kid_hd ks) /\ kids_sound ot pb pe l (tl ks).
Proof.
  destruct ks as [|k ks]; cbn [kids_sound kid_hd tl].
  - intros _. split; [apply cn_sound_empty | destruct l; exact I].
  - tauto.
Qed.

(* ---- the loop over the children ----------------------------------------------------------------------------- *)
Definition go_pure (g : elem -> res (option elem)) : list elem -> res (list elem) :=
  fix go (l : list elem) : res (list elem) :=
    match l with
    | [] => Ok []
    | c :: l' => bind (g c) (fun r => bind (go l') (fun rs => Ok (match r with Some x => x :: rs | None => rs end)))
    end.

Lemma kids_st_sound ot pb pe (f : elem -> cnode -> res (option elem) * cnode) (g : elem -> res (option elem)) :
  forall l, Forall (fun e => forall cn, cn_sound ot pb pe e cn -> fst (f e cn) = g e /\ cn_sound ot pb pe e (snd (f e cn))) l ->
  forall ks, kids_sound ot pb pe l ks ->
  fst (kids_st f l ks) = go_pure g l /\ kids_sound ot pb pe l (snd (kids_st f l ks)).
Proof.
  induction l as [|c l IHl]; intros HF ks Hk; [split; [reflexivity | exact I]|].
  inversion HF as [|? ? Hc Hl]; subst. apply kids_sound_tl in Hk as [Hk1 Hk2].
  cbn [kids_st go_pure]. fold (kids_st f). fold (go_pure g).
  destruct (Hc (kid_hd ks) Hk1) as [E1 S1].
  destruct (f c (kid_hd ks)) as [r k']. cbn [fst snd] in E1, S1. rewrite <- E1.
  destruct r as [o|code]; cbn [bind].
  - destruct (IHl Hl (tl ks) Hk2) as [E2 S2]. destruct (kids_st f l (tl ks)) as [rs ks']. cbn [fst snd] in E2, S2 |- *.
    rewrite <- E2. split; [destruct rs; reflexivity | split; assumption].
  - cbn [fst snd]. split; [reflexivity | split; assumption].
Qed.

(* ---- one element ------------------------------------------------------------------------------------------ *)
Lemma proc_node d t sel inh par pb pe a cs :
  proc d t sel inh par pb pe (Elem a cs) =
  let iv := make_absolute (e_begin a) (e_end a) pb pe in
  if negb (active_at t iv) then Ok None
  else
    let assoc := match e_region a with Some r => Some r | None => inh end in
    if region_test sel assoc (match cs with [] => false | _ => true end) then Ok None
    else bind (style_phase d t a par iv) (fun st =>
         if display_none st then Ok None
         else bind (go_pure (proc d t sel assoc (Some (e_kind a, st)) (Some (fst iv)) (snd iv)) cs) (fun children => finish_element a st children)).
Proof. reflexivity. Qed.

Lemma proc_st_sound d t sel : forall e inh par pb pe cn, cn_sound (Some t) pb pe e cn ->
  fst (proc_st d t sel inh par pb pe e cn) = proc d t sel inh par pb pe e /\
  cn_sound (Some t) pb pe e (snd (proc_st d t sel inh par pb pe e cn)).
Proof.
  induction e as [a cs IH] using elem_ind2. intros inh par pb pe [civ cact kids] Hs.
  apply cn_sound_node in Hs. cbv zeta in Hs. destruct Hs as (Hiv & Hact & Hkids).
  rewrite proc_node. cbv zeta. cbn [proc_st].
  set (iv0 := make_absolute (e_begin a) (e_end a) pb pe) in *.
  assert (Eiv : match civ with Some x => x | None => iv0 end = iv0) by (destruct civ as [x|]; [apply Hiv; reflexivity | reflexivity]).
  rewrite Eiv. clear Eiv.
  assert (Hnode : forall cact' kids', (forall b, cact' = Some b -> act_ok (Some t) iv0 b) ->
                  kids_sound (Some t) (Some (fst iv0)) (snd iv0) cs kids' -> cn_sound (Some t) pb pe (Elem a cs) (CN (Some iv0) cact' kids')).
  { intros cact' kids' Ha Hk. apply cn_sound_node. cbv zeta. fold iv0. split; [intros x Hx; injection Hx as <-; reflexivity|]. split; assumption. }
  (* the part after the activity test, with the activity entry Some true *)
  assert (Hcont : active_at t iv0 = true ->
    let assoc := match e_region a with Some r => Some r | None => inh end in
    let res := if region_test sel assoc (match cs with [] => false | _ => true end) then (Ok None, CN (Some iv0) (Some true) kids)
               else match style_phase d t a par iv0 with
                    | Err code => (Err code, CN (Some iv0) (Some true) kids)
                    | Ok st => if display_none st then (Ok None, CN (Some iv0) (Some true) kids)
                               else let '(rch, kids') := kids_st (proc_st d t sel assoc (Some (e_kind a, st)) (Some (fst iv0)) (snd iv0)) cs kids in
                                    (bind rch (fun children => finish_element a st children), CN (Some iv0) (Some true) kids')
                    end in
    fst res = (if region_test sel assoc (match cs with [] => false | _ => true end) then Ok None
               else bind (style_phase d t a par iv0) (fun st =>
                    if display_none st then Ok None
                    else bind (go_pure (proc d t sel assoc (Some (e_kind a, st)) (Some (fst iv0)) (snd iv0)) cs) (fun children => finish_element a st children))) /\
    cn_sound (Some t) pb pe (Elem a cs) (snd res)).
  { intros Hactive assoc. cbv zeta.
    assert (Ht : forall b, Some true = Some b -> act_ok (Some t) iv0 b) by (intros b Hb; injection Hb as <-; cbn [act_ok]; symmetry; exact Hactive).
    destruct (region_test sel assoc (match cs with [] => false | _ => true end)); [split; [reflexivity | apply Hnode; assumption]|].
    destruct (style_phase d t a par iv0) as [st|code]; [|split; [reflexivity | apply Hnode; assumption]]. cbn [bind].
    destruct (display_none st); [split; [reflexivity | apply Hnode; assumption]|].
    assert (HF : Forall (fun e => forall cn, cn_sound (Some t) (Some (fst iv0)) (snd iv0) e cn ->
                   fst (proc_st d t sel assoc (Some (e_kind a, st)) (Some (fst iv0)) (snd iv0) e cn) = proc d t sel assoc (Some (e_kind a, st)) (Some (fst iv0)) (snd iv0) e /\
                   cn_sound (Some t) (Some (fst iv0)) (snd iv0) e (snd (proc_st d t sel assoc (Some (e_kind a, st)) (Some (fst iv0)) (snd iv0) e cn))) cs).
    { apply Forall_forall. intros c Hc cn Hcn. rewrite Forall_forall in IH. apply (IH c Hc); exact Hcn. }
    destruct (kids_st_sound (Some t) (Some (fst iv0)) (snd iv0) _ _ cs HF kids Hkids) as [E S].
    destruct (kids_st (proc_st d t sel assoc (Some (e_kind a, st)) (Some (fst iv0)) (snd iv0)) cs kids) as [rch kids'].
    cbn [fst snd] in E, S |- *. rewrite <- E. split; [reflexivity | apply Hnode; assumption]. }
  cbv zeta in Hcont.
  destruct cact as [[|]|].
  - (* hit, active *)
    pose proof (Hact true eq_refl) as Ha. cbn [act_ok] in Ha. symmetry in Ha. rewrite Ha. cbn [negb]. apply Hcont, Ha.
  - (* hit, inactive *)
    pose proof (Hact false eq_refl) as Ha. cbn [act_ok] in Ha. cbn [fst snd]. rewrite <- Ha. cbn [negb].
    split; [reflexivity|]. apply cn_sound_node. cbv zeta. repeat split; assumption.
  - (* miss: compute and store *)
    destruct (active_at t iv0) eqn:Ea; cbn [negb].
    + apply Hcont. reflexivity.
    + cbn [fst snd]. split; [reflexivity|]. apply Hnode; [|exact Hkids].
      intros b Hb. injection Hb as <-. cbn [act_ok]. symmetry. exact Ea.
Qed.

(* ---- a region and the document ------------------------------------------------------------------------------ *)
Definition lab_sound (ot : option Q) (r : elem) (lb : lab) : Prop :=
  let iv := make_absolute (e_begin (eattrs r)) (e_end (eattrs r)) None None in
  (forall x, fst lb = Some x -> x = iv) /\ (forall b, snd lb = Some b -> act_ok ot iv b).
Definition body_sound (ot : option Q) (c : doc) (bc : cnode) : Prop :=
  match d_body c with Some b => cn_sound ot None None b bc | None => True end.
Fixpoint labs_sound (ot : option Q) (rs : list elem) (labs : list lab) : Prop :=
  match rs, labs with r :: rs', l :: labs' => lab_sound ot r l /\ labs_sound ot rs' labs' | _, _ => True end.
Definition dsound (ot : option Q) (c : doc) (dc : dcache) : Prop :=
  labs_sound ot (d_regions c) (dc_regions dc) /\ body_sound ot c (dc_body dc).

Lemma lab_sound_empty ot r : lab_sound ot r lab_empty.
Proof. split; intros ? H; discriminate H. Qed.
Lemma labs_sound_tl ot r rs labs : labs_sound ot (r :: rs) labs -> lab_sound ot r (lab_hd labs) /\ labs_sound ot rs (tl labs).
Proof.
  destruct labs as [|l labs]; cbn [labs_sound lab_hd tl]; [|tauto].
  intros _. split; [apply lab_sound_empty | destruct rs; exact I].
Qed.

Lemma proc_region_st_sound d t sel r lb bc :
  lab_sound (Some t) r lb -> body_sound (Some t) d bc ->
  fst (proc_region_st d t sel r lb bc) = proc_region d t sel r /\
  lab_sound (Some t) r (fst (snd (proc_region_st d t sel r lb bc))) /\
  body_sound (Some t) d (snd (snd (proc_region_st d t sel r lb bc))).
Proof.
  intros [Hiv Hact] Hb. unfold proc_region_st, proc_region.
  set (a := eattrs r) in *. set (iv0 := make_absolute (e_begin a) (e_end a) None None) in *.
  destruct lb as [liv lact]. cbn [fst snd] in *.
  assert (Eiv : match liv with Some x => x | None => iv0 end = iv0) by (destruct liv as [x|]; [apply Hiv; reflexivity | reflexivity]).
  rewrite Eiv. clear Eiv.
  assert (Hlab : forall lact', (forall b, lact' = Some b -> act_ok (Some t) iv0 b) -> lab_sound (Some t) r (Some iv0, lact')).
  { intros lact' H. split; cbn [fst snd]; [intros x Hx; injection Hx as <-; reflexivity | exact H]. }
  assert (Hcont : active_at t iv0 = true ->
    let res := match style_phase d t a None iv0 with
               | Err code => (Err code, ((Some iv0, Some true), bc))
               | Ok st => if display_none st then (Ok None, ((Some iv0, Some true), bc))
                          else match d_body d with
                               | None => (finish_element a st [], ((Some iv0, Some true), bc))
                               | Some b => let '(rb, bc') := proc_st d t sel None (Some (KRegion, st)) None None b bc in
                                           (bind rb (fun o => finish_element a st (match o with Some x => [x] | None => [] end)), ((Some iv0, Some true), bc'))
                               end
               end in
    fst res = bind (style_phase d t a None iv0) (fun st =>
                if display_none st then Ok None
                else bind (match d_body d with
                           | None => Ok []
                           | Some b => bind (proc d t sel None (Some (KRegion, st)) None None b) (fun r0 => Ok (match r0 with Some x => [x] | None => [] end))
                           end) (fun children => finish_element a st children)) /\
    lab_sound (Some t) r (fst (snd res)) /\ body_sound (Some t) d (snd (snd res))).
  { intros Hactive. cbv zeta.
    assert (Ht : forall b, Some true = Some b -> act_ok (Some t) iv0 b) by (intros b Hb'; injection Hb' as <-; cbn [act_ok]; symmetry; exact Hactive).
    destruct (style_phase d t a None iv0) as [st|code]; [|cbn [fst snd bind]; split; [reflexivity | split; [apply Hlab, Ht | exact Hb]]]. cbn [bind].
    destruct (display_none st); [cbn [fst snd]; split; [reflexivity | split; [apply Hlab, Ht | exact Hb]]|].
    unfold body_sound in *. destruct (d_body d) as [b|]; [|cbn [fst snd bind]; split; [reflexivity | split; [apply Hlab, Ht | exact I]]].
    destruct (proc_st_sound d t sel b None (Some (KRegion, st)) None None bc Hb) as [E S].
    destruct (proc_st d t sel None (Some (KRegion, st)) None None b bc) as [rb bc']. cbn [fst snd] in E, S |- *.
    rewrite <- E. split; [destruct rb; reflexivity|]. split; [apply Hlab, Ht | exact S]. }
  cbv zeta in Hcont.
  destruct lact as [[|]|].
  - pose proof (Hact true eq_refl) as Ha. cbn [act_ok] in Ha. symmetry in Ha. rewrite Ha. cbn [negb]. apply Hcont, Ha.
  - pose proof (Hact false eq_refl) as Ha. cbn [act_ok] in Ha. cbn [fst snd]. rewrite <- Ha. cbn [negb].
    split; [reflexivity|]. split; [split; assumption | exact Hb].
  - destruct (active_at t iv0) eqn:Ea; cbn [negb].
    + apply Hcont. reflexivity.
    + cbn [fst snd]. split; [reflexivity|]. split; [|exact Hb]. apply Hlab. intros b Hb'. injection Hb' as <-. cbn [act_ok]. symmetry. exact Ea.
Qed.

Lemma regions_st_sound c t : forall rs labs bc,
  labs_sound (Some t) rs labs -> body_sound (Some t) c bc ->
  fst (regions_st c t rs labs bc) = collect_regions (map (fun r => proc_region c t (e_id (eattrs r)) r) rs) /\
  labs_sound (Some t) rs (fst (snd (regions_st c t rs labs bc))) /\ body_sound (Some t) c (snd (snd (regions_st c t rs labs bc))).
Proof.
  induction rs as [|r rs IH]; intros labs bc Hl Hb; [cbn [regions_st map collect_regions fst snd]; split; [reflexivity | split; [destruct labs; exact I | exact Hb]]|].
  apply labs_sound_tl in Hl as [Hl1 Hl2]. cbn [regions_st map collect_regions].
  destruct (proc_region_st_sound c t (e_id (eattrs r)) r (lab_hd labs) bc Hl1 Hb) as (E & S1 & S2).
  destruct (proc_region_st c t (e_id (eattrs r)) r (lab_hd labs) bc) as [o [lb' bc']]. cbn [fst snd] in E, S1, S2. rewrite <- E.
  destruct o as [x|code]; cbn [bind].
  - destruct (IH (tl labs) bc' Hl2 S2) as (E2 & S3 & S4).
    destruct (regions_st c t rs (tl labs) bc') as [rest [labs' bc'']]. cbn [fst snd] in E2, S3, S4 |- *. rewrite <- E2.
    split; [destruct rest; reflexivity|]. split; [split; assumption | exact S4].
  - cbn [fst snd]. split; [reflexivity|]. split; [split; assumption | exact S2].
Qed.

Theorem isd_st_sound c t dc : dsound (Some t) c dc -> fst (isd_st c t dc) = isd c t /\ dsound (Some t) c (snd (isd_st c t dc)).
Proof.
  intros [Hl Hb]. unfold isd_st, isd, dsound. destruct (d_regions c) as [|r0 rest] eqn:Er.
  - destruct (proc_region_st_sound c t None default_region lab_empty (dc_body dc) (lab_sound_empty _ _) Hb) as (E & _ & S2).
    destruct (proc_region_st c t None default_region lab_empty (dc_body dc)) as [o [lb' bc']]. cbn [fst snd] in E, S2 |- *.
    rewrite <- E. cbn [collect_regions]. split; [destruct o as [[x|]|]; reflexivity|]. split; [destruct (dc_regions dc); exact I | exact S2].
  - destruct (regions_st_sound c t (r0 :: rest) (dc_regions dc) (dc_body dc) Hl Hb) as (E & S1 & S2).
    destruct (regions_st c t (r0 :: rest) (dc_regions dc) (dc_body dc)) as [o [labs bc]]. cbn [fst snd] in E, S1, S2 |- *.
    split; [exact E | split; assumption].
Qed.

(* a call without sig_times starts from empty dictionaries: it is the cache-free transcription *)
Theorem from_model_plain_eq d t : from_model_plain d t = isd d t.
Proof.
  unfold from_model_plain. apply isd_st_sound. split; cbn [dc_empty dc_regions dc_body].
  - destruct (d_regions d); exact I.
  - unfold body_sound. destruct (d_body d); [apply cn_sound_empty | exact I].
Qed.

(* ---- between calls: interval entries stay, activity entries are dropped -------------------------------------- *)
Lemma cn_sound_weaken t : forall e pb pe cn, cn_sound (Some t) pb pe e cn -> cn_sound None pb pe e cn.
Proof.
  induction e as [a cs IH] using elem_ind2. intros pb pe [civ cact kids] H. apply cn_sound_node in H. apply cn_sound_node.
  cbv zeta in *. destruct H as (H1 & H2 & H3). split; [exact H1|]. split; [intros; exact I|].
  revert kids H3. generalize (Some (fst (make_absolute (e_begin a) (e_end a) pb pe))), (snd (make_absolute (e_begin a) (e_end a) pb pe)).
  intros pb' pe'. induction cs as [|c cs IHcs]; intros kids H3; [exact I|]. destruct kids as [|k ks]; [exact I|].
  inversion IH as [|? ? Hc Hcs]; subst. cbn [kids_sound] in *. destruct H3 as [H3 H4]. split; [apply Hc, H3 | apply (IHcs Hcs), H4].
Qed.
Lemma reset_node civ cact kids : reset_act (CN civ cact kids) = CN civ None (map reset_act kids).
Proof. reflexivity. Qed.
Lemma cn_sound_reset ot : forall e pb pe cn, cn_sound None pb pe e cn -> cn_sound ot pb pe e (reset_act cn).
Proof.
  induction e as [a cs IH] using elem_ind2. intros pb pe [civ cact kids] H. rewrite reset_node. apply cn_sound_node in H. apply cn_sound_node.
  cbv zeta in *. destruct H as (H1 & _ & H3). split; [exact H1|]. split; [intros b Hb; discriminate Hb|].
  revert kids H3. generalize (Some (fst (make_absolute (e_begin a) (e_end a) pb pe))), (snd (make_absolute (e_begin a) (e_end a) pb pe)).
  intros pb' pe'. induction cs as [|c cs IHcs]; intros kids H3; [exact I|]. destruct kids as [|k ks]; [exact I|].
  inversion IH as [|? ? Hc Hcs]; subst. cbn [kids_sound map] in *. destruct H3 as [H3 H4]. split; [apply Hc, H3 | apply (IHcs Hcs), H4].
Qed.

Lemma dsound_weaken t c dc : dsound (Some t) c dc -> dsound None c dc.
Proof.
  intros [Hl Hb]. split.
  - revert Hl. generalize (dc_regions dc). induction (d_regions c) as [|r rs IH]; intros labs Hl; [exact I|].
    destruct labs as [|l labs]; [exact I|]. cbn [labs_sound] in *. destruct Hl as [[H1 _] H2]. split; [split; [exact H1 | intros; exact I] | apply IH, H2].
  - unfold body_sound in *. destruct (d_body c); [apply (cn_sound_weaken t), Hb | exact I].
Qed.
Lemma dsound_reset ot c dc : dsound None c dc -> dsound ot c (dc_reset dc).
Proof.
  intros [Hl Hb]. split; cbn [dc_reset dc_regions dc_body].
  - revert Hl. generalize (dc_regions dc). induction (d_regions c) as [|r rs IH]; intros labs Hl; [exact I|].
    destruct labs as [|l labs]; [exact I|]. cbn [labs_sound map] in *. destruct Hl as [[H1 _] H2].
    split; [split; cbn [fst snd]; [exact H1 | intros b Hb'; discriminate Hb'] | apply IH, H2].
  - unfold body_sound in *. destruct (d_body c); [apply cn_sound_reset, Hb | exact I].
Qed.

(* ---- a SignificantTimes object ----------------------------------------------------------------------------------- *)
Definition state_sound (s : sig_state) : Prop := Forall (fun cd => dsound None (fst cd) (snd cd)) s.

Theorem from_model_st_sound t : forall s, state_sound s ->
  fst (from_model_st t s) = isd_cached_docs t (map fst s) /\ state_sound (snd (from_model_st t s)) /\
  map fst (snd (from_model_st t s)) = map fst s.
Proof.
  induction s as [|[c dc] s IH]; intros Hs; [cbn; repeat split; constructor|].
  inversion Hs as [|? ? Hc Hs']; subst. cbn [fst snd] in Hc. cbn [from_model_st map fst isd_cached_docs].
  destruct (IH Hs') as (E & S & M).
  destruct (skip_cached t (content_interval c)).
  - destruct (from_model_st t s) as [r s'']. cbn [fst snd] in *. split; [exact E|]. split; [constructor; assumption | cbn [map fst]; rewrite M; reflexivity].
  - destruct (isd_st_sound c t (dc_reset dc) (dsound_reset (Some t) c dc Hc)) as [E1 S1].
    destruct (isd_st c t (dc_reset dc)) as [r dc']. cbn [fst snd] in E1, S1. rewrite <- E1.
    destruct r as [rs|code]; cbn [bind].
    + destruct (from_model_st t s) as [r' s'']. cbn [fst snd] in *. rewrite <- E.
      split; [destruct r'; reflexivity|]. split; [constructor; [apply (dsound_weaken t), S1 | exact S] | cbn [map fst]; rewrite M; reflexivity].
    + cbn [fst snd]. split; [reflexivity|]. split; [constructor; [apply (dsound_weaken t), S1 | exact Hs'] | reflexivity].
Qed.

(* (iv) any list of query times, in any order, on one object: each answer is the cache-free answer for that time *)
Theorem history_sound : forall ts s, state_sound s ->
  fst (run_history ts s) = map (fun t => isd_cached_docs t (map fst s)) ts.
Proof.
  induction ts as [|t ts IH]; intros s Hs; [reflexivity|]. cbn [run_history map].
  destruct (from_model_st_sound t s Hs) as (E & S & M). destruct (from_model_st t s) as [r s']. cbn [fst snd] in E, S, M.
  specialize (IH s' S). destruct (run_history ts s') as [rs s'']. cbn [fst] in *. rewrite E, IH, M. reflexivity.
Qed.

(* what compute_sig_times stores is sound *)
Lemma built_cn_sound : forall e pb pe, cn_sound None pb pe e (built_cn pb pe e).
Proof.
  induction e as [a cs IH] using elem_ind2. intros pb pe.
  assert (E : built_cn pb pe (Elem a cs) =
              let iv := make_absolute (e_begin a) (e_end a) pb pe in CN (Some iv) None (map (built_cn (Some (fst iv)) (snd iv)) cs)) by reflexivity.
  rewrite E. clear E. cbv zeta. apply cn_sound_node. cbv zeta. split; [intros x Hx; injection Hx as <-; reflexivity|]. split; [intros b Hb; discriminate Hb|].
  generalize (Some (fst (make_absolute (e_begin a) (e_end a) pb pe))), (snd (make_absolute (e_begin a) (e_end a) pb pe)). intros pb' pe'.
  induction cs as [|c cs IHcs]; [exact I|]. inversion IH as [|? ? Hc Hcs]; subst. cbn [map kids_sound]. split; [apply Hc | apply (IHcs Hcs)].
Qed.
Theorem built_state_sound ds : state_sound (built_state ds).
Proof.
  unfold state_sound, built_state. apply Forall_forall. intros cd Hcd. apply in_map_iff in Hcd as (c & <- & _). cbn [fst snd].
  split; cbn [built_dc dc_regions dc_body].
  - induction (d_regions c) as [|r rs IH]; [exact I|]. cbn [map labs_sound]. split; [|exact IH].
    split; cbn [fst snd]; [intros x Hx; injection Hx as <-; reflexivity | intros b Hb; discriminate Hb].
  - unfold body_sound. destruct (d_body c); [apply built_cn_sound | exact I].
Qed.

(* ... so: build the object once, ask any list of times — the answers are those of ISD.from_model(doc, t, fresh object) *)
Theorem history_built d ds : cached_docs d = Ok ds -> forall ts,
  fst (run_history ts (built_state ds)) = map (fun t => isd_cached d t) ts.
Proof.
  intros Hc ts. rewrite (history_sound ts _ (built_state_sound ds)).
  assert (E : map fst (built_state ds) = ds) by (unfold built_state; rewrite map_map; cbn [fst]; apply map_id).
  rewrite E. apply map_ext. intros t. unfold isd_cached. rewrite Hc. reflexivity.
Qed.
