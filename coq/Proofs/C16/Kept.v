(* C16 timeline, without any hypothesis about display styling or nested region conflicts: nothing that is visible before the filter
   is lost — at every time every (paragraph, leaf) occurs after the filter at least as often as before.  (The filter removes display,
   visibility and opacity, and merging regions can only resolve conflicts, so text can be gained but never lost.) *)
From Coq Require Import Permutation.
From TT Require Import Model.Doc Gen.StyleTables Model.Isd Model.Lcd Spec.IsdSpec Spec.LcdSpec Model.LcdCases
  Proofs.Common.ElemInd Proofs.C16.Basics Proofs.C16.Prov Proofs.C16.Static Proofs.C16.Refs Proofs.C16.Idem Proofs.C16.Tree
  Proofs.C16.Chains Proofs.C16.Counting Proofs.C16.Alias Proofs.C16.Timeline1 Proofs.C16.Timeline2 Proofs.C16.Timeline3.

(* ---- counting occurrences -------------------------------------------------------------------------------------------------------- *)
Definition cnt (x : tleaf) (l : list tleaf) : nat := length (filter (tleaf_eqb x) l).
Lemma cnt_app x l m : cnt x (l ++ m) = (cnt x l + cnt x m)%nat.
Proof. unfold cnt. rewrite filter_app, app_length. reflexivity. Qed.
Lemma cnt_perm x l m : Permutation l m -> cnt x l = cnt x m.
Proof.
  unfold cnt. intros H. induction H; cbn [filter].
  - reflexivity.
  - destruct (tleaf_eqb x x0); cbn [length]; congruence.
  - destruct (tleaf_eqb x y), (tleaf_eqb x x0); reflexivity.
  - congruence.
Qed.
Lemma cnt_flat_map_le {A B} x (f : A -> list tleaf) (g : B -> list tleaf) l m :
  Forall2 (fun a b => (cnt x (f a) <= cnt x (g b))%nat) l m -> (cnt x (flat_map f l) <= cnt x (flat_map g m))%nat.
Proof. intros H. induction H; [apply le_n|]. cbn [flat_map]. rewrite !cnt_app. apply Nat.add_le_mono; assumption. Qed.
Lemma cnt_concat_repeat x L n : cnt x (concat (repeat L n)) = (n * cnt x L)%nat.
Proof. induction n as [|n IH]; [reflexivity|]. cbn [repeat concat]. rewrite cnt_app, IH. reflexivity. Qed.
Lemma cnt_const_if {A} x (p : A -> bool) L l : cnt x (flat_map (fun a => if p a then L else []) l) = (length (filter p l) * cnt x L)%nat.
Proof. rewrite flat_map_const_if. apply cnt_concat_repeat. Qed.
Lemma filter_length_le {A} (p q : A -> bool) l : (forall a, In a l -> p a = true -> q a = true) -> (length (filter p l) <= length (filter q l))%nat.
Proof.
  induction l as [|a l IH]; intros H; [apply le_n|]. cbn [filter].
  assert (length (filter p l) <= length (filter q l))%nat as Hl by (apply IH; intros b Hb; apply H; right; exact Hb).
  destruct (p a) eqn:Ep.
  - rewrite (H a (or_introl eq_refl) Ep). cbn [length]. apply le_n_S, Hl.
  - destruct (q a); cbn [length]; [apply le_S, Hl | exact Hl].
Qed.

(* ---- tagged_leaves in general: a region-by-chain table with the display conditions in the cells ---------------------------------------- *)
Lemma tagged_leaves_gen d t ra sel b : d_body d = Some b ->
  tagged_leaves d t ra sel =
  flat_map (fun ch => if (act t ra && displayed d t (resolve root_interval (e_begin ra) (e_end ra)) ra) &&
                         (chain_active t root_interval ch && chain_sel sel None ch && chain_disp d t root_interval ch)
                      then chain_leaves ch else []) (chains b).
Proof.
  intros Hb. unfold tagged_leaves. rewrite Hb. fold (act t ra).
  destruct (act t ra && displayed d t _ ra).
  - rewrite flat_map_filter_if. apply flat_map_ext_in'. intros ch Hch.
    rewrite chain_visible_split. cbn [andb]. unfold chain_leaves.
    rewrite (last_indep ch ra dummy (chains_nonempty _ _ Hch)). reflexivity.
  - cbn [andb]. rewrite flat_map_nil'. reflexivity.
Qed.

(* ---- how many regions show a chain: never fewer after the filter (no hypothesis about nested conflicts) ----------------------------------- *)
Section CountLe.
  Variables (c : lcd_cfg) (d : doc) (out : list (elem * option text)).
  Hypothesis L : loop_rel c d (keep_styles c (d_initials d)) [] (d_regions d) out.
  Hypothesis Hnd : NoDup (rids (d_regions d)).
  Hypothesis Hids : regions_have_ids d.
  Let al := replaced_of out.
  Let regs := d_regions d.
  Let kept := kept_src regs out.

  Lemma count_chain_le t ch ch' :
    Forall2 (tl_rel (alias_of al)) ch ch' -> ch <> [] ->
    (forall r, In r (refs ch) -> In r (rids regs)) ->
    (length (filter (fun R => act t (eattrs R) && chain_active t root_interval ch && chain_sel (e_id (eattrs R)) None ch) regs) <=
     length (filter (fun k => act t (eattrs k) && chain_active t root_interval ch' && chain_sel (e_id (eattrs k)) None ch') kept))%nat.
  Proof.
    intros F Hne Hin. rewrite (tl_chain_active _ t _ _ F).
    assert (ch' <> []) as Hne' by (destruct F; [congruence | discriminate]).
    destruct (chain_active t root_interval ch).
    2:{ rewrite !filter_none; [apply le_n | |]; intros x _; rewrite andb_false_r; reflexivity. }
    pose proof (tl_refs _ _ _ F) as Er'.
    rewrite (filter_ext_in _ (fun R => act t (eattrs R) && (negb (is_nil (refs ch)) && all_eq (rid (eattrs R)) (refs ch)))).
    2:{ intros R HR. rewrite andb_true_r, (id_some d Hids _ HR). rewrite (proj2 (chain_sel_some _ ch) Hne). reflexivity. }
    rewrite (filter_ext_in (fun k => act t (eattrs k) && true && chain_sel (e_id (eattrs k)) None ch')
                           (fun k => act t (eattrs k) && (negb (is_nil (refs ch')) && all_eq (rid (eattrs k)) (refs ch')))).
    2:{ intros k Hk. rewrite andb_true_r, (id_some d Hids _ (kept_src_in _ _ _ Hk)). rewrite (proj2 (chain_sel_some _ ch') Hne'). reflexivity. }
    rewrite Er'.
    destruct (refs ch) as [|rho rest] eqn:Erefs.
    { rewrite !filter_none; [apply le_n | |]; intros x _; cbn [map is_nil negb andb]; apply andb_false_r. }
    cbn [map is_nil negb andb].
    assert (In rho (rids regs)) as Hrho by (apply Hin; left; reflexivity).
    unfold rids in Hrho. apply in_map_iff in Hrho as [Rr [Erho HRr]].
    destruct (all_eq rho rest) eqn:Ea.
    - (* all references name rho: shown by region rho before, by its alias after *)
      rewrite (filter_ext_in _ (fun R => act t (eattrs R) && text_eqb (rid (eattrs R)) (rid (eattrs Rr)))).
      2:{ intros R _. rewrite (all_eq_head _ _ _ Ea), Erho. reflexivity. }
      rewrite (count_unique (fun R => rid (eattrs R)) (fun R => act t (eattrs R)) regs Rr Hnd HRr).
      pose proof (all_eq_map (alias_of al) _ _ Ea) as Ea'.
      destruct (combine_has _ out Rr (proj1 (loop_combine _ _ _ _ _ _ L)) HRr) as [[r2 tag] Hp].
      pose proof (lookup_alias _ _ _ _ _ _ L Hnd _ _ _ Hp) as El. fold al in El. rewrite Erho in El.
      pose proof (kept_src_nodup _ out Hnd) as Hnk. fold regs kept in Hnk.
      destruct tag as [u|].
      + destruct (loop_alias_timing _ _ _ _ _ _ L [] (fun f t0 (H : In (f, t0) []) => match H with end) _ _ _ Hp) as [k [Hk [Hid Ht]]].
        cbn [app] in Hk. fold regs kept in Hk.
        rewrite (filter_ext_in _ (fun x => act t (eattrs x) && text_eqb (rid (eattrs x)) (rid (eattrs k)))).
        2:{ intros x _. rewrite (all_eq_head _ _ _ Ea'). unfold alias_of. rewrite El, Hid. reflexivity. }
        rewrite (count_unique (fun R => rid (eattrs R)) (fun R => act t (eattrs R)) kept k Hnk Hk).
        rewrite (act_time_eq t _ _ Ht). apply le_n.
      + pose proof (combine_kept _ _ _ _ Hp) as Hk. fold regs kept in Hk.
        rewrite (filter_ext_in _ (fun x => act t (eattrs x) && text_eqb (rid (eattrs x)) (rid (eattrs Rr)))).
        2:{ intros x _. rewrite (all_eq_head _ _ _ Ea'). unfold alias_of. rewrite El, Erho. reflexivity. }
        rewrite (count_unique (fun R => rid (eattrs R)) (fun R => act t (eattrs R)) kept Rr Hnk Hk). apply le_n.
    - (* two different references: shown nowhere before *)
      rewrite (filter_none (fun R => act t (eattrs R) && all_eq (rid (eattrs R)) (rho :: rest))); [apply Nat.le_0_l|].
      intros x _. rewrite (all_eq_head_false _ _ _ Ea). apply andb_false_r.
  Qed.
End CountLe.

(* ---- the theorem -------------------------------------------------------------------------------------------------------------------- *)
Theorem timeline_kept_thm c d d' t :
  lcd c d = Ok d' -> regions_have_ids d -> NoDup (rids (d_regions d)) -> refs_in_doc d ->
  forall x, (cnt x (visible d t) <= cnt x (visible d' t))%nat.
Proof.
  intros H Hids Hnd Hrefs x.
  destruct (lcd_body_tree _ _ _ H) as [out [Ho [Er [Ei Hbody]]]].
  pose proof (lcd_regions_rel _ _ _ _ _ _ Ho) as L.
  set (al := replaced_of out) in *.
  destruct (d_body d) as [b|] eqn:Eb, (d_body d') as [b'|] eqn:Eb'; cbn [obody_rel] in Hbody; try contradiction.
  2:{ assert (forall dd, d_body dd = None -> visible dd t = []) as Hv.
      { intros dd Hdd. unfold visible, tagged_leaves. rewrite Hdd. destruct (d_regions dd) as [|r rs].
        - destruct (_ && _); reflexivity.
        - induction (r :: rs) as [|y l IH]; [reflexivity|]. cbn [flat_map]. rewrite IH. destruct (_ && _); reflexivity. }
      rewrite (Hv d Eb), (Hv d' Eb'). apply le_n. }
  assert (shape_rel (tl_rel (alias_of al)) b b') as Hshape.
  { eapply elem_rel_to_shape; [|exact Hbody]. intros a a' Ha Hrel. apply (body_rel_tl c d out L Hnd Hrefs).
    - unfold body_attrs. rewrite Eb. exact Ha.
    - exact Hrel. }
  pose proof (chains_rel (tl_rel (alias_of al)) (fun a a' Hr => proj1 Hr) _ _ Hshape) as Hch.
  assert (forall ch, In ch (chains b') -> chain_disp d' t root_interval ch = true) as Hd2.
  { intros ch Hch'. apply chain_disp_true. intros a iv Ha. apply (result_body_displayed c d d'); [exact H|].
    unfold body_attrs. rewrite Eb'. exact (chains_elems _ _ _ Hch' Ha). }
  assert (forall ch r, In ch (chains b) -> In r (refs ch) -> In r (rids (d_regions d))) as Hrin.
  { intros ch r Hch' Hr. apply refs_in_elems in Hr as [a [Ha Hra]].
    destruct (Hrefs a r) as [reg [Hreg Hid]]; [unfold body_attrs; rewrite Eb; exact (chains_elems _ _ _ Hch' Ha) | exact Hra|].
    apply in_map_iff. exists reg. split; [unfold rid; rewrite Hid; reflexivity | exact Hreg]. }
  pose proof (Forall2_in_l _ _ _ Hch) as Hch2.
  destruct (d_regions d) as [|r0 rs0] eqn:Eregs.
  - (* no region: the default region on both sides *)
    inversion L; subst. unfold retained_of in Er. cbn [flat_map] in Er.
    unfold visible. rewrite Eregs, Er.
    rewrite (tagged_leaves_gen d t _ None b Eb), (tagged_leaves_form d' t _ None b' Eb'); [| |exact Hd2].
    + apply cnt_flat_map_le. eapply Forall2_impl; [|exact Hch2]. intros ch ch' [Hin F]. cbv beta.
      rewrite (tl_chain_active _ t _ _ F), !chain_sel_none, (tl_refs _ _ _ F).
      unfold chain_leaves. rewrite (tl_para _ _ _ F), (tl_leaf _ _ _ F (chains_nonempty _ _ Hin) dummy dummy).
      destruct (act t default_region_attrs), (displayed d t _ default_region_attrs), (chain_active t root_interval ch), (chain_disp d t root_interval ch);
        cbn [andb]; destruct (refs ch); cbn [map is_nil]; first [apply le_n | apply Nat.le_0_l].
    + apply displayed_true; [intros s [] | reflexivity|]. rewrite Ei. apply sget_None_keys. intros kv Hkv. exact (kept_no_display _ _ _ Hkv).
  - assert (exists r2 rs2, retained_of out = r2 :: rs2) as [r2 [rs2 Eret]].
    { inversion L; subst; [|discriminate]. unfold retained_of. cbn [flat_map snd fst app]. eexists. eexists. reflexivity. }
    unfold visible. rewrite Eregs, Er, Eret. rewrite <- Eregs, <- Eret.
    assert (Hnd' : NoDup (rids (d_regions d))) by (rewrite Eregs; exact Hnd).
    assert (L' : loop_rel c d (keep_styles c (d_initials d)) [] (d_regions d) out) by (rewrite Eregs; exact L).
    assert (Hrin' : forall ch r, In ch (chains b) -> In r (refs ch) -> In r (rids (d_regions d))) by (rewrite Eregs; exact Hrin).
    assert (Hids' : regions_have_ids d) by exact Hids.
    clear Hnd L Hrin.
    rewrite (flat_map_ext_in' _ (fun r => flat_map (fun ch => if (act t (eattrs r) && displayed d t (resolve root_interval (e_begin (eattrs r)) (e_end (eattrs r))) (eattrs r)) &&
                                                                 (chain_active t root_interval ch && chain_sel (e_id (eattrs r)) None ch && chain_disp d t root_interval ch)
                                                          then chain_leaves ch else []) (chains b)) (d_regions d)).
    2:{ intros r _. apply tagged_leaves_gen. exact Eb. }
    rewrite (flat_map_ext_in' _ (fun r => flat_map (fun ch => if act t (eattrs r) && chain_active t root_interval ch && chain_sel (e_id (eattrs r)) None ch
                                                          then chain_leaves ch else []) (chains b')) (retained_of out)).
    2:{ intros r Hr. apply tagged_leaves_form; [exact Eb' | | exact Hd2]. apply (result_region_displayed c d d'); [exact H | rewrite Er; exact Hr]. }
    rewrite (cnt_perm x _ _ (flat_map_swap (fun r ch => if (act t (eattrs r) && displayed d t (resolve root_interval (e_begin (eattrs r)) (e_end (eattrs r))) (eattrs r)) &&
                                                          (chain_active t root_interval ch && chain_sel (e_id (eattrs r)) None ch && chain_disp d t root_interval ch)
                                                       then chain_leaves ch else []) (d_regions d) (chains b))).
    rewrite (cnt_perm x _ _ (flat_map_swap (fun r ch => if act t (eattrs r) && chain_active t root_interval ch && chain_sel (e_id (eattrs r)) None ch then chain_leaves ch else [])
                                           (retained_of out) (chains b'))).
    apply cnt_flat_map_le. eapply Forall2_impl; [|exact Hch2]. intros ch ch' [Hin F]. cbv beta.
    assert (chain_leaves ch' = chain_leaves ch) as El
      by (unfold chain_leaves; rewrite (tl_para _ _ _ F), (tl_leaf _ _ _ F (chains_nonempty _ _ Hin) dummy dummy); reflexivity).
    rewrite El, !cnt_const_if. apply Nat.mul_le_mono_r.
    eapply Nat.le_trans.
    + apply (filter_length_le _ (fun R => act t (eattrs R) && chain_active t root_interval ch && chain_sel (e_id (eattrs R)) None ch)).
      intros R _ HB. apply andb_true_iff in HB as [H1 H2]. apply andb_true_iff in H1 as [Ha _]. apply andb_true_iff in H2 as [H2 _].
      apply andb_true_iff in H2 as [Hca Hcs]. rewrite Ha, Hca, Hcs. reflexivity.
    + eapply Nat.le_trans; [apply (count_chain_le c d out L' Hnd' Hids' t ch ch' F (chains_nonempty _ _ Hin) (fun r Hr => Hrin' ch r Hin Hr))|].
      apply Nat.eq_le_incl. symmetry. apply filter_length_F2. eapply Forall2_impl; [|exact (retained_kept _ _ _ _ _ _ L')].
      intros y k [Hi [Hb He]]. cbv beta. unfold act. rewrite Hi, Hb, He. reflexivity.
Qed.

(* the same as the executable clause of Spec/LcdSpec.v that the check evaluates on the implementation's result *)
Theorem timeline_kept_b_thm c d d' t :
  lcd c d = Ok d' -> regions_have_ids d -> NoDup (rids (d_regions d)) -> refs_in_doc d -> timeline_kept_b d d' t = true.
Proof.
  intros H Hids Hnd Hrefs. unfold timeline_kept_b. apply forallb_forall. intros x _. apply Z.leb_le. unfold count_tl.
  apply Nat2Z.inj_le. exact (timeline_kept_thm c d d' t H Hids Hnd Hrefs x).
Qed.
