(* C16: "all references redirected to the retained region" — the body keeps its skeleton and every region reference is
   mapped by ONE function of the region id, which sends every region to a remaining region of equal timing (begin None = 0,
   equal ends) and leaves the remaining regions alone. *)
From TT Require Import Model.Doc Gen.StyleTables Model.Isd Model.Lcd Spec.IsdSpec Spec.LcdSpec Model.LcdCases
  Proofs.Common.ElemInd Proofs.C16.Basics Proofs.C16.Prov Proofs.C16.Static Proofs.C16.Refs Proofs.C16.Idem Proofs.C16.Tree
  Proofs.C16.Chains Proofs.C16.Counting Proofs.C16.Alias Proofs.C16.Timeline1 Proofs.C16.Timeline2 Proofs.C16.Timeline3.

Definition body_mapped (f : text -> text) (d d' : doc) : Prop :=
  match d_body d, d_body d' with
  | Some b, Some b' => shape_rel (tl_rel f) b b'
  | None, None => True
  | _, _ => False
  end.
Definition alias_ok (f : text -> text) (d d' : doc) : Prop :=
  forall x, In x (d_regions d) ->
    (In (rid (eattrs x)) (rids (d_regions d')) -> f (rid (eattrs x)) = rid (eattrs x)) /\
    exists k, In k (d_regions d) /\ rid (eattrs k) = f (rid (eattrs x)) /\ In (f (rid (eattrs x))) (rids (d_regions d')) /\
              time_eqb (time_of (eattrs k)) (time_of (eattrs x)) = true.

Lemma rids_retained c d inits ret rs out : loop_rel c d inits ret rs out -> rids (retained_of out) = rids (kept_src rs out).
Proof.
  intros L. pose proof (retained_kept _ _ _ _ _ _ L) as F. unfold rids. induction F as [|x k l m [Hi _] F IH]; [reflexivity|].
  cbn [map]. unfold rid at 1 3. rewrite Hi. f_equal. exact IH.
Qed.
Lemma time_eqb_refl x : time_eqb x x = true.
Proof.
  unfold time_eqb. apply andb_true_iff. split; [apply Qeq_bool_iff; reflexivity|].
  destruct (snd x); [apply Qeq_bool_iff; reflexivity | reflexivity].
Qed.

Theorem redirected_thm c d d' : lcd c d = Ok d' -> regions_have_ids d -> NoDup (rids (d_regions d)) -> refs_in_doc d ->
  exists f, body_mapped f d d' /\ alias_ok f d d'.
Proof.
  intros H Hids Hnd Hrefs. destruct (lcd_body_tree _ _ _ H) as [out [Ho [Er [_ Hbody]]]].
  pose proof (lcd_regions_rel _ _ _ _ _ _ Ho) as L. exists (alias_of (replaced_of out)). split.
  - unfold body_mapped. destruct (d_body d) as [b|] eqn:Eb, (d_body d') as [b'|]; cbn [obody_rel] in Hbody; try contradiction; [|exact I].
    eapply elem_rel_to_shape; [|exact Hbody]. intros a a' Ha Hrel. apply (body_rel_tl c d out L Hnd Hrefs); [|exact Hrel].
    unfold body_attrs. rewrite Eb. exact Ha.
  - intros x Hx. rewrite Er, (rids_retained _ _ _ _ _ _ L).
    destruct (combine_has _ out x (proj1 (loop_combine _ _ _ _ _ _ L)) Hx) as [[x2 tag] Hp].
    pose proof (lookup_alias _ _ _ _ _ _ L Hnd _ _ _ Hp) as El. split.
    + intros Hin. unfold rids in Hin. apply in_map_iff in Hin as [k [Ek Hk]]. apply kept_src_sub in Hk as [k2 Hk].
      pose proof (lookup_alias _ _ _ _ _ _ L Hnd _ _ _ Hk) as Elk. rewrite Ek in Elk. unfold alias_of. rewrite Elk. reflexivity.
    + unfold alias_of. rewrite El. destruct tag as [u|].
      * destruct (loop_alias_timing _ _ _ _ _ _ L [] (fun f t0 (Hf : In (f, t0) []) => match Hf with end) _ _ _ Hp) as [k [Hk [Hid Ht]]].
        cbn [app] in Hk. exists k. split; [exact (kept_src_in _ _ _ Hk)|]. split; [exact Hid|]. split; [|exact Ht].
        rewrite <- Hid. apply (in_map (fun r => rid (eattrs r))). exact Hk.
      * exists x. split; [exact Hx|]. split; [reflexivity|]. split; [|apply time_eqb_refl].
        apply (in_map (fun r => rid (eattrs r))). exact (combine_kept _ _ _ _ Hp).
Qed.
