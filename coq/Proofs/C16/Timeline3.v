(* C16 timeline, part 6: the visible leaves before and after the filter are the same multiset. *)
From Coq Require Import Permutation.
From TT Require Import Model.Doc Gen.StyleTables Model.Isd Model.Lcd Spec.IsdSpec Spec.LcdSpec Model.LcdCases
  Proofs.Common.ElemInd Proofs.C16.Basics Proofs.C16.Prov Proofs.C16.Static Proofs.C16.Refs Proofs.C16.Idem Proofs.C16.Tree
  Proofs.C16.Chains Proofs.C16.Counting Proofs.C16.Alias Proofs.C16.Timeline1 Proofs.C16.Timeline2.

Lemma flat_map_ext_in' {A B} (f g : A -> list B) l : (forall x, In x l -> f x = g x) -> flat_map f l = flat_map g l.
Proof.
  induction l as [|x l IH]; intros H; [reflexivity|]. cbn [flat_map]. rewrite (H x (or_introl eq_refl)), IH; [reflexivity|].
  intros y Hy. apply H. right. exact Hy.
Qed.
Lemma flat_map_nil' {A B} (l : list A) : flat_map (fun _ : A => @nil B) l = [].
Proof. induction l; [reflexivity | assumption]. Qed.
Lemma Forall2_in_l {A B} (R : A -> B -> Prop) l m : Forall2 R l m -> Forall2 (fun x y => In x l /\ R x y) l m.
Proof.
  intros H. induction H; [constructor|]. constructor; [split; [left; reflexivity | assumption]|].
  eapply Forall2_impl; [|exact IHForall2]. intros a b [Ha Hr]. split; [right; exact Ha | exact Hr].
Qed.
Lemma filter_length_F2 {A B} (p : A -> bool) (q : B -> bool) l m : Forall2 (fun x y => p x = q y) l m ->
  length (filter p l) = length (filter q m).
Proof. intros H. induction H; [reflexivity|]. cbn [filter]. rewrite H. destruct (q y); cbn [length]; congruence. Qed.

(* the leaves one chain contributes, whatever region shows it *)
Definition dummy : attrs := default_region_attrs.
Definition chain_leaves (ch : list attrs) : list tleaf := map (pair (para_of ch)) (leaf_of (last ch dummy)).
Lemma last_indep {A} (l : list A) x y : l <> [] -> last l x = last l y.
Proof. induction l as [|a l IH]; intros H; [congruence|]. destruct l; [reflexivity|]. apply IH. discriminate. Qed.

(* tagged_leaves when nothing is hidden by display *)
Lemma tagged_leaves_form d t ra sel b : d_body d = Some b ->
  displayed d t (resolve root_interval (e_begin ra) (e_end ra)) ra = true ->
  (forall ch, In ch (chains b) -> chain_disp d t root_interval ch = true) ->
  tagged_leaves d t ra sel =
  flat_map (fun ch => if act t ra && chain_active t root_interval ch && chain_sel sel None ch then chain_leaves ch else []) (chains b).
Proof.
  intros Hb Hd Hc. unfold tagged_leaves. rewrite Hb, Hd, andb_true_r. fold (act t ra).
  destruct (act t ra).
  - rewrite flat_map_filter_if. apply flat_map_ext_in'. intros ch Hch.
    rewrite chain_visible_split, (Hc _ Hch), andb_true_r. cbn [andb]. unfold chain_leaves.
    rewrite (last_indep ch ra dummy (chains_nonempty _ _ Hch)). reflexivity.
  - cbn [andb]. rewrite flat_map_nil'. reflexivity.
Qed.

Lemma elem_rel_to_shape (R S : attrs -> attrs -> Prop) : forall e e',
  (forall a a', In a (elems_of e) -> R a a' -> S a a') -> elem_rel R e e' -> shape_rel S e e'.
Proof.
  induction e as [a cs IH] using elem_ind2. intros [a' cs'] H Hr. apply elem_rel_node in Hr as [Ha Hcs]. apply shape_rel_node.
  split; [apply H; [left; reflexivity | exact Ha]|].
  assert (forall x, In x (flat_map elems_of cs) -> forall x', R x x' -> S x x') as H' by (intros x Hx x' Hr; apply H; [right; exact Hx | exact Hr]).
  clear H Ha. revert cs' Hcs H'. induction cs as [|x cs IHcs]; intros cs' Hcs H'.
  - inversion Hcs; subst. constructor.
  - inversion Hcs as [|? y ? l' Hxy Hrest]; subst. inversion IH as [|? ? IHx IHrest]; subst. constructor.
    + apply IHx; [|exact Hxy]. intros z z' Hz Hzr. apply (H' z); [|exact Hzr]. cbn [flat_map]. apply in_or_app. left. exact Hz.
    + apply IHcs; [exact IHrest | exact Hrest|]. intros z Hz z' Hzr. apply (H' z); [|exact Hzr]. cbn [flat_map]. apply in_or_app. right. exact Hz.
Qed.

Lemma refs_in_elems ch r : In r (refs ch) -> exists a, In a ch /\ e_region a = Some r.
Proof.
  unfold refs. intros H. apply in_flat_map in H as [a [Ha Hr]]. exists a. split; [exact Ha|].
  destruct (e_region a); [destruct Hr as [->|[]]; reflexivity | destruct Hr].
Qed.

Theorem timeline_thm c d d' t :
  lcd c d = Ok d' -> regions_have_ids d -> NoDup (rids (d_regions d)) -> refs_in_doc d ->
  no_hiding_b d = true -> trig_nested c d = false ->
  timeline_at d d' t.
Proof.
  intros H Hids Hnd Hrefs Hhide Hnest. unfold timeline_at.
  destruct (lcd_body_tree _ _ _ H) as [out [Ho [Er [Ei Hbody]]]].
  pose proof (lcd_regions_rel _ _ _ _ _ _ Ho) as L.
  set (al := replaced_of out) in *.
  destruct (d_body d) as [b|] eqn:Eb, (d_body d') as [b'|] eqn:Eb'; cbn [obody_rel] in Hbody; try contradiction.
  2:{ (* no body: nothing is visible *)
      assert (forall dd, d_body dd = None -> visible dd t = []) as Hv.
      { intros dd Hdd. unfold visible, tagged_leaves. rewrite Hdd. destruct (d_regions dd) as [|r rs].
        - destruct (_ && _); reflexivity.
        - induction (r :: rs) as [|x l IH]; [reflexivity|]. cbn [flat_map]. rewrite IH. destruct (_ && _); reflexivity. }
      rewrite (Hv d Eb), (Hv d' Eb'). constructor. }
  (* corresponding chains *)
  assert (shape_rel (tl_rel (alias_of al)) b b') as Hshape.
  { eapply elem_rel_to_shape; [|exact Hbody]. intros a a' Ha Hrel. apply (body_rel_tl c d out L Hnd Hrefs).
    - unfold body_attrs. rewrite Eb. exact Ha.
    - exact Hrel. }
  pose proof (chains_rel (tl_rel (alias_of al)) (fun a a' Hr => proj1 Hr) _ _ Hshape) as Hch.
  (* display hides nothing *)
  assert (forall ch, In ch (chains b) -> chain_disp d t root_interval ch = true) as Hd1.
  { intros ch Hch'. apply chain_disp_true. intros a iv Ha. apply no_hiding_displayed; [exact Hhide|].
    unfold doc_attrs, body_attrs. rewrite Eb. apply in_or_app. right. exact (chains_elems _ _ _ Hch' Ha). }
  assert (forall ch, In ch (chains b') -> chain_disp d' t root_interval ch = true) as Hd2.
  { intros ch Hch'. apply chain_disp_true. intros a iv Ha. apply (result_body_displayed c d d'); [exact H|].
    unfold body_attrs. rewrite Eb'. exact (chains_elems _ _ _ Hch' Ha). }
  (* chain-wise facts *)
  assert (nested_conflict al None b = false) as Hnc.
  { unfold trig_nested, lcd_aliases in Hnest. rewrite Ho, Eb in Hnest. exact Hnest. }
  assert (forall ch r, In ch (chains b) -> In r (refs ch) -> In r (rids (d_regions d))) as Hrin.
  { intros ch r Hch' Hr. apply refs_in_elems in Hr as [a [Ha Hra]].
    destruct (Hrefs a r) as [reg [Hreg Hid]]; [unfold body_attrs; rewrite Eb; exact (chains_elems _ _ _ Hch' Ha) | exact Hra|].
    apply in_map_iff. exists reg. split; [unfold rid; rewrite Hid; reflexivity | exact Hreg]. }
  pose proof (Forall2_in_l _ _ _ Hch) as Hch2.
  destruct (d_regions d) as [|r0 rs0] eqn:Eregs.
  - (* no region: the default region on both sides *)
    inversion L; subst. unfold retained_of in Er. cbn [flat_map] in Er.
    unfold visible. rewrite Eregs, Er.
    assert (forall dd, sget (d_initials dd) p_Display = None ->
                       displayed dd t (resolve root_interval (e_begin default_region_attrs) (e_end default_region_attrs)) default_region_attrs = true) as Hdd
      by (intros dd Hi; apply displayed_true; [intros s [] | reflexivity | exact Hi]).
    rewrite (tagged_leaves_form d t _ None b Eb), (tagged_leaves_form d' t _ None b' Eb'); try assumption.
    + erewrite flat_map_F2; [apply Permutation_refl|]. eapply Forall2_impl; [|exact Hch2]. intros ch ch' [Hin F]. cbv beta.
      rewrite (tl_chain_active _ t _ _ F), !chain_sel_none, (tl_refs _ _ _ F).
      unfold chain_leaves. rewrite (tl_para _ _ _ F), (tl_leaf _ _ _ F (chains_nonempty _ _ Hin) dummy dummy).
      destruct (refs ch); reflexivity.
    + apply Hdd. rewrite Ei. apply sget_None_keys. intros kv Hkv. exact (kept_no_display _ _ _ Hkv).
    + apply Hdd. unfold no_hiding_b in Hhide. apply andb_true_iff in Hhide as [_ Hi]. rewrite forallb_forall in Hi.
      apply sget_None_keys. intros kv Hkv. apply not_hiding_display. specialize (Hi kv Hkv). apply negb_true_iff in Hi. exact Hi.
  - (* regions: the first one is always retained, so the result has regions too *)
    assert (exists r2 rs2, retained_of out = r2 :: rs2) as [r2 [rs2 Eret]].
    { inversion L; subst; [|discriminate]. unfold retained_of. cbn [flat_map snd fst app]. eexists. eexists. reflexivity. }
    unfold visible. rewrite Eregs, Er, Eret. rewrite <- Eregs, <- Eret.
    assert (Hnd' : NoDup (rids (d_regions d))) by (rewrite Eregs; exact Hnd).
    assert (L' : loop_rel c d (keep_styles c (d_initials d)) [] (d_regions d) out) by (rewrite Eregs; exact L).
    assert (Hrin' : forall ch r, In ch (chains b) -> In r (refs ch) -> In r (rids (d_regions d))) by (rewrite Eregs; exact Hrin).
    clear Hnd L Hrin.
    (* both sides as region-by-chain tables *)
    rewrite (flat_map_ext_in' _ (fun r => flat_map (fun ch => if act t (eattrs r) && chain_active t root_interval ch && chain_sel (e_id (eattrs r)) None ch
                                                          then chain_leaves ch else []) (chains b)) (d_regions d)).
    2:{ intros r Hr. apply tagged_leaves_form; [exact Eb | | exact Hd1]. apply no_hiding_displayed; [exact Hhide|].
        unfold doc_attrs, region_attrs. apply in_or_app. left. apply in_flat_map. exists r. split; [exact Hr|]. destruct r. left. reflexivity. }
    rewrite (flat_map_ext_in' _ (fun r => flat_map (fun ch => if act t (eattrs r) && chain_active t root_interval ch && chain_sel (e_id (eattrs r)) None ch
                                                          then chain_leaves ch else []) (chains b')) (retained_of out)).
    2:{ intros r Hr. apply tagged_leaves_form; [exact Eb' | | exact Hd2]. apply (result_region_displayed c d d'); [exact H | rewrite Er; exact Hr]. }
    rewrite (flat_map_swap (fun r ch => if act t (eattrs r) && chain_active t root_interval ch && chain_sel (e_id (eattrs r)) None ch then chain_leaves ch else [])
                           (d_regions d) (chains b)).
    rewrite (flat_map_swap (fun r ch => if act t (eattrs r) && chain_active t root_interval ch && chain_sel (e_id (eattrs r)) None ch then chain_leaves ch else [])
                           (retained_of out) (chains b')).
    erewrite flat_map_F2; [apply Permutation_refl|]. eapply Forall2_impl; [|exact Hch2]. intros ch ch' [Hin F]. cbv beta.
    assert (chain_leaves ch' = chain_leaves ch) as El
      by (unfold chain_leaves; rewrite (tl_para _ _ _ F), (tl_leaf _ _ _ F (chains_nonempty _ _ Hin) dummy dummy); reflexivity).
    rewrite El. apply flat_map_count_eq.
    rewrite (count_chain c d out L' Hnd' Hids t ch ch' F (chains_nonempty _ _ Hin) (nested_chains _ _ _ Hnc _ Hin) (fun r Hr => Hrin' ch r Hin Hr)).
    symmetry. apply filter_length_F2. eapply Forall2_impl; [|exact (retained_kept _ _ _ _ _ _ L')].
    intros x k [Hi [Hb He]]. cbv beta. unfold act. rewrite Hi, Hb, He. reflexivity.
Qed.

(* the tags are an addition: without them the lists are those of Spec/IsdSpec.v (C01: what a snapshot region shows) *)
Lemma tagged_leaves_untag d t r sel : map snd (tagged_leaves d t r sel) = leaves_spec d t r sel.
Proof.
  unfold tagged_leaves, leaves_spec. destruct (_ && _); [|reflexivity]. destruct (d_body d) as [b|]; [|reflexivity].
  induction (filter _ (chains b)) as [|ch l IH]; [reflexivity|]. cbn [flat_map]. rewrite map_app, IH. f_equal.
  rewrite map_map. cbn [snd]. apply map_id.
Qed.
Lemma map_flat_map' {A B C} (h : B -> C) (f : A -> list B) l : map h (flat_map f l) = flat_map (fun x => map h (f x)) l.
Proof. induction l as [|x l IH]; [reflexivity|]. cbn [flat_map]. rewrite map_app, IH. reflexivity. Qed.
Definition all_leaves_spec (d : doc) (t : Q) : list leaf :=
  match d_regions d with
  | [] => leaves_spec d t default_region_attrs None
  | rs => flat_map (fun r => leaves_spec d t (eattrs r) (e_id (eattrs r))) rs
  end.
Lemma visible_untag d t : map snd (visible d t) = all_leaves_spec d t.
Proof.
  unfold visible, all_leaves_spec. destruct (d_regions d) as [|r rs]; [apply tagged_leaves_untag|].
  rewrite map_flat_map'. apply flat_map_ext. intros x. apply tagged_leaves_untag.
Qed.
Theorem timeline_leaves_thm c d d' t :
  lcd c d = Ok d' -> regions_have_ids d -> NoDup (rids (d_regions d)) -> refs_in_doc d ->
  no_hiding_b d = true -> trig_nested c d = false ->
  Permutation (all_leaves_spec d t) (all_leaves_spec d' t).
Proof.
  intros. rewrite <- !visible_untag. apply Permutation_map. eapply timeline_thm; eassumption.
Qed.
