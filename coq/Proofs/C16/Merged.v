(* C16: the regions that remain are source regions and pairwise different in (timing, resulting displayAlign) — hence
   in (timing, writing mode, resulting displayAlign). *)
From TT Require Import Model.Doc Gen.StyleTables Model.Isd Model.Lcd Spec.IsdSpec Spec.LcdSpec Model.LcdCases
  Proofs.Common.ElemInd Proofs.C16.Basics Proofs.C16.Prov Proofs.C16.Static Proofs.C16.Refs Proofs.C16.Idem.

Definition da_tag (a : attrs) : Z := match sget (e_styles a) p_DisplayAlign with Some (VEnum x) => x | _ => -1 end.
Definition fp_attrs (c : lcd_cfg) (a : attrs) : fp := (or0 (e_begin a), e_end a, e_WritingModeType_lrtb, da_tag a, fp_align c (e_styles a)).

Lemma lookup_fp_none ret f : lookup_fp ret f = None -> forall g t, In (g, t) ret -> fp_eqb g f = false.
Proof.
  induction ret as [|[h u] ret IH]; intros H g t Hi; [destruct Hi|]. cbn [lookup_fp] in H.
  destruct (fp_eqb h f) eqn:E; [discriminate|]. destruct Hi as [Hi|Hi]; [inversion Hi; subst; exact E | exact (IH H _ _ Hi)].
Qed.

(* two records of the same class have equal fingerprints *)
Lemma same_class_fp c d a b : da_tag a <> -1 -> same_class (c_pta c) d a b = true -> fp_eqb (fp_attrs c a) (fp_attrs c b) = true.
Proof.
  unfold same_class, same_timing, fp_attrs, fp_eqb. intros Hda H.
  apply andb_true_iff in H as [H Hta]. apply andb_true_iff in H as [H Hd]. apply andb_true_iff in H as [H _]. apply andb_true_iff in H as [Hb He].
  unfold begin_of in Hb. unfold or0. rewrite Hb. cbn [andb]. rewrite Z.eqb_refl, andb_true_r.
  assert (oQ_eqb (e_end a) (e_end b) = true) as Ee.
  { destruct (e_end a) as [x|], (e_end b) as [y|]; try discriminate; [exact He | reflexivity]. }
  rewrite Ee. cbn [andb].
  assert (oZ_eqb (fp_align c (e_styles a)) (fp_align c (e_styles b)) = true) as Et.
  { unfold fp_align. destruct (c_pta c); [|reflexivity]. cbn [negb orb] in Hta. unfold oenum_eqb in Hta.
    destruct (sget (e_styles a) p_TextAlign) as [[]|], (sget (e_styles b) p_TextAlign) as [[]|]; try discriminate; [exact Hta | reflexivity]. }
  rewrite Et, andb_true_r. unfold enum_eqb, da_tag in *.
  destruct (sget (e_styles a) p_DisplayAlign) as [[]|], (sget (e_styles b) p_DisplayAlign) as [[]|]; try discriminate; try congruence; exact Hd.
Qed.

Section Loop.
  Variables (c : lcd_cfg) (d : doc) (inits : smap).
  Hypothesis Hiw : sget inits p_WritingMode = None.

  Lemma region_done_fp r r2 wm nda : region_done c d inits r r2 wm nda ->
    fp_attrs c (eattrs r2) = region_fp c r r2 wm nda /\ da_tag (eattrs r2) <> -1.
  Proof.
    intros [st [Hl ->]]. pose proof (region_layout_final _ _ _ _ _ _ _ Hl) as [_ [_ [_ [_ Hd]]]].
    assert (forall kv, In kv (e_styles (eattrs (rstyle_elem c (anim_elem r)))) -> rsupported c (fst kv) = true) as Hs.
    { rewrite eattrs_clean. cbn [e_styles rstyle_attrs with_styles]. intros kv Hkv. apply In_keep_rstyles in Hkv. tauto. }
    pose proof (region_layout_first _ _ _ _ _ _ _ Hl Hs Hiw) as [Ew [Hba _]].
    unfold fp_attrs, da_tag, region_fp. cbn [eattrs e_styles with_styles e_begin e_end]. rewrite Hd, Ew, eattrs_clean. cbn.
    split; [reflexivity|]. destruct Hba as [-> | ->]; discriminate.
  Qed.

  Lemma loop_pairwise ret rs out : loop_rel c d inits ret rs out ->
    pairwise (fun a b => negb (same_class (c_pta c) d a b)) (map eattrs (retained_of out)) = true /\
    forall x g t, In x (retained_of out) -> In (g, t) ret -> fp_eqb g (fp_attrs c (eattrs x)) = false.
  Proof.
    intros H. induction H.
    - split; [reflexivity | intros x g t []].
    - destruct IHloop_rel as [IP IQ]. destruct (region_done_fp _ _ _ _ H) as [Ef Hda].
      unfold retained_of in *. cbn [flat_map snd fst app map pairwise]. split.
      + rewrite IP, andb_true_r. apply forallb_forall. intros b Hb. apply in_map_iff in Hb as [x [<- Hx]].
        apply negb_true_iff. destruct (same_class (c_pta c) d (eattrs r2) (eattrs x)) eqn:E; [|reflexivity].
        apply (same_class_fp c _ _ _ Hda) in E. rewrite Ef in E.
        rewrite (IQ x _ _ Hx (or_introl eq_refl)) in E. discriminate.
      + intros x g t [<-|Hx] Hg; [rewrite Ef; exact (lookup_fp_none _ _ H0 _ _ Hg) | exact (IQ x g t Hx (or_intror Hg))].
    - unfold retained_of in *. cbn [flat_map snd fst app]. exact IHloop_rel.
  Qed.
End Loop.

Lemma find_exists {A} (p : A -> bool) l x : In x l -> p x = true -> exists y, find p l = Some y.
Proof.
  induction l as [|a l IH]; intros Hi Hp; [destruct Hi|]. cbn [find]. destruct (p a) eqn:E; [eexists; reflexivity|].
  destruct Hi as [->|Hi]; [congruence | exact (IH Hi Hp)].
Qed.

Theorem merged_thm c d d' : lcd c d = Ok d' -> regions_have_ids d -> merged (c_pta c) d d'.
Proof.
  intros H Hids. unfold merged, merged_b. apply andb_true_iff. split.
  - apply forallb_forall. intros r2 Hr. destruct (lcd_region_prov _ _ _ _ H Hr) as [r [wm [nda [Hin Hd]]]].
    rewrite (proj1 (region_done_id _ _ _ _ _ _ _ Hd)). destruct (Hids _ Hin) as [i Hi]. rewrite Hi. unfold find_region.
    destruct (find_exists (fun x => otext_eqb (e_id (eattrs x)) (Some i)) _ r Hin) as [y Ey]; [rewrite Hi; cbn; apply text_eqb_eq; reflexivity|].
    rewrite Ey. reflexivity.
  - destruct (lcd_body_prov _ _ _ H) as [out [Ho [Er _]]]. rewrite Er.
    apply lcd_regions_rel in Ho. apply (loop_pairwise c d _) in Ho; [exact (proj1 Ho)|].
    apply sget_None_keys. intros kv Hkv E. apply In_keep_styles in Hkv as [_ Hs]. rewrite E, not_supported_wm in Hs. discriminate.
Qed.
