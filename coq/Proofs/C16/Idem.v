(* C16: applying the LCD filter to its own result changes nothing. *)
From TT Require Import Model.Doc Gen.StyleTables Model.Isd Model.Lcd Spec.LcdSpec Model.LcdCases
  Proofs.Common.ElemInd Proofs.C16.Basics Proofs.C16.Prov Proofs.C16.Static Proofs.C16.Refs.

(* ---- style maps ------------------------------------------------------------------------------------------------ *)
Lemma sget_None_keys m p : (forall kv, In kv m -> fst kv <> p) -> sget m p = None.
Proof.
  induction m as [|[k w] m IH]; intros H; cbn [sget]; [reflexivity|].
  destruct (k =? p) eqn:E; [apply Z.eqb_eq in E; exfalso; apply (H (k, w)); [left; reflexivity | exact E]|].
  apply IH. intros kv Hkv. apply H. right. exact Hkv.
Qed.
(* two maps with the same unique keys in the same order and the same lookups are equal *)
Lemma smap_ext m1 m2 : skeys m1 = skeys m2 -> NoDup (skeys m1) -> (forall p, sget m1 p = sget m2 p) -> m1 = m2.
Proof.
  revert m2. induction m1 as [|[k w] m1 IH]; intros [|[k2 w2] m2] Hk Hn Hg; cbn [skeys map fst] in Hk; try discriminate; [reflexivity|].
  inversion Hk as [[Ek Hk']]. subst k2. inversion Hn as [|? ? Hnk Hn']; subst.
  pose proof (Hg k) as Hgk. cbn [sget] in Hgk. rewrite Z.eqb_refl in Hgk. inversion Hgk; subst w2. f_equal.
  apply IH; [exact Hk' | exact Hn'|]. intros p. pose proof (Hg p) as Hp. cbn [sget] in Hp.
  destruct (k =? p) eqn:E; [|exact Hp]. apply Z.eqb_eq in E. subst p.
  (* k is in neither tail *)
  assert (forall m, ~ In k (skeys m) -> sget m k = None) as Hnone.
  { intros m Hm. apply sget_None_keys. intros kv Hkv E. apply Hm. apply in_map_iff. exists kv. auto. }
  rewrite (Hnone m1 Hnk). symmetry. apply Hnone. unfold skeys in *. rewrite <- Hk'. exact Hnk.
Qed.
Lemma skeys_sset_present m p v : shas m p = true -> skeys (sset m p v) = skeys m.
Proof. intros H. rewrite skeys_sset. apply shas_In_skeys, existsb_eqb_In in H. rewrite H. reflexivity. Qed.
Lemma keep_styles_sset_unsupported c m p v : supported c p = false -> keep_styles c (sset m p v) = keep_styles c m.
Proof.
  intros Hs. unfold keep_styles. induction m as [|[k w] m IH]; cbn [sset filter fst].
  - rewrite Hs. reflexivity.
  - destruct (k =? p) eqn:E; cbn [filter fst].
    + apply Z.eqb_eq in E. subst k. rewrite Hs. reflexivity.
    + rewrite IH. reflexivity.
Qed.
Lemma keep_styles_all c m : (forall kv, In kv m -> supported c (fst kv) = true) -> keep_styles c m = m.
Proof.
  unfold keep_styles. induction m as [|kv m IH]; intros H; cbn [filter]; [reflexivity|].
  rewrite (H kv (or_introl eq_refl)). f_equal. apply IH. intros x Hx. apply H. right. exact Hx.
Qed.

Lemma not_supported_wm c : supported c p_WritingMode = false.
Proof.
  unfold supported.
  change (p_WritingMode =? p_DisplayAlign) with false. change (p_WritingMode =? p_Extent) with false.
  change (p_WritingMode =? p_Origin) with false.
  change (p_WritingMode =? p_TextAlign) with false. change (p_WritingMode =? p_Color) with false.
  change (p_WritingMode =? p_BackgroundColor) with false.
  destruct (c_pta c), (c_color c), (c_bg c); reflexivity.
Qed.
Lemma layout_supported c p : layout_key p -> supported c p = true.
Proof. unfold supported. intros [-> | [-> | ->]]; cbn; reflexivity. Qed.
Lemma not_rsupported_wm c : rsupported c p_WritingMode = false.
Proof. unfold rsupported. rewrite not_supported_wm. reflexivity. Qed.
Lemma layout_rsupported c p : layout_key p -> rsupported c p = true.
Proof. intros H. apply supported_rsupported, layout_supported, H. Qed.
Lemma keep_rstyles_all c m : (forall kv, In kv m -> rsupported c (fst kv) = true) -> keep_rstyles c m = m.
Proof.
  unfold keep_rstyles. induction m as [|kv m IH]; intros H; cbn [filter]; [reflexivity|].
  rewrite (H kv (or_introl eq_refl)). f_equal. apply IH. intros x Hx. apply H. right. exact Hx.
Qed.

(* ---- rational arithmetic of the second pass -------------------------------------------------------------------- *)
Definition back (z : Z) : Q := Qdiv (Qmult (qz z) (qz 100)) (qz 100).
Lemma back_eq z : Qeq (back z) (qz z).
Proof. unfold back. apply Qdiv_mult_l. unfold qz. intro H. discriminate H. Qed.
Lemma lt50_true sa : sa < 50 -> Qltb (back sa) q50 = true.
Proof.
  intros H. unfold Qltb. destruct (Qle_bool q50 (back sa)) eqn:E; [|reflexivity].
  apply Qle_bool_iff in E. rewrite back_eq in E. unfold q50, qz in E. rewrite <- Zle_Qle in E. lia.
Qed.
Lemma sum_ge50 sa : sa <= 50 -> Qltb (Qplus (back sa) (back (100 - 2 * sa))) q50 = false.
Proof.
  intros H. unfold Qltb. destruct (Qle_bool q50 (Qplus (back sa) (back (100 - 2 * sa)))) eqn:E; [reflexivity|].
  assert (Qle q50 (Qplus (back sa) (back (100 - 2 * sa)))) as Hle; [|apply Qle_bool_iff in Hle; congruence].
  rewrite !back_eq. unfold q50, qz. rewrite <- inject_Z_plus, <- Zle_Qle. lia.
Qed.

(* ---- one region, second pass --------------------------------------------------------------------------------------- *)
Lemma compute_origin_pct dd par st sa : sget st p_Origin = Some (VCoord (pct sa) (pct sa)) ->
  compute_prop dd par st p_Origin = Ok (sset st p_Origin (VCoord (mkLen (back sa) Urw) (mkLen (back sa) Urh))).
Proof.
  intros H. unfold compute_prop.
  change (p_Origin =? p_FontSize) with false. change (p_Origin =? p_Extent) with false. change (p_Origin =? p_Origin) with true.
  cbv iota. rewrite H. reflexivity.
Qed.
Lemma compute_extent_pct dd par st e : sget st p_Extent = Some (VExtent (pct e) (pct e)) ->
  compute_prop dd par st p_Extent = Ok (sset st p_Extent (VExtent (mkLen (back e) Urh) (mkLen (back e) Urw))).
Proof.
  intros H. unfold compute_prop.
  change (p_Extent =? p_FontSize) with false. change (p_Extent =? p_Extent) with true.
  cbv iota. rewrite H. reflexivity.
Qed.

Definition before_or_after (n : Z) : Prop := n = e_DisplayAlignType_before \/ n = e_DisplayAlignType_after.

Lemma region_layout_again c dd inits st nda :
  NoDup (skeys st) -> shas st p_Position = false -> sget st p_WritingMode = None -> sget inits p_WritingMode = None ->
  sget st p_Origin = Some (VCoord (pct (c_sa c)) (pct (c_sa c))) ->
  sget st p_Extent = Some (VExtent (pct (100 - 2 * c_sa c)) (pct (100 - 2 * c_sa c))) ->
  sget st p_DisplayAlign = Some (VEnum nda) -> before_or_after nda -> c_sa c < 50 ->
  region_layout c dd inits st = Ok (st, e_WritingModeType_lrtb, nda).
Proof.
  intros Hn Hp Hw Hiw Ho He Hd Hba Hsa.
  assert (shas st p_Origin = true) as So by (unfold shas; rewrite Ho; reflexivity).
  assert (shas st p_Extent = true) as Se by (unfold shas; rewrite He; reflexivity).
  assert (shas st p_DisplayAlign = true) as Sd by (unfold shas; rewrite Hd; reflexivity).
  unfold region_layout, region_pre.
  rewrite Se, (compute_extent_pct dd None st _ He). cbn [bind].
  set (s1 := sset st p_Extent _).
  assert (shas s1 p_Origin = true) as O1 by (unfold s1; rewrite shas_sset_neq by discriminate; exact So). rewrite O1.
  assert (sget s1 p_Origin = Some (VCoord (pct (c_sa c)) (pct (c_sa c)))) as G1
    by (unfold s1; rewrite sget_sset_neq by discriminate; exact Ho).
  rewrite (compute_origin_pct dd None s1 _ G1). cbn [bind].
  set (s2 := sset s1 p_Origin _).
  assert (shas s2 p_Position = false) as P2
    by (unfold s2, s1; rewrite shas_sset_neq by discriminate; rewrite shas_sset_neq by discriminate; exact Hp).
  rewrite P2. cbn [bind].
  assert (shas s2 p_Origin = true) as O2' by (apply shas_sset_eq). rewrite O2'.
  assert (shas s1 p_Extent = true) as E1 by (apply shas_sset_eq).
  assert (shas s2 p_Extent = true) as E2 by (unfold s2; rewrite shas_sset_neq by discriminate; exact E1).
  assert (sget s2 p_WritingMode = None) as W2
    by (unfold s2, s1; rewrite sget_sset_neq by discriminate; rewrite sget_sset_neq by discriminate; exact Hw).
  rewrite W2.
  assert (init_or inits p_WritingMode = VEnum e_WritingModeType_lrtb) as Iw by (unfold init_or; rewrite Hiw; reflexivity).
  rewrite Iw.
  assert (sget s2 p_DisplayAlign = Some (VEnum nda)) as D2
    by (unfold s2, s1; rewrite sget_sset_neq by discriminate; rewrite sget_sset_neq by discriminate; exact Hd).
  rewrite D2.
  unfold new_display_align.
  assert (sget s2 p_Origin = Some (VCoord (mkLen (back (c_sa c)) Urw) (mkLen (back (c_sa c)) Urh))) as O2
    by (apply sget_sset_eq).
  assert (sget s2 p_Extent = Some (VExtent (mkLen (back (100 - 2 * c_sa c)) Urh) (mkLen (back (100 - 2 * c_sa c)) Urw))) as X2
    by (unfold s2; rewrite sget_sset_neq by discriminate; apply sget_sset_eq).
  rewrite O2, X2. cbn [is_enum lv bind orb]. change (e_WritingModeType_lrtb =? e_WritingModeType_lrtb) with true. cbn [orb].
  assert ((if (nda =? e_DisplayAlignType_before) && Qltb (back (c_sa c)) q50 then e_DisplayAlignType_before
           else if Qltb (Qplus (back (c_sa c)) (back (100 - 2 * c_sa c))) q50 then e_DisplayAlignType_before else e_DisplayAlignType_after) = nda) as En.
  { rewrite (lt50_true _ Hsa), (sum_ge50 (c_sa c)) by lia. destruct Hba as [-> | ->]; reflexivity. }
  rewrite En. cbn [bind enum_tag]. f_equal. f_equal. f_equal.
  (* the three final assignments give st back *)
  set (s3 := sset s2 p_DisplayAlign (VEnum nda)).
  set (s4 := sset s3 p_Origin (VCoord (pct (c_sa c)) (pct (c_sa c)))).
  assert (shas s2 p_DisplayAlign = true) as Sd2 by (unfold shas; rewrite D2; reflexivity).
  assert (shas s3 p_Origin = true) as So3 by (unfold s3; rewrite shas_sset_neq by discriminate; unfold shas; rewrite O2; reflexivity).
  assert (shas s4 p_Extent = true) as Se4
    by (unfold s4, s3; rewrite shas_sset_neq by discriminate; rewrite shas_sset_neq by discriminate; exact E2).
  assert (skeys (sset s4 p_Extent (VExtent (pct (100 - 2 * c_sa c)) (pct (100 - 2 * c_sa c)))) = skeys st) as Ek.
  { rewrite (skeys_sset_present _ _ _ Se4). unfold s4. rewrite (skeys_sset_present _ _ _ So3). unfold s3.
    rewrite (skeys_sset_present _ _ _ Sd2). unfold s2. rewrite (skeys_sset_present _ _ _ O1). unfold s1.
    apply (skeys_sset_present _ _ _ Se). }
  apply smap_ext.
  - exact Ek.
  - rewrite Ek. exact Hn.
  - intros p.
    destruct (Z.eq_dec p p_Extent) as [-> | Ne]; [rewrite sget_sset_eq; symmetry; exact He|]. rewrite sget_sset_neq by exact Ne. unfold s4.
    destruct (Z.eq_dec p p_Origin) as [-> | No]; [rewrite sget_sset_eq; symmetry; exact Ho|]. rewrite sget_sset_neq by exact No. unfold s3.
    destruct (Z.eq_dec p p_DisplayAlign) as [-> | Nd]; [rewrite sget_sset_eq; symmetry; exact Hd|]. rewrite sget_sset_neq by exact Nd.
    unfold s2, s1. rewrite sget_sset_neq by exact No. rewrite sget_sset_neq by exact Ne. reflexivity.
Qed.

(* ---- facts about the first pass -------------------------------------------------------------------------------------- *)
Lemma new_display_align_range wm da s n : new_display_align wm da s = Ok n -> before_or_after n.
Proof.
  unfold new_display_align, before_or_after.
  destruct (sget s p_Origin) as [[]|]; try discriminate. destruct (sget s p_Extent) as [[]|]; try discriminate.
  intros H. inversion H. repeat match goal with |- context [if ?b then _ else _] => destruct b end; auto.
Qed.
Lemma region_layout_first c d inits st0 st wm nda : region_layout c d inits st0 = Ok (st, wm, nda) ->
  (forall kv, In kv st0 -> rsupported c (fst kv) = true) -> sget inits p_WritingMode = None ->
  wm = e_WritingModeType_lrtb /\ before_or_after nda /\ sget st p_WritingMode = None /\
  (forall kv, In kv st -> rsupported c (fst kv) = true).
Proof.
  intros H Hs Hiw. pose proof (region_layout_final _ _ _ _ _ _ _ H) as [[V _] _].
  assert (forall kv, In kv st -> rsupported c (fst kv) = true) as Hall.
  { intros kv Hkv. destruct (V _ Hkv) as [Hl|Hl]; [apply layout_rsupported, Hl | apply Hs, Hl]. }
  unfold region_layout in H. destruct (region_pre d inits st0) as [s|] eqn:Ep; cbn [bind] in H; [|discriminate].
  apply region_pre_evolved in Ep as [[Vs _] _].
  assert (sget s p_WritingMode = None) as Ws.
  { apply sget_None_keys. intros kv Hkv E. pose proof (not_rsupported_wm c) as Hn.
    destruct (Vs _ Hkv) as [Hl|Hl]; [apply (layout_rsupported c) in Hl | apply Hs in Hl]; rewrite E in Hl; congruence. }
  rewrite Ws in H.
  destruct (new_display_align _ _ s) as [n|] eqn:En; cbn [bind] in H; [|discriminate]. inversion H; subst. clear H.
  split; [unfold init_or; rewrite Hiw; reflexivity|]. split; [exact (new_display_align_range _ _ _ _ En)|].
  split; [|exact Hall].
  apply sget_None_keys. intros kv Hkv E. pose proof (not_rsupported_wm c) as Hn. apply Hall in Hkv. rewrite E in Hkv. congruence.
Qed.

(* ---- cleaning twice ------------------------------------------------------------------------------------------------------ *)
Lemma clean_attrs_idem c a : style_attrs c (anim_attrs (style_attrs c (anim_attrs a))) = style_attrs c (anim_attrs a).
Proof.
  unfold style_attrs, anim_attrs, with_styles, with_anims.
  cbn [e_styles e_kind e_id e_begin e_end e_region e_anims e_preserve e_lang e_text]. rewrite keep_styles_idem. reflexivity.
Qed.
Lemma clean_elem_idem c e : style_elem c (anim_elem (style_elem c (anim_elem e))) = style_elem c (anim_elem e).
Proof.
  unfold style_elem, anim_elem. rewrite !map_attrs_compose. apply map_attrs_ext. intros a _. apply clean_attrs_idem.
Qed.
Lemma rclean_attrs_idem c a : rstyle_attrs c (anim_attrs (rstyle_attrs c (anim_attrs a))) = rstyle_attrs c (anim_attrs a).
Proof.
  unfold rstyle_attrs, anim_attrs, with_styles, with_anims.
  cbn [e_styles e_kind e_id e_begin e_end e_region e_anims e_preserve e_lang e_text]. rewrite keep_rstyles_idem. reflexivity.
Qed.
Lemma rclean_elem_idem c e : rstyle_elem c (anim_elem (rstyle_elem c (anim_elem e))) = rstyle_elem c (anim_elem e).
Proof.
  unfold rstyle_elem, anim_elem. rewrite !map_attrs_compose. apply map_attrs_ext. intros a _. apply rclean_attrs_idem.
Qed.
Lemma clean_region_again c r st : keep_rstyles c st = st ->
  let r1 := rstyle_elem c (anim_elem r) in
  rstyle_elem c (anim_elem (Elem (with_styles (eattrs r1) st) (echildren r1))) = Elem (with_styles (eattrs r1) st) (echildren r1).
Proof.
  intros Hk. destruct r as [a cs]. cbn [rstyle_elem anim_elem map_attrs eattrs echildren]. f_equal.
  - unfold rstyle_attrs, anim_attrs, with_styles, with_anims.
    cbn [e_styles e_kind e_id e_begin e_end e_region e_anims e_preserve e_lang e_text]. rewrite Hk. reflexivity.
  - rewrite !map_map. apply map_ext. intros x. apply (rclean_elem_idem c x).
Qed.

(* ---- the region loop, second pass ------------------------------------------------------------------------------------------ *)
Lemma loop_again c d dd inits ret rs out : loop_rel c d inits ret rs out ->
  (forall r, In r rs -> NoDup (skeys (e_styles (eattrs r)))) -> sget inits p_WritingMode = None -> c_sa c < 50 ->
  lcd_regions c dd inits (retained_of out) ret = Ok (map (fun r => (r, None)) (retained_of out)).
Proof.
  intros H. induction H; intros Hu Hiw Hsa.
  - reflexivity.
  - unfold retained_of. cbn [flat_map snd fst app]. fold (retained_of out).
    destruct H as [st [Hl ->]]. set (r1 := rstyle_elem c (anim_elem r)) in *.
    assert (forall kv, In kv (e_styles (eattrs r1)) -> rsupported c (fst kv) = true) as Hsup.
    { unfold r1. rewrite eattrs_clean. cbn [e_styles rstyle_attrs with_styles]. intros kv Hkv. apply In_keep_rstyles in Hkv. tauto. }
    assert (NoDup (skeys (e_styles (eattrs r1)))) as Hn0.
    { unfold r1. rewrite eattrs_clean. cbn [e_styles rstyle_attrs with_styles anim_attrs with_anims]. apply NoDup_keep_rstyles, Hu. left. reflexivity. }
    pose proof (region_layout_final _ _ _ _ _ _ _ Hl) as [[_ Vn] [Pn [Ho [He Hd]]]].
    pose proof (region_layout_first _ _ _ _ _ _ _ Hl Hsup Hiw) as [Ew [Hba [Hw Hall]]].
    cbn [lcd_regions].
    pose proof (clean_region_again c r st (keep_rstyles_all _ _ Hall)) as Hc. cbv zeta in Hc. fold r1 in Hc. rewrite Hc.
    cbn [eattrs echildren e_styles with_styles].
    rewrite (region_layout_again c dd inits st nda (Vn Hn0)); try assumption.
    + cbn [bind e_begin e_end with_styles].
      assert ((or0 (e_begin (eattrs r1)), e_end (eattrs r1), e_WritingModeType_lrtb, nda, fp_align c st) =
              region_fp c r (Elem (with_styles (eattrs r1) st) (echildren r1)) wm nda) as Ef
        by (unfold region_fp, r1; rewrite eattrs_clean, Ew; reflexivity).
      rewrite Ef, H0.
      assert (rid (with_styles (eattrs r1) st) = rid (eattrs r)) as Er by (unfold r1; rewrite eattrs_clean; reflexivity).
      rewrite Er, IHloop_rel; [reflexivity | intros x Hx; apply Hu; right; exact Hx | exact Hiw | exact Hsa].
    + destruct (shas st p_Position) eqn:Esp; [|reflexivity]. apply shas_In_skeys in Esp. exfalso. exact (Pn Hn0 Esp).
  - unfold retained_of. cbn [flat_map snd fst app]. fold (retained_of out).
    apply IHloop_rel; [intros x Hx; apply Hu; right; exact Hx | exact Hiw | exact Hsa].
Qed.

(* ---- the body, second pass ---------------------------------------------------------------------------------------------------- *)
Lemma redirect_nil e : redirect_elem [] e = e.
Proof. apply map_attrs_id. intros a. unfold redirect_attrs. destruct (e_region a); reflexivity. Qed.
Lemma clear_nil e : clear_elem [] e = e.
Proof. apply map_attrs_id. intros a. unfold clear_attrs. destruct (e_region a); reflexivity. Qed.
Lemma style_set_root c p v e : supported c p = false -> style_elem c (set_root_style p v e) = style_elem c e.
Proof.
  intros Hs. destruct e as [a cs]. cbn [set_root_style style_elem map_attrs]. f_equal.
  unfold style_attrs, set_style, with_styles. cbn [e_styles e_kind e_id e_begin e_end e_region e_anims e_preserve e_lang e_text].
  rewrite (keep_styles_sset_unsupported _ _ _ _ Hs). reflexivity.
Qed.
Lemma style_apply_bg c col e : supported c p_BackgroundColor = false -> style_elem c (apply_bg col e) = style_elem c e.
Proof.
  intros Hs. induction e as [a cs IH] using elem_ind2. cbn [apply_bg].
  assert (map (style_elem c) (map (apply_bg col) cs) = map (style_elem c) cs) as Hm.
  { induction cs as [|x cs IHcs]; [reflexivity|]. inversion IH; subst. cbn [map]. f_equal; auto. }
  destruct (e_kind a) eqn:Ek; cbn [style_elem map_attrs]; try (f_equal; exact Hm).
  f_equal. unfold style_attrs, set_style, with_styles. cbn [e_styles e_kind e_id e_begin e_end e_region e_anims e_preserve e_lang e_text].
  rewrite (keep_styles_sset_unsupported _ _ _ _ Hs). reflexivity.
Qed.
Lemma clean_fixed_attrs c x : e_anims x = [] -> keep_styles c (e_styles x) = e_styles x -> anim_attrs (style_attrs c x) = x.
Proof.
  destruct x as [xk xi xb xe xr xs xan xp xl xt]. cbn [e_anims e_styles]. intros -> Hk. unfold anim_attrs, style_attrs, with_anims, with_styles.
  cbn [e_styles e_kind e_id e_begin e_end e_region e_anims e_preserve e_lang e_text]. rewrite Hk. reflexivity.
Qed.
Lemma base_elem_eq c al b :
  clear_elem (map fst al) (redirect_elem al (anim_elem (style_elem c b))) = map_attrs (body_base c al) b.
Proof. unfold clear_elem, redirect_elem, anim_elem, style_elem. rewrite !map_attrs_compose. reflexivity. Qed.
Lemma clean_base c al b : anim_elem (style_elem c (map_attrs (body_base c al) b)) = map_attrs (body_base c al) b.
Proof.
  unfold anim_elem, style_elem. rewrite !map_attrs_compose. apply map_attrs_ext. intros a _.
  apply clean_fixed_attrs; [apply anims_body_base | rewrite styles_body_base; apply keep_styles_idem].
Qed.

Lemma supported_bg_false c col : c_bg c = Some col -> supported c p_BackgroundColor = false.
Proof.
  intros H. unfold supported. rewrite H.
  change (p_BackgroundColor =? p_DisplayAlign) with false. change (p_BackgroundColor =? p_Extent) with false.
  change (p_BackgroundColor =? p_Origin) with false.
  change (p_BackgroundColor =? p_TextAlign) with false. change (p_BackgroundColor =? p_Color) with false.
  destruct (c_pta c), (c_color c); reflexivity.
Qed.
Lemma supported_color_false c col : c_color c = Some col -> supported c p_Color = false.
Proof.
  intros H. unfold supported. rewrite H.
  change (p_Color =? p_DisplayAlign) with false. change (p_Color =? p_Extent) with false.
  change (p_Color =? p_Origin) with false.
  change (p_Color =? p_TextAlign) with false. change (p_Color =? p_BackgroundColor) with false.
  destruct (c_pta c), (c_bg c); reflexivity.
Qed.
Lemma supported_ta_false c : c_pta c = false -> supported c p_TextAlign = false.
Proof.
  intros H. unfold supported. rewrite H.
  change (p_TextAlign =? p_DisplayAlign) with false. change (p_TextAlign =? p_Extent) with false.
  change (p_TextAlign =? p_Origin) with false.
  change (p_TextAlign =? p_Color) with false. change (p_TextAlign =? p_BackgroundColor) with false.
  destruct (c_color c), (c_bg c); reflexivity.
Qed.

Lemma replaced_of_kept l : replaced_of (map (fun r : elem => (r, @None text)) l) = [].
Proof. unfold replaced_of. induction l as [|x l IH]; [reflexivity | cbn [map flat_map snd app]; exact IH]. Qed.
Lemma retained_of_kept l : retained_of (map (fun r : elem => (r, @None text)) l) = l.
Proof. unfold retained_of. induction l as [|x l IH]; [reflexivity | cbn [map flat_map snd fst app]; f_equal; exact IH]. Qed.

(* ---- idempotence ------------------------------------------------------------------------------------------------------------------ *)
Lemma pipeline_idem c al body0 : body_pipeline c [] (body_pipeline c al body0) = body_pipeline c al body0.
Proof.
  unfold body_pipeline. cbv zeta. destruct body0 as [b|].
  - destruct (c_bg c) as [cb|] eqn:Ebg, (c_color c) as [cc|] eqn:Ec, (c_pta c) eqn:Ep; cbn [option_map map];
      repeat first [ rewrite (style_set_root _ _ _ _ (supported_ta_false _ Ep))
                   | rewrite (style_set_root _ _ _ _ (supported_color_false _ _ Ec))
                   | rewrite (style_apply_bg _ _ _ (supported_bg_false _ _ Ebg)) ];
      rewrite base_elem_eq, clean_base, redirect_nil, clear_nil; reflexivity.
  - destruct (c_bg c), (c_color c), (c_pta c); reflexivity.
Qed.

Theorem idem_thm c d d' : lcd c d = Ok d' -> region_keys_unique d -> c_sa c < 50 -> lcd c d' = Ok d'.
Proof.
  intros H Hu Hsa. apply lcd_ok_inv in H as [out [Ho ->]].
  pose proof (lcd_regions_rel _ _ _ _ _ _ Ho) as L.
  assert (sget (keep_styles c (d_initials d)) p_WritingMode = None) as Hiw.
  { apply sget_None_keys. intros kv Hkv E. apply In_keep_styles in Hkv as [_ Hs]. rewrite E, not_supported_wm in Hs. discriminate. }
  unfold lcd at 1. cbn [d_initials d_body d_regions d_rows d_cols d_pxh d_pxw d_active d_dar d_lang].
  rewrite keep_styles_idem.
  rewrite (loop_again c d _ _ _ _ _ L Hu Hiw Hsa). cbn [bind].
  rewrite replaced_of_kept, retained_of_kept. do 2 f_equal.
  exact (pipeline_idem c (replaced_of out) (d_body d)).
Qed.
