(* C16: the proof cone. *)
From TT Require Export Model.Doc Gen.StyleTables Model.Isd Model.Lcd Spec.IsdSpec Spec.LcdSpec Model.LcdCases.
From TT Require Export Proofs.C16.Basics Proofs.C16.Prov Proofs.C16.Static Proofs.C16.Refs Proofs.C16.Idem Proofs.C16.Tree
  Proofs.C16.Chains Proofs.C16.Counting Proofs.C16.Alias Proofs.C16.Timeline1 Proofs.C16.Timeline2 Proofs.C16.Timeline3
  Proofs.C16.Merged Proofs.C16.Total Proofs.C16.Redirect Proofs.C16.Computed Proofs.C16.Kept Proofs.C16.Align.
