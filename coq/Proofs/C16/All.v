From TT Require Import Model.Doc Model.Lcd Spec.LcdSpec.
