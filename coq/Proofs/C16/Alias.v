(* C16 timeline, part 3: the alias structure the region loop leaves behind. *)
From TT Require Import Model.Doc Gen.StyleTables Model.Isd Model.Lcd Spec.LcdSpec Model.LcdCases
  Proofs.Common.ElemInd Proofs.C16.Basics Proofs.C16.Prov Proofs.C16.Refs Proofs.C16.Chains.

Definition time_of (a : attrs) : Q * option Q := (or0 (e_begin a), e_end a).
Definition time_eqb (x y : Q * option Q) : bool := Qeq_bool (fst x) (fst y) && oQ_eqb (snd x) (snd y).
Definition fp_time (f : fp) : Q * option Q := let '(b, e, _, _, _) := f in (b, e).

(* the source regions that stay / that are aliased, in order *)
Fixpoint kept_src (rs : list elem) (out : list (elem * option text)) : list elem :=
  match rs, out with
  | r :: rs', (_, None) :: out' => r :: kept_src rs' out'
  | _ :: rs', (_, Some _) :: out' => kept_src rs' out'
  | _, _ => []
  end.

Lemma lookup_fp_inv ret f t : lookup_fp ret f = Some t -> exists g, In (g, t) ret /\ fp_eqb g f = true.
Proof.
  induction ret as [|[g u] ret IH]; cbn [lookup_fp]; [discriminate|].
  destruct (fp_eqb g f) eqn:E.
  - intros H. inversion H; subst. exists g. split; [left; reflexivity | exact E].
  - intros H. destruct (IH H) as [g' [Hi He]]. exists g'. split; [right; exact Hi | exact He].
Qed.
Lemma fp_eqb_time g f : fp_eqb g f = true -> time_eqb (fp_time g) (fp_time f) = true.
Proof.
  destruct g as [[[[b1 e1] w1] d1] t1], f as [[[[b2 e2] w2] d2] t2]. unfold fp_eqb, time_eqb, fp_time. cbn [fst snd].
  intros H. apply andb_true_iff in H as [H _]. apply andb_true_iff in H as [H _]. apply andb_true_iff in H as [H _]. exact H.
Qed.

Lemma loop_alias_timing c d inits ret rs out : loop_rel c d inits ret rs out ->
  forall K, (forall f t, In (f, t) ret -> exists k, In k K /\ rid (eattrs k) = t /\ fp_time f = time_of (eattrs k)) ->
  forall r r2 t, In (r, (r2, Some t)) (combine rs out) ->
  exists k, In k (K ++ kept_src rs out) /\ rid (eattrs k) = t /\ time_eqb (time_of (eattrs k)) (time_of (eattrs r)) = true.
Proof.
  intros H. induction H; intros K HK x x2 u Hi.
  - destruct Hi.
  - cbn [combine] in Hi. destruct Hi as [Hi|Hi]; [inversion Hi|].
    destruct (IHloop_rel (K ++ [r])) with (r := x) (r2 := x2) (t := u) as [k [Hk [Hid Ht]]].
    + intros f t [Hf|Hf].
      * inversion Hf; subst. exists r. split; [apply in_or_app; right; left; reflexivity|]. split; reflexivity.
      * destruct (HK _ _ Hf) as [k [Hk Hr]]. exists k. split; [apply in_or_app; left; exact Hk | exact Hr].
    + exact Hi.
    + exists k. cbn [kept_src]. rewrite <- app_assoc in Hk. cbn [app] in Hk. auto.
  - cbn [combine] in Hi. destruct Hi as [Hi|Hi].
    + inversion Hi; subst. apply lookup_fp_inv in H0 as [g [Hg He]]. destruct (HK _ _ Hg) as [k [Hk [Hid Ht]]].
      exists k. split; [apply in_or_app; left; exact Hk|]. split; [exact Hid|].
      apply fp_eqb_time in He. rewrite Ht in He. exact He.
    + destruct (IHloop_rel K HK _ _ _ Hi) as [k [Hk Hr]]. exists k. cbn [kept_src]. auto.
Qed.

(* out lines up with rs *)
Lemma loop_combine c d inits ret rs out : loop_rel c d inits ret rs out ->
  length out = length rs /\
  forall r x, In (r, x) (combine rs out) ->
    e_id (eattrs (fst x)) = e_id (eattrs r) /\ e_begin (eattrs (fst x)) = e_begin (eattrs r) /\ e_end (eattrs (fst x)) = e_end (eattrs r).
Proof.
  intros H. induction H; [split; [reflexivity | intros ? ? []]| |];
    (destruct IHloop_rel as [Hl Hc]; split; [cbn [length]; congruence|];
     intros y x [Hi|Hi]; [inversion Hi; subst; cbn [fst]; exact (region_done_id _ _ _ _ _ _ _ H) | exact (Hc _ _ Hi)]).
Qed.
Lemma kept_src_sub rs out k : In k (kept_src rs out) -> exists r2, In (k, (r2, None)) (combine rs out).
Proof.
  revert out. induction rs as [|r rs IH]; intros [|[r2 [t|]] out] Hi; cbn [kept_src] in Hi; try destruct Hi.
  - destruct (IH _ Hi) as [y Hy]. exists y. right. exact Hy.
  - subst. exists r2. left. reflexivity.
  - destruct (IH _ H) as [y Hy]. exists y. right. exact Hy.
Qed.
(* the regions of the result are the kept source regions, with the same id and timing *)
Lemma retained_kept c d inits ret rs out : loop_rel c d inits ret rs out ->
  Forall2 (fun r2 k => e_id (eattrs r2) = e_id (eattrs k) /\ e_begin (eattrs r2) = e_begin (eattrs k) /\ e_end (eattrs r2) = e_end (eattrs k))
          (retained_of out) (kept_src rs out).
Proof.
  intros H. induction H; unfold retained_of in *; cbn [flat_map snd fst app kept_src]; [constructor| |exact IHloop_rel].
  constructor; [exact (region_done_id _ _ _ _ _ _ _ H) | exact IHloop_rel].
Qed.

(* with unique ids the alias list maps an aliased region to its target and knows no kept region *)
Lemma replaced_keys c d inits ret rs out : loop_rel c d inits ret rs out ->
  forall k, In k (map fst (replaced_of out)) -> exists r r2 t, In (r, (r2, Some t)) (combine rs out) /\ rid (eattrs r) = k.
Proof.
  intros H. induction H; intros k Hk; unfold replaced_of in *; cbn [flat_map snd fst app map] in Hk.
  - destruct Hk.
  - destruct (IHloop_rel _ Hk) as [x [x2 [u [Hi He]]]]. exists x, x2, u. split; [right; exact Hi | exact He].
  - destruct Hk as [Hk|Hk].
    + exists r, r2, t. split; [left; reflexivity|]. rewrite <- Hk. unfold rid. rewrite (proj1 (region_done_id _ _ _ _ _ _ _ H)). reflexivity.
    + destruct (IHloop_rel _ Hk) as [x [x2 [u [Hi He]]]]. exists x, x2, u. split; [right; exact Hi | exact He].
Qed.
Lemma combine_In_l {A B} (l : list A) (m : list B) x y : In (x, y) (combine l m) -> In x l.
Proof. apply in_combine_l. Qed.

Lemma lookup_alias c d inits ret rs out : loop_rel c d inits ret rs out -> NoDup (rids rs) ->
  forall r r2 tag, In (r, (r2, tag)) (combine rs out) -> lookup_id (replaced_of out) (rid (eattrs r)) = tag.
Proof.
  intros H. induction H; intros Hn x x2 tag Hi.
  - destruct Hi.
  - unfold rids in Hn. cbn [map] in Hn. inversion Hn as [|? ? Hk Hn']; subst.
    unfold replaced_of. cbn [flat_map snd app]. fold (replaced_of out). destruct Hi as [Hi|Hi]; [|exact (IHloop_rel Hn' _ _ _ Hi)].
    inversion Hi; subst.
    destruct (lookup_id (replaced_of out) (rid (eattrs x))) as [u|] eqn:El; [|reflexivity].
    apply lookup_id_In in El. assert (In (rid (eattrs x)) (map fst (replaced_of out))) as Hm by (apply in_map_iff; exists (rid (eattrs x), u); auto).
    destruct (replaced_keys _ _ _ _ _ _ H1 _ Hm) as [y [y2 [v [Hy He]]]]. exfalso. apply Hk. unfold rids in *. rewrite <- He.
    apply (in_map (fun r => rid (eattrs r)) rs y). exact (in_combine_l _ _ _ _ Hy).
  - unfold rids in Hn. cbn [map] in Hn. inversion Hn as [|? ? Hk Hn']; subst.
    unfold replaced_of. cbn [flat_map snd fst app lookup_id]. fold (replaced_of out).
    assert (rid (eattrs r2) = rid (eattrs r)) as Er by (unfold rid; rewrite (proj1 (region_done_id _ _ _ _ _ _ _ H)); reflexivity).
    rewrite Er. destruct Hi as [Hi|Hi].
    + inversion Hi; subst. rewrite teqb_refl. reflexivity.
    + destruct (text_eqb (rid (eattrs r)) (rid (eattrs x))) eqn:E; [|exact (IHloop_rel Hn' _ _ _ Hi)].
      apply text_eqb_eq in E. exfalso. apply Hk. rewrite E. apply (in_map (fun r => rid (eattrs r)) rs x). exact (in_combine_l _ _ _ _ Hi).
Qed.
