(* C16: the provenance of Proofs/C16/Prov.v at tree level — the filtered body has the shape of the source body and
   corresponding elements are related by body_rel. *)
From TT Require Import Model.Doc Gen.StyleTables Model.Isd Model.Lcd Spec.LcdSpec Proofs.Common.ElemInd Proofs.C16.Basics Proofs.C16.Prov.

Fixpoint elem_rel (R : attrs -> attrs -> Prop) (e e' : elem) : Prop :=
  match e, e' with
  | Elem a cs, Elem a' cs' =>
      R a a' /\ (fix go (l l' : list elem) : Prop :=
                   match l, l' with
                   | [], [] => True
                   | x :: l1, y :: l2 => elem_rel R x y /\ go l1 l2
                   | _, _ => False
                   end) cs cs'
  end.
Lemma elem_rel_node R a cs a' cs' : elem_rel R (Elem a cs) (Elem a' cs') <-> R a a' /\ Forall2 (elem_rel R) cs cs'.
Proof.
  cbn [elem_rel]. split; intros [H1 H2]; (split; [exact H1|]).
  - revert cs' H2. induction cs as [|x cs IH]; intros [|y cs'] H2; try contradiction; constructor; [tauto | apply IH; tauto].
  - induction H2; [exact I | split; assumption].
Qed.
Lemma elem_rel_map_attrs f e : elem_rel (fun a a' => a' = f a) e (map_attrs f e).
Proof.
  induction e as [a cs IH] using elem_ind2. cbn [map_attrs]. apply elem_rel_node. split; [reflexivity|].
  induction cs as [|x cs IHcs]; [constructor|]. inversion IH; subst. cbn [map]. constructor; auto.
Qed.
Lemma elem_rel_same (R : attrs -> attrs -> Prop) e : (forall a, R a a) -> elem_rel R e e.
Proof.
  intros H. induction e as [a cs IH] using elem_ind2. apply elem_rel_node. split; [apply H|].
  induction cs as [|x cs IHcs]; [constructor|]. inversion IH; subst. constructor; auto.
Qed.
Lemma elem_rel_impl (R S : attrs -> attrs -> Prop) e : (forall a b, R a b -> S a b) -> forall e', elem_rel R e e' -> elem_rel S e e'.
Proof.
  intros H. induction e as [a cs IH] using elem_ind2. intros [a' cs'] Hr. apply elem_rel_node in Hr as [Ha Hcs]. apply elem_rel_node.
  split; [apply H, Ha|]. clear Ha. revert cs' Hcs. induction cs as [|x cs IHcs]; intros cs' Hcs; inversion Hcs; subst; [constructor|].
  inversion IH; subst. constructor; auto.
Qed.
Lemma elem_rel_comp (R S : attrs -> attrs -> Prop) e : forall e' e'', elem_rel R e e' -> elem_rel S e' e'' ->
  elem_rel (fun a c => exists b, R a b /\ S b c) e e''.
Proof.
  induction e as [a cs IH] using elem_ind2. intros [a' cs'] [a'' cs''] H1 H2.
  apply elem_rel_node in H1 as [Ha1 H1]. apply elem_rel_node in H2 as [Ha2 H2]. apply elem_rel_node. split; [eauto|].
  clear Ha1 Ha2. revert cs' cs'' H1 H2. induction cs as [|x cs IHcs]; intros cs' cs'' H1 H2; inversion H1; subst; inversion H2; subst; [constructor|].
  inversion IH; subst. constructor; eauto.
Qed.
Lemma elem_rel_apply_bg col e : elem_rel (bg_rel col) e (apply_bg col e).
Proof.
  induction e as [a cs IH] using elem_ind2. cbn [apply_bg].
  assert (Forall2 (elem_rel (bg_rel col)) cs (map (apply_bg col) cs)) as Hm.
  { induction cs as [|x cs IHcs]; [constructor|]. inversion IH; subst. cbn [map]. constructor; auto. }
  destruct (e_kind a) eqn:Ek; apply elem_rel_node; try (split; [left; reflexivity | exact Hm]).
  split; [right; split; [exact Ek | reflexivity]|].
  clear. induction cs; constructor; [apply elem_rel_same; intros; left; reflexivity | assumption].
Qed.
Lemma elem_rel_set_root p v e : elem_rel (root_rel p v) e (set_root_style p v e).
Proof.
  destruct e as [a cs]. cbn [set_root_style]. apply elem_rel_node. split; [right; reflexivity|].
  induction cs; constructor; [apply elem_rel_same; intros; left; reflexivity | assumption].
Qed.

Definition obody_rel (R : attrs -> attrs -> Prop) (b b' : option elem) : Prop :=
  match b, b' with Some x, Some y => elem_rel R x y | None, None => True | _, _ => False end.

Theorem lcd_body_tree c d d' : lcd c d = Ok d' ->
  exists out, lcd_regions c d (keep_styles c (d_initials d)) (d_regions d) [] = Ok out /\
              d_regions d' = retained_of out /\ d_initials d' = keep_styles c (d_initials d) /\
              obody_rel (body_rel c (replaced_of out)) (d_body d) (d_body d').
Proof.
  intros H. apply lcd_ok_inv in H as [out [Ho ->]]. exists out. split; [exact Ho|]. split; [reflexivity|]. split; [reflexivity|].
  cbn [d_body]. unfold obody_rel, body_pipeline. cbv zeta.
  destruct (d_body d) as [b|]; cbn [option_map].
  - set (al := replaced_of out) in *.
    set (b1 := clear_elem (map fst al) (redirect_elem al (anim_elem (style_elem c b)))) in *.
    assert (elem_rel (fun a a' => a' = body_base c al a) b b1) as F1.
    { unfold b1, clear_elem, redirect_elem, anim_elem, style_elem. rewrite !map_attrs_compose. apply elem_rel_map_attrs. }
    assert (exists b4, (match c_bg c with Some col => Some (apply_bg col b1) | None => Some b1 end) = Some b4 /\
              elem_rel (fun a a4 => a4 = body_base c al a \/ exists col, c_bg c = Some col /\ e_kind a = KP /\
                                                             a4 = set_style (body_base c al a) p_BackgroundColor (VColor col)) b b4) as [b4 [E4 F4]].
    { destruct (c_bg c) as [col|]; eexists; (split; [reflexivity|]).
      - pose proof (elem_rel_comp _ _ _ _ _ F1 (elem_rel_apply_bg col b1)) as F. eapply elem_rel_impl; [|exact F].
        intros a a4 [x [-> [-> | [Hk ->]]]]; [left; reflexivity|]. right. exists col. rewrite kind_body_base in Hk. auto.
      - eapply elem_rel_impl; [|exact F1]. intros a a4 ->. left. reflexivity. }
    rewrite E4.
    assert (exists b5, (match c_color c with Some col => option_map (set_root_style p_Color (VColor col)) (Some b4) | None => Some b4 end) = Some b5 /\
              elem_rel (fun a4 a5 => a5 = a4 \/ exists col, c_color c = Some col /\ a5 = set_style a4 p_Color (VColor col)) b4 b5) as [b5 [E5 F5]].
    { destruct (c_color c) as [col|]; cbn [option_map]; eexists; (split; [reflexivity|]).
      - eapply elem_rel_impl; [|apply elem_rel_set_root]. intros a4 a5 [-> | ->]; [left; reflexivity | right; exists col; auto].
      - apply elem_rel_same. intros; left; reflexivity. }
    rewrite E5.
    assert (exists b6, (if c_pta c then Some b5 else option_map (set_root_style p_TextAlign (VEnum e_TextAlignType_center)) (Some b5)) = Some b6 /\
              elem_rel (fun a5 a6 => a6 = a5 \/ (c_pta c = false /\ a6 = set_style a5 p_TextAlign (VEnum e_TextAlignType_center))) b5 b6) as [b6 [E6 F6]].
    { destruct (c_pta c); cbn [option_map]; eexists; (split; [reflexivity|]).
      - apply elem_rel_same. intros; left; reflexivity.
      - eapply elem_rel_impl; [|apply elem_rel_set_root]. intros a5 a6 [-> | ->]; [left; reflexivity | right; auto]. }
    rewrite E6.
    pose proof (elem_rel_comp _ _ _ _ _ (elem_rel_comp _ _ _ _ _ F4 F5) F6) as F.
    eapply elem_rel_impl; [|exact F]. intros a a' [a5 [[a4 [H4 H5]] H6]]. exists a4, a5. auto.
  - destruct (c_bg c), (c_color c), (c_pta c); exact I.
Qed.
