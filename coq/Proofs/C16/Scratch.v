From TT Require Import Model.Doc Gen.StyleTables Model.Isd Model.Lcd Spec.LcdSpec Proofs.Common.ElemInd Proofs.C16.Basics.
Lemma compute_origin_shape d par st st' : compute_prop d par st p_Origin = Ok st' -> exists v, st' = sset st p_Origin v.
Proof.
  unfold compute_prop.
  change (p_Origin =? p_FontSize) with false. change (p_Origin =? p_Extent) with false. change (p_Origin =? p_Origin) with true.
  cbv iota.
  destruct (sget st p_Origin) as [[]|]; try discriminate.
  destruct (compute_length y _ _ _ _); cbn [bind]; [|discriminate].
  destruct (compute_length x _ _ _ _); cbn [bind]; [|discriminate].
  intros H. inversion H. eexists. reflexivity.
Qed.
