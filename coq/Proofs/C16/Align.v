(* C16: "... or preserved alignment": with preserve_text_align the text alignment of every element of the body, in every
   region that shows it, is the same before and after the filter — the static cascade of Spec/LcdSpec.v computed_align (nearest
   specified tts:textAlign going up, else the region's, else the initial value).  This is what fix 2d34128 made true: regions
   are merged only when their own tts:textAlign is the same. *)
From TT Require Import Model.Doc Gen.StyleTables Model.Isd Model.Lcd Spec.IsdSpec Spec.LcdSpec Model.LcdCases
  Proofs.Common.ElemInd Proofs.C16.Basics Proofs.C16.Prov Proofs.C16.Static Proofs.C16.Refs Proofs.C16.Idem Proofs.C16.Tree
  Proofs.C16.Chains Proofs.C16.Counting Proofs.C16.Alias Proofs.C16.Timeline1 Proofs.C16.Timeline2 Proofs.C16.Timeline3 Proofs.C16.Total Proofs.C16.Redirect.

(* ---- tts:textAlign of a region survives the layout steps ------------------------------------------------------------------------ *)
Definition not_layout (q : Z) : Prop := q <> p_Origin /\ q <> p_Extent /\ q <> p_DisplayAlign /\ q <> p_Position.

Lemma region_pre_other d inits st0 st q : not_layout q -> region_pre d inits st0 = Ok st -> sget st q = sget st0 q.
Proof.
  intros [No [Ne [Nd Np]]]. unfold region_pre. intros H.
  set (s0 := if shas st0 p_Extent then st0 else sset st0 p_Extent (init_or inits p_Extent)) in *.
  assert (sget s0 q = sget st0 q) as G0 by (unfold s0; destruct (shas st0 p_Extent); [reflexivity | apply sget_sset_neq; exact Ne]).
  destruct (compute_prop d None s0 p_Extent) as [s1|] eqn:E1; cbn [bind] in H; [|discriminate].
  apply compute_extent_shape in E1 as [ve ->].
  set (s1 := sset s0 p_Extent ve) in *.
  assert (sget s1 q = sget st0 q) as G1 by (unfold s1; rewrite sget_sset_neq by exact Ne; exact G0).
  assert (exists s2, (if shas s1 p_Origin then compute_prop d None s1 p_Origin else Ok s1) = Ok s2 /\ sget s2 q = sget st0 q) as [s2 [E2 G2]].
  { destruct (shas s1 p_Origin).
    - destruct (compute_prop d None s1 p_Origin) as [s2|] eqn:E; [|discriminate]. exists s2. split; [reflexivity|].
      apply compute_origin_shape in E as [v ->]. rewrite sget_sset_neq by exact No. exact G1.
    - exists s1. split; [reflexivity | exact G1]. }
  rewrite E2 in H. cbn [bind] in H.
  assert (exists s3, (if shas s2 p_Position then bind (compute_prop d None s2 p_Position) (fun st' => Ok (sdel st' p_Position)) else Ok s2) = Ok s3 /\
                     sget s3 q = sget st0 q) as [s3 [E3 G3]].
  { destruct (shas s2 p_Position) eqn:Ep.
    - destruct (compute_prop d None s2 p_Position) as [s'|] eqn:E; [|discriminate]. cbn [bind]. exists (sdel s' p_Position).
      split; [reflexivity|]. apply compute_position_shape in E as [v1 [v2 ->]]; [|exact Ep].
      rewrite sget_sdel_other by exact Np. rewrite sget_sset_neq by exact Np. rewrite sget_sset_neq by exact No. exact G2.
    - exists s2. split; [reflexivity | exact G2]. }
  rewrite E3 in H. cbn [bind] in H. inversion H; subst st. clear H.
  destruct (shas s3 p_Origin); [exact G3 | rewrite sget_sset_neq by exact No; exact G3].
Qed.
Lemma region_layout_other c d inits st0 st wm nda q : not_layout q -> region_layout c d inits st0 = Ok (st, wm, nda) -> sget st q = sget st0 q.
Proof.
  intros Hq H. pose proof Hq as [No [Ne [Nd Np]]]. unfold region_layout in H.
  destruct (region_pre d inits st0) as [s|] eqn:Ep; cbn [bind] in H; [|discriminate].
  destruct (new_display_align _ _ s) as [n|]; cbn [bind] in H; [|discriminate]. inversion H; subst. clear H.
  rewrite sget_sset_neq by exact Ne. rewrite sget_sset_neq by exact No. rewrite sget_sset_neq by exact Nd.
  exact (region_pre_other _ _ _ _ _ Hq Ep).
Qed.
Lemma ta_not_layout : not_layout p_TextAlign.
Proof. repeat split; discriminate. Qed.
Lemma supported_ta c : c_pta c = true -> supported c p_TextAlign = true.
Proof. intros H. unfold supported. rewrite H. cbn. destruct (c_color c), (c_bg c); reflexivity. Qed.

(* a processed region has the source region's tts:textAlign (when it is preserved) *)
Lemma region_done_align c d inits r r2 wm nda : c_pta c = true -> region_done c d inits r r2 wm nda ->
  own_align (eattrs r2) = own_align (eattrs r).
Proof.
  intros Hp [st [Hl ->]]. unfold own_align. cbn [eattrs e_styles with_styles].
  rewrite (region_layout_other _ _ _ _ _ _ _ _ ta_not_layout Hl), eattrs_clean. cbn [e_styles rstyle_attrs with_styles anim_attrs with_anims].
  apply sget_keep_rsupported. apply supported_rsupported, supported_ta, Hp.
Qed.

(* ---- aliased regions have the tts:textAlign of their target ------------------------------------------------------------------------ *)
Definition fp_ta (f : fp) : option Z := let '(_, _, _, _, a) := f in a.
Definition src_ta (c : lcd_cfg) (k : elem) : option Z := fp_align c (e_styles (eattrs k)).
Lemma fp_eqb_ta g f : fp_eqb g f = true -> oZ_eqb (fp_ta g) (fp_ta f) = true.
Proof.
  destruct g as [[[[b1 e1] w1] d1] t1], f as [[[[b2 e2] w2] d2] t2]. unfold fp_eqb, fp_ta.
  intros H. apply andb_true_iff in H as [_ H]. exact H.
Qed.
Lemma region_fp_ta c d inits r r2 wm nda : region_done c d inits r r2 wm nda -> fp_ta (region_fp c r r2 wm nda) = src_ta c r.
Proof.
  intros Hd. unfold region_fp, fp_ta, src_ta, fp_align. destruct (c_pta c) eqn:Hp; [|reflexivity].
  pose proof (region_done_align _ _ _ _ _ _ _ Hp Hd) as E. unfold own_align in E. rewrite E. reflexivity.
Qed.

Lemma loop_alias_ta c d inits ret rs out : loop_rel c d inits ret rs out ->
  forall K, (forall f t, In (f, t) ret -> exists k, In k K /\ rid (eattrs k) = t /\ fp_ta f = src_ta c k) ->
  forall r r2 t, In (r, (r2, Some t)) (combine rs out) ->
  exists k, In k (K ++ kept_src rs out) /\ rid (eattrs k) = t /\ oZ_eqb (src_ta c k) (src_ta c r) = true.
Proof.
  intros H. induction H; intros K HK x x2 u Hi.
  - destruct Hi.
  - cbn [combine] in Hi. destruct Hi as [Hi|Hi]; [inversion Hi|].
    destruct (IHloop_rel (K ++ [r])) with (r := x) (r2 := x2) (t := u) as [k [Hk [Hid Ht]]].
    + intros f t [Hf|Hf].
      * inversion Hf; subst. exists r. split; [apply in_or_app; right; left; reflexivity|]. split; [reflexivity|].
        exact (region_fp_ta _ _ _ _ _ _ _ H).
      * destruct (HK _ _ Hf) as [k [Hk Hr]]. exists k. split; [apply in_or_app; left; exact Hk | exact Hr].
    + exact Hi.
    + exists k. cbn [kept_src]. rewrite <- app_assoc in Hk. cbn [app] in Hk. auto.
  - cbn [combine] in Hi. destruct Hi as [Hi|Hi].
    + inversion Hi; subst. apply lookup_fp_inv in H0 as [g [Hg He]]. destruct (HK _ _ Hg) as [k [Hk [Hid Ht]]].
      exists k. split; [apply in_or_app; left; exact Hk|]. split; [exact Hid|].
      apply fp_eqb_ta in He. rewrite Ht, (region_fp_ta _ _ _ _ _ _ _ H) in He. exact He.
    + destruct (IHloop_rel K HK _ _ _ Hi) as [k [Hk Hr]]. exists k. cbn [kept_src]. auto.
Qed.

(* region tts:textAlign values are enumeration members (style_properties.py TextAlign.validate) *)
Definition ta_typed (d : doc) : Prop :=
  forall r, In r (d_regions d) -> match own_align (eattrs r) with Some (VEnum _) | None => True | Some _ => False end.
Lemma src_ta_eq c x y : c_pta c = true ->
  match own_align (eattrs x) with Some (VEnum _) | None => True | Some _ => False end ->
  match own_align (eattrs y) with Some (VEnum _) | None => True | Some _ => False end ->
  oZ_eqb (src_ta c x) (src_ta c y) = true -> own_align (eattrs x) = own_align (eattrs y).
Proof.
  unfold src_ta, fp_align, own_align. intros ->.
  destruct (sget (e_styles (eattrs x)) p_TextAlign) as [[]|], (sget (e_styles (eattrs y)) p_TextAlign) as [[]|]; cbn; try tauto; try discriminate.
  intros _ _ E. apply Z.eqb_eq in E. subst. reflexivity.
Qed.

Lemma rid_inj l a b : NoDup (rids l) -> In a l -> In b l -> rid (eattrs a) = rid (eattrs b) -> a = b.
Proof.
  unfold rids. induction l as [|x l IH]; intros Hn Ha Hb E; [destruct Ha|]. cbn [map] in Hn. inversion Hn as [|? ? Hx Hn']; subst.
  destruct Ha as [->|Ha], Hb as [->|Hb]; [reflexivity| | |exact (IH Hn' Ha Hb E)]; exfalso; apply Hx.
  - rewrite E. apply (in_map (fun r => rid (eattrs r))). exact Hb.
  - rewrite <- E. apply (in_map (fun r => rid (eattrs r))). exact Ha.
Qed.

(* ---- the body ------------------------------------------------------------------------------------------------------------------------ *)
Lemma body_rel_align c al a a' : c_pta c = true -> body_rel c al a a' -> own_align a' = own_align a.
Proof.
  intros Hp [a4 [a5 [H4 [H5 H6]]]]. unfold own_align.
  assert (sget (e_styles a4) p_TextAlign = sget (e_styles a) p_TextAlign) as E4.
  { pose proof (styles_body_base c al a) as Eb.
    destruct H4 as [->|[cb [_ [_ ->]]]]; [|cbn [set_style e_styles with_styles]; rewrite sget_sset_neq by discriminate];
      rewrite Eb; apply sget_keep_supported, supported_ta, Hp. }
  assert (sget (e_styles a5) p_TextAlign = sget (e_styles a) p_TextAlign) as E5.
  { destruct H5 as [->|[cc [_ ->]]]; [exact E4|]. cbn [set_style e_styles with_styles]. rewrite sget_sset_neq by discriminate. exact E4. }
  destruct H6 as [->|[Hf _]]; [exact E5 | congruence].
Qed.

Definition al_rel (a a' : attrs) : Prop := e_kind a' = e_kind a /\ own_align a' = own_align a.
Lemma cascade_rel : forall ch ch', Forall2 al_rel ch ch' -> forall inh, cascade_align inh ch' = cascade_align inh ch.
Proof.
  intros ch ch' F. induction F as [|a a' l l' [_ Ha] F IH]; intros inh; [reflexivity|]. cbn [cascade_align]. rewrite Ha. apply IH.
Qed.
Lemma Forall2_firstn {A B} (R : A -> B -> Prop) l m : Forall2 R l m -> forall n, Forall2 R (firstn n l) (firstn n m).
Proof. intros F. induction F; intros [|n]; cbn [firstn]; constructor; auto. Qed.

(* the clause: region x of the source and the region x' of the result that stands for it (rid x' = f (rid x)) give every element of
   the body — every prefix of every chain — the same computed alignment *)
Definition align_kept (f : text -> text) (d d' : doc) : Prop :=
  forall b b' x x', d_body d = Some b -> d_body d' = Some b' -> In x (d_regions d) -> In x' (d_regions d') ->
    rid (eattrs x') = f (rid (eattrs x)) ->
    Forall2 (fun ch ch' => forall n, computed_align d' (eattrs x') (firstn n ch') = computed_align d (eattrs x) (firstn n ch)) (chains b) (chains b').

Theorem align_thm c d d' : lcd c d = Ok d' -> c_pta c = true -> regions_have_ids d -> NoDup (rids (d_regions d)) -> refs_in_doc d -> ta_typed d ->
  exists f, body_mapped f d d' /\ alias_ok f d d' /\ align_kept f d d'.
Proof.
  intros H Hp Hids Hnd Hrefs Hty.
  destruct (lcd_body_tree _ _ _ H) as [out [Ho [Er [Ei Hbody]]]].
  pose proof (lcd_regions_rel _ _ _ _ _ _ Ho) as L. exists (alias_of (replaced_of out)).
  (* the first two clauses are C16_redirected for the same function *)
  assert (body_mapped (alias_of (replaced_of out)) d d' /\ alias_ok (alias_of (replaced_of out)) d d') as [Hbm Hal].
  { split.
    - unfold body_mapped. destruct (d_body d) as [b|] eqn:Eb, (d_body d') as [b'|]; cbn [obody_rel] in Hbody; try contradiction; [|exact I].
      eapply elem_rel_to_shape; [|exact Hbody]. intros a a' Ha Hrel. apply (body_rel_tl c d out L Hnd Hrefs); [|exact Hrel].
      unfold body_attrs. rewrite Eb. exact Ha.
    - intros x Hx. rewrite Er, (rids_retained _ _ _ _ _ _ L).
      destruct (combine_has _ out x (proj1 (loop_combine _ _ _ _ _ _ L)) Hx) as [[x2 tag] Hpr].
      pose proof (lookup_alias _ _ _ _ _ _ L Hnd _ _ _ Hpr) as El. split.
      + intros Hin. unfold rids in Hin. apply in_map_iff in Hin as [k [Ek Hk]]. apply kept_src_sub in Hk as [k2 Hk].
        pose proof (lookup_alias _ _ _ _ _ _ L Hnd _ _ _ Hk) as Elk. rewrite Ek in Elk. unfold alias_of. rewrite Elk. reflexivity.
      + unfold alias_of. rewrite El. destruct tag as [u|].
        * destruct (loop_alias_timing _ _ _ _ _ _ L [] (fun f t0 (Hf : In (f, t0) []) => match Hf with end) _ _ _ Hpr) as [k [Hk [Hid Ht]]].
          cbn [app] in Hk. exists k. split; [exact (kept_src_in _ _ _ Hk)|]. split; [exact Hid|]. split; [|exact Ht].
          rewrite <- Hid. apply (in_map (fun r => rid (eattrs r))). exact Hk.
        * exists x. split; [exact Hx|]. split; [reflexivity|]. split; [|apply time_eqb_refl].
          apply (in_map (fun r => rid (eattrs r))). exact (combine_kept _ _ _ _ Hpr). }
  split; [exact Hbm|]. split; [exact Hal|].
  intros b b' x x' Eb Eb' Hx Hx' Hid. rewrite Eb, Eb' in Hbody. cbn [obody_rel] in Hbody.
  (* the region: x' is the processed form of a source region r0 whose id is the alias of x's, and r0 has x's textAlign *)
  destruct (lcd_region_prov _ _ _ _ H Hx') as [r0 [wm [nda [Hr0 Hd0]]]].
  pose proof (region_done_align _ _ _ _ _ _ _ Hp Hd0) as Ea0.
  assert (rid (eattrs x') = rid (eattrs r0)) as Eid0 by (unfold rid; rewrite (proj1 (region_done_id _ _ _ _ _ _ _ Hd0)); reflexivity).
  assert (own_align (eattrs r0) = own_align (eattrs x)) as Ereg.
  { destruct (combine_has _ out x (proj1 (loop_combine _ _ _ _ _ _ L)) Hx) as [[x2 tag] Hpr].
    pose proof (lookup_alias _ _ _ _ _ _ L Hnd _ _ _ Hpr) as El. unfold alias_of in Hid. rewrite El in Hid.
    destruct tag as [u|].
    - destruct (loop_alias_ta _ _ _ _ _ _ L [] (fun f t0 (Hf : In (f, t0) []) => match Hf with end) _ _ _ Hpr) as [k [Hk [Hidk Hta]]].
      cbn [app] in Hk. apply kept_src_in in Hk.
      assert (k = r0) as -> by (apply (rid_inj _ _ _ Hnd Hk Hr0); congruence).
      exact (src_ta_eq c r0 x Hp (Hty _ Hr0) (Hty _ Hx) Hta).
    - assert (r0 = x) as -> by (apply (rid_inj _ _ _ Hnd Hr0 Hx); congruence). reflexivity. }
  (* the initial value *)
  assert (initial_align d' = initial_align d) as Einit.
  { unfold initial_align. rewrite Ei, (sget_keep_supported _ _ _ (supported_ta _ Hp)). reflexivity. }
  (* the chains *)
  assert (shape_rel al_rel b b') as Hshape.
  { eapply elem_rel_to_shape; [|exact Hbody]. intros a a' _ Hrel. split; [exact (proj1 (body_rel_skeleton _ _ _ _ Hrel)) | exact (body_rel_align _ _ _ _ Hp Hrel)]. }
  pose proof (chains_rel al_rel (fun a a' Hr => proj1 Hr) _ _ Hshape) as Hch.
  eapply Forall2_impl; [|exact Hch]. intros ch ch' F n. unfold computed_align.
  rewrite (cascade_rel _ _ (Forall2_firstn _ _ _ F n)), Ea0, Ereg, Einit. reflexivity.
Qed.

(* ---- computed_align is C03's specification value ---------------------------------------------------------------------------------------
   For a chain without tts:textAlign animation, computed_align is `plain d t p_TextAlign` of Spec/StyleSpec.v — the value that C03
   (C03_plain_value, C03_snapshot_styles) proves the snapshot model computes for the element at the head of the chain. *)
From TT Require Import Spec.StyleSpec.
Definition static_ta (a : attrs) : Prop := forall s, In s (e_anims a) -> a_prop s <> p_TextAlign.
Lemma last_step_none t iv p : forall l acc, (forall s, In s l -> a_prop s <> p) -> last_step t iv p l acc = acc.
Proof.
  induction l as [|s l IH]; intros acc H; [reflexivity|]. cbn [last_step].
  assert ((a_prop s =? p) = false) as E by (apply Z.eqb_neq, H; left; reflexivity). rewrite E. cbn [andb].
  apply IH. intros x Hx. apply H. right. exact Hx.
Qed.
Lemma specified_static_ta t a iv : static_ta a -> specified t (a, iv) p_TextAlign = own_align a.
Proof. intros H. unfold specified. cbn [fst snd]. rewrite (last_step_none _ _ _ _ _ H). reflexivity. Qed.
Lemma cascade_app inh l x : cascade_align inh (l ++ [x]) = match own_align x with Some v => Some v | None => cascade_align inh l end.
Proof. revert inh. induction l as [|a l IH]; intros inh; [reflexivity|]. cbn [app cascade_align]. apply IH. Qed.

Theorem align_is_plain d t r riv : e_kind r = KRegion -> static_ta r ->
  forall links : list link, (forall x, In x links -> e_kind (fst x) <> KRegion /\ static_ta (fst x)) ->
  plain d t p_TextAlign (rev links ++ [(r, riv)]) = computed_align d r (map fst links).
Proof.
  intros Hk Hs links. unfold computed_align. induction links as [|x links IH] using rev_ind; intros H.
  - cbn [rev app plain map cascade_align]. rewrite (specified_static_ta t r riv Hs). unfold is_region. cbn [fst]. rewrite Hk. cbn [kind_eqb negb andb].
    rewrite andb_false_r. reflexivity.
  - rewrite rev_app_distr. cbn [rev app]. rewrite map_app. cbn [map]. rewrite cascade_app.
    assert (In x (links ++ [x])) as Hinx by (apply in_or_app; right; left; reflexivity).
    destruct (H x Hinx) as [Hxk Hxs].
    cbn [plain]. destruct x as [xa xiv]. cbn [fst] in *. rewrite (specified_static_ta t xa xiv Hxs).
    destruct (own_align xa); [reflexivity|].
    assert (is_region (xa, xiv) = false) as Er by (unfold is_region; cbn [fst]; destruct (e_kind xa); try reflexivity; congruence).
    rewrite Er. change (inheritable p_TextAlign) with true. cbn [negb andb].
    destruct (rev links ++ [(r, riv)]) eqn:El; [destruct (rev links); discriminate|].
    apply IH. intros y Hy. apply H. apply in_or_app. left. exact Hy.
Qed.
