(* C16: after the filter every region reference names a region that is still there. *)
From TT Require Import Model.Doc Gen.StyleTables Model.Isd Model.Lcd Spec.LcdSpec Model.LcdCases
  Proofs.Common.ElemInd Proofs.C16.Basics Proofs.C16.Prov.

Definition rids (l : list elem) : list text := map (fun r => rid (eattrs r)) l.

Lemma region_done_id c d inits r r2 wm nda : region_done c d inits r r2 wm nda ->
  e_id (eattrs r2) = e_id (eattrs r) /\ e_begin (eattrs r2) = e_begin (eattrs r) /\ e_end (eattrs r2) = e_end (eattrs r).
Proof. intros [st [_ ->]]. rewrite eattrs_clean. cbn. auto. Qed.

Lemma lookup_fp_In ret f t : lookup_fp ret f = Some t -> In t (map snd ret).
Proof.
  induction ret as [|[g u] ret IH]; cbn [lookup_fp map snd]; [discriminate|].
  destruct (fp_eqb g f); [intros H; inversion H; left; reflexivity | intros H; right; exact (IH H)].
Qed.

(* every alias target is a retained region (or was retained before the loop started) *)
Lemma loop_targets c d inits ret rs out : loop_rel c d inits ret rs out ->
  forall r2 t, In (r2, Some t) out -> In t (map snd ret) \/ In t (rids (retained_of out)).
Proof.
  intros H. induction H; intros x u Hi.
  - destruct Hi.
  - destruct Hi as [Hi|Hi]; [discriminate|]. destruct (IHloop_rel _ _ Hi) as [Ht|Ht].
    + cbn [map snd] in Ht. destruct Ht as [<-|Ht]; [|left; exact Ht]. right. unfold retained_of, rids. cbn [flat_map snd fst app map].
      left. unfold rid. rewrite (proj1 (region_done_id _ _ _ _ _ _ _ H)). reflexivity.
    + right. unfold retained_of, rids in *. cbn [flat_map snd fst app map]. right. exact Ht.
  - destruct Hi as [Hi|Hi].
    + inversion Hi; subst. left. exact (lookup_fp_In _ _ _ H0).
    + destruct (IHloop_rel _ _ Hi) as [Ht|Ht]; [left; exact Ht | right; exact Ht].
Qed.
Lemma loop_ids c d inits ret rs out : loop_rel c d inits ret rs out -> rids (map fst out) = rids rs.
Proof.
  intros H. unfold rids. induction H; cbn [map fst]; [reflexivity| |];
    (f_equal; [unfold rid; rewrite (proj1 (region_done_id _ _ _ _ _ _ _ H)); reflexivity | exact IHloop_rel]).
Qed.
(* an entry of out is retained or its id is a key of the alias list *)
Lemma out_split out x : In x out -> In (fst x) (retained_of out) \/ In (rid (eattrs (fst x))) (map fst (replaced_of out)).
Proof.
  induction out as [|[y o] out IH]; [intros []|]. intros [<-|Hi].
  - destruct o as [t|]; unfold retained_of, replaced_of; cbn [flat_map snd fst app map]; [right; left; reflexivity | left; left; reflexivity].
  - destruct (IH Hi) as [H|H]; unfold retained_of, replaced_of in *; cbn [flat_map snd fst];
      [left; apply in_or_app; right; exact H | right; rewrite map_app; apply in_or_app; right; exact H].
Qed.
Lemma In_replaced_of out k t : In (k, t) (replaced_of out) -> exists r2, In (r2, Some t) out.
Proof.
  unfold replaced_of. intros H. apply in_flat_map in H as [[r2 o] [Hi Hx]]. cbn [snd fst] in Hx.
  destruct o as [u|]; [|destruct Hx]. destruct Hx as [Hx|[]]. inversion Hx; subst. exists r2. exact Hi.
Qed.
Lemma lookup_id_In al r t : lookup_id al r = Some t -> In (r, t) al.
Proof.
  induction al as [|[k u] al IH]; cbn [lookup_id]; [discriminate|].
  destruct (text_eqb k r) eqn:E; [apply text_eqb_eq in E; subst; intros H; inversion H; left; reflexivity | intros H; right; exact (IH H)].
Qed.
Lemma mem_id_false k l : mem_id k l = false -> ~ In k l.
Proof.
  unfold mem_id. intros H Hi. assert (existsb (text_eqb k) l = true) as E; [|congruence].
  apply existsb_exists. exists k. split; [exact Hi | apply text_eqb_eq; reflexivity].
Qed.

(* well-formedness of the source (C15): regions have ids, references name regions of the document *)
Definition regions_have_ids (d : doc) : Prop := forall r, In r (d_regions d) -> exists i, e_id (eattrs r) = Some i.
Definition refs_in_doc (d : doc) : Prop :=
  forall a r, In a (body_attrs d) -> e_region a = Some r -> exists reg, In reg (d_regions d) /\ e_id (eattrs reg) = Some r.

Lemma region_body_base c al a : e_region (body_base c al a) =
  match e_region a with
  | Some r => let x := match lookup_id al r with Some t => t | None => r end in
              if mem_id x (map fst al) then None else Some x
  | None => None
  end.
Proof.
  unfold body_base, clear_attrs, redirect_attrs.
  change (e_region (anim_attrs (style_attrs c a))) with (e_region a).
  destruct (e_region a) as [r|] eqn:Er.
  - destruct (lookup_id al r) as [t|] eqn:El.
    + cbn [e_region with_region]. destruct (mem_id t (map fst al)); reflexivity.
    + change (e_region (anim_attrs (style_attrs c a))) with (e_region a). rewrite Er.
      destruct (mem_id r (map fst al)); [reflexivity|].
      change (e_region (anim_attrs (style_attrs c a))) with (e_region a). exact Er.
  - change (e_region (anim_attrs (style_attrs c a))) with (e_region a). rewrite Er.
    change (e_region (anim_attrs (style_attrs c a))) with (e_region a). exact Er.
Qed.
Lemma body_rel_region c al a a' : body_rel c al a a' -> e_region a' = e_region (body_base c al a).
Proof.
  intros [a4 [a5 [H4 [H5 H6]]]].
  assert (e_region a4 = e_region (body_base c al a)) as E4 by (destruct H4 as [->|[col [_ [_ ->]]]]; reflexivity).
  assert (e_region a5 = e_region (body_base c al a)) as E5 by (destruct H5 as [->|[col [_ ->]]]; [exact E4 | cbn; exact E4]).
  destruct H6 as [->|[_ ->]]; [exact E5 | cbn; exact E5].
Qed.

Theorem refs_resolved_thm c d d' : lcd c d = Ok d' -> regions_have_ids d -> refs_in_doc d -> refs_resolved d'.
Proof.
  intros H Hids Hrefs a' x Ha' Hx.
  destruct (lcd_body_prov _ _ _ H) as [out [Ho [Er [_ F]]]].
  pose proof (lcd_regions_rel _ _ _ _ _ _ Ho) as L.
  destruct (Forall2_In_r _ _ _ _ F Ha') as [a [Ha Hrel]].
  rewrite (body_rel_region _ _ _ _ Hrel), region_body_base in Hx.
  destruct (e_region a) as [r|] eqn:Era; [|discriminate]. cbv zeta in Hx.
  set (al := replaced_of out) in *.
  destruct (mem_id _ (map fst al)) eqn:Em; [discriminate|]. inversion Hx as [Ex]. clear Hx.
  apply mem_id_false in Em. rewrite Ex in Em.
  (* x is the id of a retained region *)
  assert (In x (rids (retained_of out))) as Hin.
  { destruct (lookup_id al r) as [t|] eqn:El.
    - subst x. apply lookup_id_In in El. apply In_replaced_of in El as [r2 Hi].
      destruct (loop_targets _ _ _ _ _ _ L _ _ Hi) as [[]|Ht]. exact Ht.
    - subst x. destruct (Hrefs _ _ Ha Era) as [reg [Hreg Hid]].
      assert (In r (rids (d_regions d))) as Hr by (apply in_map_iff; exists reg; split; [unfold rid; rewrite Hid; reflexivity | exact Hreg]).
      rewrite <- (loop_ids _ _ _ _ _ _ L) in Hr. unfold rids in Hr. rewrite map_map in Hr. apply in_map_iff in Hr as [y [Ey Hy]].
      destruct (out_split _ _ Hy) as [Hk|Hk]; [|rewrite Ey in Hk; contradiction].
      apply in_map_iff. exists (fst y). split; [exact Ey | exact Hk]. }
  unfold rids in Hin. apply in_map_iff in Hin as [reg [Ereg Hreg]].
  exists reg. rewrite Er. split; [exact Hreg|].
  (* its id is not None *)
  assert (In reg (d_regions d')) as Hreg' by (rewrite Er; exact Hreg).
  destruct (lcd_region_prov _ _ _ _ H Hreg') as [r0 [wm [nda [Hr0 Hd]]]].
  destruct (Hids _ Hr0) as [i Hi]. unfold rid in Ereg. rewrite (proj1 (region_done_id _ _ _ _ _ _ _ Hd)), Hi in *. congruence.
Qed.
