(* C16 timeline, part 5: nested conflicts along a chain, and how many regions show a chain before and after. *)
From Coq Require Import Permutation.
From TT Require Import Model.Doc Gen.StyleTables Model.Isd Model.Lcd Spec.IsdSpec Spec.LcdSpec Model.LcdCases
  Proofs.Common.ElemInd Proofs.C16.Basics Proofs.C16.Prov Proofs.C16.Static Proofs.C16.Refs Proofs.C16.Idem Proofs.C16.Tree
  Proofs.C16.Chains Proofs.C16.Counting Proofs.C16.Alias Proofs.C16.Timeline1.

(* ---- the nested-conflict trigger, chain by chain ------------------------------------------------------------------------ *)
Definition here_conflict (al : list (text * text)) (a : attrs) (inh : option text) : bool :=
  match e_region a, inh with
  | Some r, Some i => negb (text_eqb r i) && text_eqb (alias_of al r) (alias_of al i)
  | _, _ => false
  end.
Fixpoint chain_noconf (al : list (text * text)) (inh : option text) (ch : list attrs) : bool :=
  match ch with
  | [] => true
  | a :: c' => negb (here_conflict al a inh) && chain_noconf al (assoc_of a inh) c'
  end.
Lemma nested_chains al : forall e inh, nested_conflict al inh e = false -> forall ch, In ch (chains e) -> chain_noconf al inh ch = true.
Proof.
  induction e as [a cs IH] using elem_ind2. intros inh H ch Hch. cbn [nested_conflict] in H.
  apply orb_false_iff in H as [Hh Hcs]. fold (here_conflict al a inh) in Hh. fold (assoc_of a inh) in Hcs.
  cbn [chains] in Hch.
  assert (forall l, In l ((fix go (l : list elem) : list (list attrs) := match l with [] => [] | x :: l' => chains x ++ go l' end) cs) ->
                    chain_noconf al (assoc_of a inh) l = true) as Hm.
  { clear Hch ch. induction cs as [|x cs IHcs]; intros l Hl; [destruct Hl|]. inversion IH; subst. cbn [existsb] in Hcs.
    apply orb_false_iff in Hcs as [Hx Hr]. apply in_app_or in Hl as [Hl|Hl]; [eauto | eauto]. }
  destruct (e_kind a);
    try (apply in_map_iff in Hch as [l [<- Hl]]; cbn [chain_noconf]; rewrite Hh, (Hm _ Hl); reflexivity);
    (destruct Hch as [<-|[]]; cbn [chain_noconf]; rewrite Hh; reflexivity).
Qed.

(* if the aliases of the references along a chain are all equal, so are the references *)
Lemma noconf_some al i : forall ch, chain_noconf al (Some i) ch = true ->
  all_eq (alias_of al i) (map (alias_of al) (refs ch)) = true -> all_eq i (refs ch) = true.
Proof.
  induction ch as [|a c' IH]; intros Hn Ha; [reflexivity|]. unfold refs in *. cbn [chain_noconf flat_map] in *.
  apply andb_true_iff in Hn as [Hh Hn]. unfold here_conflict, assoc_of in *.
  destruct (e_region a) as [r|]; cbn [app map all_eq forallb] in *; [|exact (IH Hn Ha)].
  apply andb_true_iff in Ha as [Ha1 Ha2]. rewrite (teqb_sym (alias_of al r)), Ha1, andb_true_r in Hh.
  apply negb_true_iff, negb_false_iff in Hh. apply text_eqb_eq in Hh. subst r. rewrite teqb_refl. cbn [andb]. exact (IH Hn Ha2).
Qed.
Lemma noconf_none al : forall ch, chain_noconf al None ch = true ->
  match refs ch with
  | [] => True
  | r :: rest => all_eq (alias_of al r) (map (alias_of al) rest) = true -> all_eq r rest = true
  end.
Proof.
  induction ch as [|a c' IH]; intros Hn; [exact I|]. unfold refs in *. cbn [chain_noconf flat_map] in *.
  apply andb_true_iff in Hn as [_ Hn]. unfold assoc_of in *.
  destruct (e_region a) as [r|]; cbn [app]; [|exact (IH Hn)].
  exact (noconf_some al r c' Hn).
Qed.

Lemma all_eq_head i r rest : all_eq r rest = true -> all_eq i (r :: rest) = text_eqb i r.
Proof.
  intros H. cbn [all_eq forallb]. destruct (text_eqb i r) eqn:E; [|reflexivity]. apply text_eqb_eq in E. subst. exact H.
Qed.
Lemma all_eq_head_false i r rest : all_eq r rest = false -> all_eq i (r :: rest) = false.
Proof.
  intros H. cbn [all_eq forallb]. destruct (text_eqb i r) eqn:E; [|reflexivity]. apply text_eqb_eq in E. subst. exact H.
Qed.
Lemma all_eq_map f r rest : all_eq r rest = true -> all_eq (f r) (map f rest) = true.
Proof.
  unfold all_eq. induction rest as [|x rest IH]; [reflexivity|]. cbn [forallb map]. intros H. apply andb_true_iff in H as [H1 H2].
  apply text_eqb_eq in H1. subst. rewrite teqb_refl. exact (IH H2).
Qed.

(* ---- activity of regions with equal timing --------------------------------------------------------------------------------- *)
Lemma Qle_bool_eq_l x y t : Qeq x y -> Qle_bool x t = Qle_bool y t.
Proof.
  intros H. destruct (Qle_bool x t) eqn:E1, (Qle_bool y t) eqn:E2; try reflexivity.
  - apply Qle_bool_iff in E1. rewrite H in E1. apply Qle_bool_iff in E1. congruence.
  - apply Qle_bool_iff in E2. rewrite <- H in E2. apply Qle_bool_iff in E2. congruence.
Qed.
Lemma act_time_eq t a b : time_eqb (time_of a) (time_of b) = true -> act t a = act t b.
Proof.
  unfold time_eqb, time_of. cbn [fst snd]. intros H.
  apply andb_true_iff in H as [H1 H2]. apply Qeq_bool_iff in H1.
  unfold act, resolve, root_interval, is_active. cbn [fst snd].
  assert (Qeq (0 + match e_begin a with Some x => x | None => 0 end) (0 + match e_begin b with Some x => x | None => 0 end))%Q as Eb
    by (unfold or0 in H1; rewrite H1; reflexivity).
  rewrite (Qle_bool_eq_l _ _ t Eb). f_equal.
  destruct (e_end a) as [x|], (e_end b) as [y|]; cbn [oQ_eqb] in H2; try discriminate; [|reflexivity].
  apply Qeq_bool_iff in H2. cbn [snd]. f_equal. apply Qle_bool_eq_l. rewrite H2. reflexivity.
Qed.

(* ---- kept regions ------------------------------------------------------------------------------------------------------------ *)
Lemma kept_src_in rs out k : In k (kept_src rs out) -> In k rs.
Proof. intros H. apply kept_src_sub in H as [r2 H]. exact (in_combine_l _ _ _ _ H). Qed.
Lemma combine_kept : forall rs out x x2, In (x, (x2, @None text)) (combine rs out) -> In x (kept_src rs out).
Proof.
  induction rs as [|r rs IH]; intros [|[y [u|]] out] x x2 H; cbn [combine kept_src] in *; try destruct H.
  - inversion H.
  - exact (IH _ _ _ H).
  - inversion H; subst. left. reflexivity.
  - right. exact (IH _ _ _ H).
Qed.
Lemma kept_src_nodup : forall rs out, NoDup (rids rs) -> NoDup (rids (kept_src rs out)).
Proof.
  unfold rids. induction rs as [|r rs IH]; intros [|[y [u|]] out] H; cbn [kept_src map]; try constructor.
  - cbn [map] in H. inversion H; subst. exact (IH _ H3).
  - cbn [map] in H. inversion H as [|? ? Hk Hn]; subst. intros Hi. apply Hk. apply in_map_iff in Hi as [k [Ek Hk']].
    apply in_map_iff. exists k. split; [exact Ek | exact (kept_src_in _ _ _ Hk')].
  - cbn [map] in H. inversion H; subst. exact (IH _ H3).
Qed.

Section Count.
  Variables (c : lcd_cfg) (d : doc) (out : list (elem * option text)).
  Hypothesis L : loop_rel c d (keep_styles c (d_initials d)) [] (d_regions d) out.
  Hypothesis Hnd : NoDup (rids (d_regions d)).
  Hypothesis Hids : regions_have_ids d.
  Let al := replaced_of out.
  Let regs := d_regions d.
  Let kept := kept_src regs out.

  Lemma id_some r : In r regs -> e_id (eattrs r) = Some (rid (eattrs r)).
  Proof. intros H. destruct (Hids _ H) as [i Hi]. unfold rid. rewrite Hi. reflexivity. Qed.

  Lemma count_chain t ch ch' :
    Forall2 (tl_rel (alias_of al)) ch ch' -> ch <> [] -> chain_noconf al None ch = true ->
    (forall r, In r (refs ch) -> In r (rids regs)) ->
    length (filter (fun R => act t (eattrs R) && chain_active t root_interval ch && chain_sel (e_id (eattrs R)) None ch) regs) =
    length (filter (fun k => act t (eattrs k) && chain_active t root_interval ch' && chain_sel (e_id (eattrs k)) None ch') kept).
  Proof.
    intros F Hne Hnc Hin. rewrite (tl_chain_active _ t _ _ F).
    assert (ch' <> []) as Hne' by (destruct F; [congruence | discriminate]).
    destruct (chain_active t root_interval ch).
    2:{ rewrite !filter_none; [reflexivity | |]; intros x _; rewrite andb_false_r; reflexivity. }
    pose proof (tl_refs _ _ _ F) as Er'.
    (* rewrite both predicates through the characterisation of chain_sel *)
    rewrite (filter_ext_in _ (fun R => act t (eattrs R) && (negb (is_nil (refs ch)) && all_eq (rid (eattrs R)) (refs ch)))).
    2:{ intros R HR. rewrite andb_true_r, (id_some _ HR). rewrite (proj2 (chain_sel_some _ ch) Hne). reflexivity. }
    rewrite (filter_ext_in (fun k => act t (eattrs k) && true && chain_sel (e_id (eattrs k)) None ch')
                           (fun k => act t (eattrs k) && (negb (is_nil (refs ch')) && all_eq (rid (eattrs k)) (refs ch')))).
    2:{ intros k Hk. rewrite andb_true_r, (id_some _ (kept_src_in _ _ _ Hk)). rewrite (proj2 (chain_sel_some _ ch') Hne'). reflexivity. }
    rewrite Er'. pose proof (noconf_none al ch Hnc) as Hno.
    destruct (refs ch) as [|rho rest] eqn:Erefs.
    { rewrite !filter_none; [reflexivity | |]; intros x _; cbn [map is_nil negb andb]; apply andb_false_r. }
    cbn [map is_nil negb andb].
    assert (In rho (rids regs)) as Hrho by (apply Hin; left; reflexivity).
    unfold rids in Hrho. apply in_map_iff in Hrho as [Rr [Erho HRr]].
    destruct (all_eq rho rest) eqn:Ea.
    - (* all references name rho *)
      rewrite (filter_ext_in _ (fun R => act t (eattrs R) && text_eqb (rid (eattrs R)) (rid (eattrs Rr)))).
      2:{ intros R _. rewrite (all_eq_head _ _ _ Ea), Erho. reflexivity. }
      rewrite (count_unique (fun R => rid (eattrs R)) (fun R => act t (eattrs R)) regs Rr Hnd HRr).
      pose proof (all_eq_map (alias_of al) _ _ Ea) as Ea'.
      destruct (combine_has _ out Rr (proj1 (loop_combine _ _ _ _ _ _ L)) HRr) as [[r2 tag] Hp].
      pose proof (lookup_alias _ _ _ _ _ _ L Hnd _ _ _ Hp) as El. fold al in El. rewrite Erho in El.
      pose proof (kept_src_nodup _ out Hnd) as Hnk. fold regs kept in Hnk.
      destruct tag as [u|].
      + destruct (loop_alias_timing _ _ _ _ _ _ L [] (fun f t0 (H : In (f, t0) []) => match H with end) _ _ _ Hp) as [k [Hk [Hid Ht]]].
        cbn [app] in Hk. fold regs kept in Hk.
        rewrite (filter_ext_in _ (fun x => act t (eattrs x) && text_eqb (rid (eattrs x)) (rid (eattrs k)))).
        2:{ intros x _. rewrite (all_eq_head _ _ _ Ea'). unfold alias_of. rewrite El, Hid. reflexivity. }
        rewrite (count_unique (fun R => rid (eattrs R)) (fun R => act t (eattrs R)) kept k Hnk Hk).
        rewrite (act_time_eq t _ _ Ht). reflexivity.
      + pose proof (combine_kept _ _ _ _ Hp) as Hk. fold regs kept in Hk.
        rewrite (filter_ext_in _ (fun x => act t (eattrs x) && text_eqb (rid (eattrs x)) (rid (eattrs Rr)))).
        2:{ intros x _. rewrite (all_eq_head _ _ _ Ea'). unfold alias_of. rewrite El, Erho. reflexivity. }
        rewrite (count_unique (fun R => rid (eattrs R)) (fun R => act t (eattrs R)) kept Rr Hnk Hk). reflexivity.
    - (* two different references: shown nowhere, before and after *)
      assert (all_eq (alias_of al rho) (map (alias_of al) rest) = false) as Ea'.
      { destruct (all_eq (alias_of al rho) (map (alias_of al) rest)) eqn:E; [|reflexivity]. pose proof (Hno eq_refl) as X. congruence. }
      rewrite !filter_none; [reflexivity | |]; intros x _.
      + rewrite (all_eq_head_false _ _ _ Ea'). apply andb_false_r.
      + rewrite (all_eq_head_false _ _ _ Ea). apply andb_false_r.
  Qed.
End Count.
