(* C16: no animation, style whitelist, safe area — for every document and configuration. *)
From TT Require Import Model.Doc Gen.StyleTables Model.Isd Model.Lcd Spec.LcdSpec Model.LcdCases
  Proofs.Common.ElemInd Proofs.C16.Basics Proofs.C16.Prov.

(* ---- the borrowed style computations only rewrite their own keys ------------------------------------------- *)
Lemma compute_origin_shape d par st st' : compute_prop d par st p_Origin = Ok st' -> exists v, st' = sset st p_Origin v.
Proof.
  unfold compute_prop.
  change (p_Origin =? p_FontSize) with false. change (p_Origin =? p_Extent) with false. change (p_Origin =? p_Origin) with true.
  cbv iota.
  destruct (sget st p_Origin) as [[]|]; try discriminate.
  destruct (compute_length y _ _ _ _); cbn [bind]; [|discriminate].
  destruct (compute_length x _ _ _ _); cbn [bind]; [|discriminate].
  intros H. inversion H. eexists. reflexivity.
Qed.
Lemma compute_extent_shape d par st st' : compute_prop d par st p_Extent = Ok st' -> exists v, st' = sset st p_Extent v.
Proof.
  unfold compute_prop.
  change (p_Extent =? p_FontSize) with false. change (p_Extent =? p_Extent) with true.
  cbv iota.
  destruct (sget st p_Extent) as [[]|]; try discriminate.
  destruct (compute_length h _ _ _ _); cbn [bind]; [|discriminate].
  destruct (compute_length w _ _ _ _); cbn [bind]; [|discriminate].
  intros H. inversion H. eexists. reflexivity.
Qed.
Lemma compute_position_shape d par st st' : compute_prop d par st p_Position = Ok st' -> shas st p_Position = true ->
  exists v1 v2, st' = sset (sset st p_Origin v1) p_Position v2.
Proof.
  unfold compute_prop, shas.
  change (p_Position =? p_FontSize) with false. change (p_Position =? p_Extent) with false.
  change (p_Position =? p_Origin) with false. change (p_Position =? p_Position) with true.
  cbv iota.
  destruct (sget st p_Position) as [[]|]; try discriminate. intros H _.
  destruct (sget st p_Extent) as [[]|]; try discriminate.
  destruct (negb _); [discriminate|].
  destruct (compute_length v _ _ _ _); cbn [bind] in H; [|discriminate].
  destruct (compute_length h _ _ _ _); cbn [bind] in H; [|discriminate].
  inversion H. eexists. eexists. reflexivity.
Qed.

(* st is st0 up to entries under the three layout keys; keys stay unique; tts:position goes away *)
Definition layout_key (p : Z) : Prop := p = p_Origin \/ p = p_Extent \/ p = p_DisplayAlign.
Definition evolved (st0 st : smap) : Prop :=
  (forall kv, In kv st -> layout_key (fst kv) \/ In kv st0) /\ (NoDup (skeys st0) -> NoDup (skeys st)).
Lemma evolved_refl st : evolved st st.
Proof. split; auto. Qed.
Lemma evolved_sset st0 st p v : layout_key p -> evolved st0 st -> evolved st0 (sset st p v).
Proof.
  intros Hp [H1 H2]. split.
  - intros kv Hkv. apply In_sset in Hkv as [->|Hkv]; [left; exact Hp | apply H1, Hkv].
  - intros Hn. apply NoDup_sset, H2, Hn.
Qed.
Lemma no_position_sset st p v : p <> p_Position -> ~ In p_Position (skeys st) -> ~ In p_Position (skeys (sset st p v)).
Proof. intros Hp Hn Hi. apply In_skeys_sset in Hi as [Hi|Hi]; [congruence | exact (Hn Hi)]. Qed.
Lemma In_sdel_sset m p v kv : In kv (sdel (sset m p v) p) -> In kv m.
Proof.
  induction m as [|[k w] m IH]; cbn [sset sdel].
  - rewrite Z.eqb_refl. intros [].
  - destruct (k =? p) eqn:E; cbn [sdel]; rewrite E; [intros H; right; exact H|].
    intros [H|H]; [left; exact H | right; exact (IH H)].
Qed.

Lemma sget_sdel_other m p q : q <> p -> sget (sdel m p) q = sget m q.
Proof.
  intros Hn. induction m as [|[k w] m IH]; [reflexivity|]. cbn [sdel sget].
  destruct (k =? p) eqn:E; cbn [sget].
  - apply Z.eqb_eq in E. subst k. destruct (p =? q) eqn:E2; [apply Z.eqb_eq in E2; congruence | reflexivity].
  - destruct (k =? q); [reflexivity | exact IH].
Qed.

Lemma region_pre_evolved d inits st0 st : region_pre d inits st0 = Ok st ->
  evolved st0 st /\ (NoDup (skeys st0) -> ~ In p_Position (skeys st)) /\
  shas st p_Origin = true /\ shas st p_Extent = true.
Proof.
  unfold region_pre. intros H.
  (* extent: default, then computed *)
  set (s0 := if shas st0 p_Extent then st0 else sset st0 p_Extent (init_or inits p_Extent)) in *.
  assert (evolved st0 s0) as V0.
  { unfold s0. destruct (shas st0 p_Extent); [apply evolved_refl | apply evolved_sset; [right; left; reflexivity | apply evolved_refl]]. }
  destruct (compute_prop d None s0 p_Extent) as [s1|] eqn:E1; cbn [bind] in H; [|discriminate].
  apply compute_extent_shape in E1 as [ve ->].
  set (s1 := sset s0 p_Extent ve) in *.
  assert (evolved st0 s1) as V1 by (apply evolved_sset; [right; left; reflexivity | exact V0]).
  assert (shas s1 p_Extent = true) as X1 by apply shas_sset_eq.
  (* origin *)
  assert (exists s2, (if shas s1 p_Origin then compute_prop d None s1 p_Origin else Ok s1) = Ok s2 /\ evolved st0 s2 /\ shas s2 p_Extent = true)
    as [s2 [E2 [V2 X2]]].
  { destruct (shas s1 p_Origin).
    - destruct (compute_prop d None s1 p_Origin) as [s2|] eqn:E; [|discriminate]. exists s2. split; [reflexivity|].
      apply compute_origin_shape in E as [v ->]. split; [apply evolved_sset; [left; reflexivity | exact V1]|].
      rewrite shas_sset_neq by discriminate. exact X1.
    - exists s1. split; [reflexivity|]. split; [exact V1 | exact X1]. }
  rewrite E2 in H. cbn [bind] in H.
  (* position *)
  assert (exists s3, (if shas s2 p_Position then bind (compute_prop d None s2 p_Position) (fun st' => Ok (sdel st' p_Position)) else Ok s2) = Ok s3 /\
                     evolved st0 s3 /\ (NoDup (skeys st0) -> ~ In p_Position (skeys s3)) /\ shas s3 p_Extent = true) as [s3 [E3 [V3 [P3 X3]]]].
  { destruct (shas s2 p_Position) eqn:Ep.
    - destruct (compute_prop d None s2 p_Position) as [s'|] eqn:E; [|discriminate]. cbn [bind]. exists (sdel s' p_Position).
      split; [reflexivity|]. apply compute_position_shape in E as [v1 [v2 ->]]; [|exact Ep].
      assert (NoDup (skeys st0) -> NoDup (skeys (sset (sset s2 p_Origin v1) p_Position v2))) as N3
        by (intros Hn; apply NoDup_sset, NoDup_sset, (proj2 V2), Hn).
      split; [split|split].
      + intros kv Hkv. apply In_sdel_sset in Hkv. apply In_sset in Hkv as [->|Hkv]; [left; left; reflexivity | apply (proj1 V2), Hkv].
      + intros Hn. apply (skeys_sdel _ p_Position), (N3 Hn).
      + intros Hn. apply (proj1 (proj2 (skeys_sdel _ p_Position (N3 Hn)))).
      + unfold shas. rewrite sget_sdel_other by discriminate. rewrite sget_sset_neq by discriminate. rewrite sget_sset_neq by discriminate. exact X2.
    - exists s2. split; [reflexivity|]. split; [exact V2|]. split; [|exact X2]. intros _ Hi. apply shas_In_skeys in Hi. congruence. }
  rewrite E3 in H. cbn [bind] in H. inversion H; subst st. clear H.
  destruct (shas s3 p_Origin) eqn:Eo; [auto|].
  split; [apply evolved_sset; [left; reflexivity | exact V3]|].
  split; [intros Hn; apply no_position_sset; [discriminate | exact (P3 Hn)]|].
  split; [apply shas_sset_eq | rewrite shas_sset_neq by discriminate; exact X3].
Qed.

Lemma region_layout_final c d inits st0 st wm nda : region_layout c d inits st0 = Ok (st, wm, nda) ->
  evolved st0 st /\ (NoDup (skeys st0) -> ~ In p_Position (skeys st)) /\
  sget st p_Origin = Some (VCoord (pct (c_sa c)) (pct (c_sa c))) /\
  sget st p_Extent = Some (VExtent (pct (100 - 2 * c_sa c)) (pct (100 - 2 * c_sa c))) /\
  sget st p_DisplayAlign = Some (VEnum nda).
Proof.
  unfold region_layout. intros H.
  destruct (region_pre d inits st0) as [s|] eqn:Ep; cbn [bind] in H; [|discriminate].
  apply region_pre_evolved in Ep as [V [P _]].
  destruct (new_display_align _ _ s) as [n|]; cbn [bind] in H; [|discriminate]. inversion H; subst. clear H.
  split; [|split; [|split; [|split]]].
  - apply evolved_sset; [right; left; reflexivity|]. apply evolved_sset; [left; reflexivity|].
    apply evolved_sset; [right; right; reflexivity | exact V].
  - intros Hn. apply no_position_sset; [discriminate|]. apply no_position_sset; [discriminate|].
    apply no_position_sset; [discriminate | exact (P Hn)].
  - rewrite sget_sset_neq by discriminate. apply sget_sset_eq.
  - apply sget_sset_eq.
  - rewrite sget_sset_neq by discriminate. rewrite sget_sset_neq by discriminate. apply sget_sset_eq.
Qed.

(* ---- no animation ------------------------------------------------------------------------------------------------ *)
Lemma body_rel_anims c al a a' : body_rel c al a a' -> e_anims a' = [].
Proof.
  intros [a4 [a5 [H4 [H5 H6]]]].
  assert (e_anims a4 = []) as E4 by (destruct H4 as [->|[col [_ [_ ->]]]]; cbn; apply anims_body_base).
  assert (e_anims a5 = []) as E5 by (destruct H5 as [->|[col [_ ->]]]; [exact E4 | cbn; exact E4]).
  destruct H6 as [->|[_ ->]]; [exact E5 | cbn; exact E5].
Qed.

Theorem no_anim_thm c d d' : lcd c d = Ok d' -> no_anim d'.
Proof.
  intros H a Ha. unfold doc_attrs in Ha. apply in_app_or in Ha as [Ha|Ha].
  - unfold region_attrs in Ha. apply in_flat_map in Ha as [r2 [Hr Ha]].
    destruct (lcd_region_prov _ _ _ _ H Hr) as [r [wm [nda [_ Hd]]]].
    apply region_done_attrs in Hd as [st [_ E]]. rewrite E in Ha. destruct Ha as [<-|Ha]; [reflexivity|].
    apply in_map_iff in Ha as [x [<- _]]. reflexivity.
  - destruct (lcd_body_prov _ _ _ H) as [out [_ [_ [_ F]]]].
    destruct (Forall2_In_r _ _ _ _ F Ha) as [a0 [_ Hrel]]. exact (body_rel_anims _ _ _ _ Hrel).
Qed.

(* ---- safe area --------------------------------------------------------------------------------------------------- *)
Theorem safe_area_thm c d d' : lcd c d = Ok d' -> safe_area (c_sa c) d'.
Proof.
  intros H r2 Hr. destruct (lcd_region_prov _ _ _ _ H Hr) as [r [wm [nda [_ [st [Hl ->]]]]]].
  apply region_layout_final in Hl as [_ [_ [Ho [He _]]]]. split; [exact Ho | exact He].
Qed.

(* ---- whitelist ----------------------------------------------------------------------------------------------------- *)
Lemma supported_allowed c p v : supported c p = true -> allowed (c_pta c) (c_color c) (c_bg c) p v.
Proof.
  unfold supported, allowed. intros H.
  repeat (apply orb_true_iff in H as [H|H]).
  - left. apply Z.eqb_eq, H.
  - right. left. apply Z.eqb_eq, H.
  - right. right. left. apply Z.eqb_eq, H.
  - apply andb_true_iff in H as [Ht H]. apply Z.eqb_eq in H. do 5 right. split; [exact H | intros; congruence].
  - destruct (c_color c); [discriminate|]. apply Z.eqb_eq in H. do 3 right. left. auto.
  - destruct (c_bg c); [discriminate|]. apply Z.eqb_eq in H. do 4 right. left. auto.
Qed.
Lemma rsupported_allowed c p v : rsupported c p = true -> p <> p_Position -> allowed (c_pta c) (c_color c) (c_bg c) p v.
Proof.
  unfold rsupported. intros H Hp. apply orb_true_iff in H as [H|H]; [exact (supported_allowed _ _ _ H)|].
  apply Z.eqb_eq in H. congruence.
Qed.
Lemma layout_allowed pta color bg p v : layout_key p -> allowed pta color bg p v.
Proof. unfold allowed. intros [-> | [-> | ->]]; auto. Qed.
Lemma kept_not_configured c m p v : In (p, v) (keep_styles c m) ->
  (p = p_Color -> c_color c = None) /\ (p = p_BackgroundColor -> c_bg c = None) /\ (p = p_TextAlign -> c_pta c = true).
Proof.
  intros H. apply In_keep_styles in H as [_ H]. cbn [fst] in H. unfold supported in H.
  split; [|split]; intros ->; revert H;
    change (p_Color =? p_DisplayAlign) with false; change (p_Color =? p_Extent) with false; change (p_Color =? p_Origin) with false;
    change (p_Color =? p_TextAlign) with false; change (p_Color =? p_BackgroundColor) with false;
    change (p_BackgroundColor =? p_DisplayAlign) with false; change (p_BackgroundColor =? p_Extent) with false;
    change (p_BackgroundColor =? p_Origin) with false;
    change (p_BackgroundColor =? p_TextAlign) with false; change (p_BackgroundColor =? p_Color) with false;
    change (p_TextAlign =? p_DisplayAlign) with false; change (p_TextAlign =? p_Extent) with false; change (p_TextAlign =? p_Origin) with false;
    change (p_TextAlign =? p_Color) with false; change (p_TextAlign =? p_BackgroundColor) with false;
    destruct (c_pta c), (c_color c), (c_bg c); cbn; congruence.
Qed.

(* style dictionaries of the regions have unique keys (they are Python dicts) *)
Definition region_keys_unique (d : doc) : Prop := forall r, In r (d_regions d) -> NoDup (skeys (e_styles (eattrs r))).
(* Region elements do not have children (model.py: Region.push_child raises RuntimeError) *)
Definition regions_childless (d : doc) : Prop := forall r, In r (d_regions d) -> echildren r = [].

Lemma body_rel_whitelist c al a a' p v : body_rel c al a a' ->
  In (p, v) (e_styles a') -> allowed (c_pta c) (c_color c) (c_bg c) p v.
Proof.
  intros [a4 [a5 [H4 [H5 H6]]]] Hi.
  pose proof (styles_body_base c al a) as Eb.
  assert (forall q w, In (q, w) (keep_styles c (e_styles a)) -> allowed (c_pta c) (c_color c) (c_bg c) q w) as Hk.
  { intros q w Hq. apply In_keep_styles in Hq as [Hq Hs]. cbn [fst] in Hs. apply supported_allowed; exact Hs. }
  assert (forall q w, In (q, w) (e_styles a4) -> allowed (c_pta c) (c_color c) (c_bg c) q w) as A4.
  { intros q w Hq. destruct H4 as [->|[col [Ec [_ ->]]]]; [rewrite Eb in Hq; auto|].
    cbn [set_style e_styles with_styles] in Hq. apply In_sset in Hq as [Hq|Hq]; [|rewrite Eb in Hq; auto].
    inversion Hq; subst. unfold allowed. do 4 right. left. rewrite Ec. auto. }
  assert (forall q w, In (q, w) (e_styles a5) -> allowed (c_pta c) (c_color c) (c_bg c) q w) as A5.
  { intros q w Hq. destruct H5 as [->|[col [Ec ->]]]; [auto|].
    cbn [set_style e_styles with_styles] in Hq. apply In_sset in Hq as [Hq|Hq]; [|auto].
    inversion Hq; subst. unfold allowed. do 3 right. left. rewrite Ec. auto. }
  destruct H6 as [->|[Ept ->]]; [auto|].
  cbn [set_style e_styles with_styles] in Hi. apply In_sset in Hi as [Hi|Hi]; [|auto].
  inversion Hi; subst. unfold allowed. do 5 right. auto.
Qed.

Lemma existsb_false_forall {A} (f : A -> bool) l : existsb f l = false -> forall x, In x l -> f x = false.
Proof.
  intros H x Hx. destruct (f x) eqn:E; [|reflexivity].
  assert (existsb f l = true) by (apply existsb_exists; exists x; auto). congruence.
Qed.

(* since fix 5958b0b: no hypothesis about tts:position *)
Theorem whitelist_thm c d d' : lcd c d = Ok d' -> region_keys_unique d -> regions_childless d ->
  whitelist (c_pta c) (c_color c) (c_bg c) d'.
Proof.
  intros H Hu Hch.
  destruct (lcd_body_prov _ _ _ H) as [out [_ [_ [Ein F]]]].
  split.
  - intros a p v Ha Hpv. unfold doc_attrs in Ha. apply in_app_or in Ha as [Ha|Ha].
    + unfold region_attrs in Ha. apply in_flat_map in Ha as [r2 [Hr Ha]].
      destruct (lcd_region_prov _ _ _ _ H Hr) as [r [wm [nda [Hin Hd]]]].
      apply region_done_attrs in Hd as [st [Hl E]]. rewrite E, (Hch _ Hin) in Ha. destruct Ha as [<-|[]].
      cbn [e_styles with_styles] in Hpv. apply region_layout_final in Hl as [[V _] [P _]].
      destruct (V _ Hpv) as [Hk|Hk]; [apply layout_allowed, Hk|]. cbn [fst] in *.
      pose proof Hk as Hk'. apply In_keep_rstyles in Hk as [_ Hs]. cbn [fst] in Hs.
      apply rsupported_allowed; [exact Hs|]. intros ->.
      apply (P (NoDup_keep_rstyles _ _ (Hu _ Hin))). apply in_map_iff. exists (p_Position, v). auto.
    + destruct (Forall2_In_r _ _ _ _ F Ha) as [a0 [Ha0 Hrel]].
      exact (body_rel_whitelist _ _ _ _ _ _ Hrel Hpv).
  - intros p v Hpv. rewrite Ein in Hpv. apply In_keep_styles in Hpv as [Hpv Hs]. cbn [fst] in Hs.
    apply supported_allowed; exact Hs.
Qed.
