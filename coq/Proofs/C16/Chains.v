(* C16 timeline, part 1: the visibility of a leaf chain split into activity, region selection and display; region
   selection characterised by the explicit region attributes along the chain. *)
From Coq Require Import Permutation.
From TT Require Import Model.Doc Gen.StyleTables Spec.IsdSpec Spec.LcdSpec Proofs.Common.ElemInd.

Definition act (t : Q) (a : attrs) : bool := is_active t (resolve root_interval (e_begin a) (e_end a)).
Fixpoint chain_active (t : Q) (parent : interval) (ch : list attrs) : bool :=
  match ch with
  | [] => true
  | a :: c' => let iv := resolve parent (e_begin a) (e_end a) in is_active t iv && chain_active t iv c'
  end.
Fixpoint chain_disp (d : doc) (t : Q) (parent : interval) (ch : list attrs) : bool :=
  match ch with
  | [] => true
  | a :: c' => let iv := resolve parent (e_begin a) (e_end a) in displayed d t iv a && chain_disp d t iv c'
  end.
Definition is_nil {A} (l : list A) : bool := match l with [] => true | _ => false end.
Definition is_none {A} (o : option A) : bool := match o with None => true | Some _ => false end.
Definition assoc_of (a : attrs) (inh : option text) : option text := match e_region a with Some r => Some r | None => inh end.
Fixpoint chain_sel (sel inh : option text) (ch : list attrs) : bool :=
  match ch with
  | [] => true
  | a :: c' => (otext_eqb (assoc_of a inh) sel || (negb (is_nil c') && is_none (assoc_of a inh))) && chain_sel sel (assoc_of a inh) c'
  end.

Lemma chain_visible_split d t sel : forall ch parent inh,
  chain_visible d t sel parent inh ch = chain_active t parent ch && chain_sel sel inh ch && chain_disp d t parent ch.
Proof.
  induction ch as [|a c' IH]; intros parent inh; [reflexivity|].
  cbn [chain_visible chain_active chain_sel chain_disp]. rewrite IH. unfold assoc_of, is_nil, is_none.
  destruct (is_active t _), (displayed d t _ a), (chain_active t _ c'), (chain_disp d t _ c');
    destruct c'; destruct (match e_region a with Some r => Some r | None => inh end);
    destruct (otext_eqb _ sel); destruct (chain_sel sel _ _); reflexivity.
Qed.

Lemma teqb_sym a b : text_eqb a b = text_eqb b a.
Proof.
  destruct (text_eqb a b) eqn:E1, (text_eqb b a) eqn:E2; try reflexivity.
  - apply text_eqb_eq in E1. subst. assert (text_eqb b b = true) by (apply text_eqb_eq; reflexivity). congruence.
  - apply text_eqb_eq in E2. subst. assert (text_eqb a a = true) by (apply text_eqb_eq; reflexivity). congruence.
Qed.
Lemma teqb_refl a : text_eqb a a = true.
Proof. apply text_eqb_eq. reflexivity. Qed.

(* explicit region attributes along a chain *)
Definition refs (ch : list attrs) : list text := flat_map (fun a => match e_region a with Some r => [r] | None => [] end) ch.
Definition all_eq (i : text) (l : list text) : bool := forallb (text_eqb i) l.

(* selection by region i, entered with an inherited association that is i itself or none *)
Lemma chain_sel_some i : forall ch,
  chain_sel (Some i) (Some i) ch = all_eq i (refs ch) /\
  (ch <> [] -> chain_sel (Some i) None ch = negb (is_nil (refs ch)) && all_eq i (refs ch)).
Proof.
  induction ch as [|a c' [IH1 IH2]]; [split; [reflexivity | intros H; congruence]|].
  assert (text_eqb i i = true) as Eii by (apply text_eqb_eq; reflexivity).
  unfold refs in *. cbn [chain_sel flat_map]. unfold assoc_of. split; [|intros _].
  - destruct (e_region a) as [r|]; cbn [app all_eq forallb otext_eqb is_none andb orb].
    + rewrite (teqb_sym r i). destruct (text_eqb i r) eqn:E; cbn [orb andb]; [|rewrite andb_false_r; reflexivity || reflexivity].
      apply text_eqb_eq in E. subst r. exact IH1.
    + rewrite Eii. cbn [orb andb]. exact IH1.
  - destruct (e_region a) as [r|]; cbn [app all_eq forallb otext_eqb is_none andb orb is_nil negb].
    + rewrite (teqb_sym r i). destruct (text_eqb i r) eqn:E; cbn [orb andb]; [|rewrite andb_false_r; reflexivity || reflexivity].
      apply text_eqb_eq in E. subst r. exact IH1.
    + rewrite andb_true_r. destruct c' as [|b c'']; [reflexivity|]. cbn [is_nil negb andb]. apply IH2. discriminate.
Qed.

Lemma chain_sel_none : forall ch, chain_sel None None ch = is_nil (refs ch).
Proof.
  induction ch as [|a c' IH]; [reflexivity|]. unfold refs in *. cbn [chain_sel flat_map]. unfold assoc_of.
  destruct (e_region a) as [r|]; cbn [otext_eqb is_none app is_nil andb orb]; [rewrite andb_false_r; reflexivity | exact IH].
Qed.

(* ---- chains of two trees of the same shape ---------------------------------------------------------------------- *)
Fixpoint shape_rel (R : attrs -> attrs -> Prop) (e e' : elem) : Prop :=
  match e, e' with
  | Elem a cs, Elem a' cs' =>
      R a a' /\ (fix go (l l' : list elem) : Prop :=
                   match l, l' with
                   | [], [] => True
                   | x :: l1, y :: l2 => shape_rel R x y /\ go l1 l2
                   | _, _ => False
                   end) cs cs'
  end.
Lemma shape_rel_node R a cs a' cs' : shape_rel R (Elem a cs) (Elem a' cs') <-> R a a' /\ Forall2 (shape_rel R) cs cs'.
Proof.
  cbn [shape_rel]. split; intros [H1 H2]; (split; [exact H1|]).
  - revert cs' H2. induction cs as [|x cs IH]; intros [|y cs'] H2; try contradiction; constructor; [tauto | apply IH; tauto].
  - induction H2; [exact I | split; assumption].
Qed.

Lemma Forall2_app' {A B} (R : A -> B -> Prop) l1 l2 m1 m2 : Forall2 R l1 m1 -> Forall2 R l2 m2 -> Forall2 R (l1 ++ l2) (m1 ++ m2).
Proof. intros H. induction H; cbn [app]; [auto | intros; constructor; auto]. Qed.

Lemma chains_rel (R : attrs -> attrs -> Prop) : (forall a a', R a a' -> e_kind a' = e_kind a) ->
  forall e e', shape_rel R e e' -> Forall2 (Forall2 R) (chains e) (chains e').
Proof.
  intros Hk. induction e as [a cs IH] using elem_ind2. intros [a' cs'] H. apply shape_rel_node in H as [Ha Hcs].
  cbn [chains]. rewrite (Hk _ _ Ha).
  assert (Forall2 (Forall2 R)
            ((fix go (l : list elem) : list (list attrs) := match l with [] => [] | c :: l' => chains c ++ go l' end) cs)
            ((fix go (l : list elem) : list (list attrs) := match l with [] => [] | c :: l' => chains c ++ go l' end) cs')) as Hm.
  { revert cs' Hcs. induction cs as [|x cs IHcs]; intros cs' Hcs; inversion Hcs; subst; [constructor|].
    inversion IH; subst. apply Forall2_app'; auto. }
  assert (forall l l', Forall2 (Forall2 R) l l' -> Forall2 (Forall2 R) (map (cons a) l) (map (cons a') l')) as Hc.
  { intros l l' F. induction F; cbn [map]; constructor; [constructor; assumption | assumption]. }
  destruct (e_kind a); try (apply Hc, Hm); constructor; try constructor; try assumption; constructor.
Qed.
Lemma chains_nonempty : forall e ch, In ch (chains e) -> ch <> [].
Proof.
  intros [a cs] ch H. cbn [chains] in H.
  destruct (e_kind a); try (apply in_map_iff in H as [x [<- _]]; discriminate); destruct H as [<-|[]]; discriminate.
Qed.

(* what the timeline needs of two corresponding attribute records: same skeleton, reference mapped by f *)
Definition tl_rel (f : text -> text) (a a' : attrs) : Prop :=
  e_kind a' = e_kind a /\ e_id a' = e_id a /\ e_begin a' = e_begin a /\ e_end a' = e_end a /\ e_text a' = e_text a /\
  e_region a' = option_map f (e_region a).

Lemma tl_chain_active f t : forall ch ch', Forall2 (tl_rel f) ch ch' -> forall parent, chain_active t parent ch' = chain_active t parent ch.
Proof.
  intros ch ch' F. induction F as [|a a' c c' Ha F IH]; intros parent; [reflexivity|].
  destruct Ha as [_ [_ [Hb [He _]]]]. cbn [chain_active]. rewrite Hb, He, IH. reflexivity.
Qed.
Lemma tl_refs f : forall ch ch', Forall2 (tl_rel f) ch ch' -> refs ch' = map f (refs ch).
Proof.
  intros ch ch' F. unfold refs. induction F as [|a a' c c' Ha F IH]; [reflexivity|].
  destruct Ha as [_ [_ [_ [_ [_ Hr]]]]]. cbn [flat_map]. rewrite map_app, IH, Hr. destruct (e_region a); reflexivity.
Qed.
Lemma tl_para f : forall ch ch', Forall2 (tl_rel f) ch ch' -> para_of ch' = para_of ch.
Proof.
  intros ch ch' F. unfold para_of. induction F as [|a a' c c' Ha F IH]; [reflexivity|].
  destruct Ha as [Hk [Hi _]]. cbn [find]. rewrite Hk. destruct (kind_eqb (e_kind a) KP); [exact Hi | exact IH].
Qed.
Lemma tl_leaf f : forall ch ch', Forall2 (tl_rel f) ch ch' -> ch <> [] -> forall r r', leaf_of (last ch' r') = leaf_of (last ch r).
Proof.
  intros ch ch' F. induction F as [|a a' c c' Ha F IH]; intros Hn r r'; [congruence|].
  destruct F as [|b b' c c' Hb F].
  - cbn [last]. destruct Ha as [Hk [_ [_ [_ [Ht _]]]]]. unfold leaf_of. rewrite Hk, Ht. reflexivity.
  - change (last (a' :: b' :: c') r') with (last (b' :: c') r'). change (last (a :: b :: c) r) with (last (b :: c) r).
    apply IH. discriminate.
Qed.
