(* C16 timeline, part 4: nothing is hidden by display before or after; corresponding elements keep their skeleton and
   have their region reference mapped by the alias function. *)
From Coq Require Import Permutation.
From TT Require Import Model.Doc Gen.StyleTables Model.Isd Model.Lcd Spec.IsdSpec Spec.LcdSpec Model.LcdCases
  Proofs.Common.ElemInd Proofs.C16.Basics Proofs.C16.Prov Proofs.C16.Static Proofs.C16.Refs Proofs.C16.Idem Proofs.C16.Tree
  Proofs.C16.Chains Proofs.C16.Counting Proofs.C16.Alias.

(* ---- display ---------------------------------------------------------------------------------------------------------- *)
Lemma last_active_display_none t iv l acc : (forall s, In s l -> a_prop s <> p_Display) -> last_active_display t iv l acc = acc.
Proof.
  revert acc. induction l as [|s l IH]; intros acc H; [reflexivity|]. cbn [last_active_display].
  assert ((a_prop s =? p_Display) = false) as E by (apply Z.eqb_neq, H; left; reflexivity). rewrite E. cbn [andb].
  apply IH. intros x Hx. apply H. right. exact Hx.
Qed.
Lemma displayed_true d t iv a : (forall s, In s (e_anims a) -> a_prop s <> p_Display) -> sget (e_styles a) p_Display = None ->
  sget (d_initials d) p_Display = None -> displayed d t iv a = true.
Proof.
  intros Ha Hs Hi. unfold displayed. rewrite (last_active_display_none _ _ _ _ Ha), Hs, Hi. destruct (e_kind a); reflexivity.
Qed.
Lemma chain_disp_true d t : forall ch parent, (forall a iv, In a ch -> displayed d t iv a = true) -> chain_disp d t parent ch = true.
Proof.
  induction ch as [|a c' IH]; intros parent H; [reflexivity|]. cbn [chain_disp]. rewrite (H a _ (or_introl eq_refl)). cbn [andb].
  apply IH. intros x iv Hx. apply H. right. exact Hx.
Qed.
Lemma chains_elems : forall e ch a, In ch (chains e) -> In a ch -> In a (elems_of e).
Proof.
  induction e as [a0 cs IH] using elem_ind2. intros ch a Hch Ha. cbn [chains] in Hch. cbn [elems_of].
  assert (forall l, In l ((fix go (l : list elem) : list (list attrs) := match l with [] => [] | c :: l' => chains c ++ go l' end) cs) ->
                    In a l -> In a (flat_map elems_of cs)) as Hm.
  { clear Hch Ha ch. induction cs as [|x cs IHcs]; intros l Hl Hal; [destruct Hl|]. inversion IH; subst.
    apply in_app_or in Hl as [Hl|Hl]; cbn [flat_map]; apply in_or_app; [left; eauto | right; eauto]. }
  destruct (e_kind a0);
    try (apply in_map_iff in Hch as [l [<- Hl]]; destruct Ha as [<-|Ha]; [left; reflexivity | right; exact (Hm _ Hl Ha)]);
    (destruct Hch as [<-|[]]; destruct Ha as [<-|[]]; left; reflexivity).
Qed.

Lemma not_hiding_display p : hiding_prop p = false -> p <> p_Display.
Proof. unfold hiding_prop. intros H ->. discriminate H. Qed.
(* the source hides nothing *)
Lemma no_hiding_displayed d t iv a : no_hiding_b d = true -> In a (doc_attrs d) -> displayed d t iv a = true.
Proof.
  unfold no_hiding_b. intros H Ha. apply andb_true_iff in H as [H Hi]. rewrite forallb_forall in H. specialize (H a Ha).
  apply andb_true_iff in H as [Hs Han]. rewrite forallb_forall in Hs, Han, Hi.
  apply displayed_true.
  - intros s Hin. apply not_hiding_display. specialize (Han s Hin). apply negb_true_iff in Han. exact Han.
  - apply sget_None_keys. intros kv Hkv. apply not_hiding_display. specialize (Hs kv Hkv). apply negb_true_iff in Hs. exact Hs.
  - apply sget_None_keys. intros kv Hkv. apply not_hiding_display. specialize (Hi kv Hkv). apply negb_true_iff in Hi. exact Hi.
Qed.

Lemma not_supported_display c : supported c p_Display = false.
Proof.
  unfold supported.
  change (p_Display =? p_DisplayAlign) with false. change (p_Display =? p_Extent) with false.
  change (p_Display =? p_Origin) with false.
  change (p_Display =? p_TextAlign) with false. change (p_Display =? p_Color) with false.
  change (p_Display =? p_BackgroundColor) with false.
  destruct (c_pta c), (c_color c), (c_bg c); reflexivity.
Qed.
Lemma kept_no_display c m kv : In kv (keep_styles c m) -> fst kv <> p_Display.
Proof. intros H E. apply In_keep_styles in H as [_ H]. rewrite E, not_supported_display in H. discriminate. Qed.
Lemma rkept_no_display c m kv : In kv (keep_rstyles c m) -> fst kv <> p_Display.
Proof. intros H E. apply In_keep_rstyles in H as [_ H]. unfold rsupported in H. rewrite E, not_supported_display in H. discriminate. Qed.
Lemma body_rel_no_display c al a a' : body_rel c al a a' -> sget (e_styles a') p_Display = None.
Proof.
  intros [a4 [a5 [H4 [H5 H6]]]]. apply sget_None_keys. intros kv Hkv.
  assert (forall x, In x (e_styles a4) -> fst x <> p_Display) as A4.
  { intros x Hx. destruct H4 as [-> | [col [_ [_ ->]]]]; [rewrite styles_body_base in Hx; exact (kept_no_display _ _ _ Hx)|].
    cbn [set_style e_styles with_styles] in Hx. apply In_sset in Hx as [-> | Hx]; [discriminate|]. rewrite styles_body_base in Hx. exact (kept_no_display _ _ _ Hx). }
  assert (forall x, In x (e_styles a5) -> fst x <> p_Display) as A5.
  { intros x Hx. destruct H5 as [-> | [col [_ ->]]]; [auto|]. cbn [set_style e_styles with_styles] in Hx. apply In_sset in Hx as [-> | Hx]; [discriminate | auto]. }
  destruct H6 as [-> | [_ ->]]; [auto|]. cbn [set_style e_styles with_styles] in Hkv. apply In_sset in Hkv as [-> | Hkv]; [discriminate | auto].
Qed.

(* the result hides nothing either *)
Lemma result_body_displayed c d d' t iv a' : lcd c d = Ok d' -> In a' (body_attrs d') -> displayed d' t iv a' = true.
Proof.
  intros H Ha. destruct (lcd_body_prov _ _ _ H) as [out [_ [_ [Ei F]]]].
  destruct (Forall2_In_r _ _ _ _ F Ha) as [a [_ Hrel]]. apply displayed_true.
  - rewrite (body_rel_anims _ _ _ _ Hrel). intros s [].
  - exact (body_rel_no_display _ _ _ _ Hrel).
  - rewrite Ei. apply sget_None_keys. intros kv Hkv. exact (kept_no_display _ _ _ Hkv).
Qed.
Lemma result_region_displayed c d d' t iv r2 : lcd c d = Ok d' -> In r2 (d_regions d') -> displayed d' t iv (eattrs r2) = true.
Proof.
  intros H Hr. destruct (lcd_body_prov _ _ _ H) as [out [_ [_ [Ei _]]]].
  destruct (lcd_region_prov _ _ _ _ H Hr) as [r [wm [nda [_ [st [Hl ->]]]]]]. cbn [eattrs]. apply displayed_true.
  - rewrite eattrs_clean. cbn. intros s [].
  - cbn [e_styles with_styles]. apply region_layout_final in Hl as [[V _] _]. apply sget_None_keys. intros kv Hkv.
    destruct (V _ Hkv) as [[E | [E | E]] | Hk]; try (rewrite E; discriminate).
    rewrite eattrs_clean in Hk. cbn [e_styles rstyle_attrs with_styles] in Hk. exact (rkept_no_display _ _ _ Hk).
  - rewrite Ei. apply sget_None_keys. intros kv Hkv. exact (kept_no_display _ _ _ Hkv).
Qed.

(* ---- skeleton and region of corresponding elements ------------------------------------------------------------------------ *)
Lemma body_base_skeleton c al a :
  e_kind (body_base c al a) = e_kind a /\ e_id (body_base c al a) = e_id a /\ e_begin (body_base c al a) = e_begin a /\
  e_end (body_base c al a) = e_end a /\ e_text (body_base c al a) = e_text a.
Proof.
  unfold body_base, clear_attrs, redirect_attrs.
  change (e_region (anim_attrs (style_attrs c a))) with (e_region a).
  destruct (e_region a) as [r|] eqn:Er.
  - destruct (lookup_id al r) as [u|].
    + cbn [e_region with_region]. destruct (mem_id u (map fst al)); cbn; auto.
    + change (e_region (anim_attrs (style_attrs c a))) with (e_region a). rewrite Er. destruct (mem_id r (map fst al)); cbn; auto.
  - change (e_region (anim_attrs (style_attrs c a))) with (e_region a). rewrite Er. cbn. auto.
Qed.
Lemma body_rel_skeleton c al a a' : body_rel c al a a' ->
  e_kind a' = e_kind a /\ e_id a' = e_id a /\ e_begin a' = e_begin a /\ e_end a' = e_end a /\ e_text a' = e_text a.
Proof.
  intros [a4 [a5 [H4 [H5 H6]]]]. pose proof (body_base_skeleton c al a) as B.
  assert (e_kind a4 = e_kind a /\ e_id a4 = e_id a /\ e_begin a4 = e_begin a /\ e_end a4 = e_end a /\ e_text a4 = e_text a) as S4
    by (destruct H4 as [-> | [col [_ [_ ->]]]]; [exact B | cbn; exact B]).
  assert (e_kind a5 = e_kind a /\ e_id a5 = e_id a /\ e_begin a5 = e_begin a /\ e_end a5 = e_end a /\ e_text a5 = e_text a) as S5
    by (destruct H5 as [-> | [col [_ ->]]]; [exact S4 | cbn; exact S4]).
  destruct H6 as [-> | [_ ->]]; [exact S5 | cbn; exact S5].
Qed.

Lemma mem_id_not_in k l : ~ In k l -> mem_id k l = false.
Proof.
  intros H. unfold mem_id. destruct (existsb (text_eqb k) l) eqn:E; [|reflexivity].
  apply existsb_exists in E as [x [Hx Ex]]. apply text_eqb_eq in Ex. subst. contradiction.
Qed.
Lemma combine_has {A B} (l : list A) (m : list B) x : length m = length l -> In x l -> exists y, In (x, y) (combine l m).
Proof.
  revert m. induction l as [|a l IH]; intros [|b m] Hl Hi; try destruct Hi; try discriminate.
  - subst. exists b. left. reflexivity.
  - inversion Hl as [Hl']. destruct (IH _ Hl' H) as [y Hy]. exists y. right. exact Hy.
Qed.

Section Doc.
  Variables (c : lcd_cfg) (d : doc) (out : list (elem * option text)).
  Hypothesis L : loop_rel c d (keep_styles c (d_initials d)) [] (d_regions d) out.
  Hypothesis Hnd : NoDup (rids (d_regions d)).
  Let al := replaced_of out.

  (* the alias of a region id is never an aliased region *)
  Lemma alias_not_removed r : In r (rids (d_regions d)) -> mem_id (alias_of al r) (map fst al) = false.
  Proof.
    intros Hr. apply mem_id_not_in. intros Hin. unfold rids in Hr. apply in_map_iff in Hr as [x [<- Hx]].
    destruct (combine_has _ out x (proj1 (loop_combine _ _ _ _ _ _ L)) Hx) as [[x2 tag] Hp].
    pose proof (lookup_alias _ _ _ _ _ _ L Hnd _ _ _ Hp) as El. unfold alias_of in Hin. fold al in El. rewrite El in Hin.
    destruct (replaced_keys _ _ _ _ _ _ L _ Hin) as [y [y2 [v [Hy Ey]]]].
    pose proof (lookup_alias _ _ _ _ _ _ L Hnd _ _ _ Hy) as Ely. fold al in Ely.
    destruct tag as [u|].
    - destruct (loop_alias_timing _ _ _ _ _ _ L [] (fun f t (H : In (f, t) []) => match H with end) _ _ _ Hp) as [k [Hk [Hid _]]].
      cbn [app] in Hk. apply kept_src_sub in Hk as [k2 Hk]. pose proof (lookup_alias _ _ _ _ _ _ L Hnd _ _ _ Hk) as Elk. fold al in Elk.
      rewrite Hid, <- Ey, Ely in Elk. discriminate.
    - rewrite <- Ey, Ely in El. discriminate.
  Qed.

  Hypothesis Hrefs : refs_in_doc d.
  Lemma body_rel_tl a a' : In a (body_attrs d) -> body_rel c al a a' -> tl_rel (alias_of al) a a'.
  Proof.
    intros Ha Hrel. destruct (body_rel_skeleton _ _ _ _ Hrel) as [Hk [Hi [Hb [He Ht]]]].
    unfold tl_rel. repeat (split; [assumption|]).
    rewrite (body_rel_region _ _ _ _ Hrel), region_body_base. destruct (e_region a) as [r|] eqn:Er; [|reflexivity].
    cbv zeta. cbn [option_map]. unfold alias_of at 1. fold (alias_of al r). rewrite alias_not_removed; [reflexivity|].
    destruct (Hrefs _ _ Ha Er) as [reg [Hreg Hid]]. apply in_map_iff. exists reg. split; [unfold rid; rewrite Hid; reflexivity | exact Hreg].
  Qed.
End Doc.
