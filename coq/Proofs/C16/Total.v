(* C16: the filter succeeds on every document whose region geometry is well typed (style_properties.py validate: origin,
   extent and position are of their value class and not in em), outside the recorded trigger lcd-position. *)
From TT Require Import Model.Doc Gen.StyleTables Model.Isd Model.Lcd Spec.IsdSpec Spec.LcdSpec Model.LcdCases
  Proofs.Common.ElemInd Proofs.C16.Basics Proofs.C16.Prov Proofs.C16.Static Proofs.C16.Refs Proofs.C16.Idem.

Lemma sget_keep_supported c m p : supported c p = true -> sget (keep_styles c m) p = sget m p.
Proof.
  intros Hs. unfold keep_styles. induction m as [|[k w] m IH]; [reflexivity|]. cbn [filter fst sget].
  destruct (supported c k) eqn:Ek; cbn [sget]; [rewrite IH; reflexivity|].
  destruct (k =? p) eqn:E; [apply Z.eqb_eq in E; congruence | exact IH].
Qed.
Lemma sget_sdel_neq m p q : q <> p -> sget (sdel m p) q = sget m q.
Proof.
  intros Hn. induction m as [|[k w] m IH]; [reflexivity|]. cbn [sdel sget].
  destruct (k =? p) eqn:E; cbn [sget].
  - apply Z.eqb_eq in E. subst k. destruct (p =? q) eqn:E2; [apply Z.eqb_eq in E2; congruence | reflexivity].
  - destruct (k =? q); [reflexivity | exact IH].
Qed.
Lemma compute_length_ok l p em cc px : not_em l = true -> exists l', compute_length l (Some p) em (Some cc) (Some px) = Ok l'.
Proof. unfold not_em, compute_length. destruct (lu l); cbn; try discriminate; intros _; eexists; reflexivity. Qed.

Definition is_coord (o : option value) : Prop := exists x y, o = Some (VCoord x y).
Definition is_extent (o : option value) : Prop := exists h w, o = Some (VExtent h w).

Lemma compute_origin_ok d st x y : sget st p_Origin = Some (VCoord x y) -> not_em x = true -> not_em y = true ->
  exists x' y', compute_prop d None st p_Origin = Ok (sset st p_Origin (VCoord x' y')).
Proof.
  intros H Hx Hy. unfold compute_prop.
  change (p_Origin =? p_FontSize) with false. change (p_Origin =? p_Extent) with false. change (p_Origin =? p_Origin) with true.
  cbv iota. rewrite H.
  destruct (compute_length_ok y (rh (qz 100)) None (c_h d) (px_h d) Hy) as [y' ->].
  destruct (compute_length_ok x (rw (qz 100)) None (c_w d) (px_w d) Hx) as [x' ->]. cbn [bind]. eexists. eexists. reflexivity.
Qed.
Lemma compute_extent_ok d st h w : sget st p_Extent = Some (VExtent h w) -> not_em h = true -> not_em w = true ->
  exists h' w', compute_prop d None st p_Extent = Ok (sset st p_Extent (VExtent h' w')).
Proof.
  intros H Hh Hw. unfold compute_prop.
  change (p_Extent =? p_FontSize) with false. change (p_Extent =? p_Extent) with true.
  cbv iota. rewrite H.
  destruct (compute_length_ok h (rh (qz 100)) (get_len st p_FontSize) (c_h d) (px_h d) Hh) as [h' ->].
  destruct (compute_length_ok w (rw (qz 100)) (get_len st p_FontSize) (c_w d) (px_w d) Hw) as [w' ->]. cbn [bind]. eexists. eexists. reflexivity.
Qed.
Lemma compute_position_ok d st ho he vo ve eh ew :
  sget st p_Position = Some (VPos ho he vo ve) -> not_em ho = true -> not_em vo = true ->
  sget st p_Extent = Some (VExtent eh ew) -> unit_eqb (lu eh) Urh && unit_eqb (lu ew) Urw = true ->
  exists x y v, compute_prop d None st p_Position = Ok (sset (sset st p_Origin (VCoord x y)) p_Position v).
Proof.
  intros H Hh Hv He Hu. unfold compute_prop.
  change (p_Position =? p_FontSize) with false. change (p_Position =? p_Extent) with false.
  change (p_Position =? p_Origin) with false. change (p_Position =? p_Position) with true.
  cbv iota. rewrite H, He, Hu. cbn [negb].
  destruct (compute_length_ok vo (rh (Qminus (qz 100) (lv eh))) None (c_h d) (px_h d) Hv) as [v1 ->]. cbn [bind].
  destruct (compute_length_ok ho (rw (Qminus (qz 100) (lv ew))) None (c_w d) (px_w d) Hh) as [h1 ->]. cbn [bind].
  eexists. eexists. eexists. reflexivity.
Qed.

Lemma init_or_coord inits : inits_typed inits = true -> is_coord (Some (init_or inits p_Origin)).
Proof.
  unfold inits_typed, init_or, is_coord. intros H. apply andb_true_iff in H as [H _].
  destruct (sget inits p_Origin) as [[]|]; try discriminate; eexists; eexists; reflexivity.
Qed.
Lemma init_or_extent inits : inits_typed inits = true -> is_extent (Some (init_or inits p_Extent)).
Proof.
  unfold inits_typed, init_or, is_extent. intros H. apply andb_true_iff in H as [_ H].
  destruct (sget inits p_Extent) as [[]|]; try discriminate; eexists; eexists; reflexivity.
Qed.

Lemma region_pre_ok d inits st : geometry_typed st = true -> inits_typed inits = true ->
  (shas st p_Position = true -> exists eh ew, sget st p_Extent = Some (VExtent eh ew) /\ unit_eqb (lu eh) Urh && unit_eqb (lu ew) Urw = true) ->
  exists s, region_pre d inits st = Ok s /\ is_coord (sget s p_Origin) /\ is_extent (sget s p_Extent).
Proof.
  intros Ht Hi Hpos. unfold geometry_typed in Ht. apply andb_true_iff in Ht as [Ht Tp]. apply andb_true_iff in Ht as [To Te].
  unfold region_pre.
  (* origin *)
  assert (exists s1, (if shas st p_Origin then compute_prop d None st p_Origin else Ok st) = Ok s1 /\
                     (sget s1 p_Origin = None \/ is_coord (sget s1 p_Origin)) /\
                     sget s1 p_Extent = sget st p_Extent /\ sget s1 p_Position = sget st p_Position) as [s1 [E1 [O1 [X1 P1]]]].
  { unfold shas. destruct (sget st p_Origin) as [v|] eqn:Eo.
    - destruct v; try discriminate. apply andb_true_iff in To as [Tx Ty].
      destruct (compute_origin_ok d st _ _ Eo Tx Ty) as [x' [y' E]]. eexists. split; [exact E|].
      split; [right; rewrite sget_sset_eq; eexists; eexists; reflexivity|]. split; apply sget_sset_neq; discriminate.
    - exists st. split; [reflexivity|]. split; [left; exact Eo|]. split; reflexivity. }
  rewrite E1. cbn [bind].
  (* position *)
  assert (exists s2, (if shas s1 p_Position then bind (compute_prop d None s1 p_Position) (fun st' => Ok (sdel st' p_Position)) else Ok s1) = Ok s2 /\
                     (sget s2 p_Origin = None \/ is_coord (sget s2 p_Origin)) /\ sget s2 p_Extent = sget st p_Extent) as [s2 [E2 [O2 X2]]].
  { assert (shas s1 p_Position = shas st p_Position) as Esh by (unfold shas; rewrite P1; reflexivity). rewrite Esh.
    destruct (shas st p_Position) eqn:Ep.
    - destruct (Hpos eq_refl) as [eh [ew [Hex Hu]]]. unfold shas in Ep. destruct (sget st p_Position) as [v|] eqn:Epv; [|discriminate].
      destruct v; try discriminate. apply andb_true_iff in Tp as [Th Tv].
      assert (sget s1 p_Position = Some (VPos h he v ve)) as Ep1 by (first [exact P1 | rewrite P1; exact Epv]).
      assert (sget s1 p_Extent = Some (VExtent eh ew)) as Ex1 by (rewrite X1; exact Hex).
      destruct (compute_position_ok d s1 _ _ _ _ _ _ Ep1 Th Tv Ex1 Hu) as [x [y [pv E]]]. rewrite E. cbn [bind]. eexists. split; [reflexivity|].
      split.
      + right. rewrite sget_sdel_neq by discriminate. rewrite sget_sset_neq by discriminate. rewrite sget_sset_eq. eexists; eexists; reflexivity.
      + rewrite sget_sdel_neq by discriminate. rewrite sget_sset_neq by discriminate. rewrite sget_sset_neq by discriminate. exact X1.
    - exists s1. split; [reflexivity|]. split; [exact O1 | exact X1]. }
  rewrite E2. cbn [bind].
  set (s3 := if shas s2 p_Origin then s2 else sset s2 p_Origin (init_or inits p_Origin)).
  assert (is_coord (sget s3 p_Origin) /\ sget s3 p_Extent = sget st p_Extent) as [O3 X3].
  { unfold s3, shas. destruct O2 as [O2|O2].
    - rewrite O2. split; [rewrite sget_sset_eq; exact (init_or_coord _ Hi) | rewrite sget_sset_neq by discriminate; exact X2].
    - destruct O2 as [x [y O2]]. rewrite O2. split; [exists x, y; exact O2 | exact X2]. }
  (* extent *)
  unfold shas at 1. rewrite X3. destruct (sget st p_Extent) as [v|] eqn:Ee.
  - destruct v; try discriminate. apply andb_true_iff in Te as [Th Tw].
    assert (sget s3 p_Extent = Some (VExtent h w)) as Ex3 by (rewrite X3; reflexivity).
    destruct (compute_extent_ok d s3 _ _ Ex3 Th Tw) as [h' [w' E]]. rewrite E. cbn [bind]. rewrite shas_sset_eq.
    eexists. split; [reflexivity|]. split; [rewrite sget_sset_neq by discriminate; exact O3 | rewrite sget_sset_eq; eexists; eexists; reflexivity].
  - cbn [bind]. unfold shas. rewrite X3. eexists. split; [reflexivity|].
    split; [rewrite sget_sset_neq by discriminate; exact O3 | rewrite sget_sset_eq; exact (init_or_extent _ Hi)].
Qed.

Lemma region_layout_ok c d inits st : geometry_typed st = true -> inits_typed inits = true ->
  (shas st p_Position = true -> exists eh ew, sget st p_Extent = Some (VExtent eh ew) /\ unit_eqb (lu eh) Urh && unit_eqb (lu ew) Urw = true) ->
  exists r, region_layout c d inits st = Ok r.
Proof.
  intros Ht Hi Hp. destruct (region_pre_ok d inits st Ht Hi Hp) as [s [E [[x [y Ho]] [h [w He]]]]].
  unfold region_layout. rewrite E. cbn [bind]. unfold new_display_align. rewrite Ho, He. cbn [bind]. eexists. reflexivity.
Qed.

Lemma geometry_keep c m : geometry_typed (keep_styles c m) = geometry_typed m.
Proof.
  unfold geometry_typed. rewrite !sget_keep_supported; [reflexivity | | |]; unfold supported; cbn; reflexivity.
Qed.
Lemma inits_keep c m : inits_typed (keep_styles c m) = inits_typed m.
Proof. unfold inits_typed. rewrite !sget_keep_supported; [reflexivity | |]; unfold supported; cbn; reflexivity. Qed.

Lemma lcd_regions_ok c d inits : inits_typed inits = true -> forall rs ret,
  (forall r, In r rs -> geometry_typed (e_styles (eattrs r)) = true /\ region_position_trigger (eattrs r) = false) ->
  exists out, lcd_regions c d inits rs ret = Ok out.
Proof.
  intros Hi. induction rs as [|r rs IH]; intros ret H; [eexists; reflexivity|].
  destruct (H r (or_introl eq_refl)) as [Ht Hp]. cbn [lcd_regions].
  assert (exists x, region_layout c d inits (e_styles (eattrs (style_elem c (anim_elem r)))) = Ok x) as [[[st wm] nda] E].
  { rewrite eattrs_clean. cbn [e_styles style_attrs with_styles anim_attrs with_anims]. apply region_layout_ok; [rewrite geometry_keep; exact Ht | exact Hi|].
    intros Hs. unfold shas in Hs. rewrite sget_keep_supported in Hs by (unfold supported; cbn; reflexivity).
    unfold region_position_trigger, shas in Hp. destruct (sget (e_styles (eattrs r)) p_Position); [|discriminate]. cbn [andb] in Hp.
    apply negb_false_iff in Hp. rewrite sget_keep_supported by (unfold supported; cbn; reflexivity).
    destruct (sget (e_styles (eattrs r)) p_Extent) as [[]|]; try discriminate. eexists. eexists. split; [reflexivity | exact Hp]. }
  rewrite E. cbn [bind].
  destruct (lookup_fp ret _).
  - destruct (IH ret) as [out Eo]; [intros x Hx; apply H; right; exact Hx|]. rewrite Eo. eexists. reflexivity.
  - match goal with |- context [lcd_regions c d inits rs ?R] => destruct (IH R) as [out Eo] end; [intros x Hx; apply H; right; exact Hx|].
    rewrite Eo. eexists. reflexivity.
Qed.

Theorem total_partial_thm c d : lcd_typed d = true -> trig_position d = false -> exists d', lcd c d = Ok d'.
Proof.
  unfold lcd_typed. intros Ht Hp. apply andb_true_iff in Ht as [Hr Hi].
  rewrite forallb_forall in Hr. unfold trig_position in Hp. pose proof (existsb_false_forall _ _ Hp) as Hp'. cbv beta in Hp'.
  destruct (lcd_regions_ok c d (keep_styles c (d_initials d)) (eq_trans (inits_keep c _) Hi) (d_regions d) []) as [out Eo].
  { intros r Hin. split; [exact (Hr _ Hin) | exact (Hp' _ Hin)]. }
  unfold lcd. rewrite Eo. cbn [bind]. eexists. reflexivity.
Qed.
