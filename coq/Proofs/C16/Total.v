(* C16: the filter succeeds on every document whose region geometry is well typed (style_properties.py validate: origin,
   extent and position are of their value class and not in em, an extent has its height in %/px/c/rh and its width in
   %/px/c/rw).  Since fix d8691ec there is no trigger: tts:position is computed after the extent. *)
From TT Require Import Model.Doc Gen.StyleTables Model.Isd Model.Lcd Spec.IsdSpec Spec.LcdSpec Model.LcdCases
  Proofs.Common.ElemInd Proofs.C16.Basics Proofs.C16.Prov Proofs.C16.Static Proofs.C16.Refs Proofs.C16.Idem.

Lemma sget_keep_supported c m p : supported c p = true -> sget (keep_styles c m) p = sget m p.
Proof.
  intros Hs. unfold keep_styles. induction m as [|[k w] m IH]; [reflexivity|]. cbn [filter fst sget].
  destruct (supported c k) eqn:Ek; cbn [sget]; [rewrite IH; reflexivity|].
  destruct (k =? p) eqn:E; [apply Z.eqb_eq in E; congruence | exact IH].
Qed.
Lemma sget_sdel_neq m p q : q <> p -> sget (sdel m p) q = sget m q.
Proof.
  intros Hn. induction m as [|[k w] m IH]; [reflexivity|]. cbn [sdel sget].
  destruct (k =? p) eqn:E; cbn [sget].
  - apply Z.eqb_eq in E. subst k. destruct (p =? q) eqn:E2; [apply Z.eqb_eq in E2; congruence | reflexivity].
  - destruct (k =? q); [reflexivity | exact IH].
Qed.
Lemma compute_length_ok l p em cc px : not_em l = true -> exists l', compute_length l (Some p) em (Some cc) (Some px) = Ok l'.
Proof. unfold not_em, compute_length. destruct (lu l); cbn; try discriminate; intros _; eexists; reflexivity. Qed.

Definition is_coord (o : option value) : Prop := exists x y, o = Some (VCoord x y).
Definition is_extent (o : option value) : Prop := exists h w, o = Some (VExtent h w).

Lemma compute_origin_ok d st x y : sget st p_Origin = Some (VCoord x y) -> not_em x = true -> not_em y = true ->
  exists x' y', compute_prop d None st p_Origin = Ok (sset st p_Origin (VCoord x' y')).
Proof.
  intros H Hx Hy. unfold compute_prop.
  change (p_Origin =? p_FontSize) with false. change (p_Origin =? p_Extent) with false. change (p_Origin =? p_Origin) with true.
  cbv iota. rewrite H.
  destruct (compute_length_ok y (rh (qz 100)) None (c_h d) (px_h d) Hy) as [y' ->].
  destruct (compute_length_ok x (rw (qz 100)) None (c_w d) (px_w d) Hx) as [x' ->]. cbn [bind]. eexists. eexists. reflexivity.
Qed.
Lemma compute_height_ok l q em d : height_unit l = true ->
  exists l', compute_length l (Some (rh q)) em (Some (c_h d)) (Some (px_h d)) = Ok l' /\ lu l' = Urh.
Proof.
  unfold height_unit, not_em, compute_length. destruct l as [v u]. cbn [lu lv]. destruct u; cbn; try discriminate; intros _; eexists; split; reflexivity.
Qed.
Lemma compute_width_ok l q em d : width_unit l = true ->
  exists l', compute_length l (Some (rw q)) em (Some (c_w d)) (Some (px_w d)) = Ok l' /\ lu l' = Urw.
Proof.
  unfold width_unit, not_em, compute_length. destruct l as [v u]. cbn [lu lv]. destruct u; cbn; try discriminate; intros _; eexists; split; reflexivity.
Qed.
Lemma compute_extent_ok d st h w : sget st p_Extent = Some (VExtent h w) -> height_unit h = true -> width_unit w = true ->
  exists h' w', compute_prop d None st p_Extent = Ok (sset st p_Extent (VExtent h' w')) /\ lu h' = Urh /\ lu w' = Urw.
Proof.
  intros H Hh Hw. unfold compute_prop.
  change (p_Extent =? p_FontSize) with false. change (p_Extent =? p_Extent) with true.
  cbv iota. rewrite H.
  destruct (compute_height_ok h (qz 100) (get_len st p_FontSize) d Hh) as [h' [-> Uh]].
  destruct (compute_width_ok w (qz 100) (get_len st p_FontSize) d Hw) as [w' [-> Uw]]. cbn [bind]. exists h', w'. auto.
Qed.
Lemma compute_position_ok d st ho he vo ve eh ew :
  sget st p_Position = Some (VPos ho he vo ve) -> not_em ho = true -> not_em vo = true ->
  sget st p_Extent = Some (VExtent eh ew) -> lu eh = Urh -> lu ew = Urw ->
  exists x y v, compute_prop d None st p_Position = Ok (sset (sset st p_Origin (VCoord x y)) p_Position v).
Proof.
  intros H Hh Hv He Uh Uw. unfold compute_prop.
  change (p_Position =? p_FontSize) with false. change (p_Position =? p_Extent) with false.
  change (p_Position =? p_Origin) with false. change (p_Position =? p_Position) with true.
  cbv iota. rewrite H, He, Uh, Uw. cbn [negb unit_eqb andb].
  destruct (compute_length_ok vo (rh (Qminus (qz 100) (lv eh))) None (c_h d) (px_h d) Hv) as [v1 ->]. cbn [bind].
  destruct (compute_length_ok ho (rw (Qminus (qz 100) (lv ew))) None (c_w d) (px_w d) Hh) as [h1 ->]. cbn [bind].
  eexists. eexists. eexists. reflexivity.
Qed.

Lemma init_or_coord inits : inits_typed inits = true -> is_coord (Some (init_or inits p_Origin)).
Proof.
  unfold inits_typed, init_or, is_coord. intros H. apply andb_true_iff in H as [H _].
  destruct (sget inits p_Origin) as [[]|]; try discriminate; eexists; eexists; reflexivity.
Qed.
Lemma init_or_extent inits : inits_typed inits = true ->
  exists h w, init_or inits p_Extent = VExtent h w /\ height_unit h = true /\ width_unit w = true.
Proof.
  unfold inits_typed, init_or. intros H. apply andb_true_iff in H as [_ H].
  destruct (sget inits p_Extent) as [[]|]; try discriminate.
  - apply andb_true_iff in H as [Hh Hw]. eexists. eexists. split; [reflexivity | split; assumption].
  - eexists. eexists. split; [vm_compute; reflexivity | split; vm_compute; reflexivity].
Qed.

Lemma region_pre_ok d inits st : geometry_typed st = true -> inits_typed inits = true ->
  exists s, region_pre d inits st = Ok s /\ is_coord (sget s p_Origin) /\ is_extent (sget s p_Extent).
Proof.
  intros Ht Hi. unfold geometry_typed in Ht. apply andb_true_iff in Ht as [Ht Tp]. apply andb_true_iff in Ht as [To Te].
  unfold region_pre.
  (* extent: default, then computed into rh / rw *)
  set (s0 := if shas st p_Extent then st else sset st p_Extent (init_or inits p_Extent)).
  assert (exists h w, sget s0 p_Extent = Some (VExtent h w) /\ height_unit h = true /\ width_unit w = true) as [h [w [X0 [Uh Uw]]]].
  { unfold s0, shas. destruct (sget st p_Extent) as [v|] eqn:Ee.
    - destruct v; try discriminate. apply andb_true_iff in Te as [Th Tw]. eexists. eexists. split; [exact Ee | split; assumption].
    - destruct (init_or_extent _ Hi) as [h [w [E [Th Tw]]]]. exists h, w. rewrite sget_sset_eq, E. auto. }
  assert (sget s0 p_Origin = sget st p_Origin /\ sget s0 p_Position = sget st p_Position) as [O0 P0].
  { unfold s0. destruct (shas st p_Extent); [split; reflexivity | split; apply sget_sset_neq; discriminate]. }
  destruct (compute_extent_ok d s0 h w X0 Uh Uw) as [h' [w' [E1 [Uh' Uw']]]]. rewrite E1. cbn [bind].
  set (s1 := sset s0 p_Extent (VExtent h' w')).
  assert (sget s1 p_Extent = Some (VExtent h' w')) as X1 by apply sget_sset_eq.
  assert (sget s1 p_Origin = sget st p_Origin) as O1 by (unfold s1; rewrite sget_sset_neq by discriminate; exact O0).
  assert (sget s1 p_Position = sget st p_Position) as P1 by (unfold s1; rewrite sget_sset_neq by discriminate; exact P0).
  (* origin *)
  assert (exists s2, (if shas s1 p_Origin then compute_prop d None s1 p_Origin else Ok s1) = Ok s2 /\
                     (sget s2 p_Origin = None \/ is_coord (sget s2 p_Origin)) /\
                     sget s2 p_Extent = Some (VExtent h' w') /\ sget s2 p_Position = sget st p_Position) as [s2 [E2 [O2 [X2 P2]]]].
  { unfold shas. rewrite O1. destruct (sget st p_Origin) as [v|] eqn:Eo.
    - destruct v; try discriminate. apply andb_true_iff in To as [Tx Ty].
      assert (sget s1 p_Origin = Some (VCoord x y)) as Eo1 by (rewrite O1; reflexivity).
      destruct (compute_origin_ok d s1 _ _ Eo1 Tx Ty) as [x' [y' E]]. eexists. split; [exact E|].
      split; [right; rewrite sget_sset_eq; eexists; eexists; reflexivity|].
      split; [rewrite sget_sset_neq by discriminate; exact X1 | rewrite sget_sset_neq by discriminate; exact P1].
    - exists s1. split; [reflexivity|]. split; [left; rewrite O1; reflexivity|]. split; [exact X1 | exact P1]. }
  rewrite E2. cbn [bind].
  (* position *)
  assert (exists s3, (if shas s2 p_Position then bind (compute_prop d None s2 p_Position) (fun st' => Ok (sdel st' p_Position)) else Ok s2) = Ok s3 /\
                     (sget s3 p_Origin = None \/ is_coord (sget s3 p_Origin)) /\ sget s3 p_Extent = Some (VExtent h' w')) as [s3 [E3 [O3 X3]]].
  { unfold shas. rewrite P2. destruct (sget st p_Position) as [v|] eqn:Epv.
    - destruct v; try discriminate. apply andb_true_iff in Tp as [Th Tv].
      assert (sget s2 p_Position = Some (VPos h0 he v ve)) as Ep2 by (rewrite P2; reflexivity).
      destruct (compute_position_ok d s2 _ _ _ _ _ _ Ep2 Th Tv X2 Uh' Uw') as [x [y [pv E]]]. rewrite E. cbn [bind]. eexists. split; [reflexivity|].
      split.
      + right. rewrite sget_sdel_neq by discriminate. rewrite sget_sset_neq by discriminate. rewrite sget_sset_eq. eexists; eexists; reflexivity.
      + rewrite sget_sdel_neq by discriminate. rewrite sget_sset_neq by discriminate. rewrite sget_sset_neq by discriminate. exact X2.
    - exists s2. split; [reflexivity|]. split; [exact O2 | exact X2]. }
  rewrite E3. cbn [bind]. eexists. split; [reflexivity|].
  unfold shas. destruct O3 as [O3|O3].
  - rewrite O3. split; [rewrite sget_sset_eq; exact (init_or_coord _ Hi) | rewrite sget_sset_neq by discriminate; rewrite X3; eexists; eexists; reflexivity].
  - destruct O3 as [x [y O3]]. rewrite O3. split; [exists x, y; exact O3 | rewrite X3; eexists; eexists; reflexivity].
Qed.

Lemma region_layout_ok c d inits st : geometry_typed st = true -> inits_typed inits = true ->
  exists r, region_layout c d inits st = Ok r.
Proof.
  intros Ht Hi. destruct (region_pre_ok d inits st Ht Hi) as [s [E [[x [y Ho]] [h [w He]]]]].
  unfold region_layout. rewrite E. cbn [bind]. unfold new_display_align. rewrite Ho, He. cbn [bind]. eexists. reflexivity.
Qed.

Lemma sget_keep_rsupported c m p : rsupported c p = true -> sget (keep_rstyles c m) p = sget m p.
Proof.
  intros Hs. unfold keep_rstyles. induction m as [|[k w] m IH]; [reflexivity|]. cbn [filter fst sget].
  destruct (rsupported c k) eqn:Ek; cbn [sget]; [rewrite IH; reflexivity|].
  destruct (k =? p) eqn:E; [apply Z.eqb_eq in E; congruence | exact IH].
Qed.
Lemma geometry_keep c m : geometry_typed (keep_rstyles c m) = geometry_typed m.
Proof.
  unfold geometry_typed. rewrite !sget_keep_rsupported; [reflexivity | | |]; unfold rsupported, supported; cbn; rewrite ?orb_true_r; reflexivity.
Qed.
Lemma inits_keep c m : inits_typed (keep_styles c m) = inits_typed m.
Proof. unfold inits_typed. rewrite !sget_keep_supported; [reflexivity | |]; unfold supported; cbn; reflexivity. Qed.

Lemma lcd_regions_ok c d inits : inits_typed inits = true -> forall rs ret,
  (forall r, In r rs -> geometry_typed (e_styles (eattrs r)) = true) ->
  exists out, lcd_regions c d inits rs ret = Ok out.
Proof.
  intros Hi. induction rs as [|r rs IH]; intros ret H; [eexists; reflexivity|].
  pose proof (H r (or_introl eq_refl)) as Ht. cbn [lcd_regions].
  assert (exists x, region_layout c d inits (e_styles (eattrs (rstyle_elem c (anim_elem r)))) = Ok x) as [[[st wm] nda] E].
  { rewrite eattrs_clean. cbn [e_styles rstyle_attrs with_styles anim_attrs with_anims]. apply region_layout_ok; [rewrite geometry_keep; exact Ht | exact Hi]. }
  rewrite E. cbn [bind].
  destruct (lookup_fp ret _).
  - destruct (IH ret) as [out Eo]; [intros x Hx; apply H; right; exact Hx|]. rewrite Eo. eexists. reflexivity.
  - match goal with |- context [lcd_regions c d inits rs ?R] => destruct (IH R) as [out Eo] end; [intros x Hx; apply H; right; exact Hx|].
    rewrite Eo. eexists. reflexivity.
Qed.

(* since fix d8691ec: no trigger *)
Theorem total_thm c d : lcd_typed d = true -> exists d', lcd c d = Ok d'.
Proof.
  unfold lcd_typed. intros Ht. apply andb_true_iff in Ht as [Hr Hi].
  rewrite forallb_forall in Hr.
  destruct (lcd_regions_ok c d (keep_styles c (d_initials d)) (eq_trans (inits_keep c _) Hi) (d_regions d) []) as [out Eo].
  { intros r Hin. exact (Hr _ Hin). }
  unfold lcd. rewrite Eo. cbn [bind]. eexists. reflexivity.
Qed.

(* totality and the timeline theorem together *)
From TT Require Import Proofs.C16.Tree Proofs.C16.Chains Proofs.C16.Counting Proofs.C16.Alias Proofs.C16.Timeline1 Proofs.C16.Timeline2 Proofs.C16.Timeline3.
Theorem total_timeline_thm c d t :
  lcd_typed d = true -> regions_have_ids d -> NoDup (rids (d_regions d)) -> refs_in_doc d ->
  no_hiding_b d = true -> trig_nested c d = false ->
  exists d', lcd c d = Ok d' /\ timeline_at d d' t.
Proof.
  intros Ht Hids Hnd Hrefs Hh Hn. destruct (total_thm c d Ht) as [d' E]. exists d'. split; [exact E|].
  exact (timeline_thm c d d' t E Hids Hnd Hrefs Hh Hn).
Qed.
