(* C16 timeline, part 2: list facts — exchanging two nested flat_maps up to permutation, counting. *)
From Coq Require Import Permutation.
From TT Require Import Base.Prelude.

Lemma perm_flat_map_app {X Y} (f g : X -> list Y) (l : list X) : Permutation (flat_map (fun x => f x ++ g x) l) (flat_map f l ++ flat_map g l).
Proof.
  induction l as [|x l IH]; [constructor|]. cbn [flat_map].
  rewrite <- !app_assoc. apply Permutation_app_head.
  rewrite IH. rewrite !app_assoc. apply Permutation_app_tail. apply Permutation_app_comm.
Qed.

Section Lists.
Context {A B C : Type}.

Lemma flat_map_filter_if (f : A -> list C) (p : A -> bool) l :
  flat_map f (filter p l) = flat_map (fun x => if p x then f x else []) l.
Proof. induction l as [|x l IH]; [reflexivity|]. cbn [filter flat_map]. destruct (p x); cbn [flat_map app]; rewrite IH; reflexivity. Qed.

Lemma flat_map_swap (F : A -> B -> list C) la lb :
  Permutation (flat_map (fun a => flat_map (fun b => F a b) lb) la) (flat_map (fun b => flat_map (fun a => F a b) la) lb).
Proof.
  induction la as [|a la IH]; cbn [flat_map].
  - induction lb; [constructor | assumption].
  - rewrite IH. symmetry. apply (perm_flat_map_app (fun b => F a b) (fun b => flat_map (fun a => F a b) la)).
Qed.

Lemma flat_map_const_if (p : A -> bool) (L : list C) l :
  flat_map (fun x => if p x then L else []) l = concat (repeat L (length (filter p l))).
Proof. induction l as [|x l IH]; [reflexivity|]. cbn [flat_map filter]. destruct (p x); cbn [length repeat concat app]; rewrite IH; reflexivity. Qed.

Lemma flat_map_F2 (f : A -> list C) (g : B -> list C) l m : Forall2 (fun x y => f x = g y) l m -> flat_map f l = flat_map g m.
Proof. intros H. induction H; [reflexivity|]. cbn [flat_map]. congruence. Qed.
End Lists.

Lemma flat_map_count_eq {A B C} (p : A -> bool) (q : B -> bool) (L : list C) l m :
  length (filter p l) = length (filter q m) ->
  flat_map (fun x => if p x then L else []) l = flat_map (fun y => if q y then L else []) m.
Proof. intros H. rewrite !flat_map_const_if, H. reflexivity. Qed.

(* exactly one element of a list with unique keys carries a given key *)
Lemma filter_none {A} (p : A -> bool) l : (forall x, In x l -> p x = false) -> filter p l = [].
Proof.
  induction l as [|x l IH]; intros H; [reflexivity|]. cbn [filter]. rewrite (H x (or_introl eq_refl)). apply IH. intros y Hy. apply H. right. exact Hy.
Qed.
Lemma count_unique {A} (key : A -> text) (p : A -> bool) l x : NoDup (map key l) -> In x l ->
  length (filter (fun y => p y && text_eqb (key y) (key x)) l) = if p x then 1%nat else 0%nat.
Proof.
  induction l as [|y l IH]; intros Hn Hi; [destruct Hi|]. cbn [map] in Hn. inversion Hn as [|? ? Hk Hn']; subst. cbn [filter].
  destruct Hi as [->|Hi].
  - assert (text_eqb (key x) (key x) = true) as E by (apply text_eqb_eq; reflexivity). rewrite E, andb_true_r.
    assert (filter (fun y => p y && text_eqb (key y) (key x)) l = []) as F.
    { apply filter_none. intros z Hz. destruct (text_eqb (key z) (key x)) eqn:Ez; [|apply andb_false_r].
      apply text_eqb_eq in Ez. exfalso. apply Hk. rewrite <- Ez. apply in_map. exact Hz. }
    rewrite F. destruct (p x); reflexivity.
  - assert (text_eqb (key y) (key x) = false) as E.
    { destruct (text_eqb (key y) (key x)) eqn:Ez; [|reflexivity]. apply text_eqb_eq in Ez. exfalso. apply Hk. rewrite Ez. apply in_map. exact Hi. }
    rewrite E, andb_false_r. apply IH; assumption.
Qed.
Lemma count_absent {A} (key : A -> text) (p : A -> bool) l k : ~ In k (map key l) ->
  length (filter (fun y => p y && text_eqb (key y) k) l) = 0%nat.
Proof.
  intros H. rewrite filter_none; [reflexivity|]. intros z Hz. destruct (text_eqb (key z) k) eqn:Ez; [|apply andb_false_r].
  apply text_eqb_eq in Ez. exfalso. apply H. rewrite <- Ez. apply in_map. exact Hz.
Qed.
