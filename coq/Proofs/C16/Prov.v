(* C16: provenance — every attribute record of the filtered document comes, position by position, from one record of
   the source through a known chain of updates.  All the static theorems are read off this description. *)
From TT Require Import Model.Doc Gen.StyleTables Model.Isd Model.Lcd Spec.LcdSpec Proofs.Common.ElemInd Proofs.C16.Basics.

Lemma Forall2_map_r {A B} (f : A -> B) l : Forall2 (fun a b => b = f a) l (map f l).
Proof. induction l; cbn [map]; constructor; auto. Qed.
Lemma Forall2_same {A} (R : A -> A -> Prop) l : (forall a, R a a) -> Forall2 R l l.
Proof. intros H. induction l; constructor; auto. Qed.
Lemma Forall2_comp {A B C} (R : A -> B -> Prop) (S : B -> C -> Prop) l1 l2 l3 :
  Forall2 R l1 l2 -> Forall2 S l2 l3 -> Forall2 (fun a c => exists b, R a b /\ S b c) l1 l3.
Proof.
  intros H. revert l3. induction H; intros l3 H2; inversion H2; subst; constructor; eauto.
Qed.
Lemma Forall2_impl {A B} (R S : A -> B -> Prop) l1 l2 : (forall a b, R a b -> S a b) -> Forall2 R l1 l2 -> Forall2 S l1 l2.
Proof. intros H F. induction F; constructor; auto. Qed.
Lemma Forall2_In_r {A B} (R : A -> B -> Prop) l1 l2 b : Forall2 R l1 l2 -> In b l2 -> exists a, In a l1 /\ R a b.
Proof.
  intros F. induction F; intros Hi; [destruct Hi|]. destruct Hi as [<-|Hi]; [eexists; split; [left; reflexivity | eassumption]|].
  destruct (IHF Hi) as [a [Ha Hr]]. exists a. split; [right; exact Ha | exact Hr].
Qed.

(* ---- single steps ------------------------------------------------------------------------------------------- *)
Definition bg_rel (col : Z) (a a' : attrs) : Prop := a' = a \/ (e_kind a = KP /\ a' = set_style a p_BackgroundColor (VColor col)).
Lemma apply_bg_F2 col e : Forall2 (bg_rel col) (elems_of e) (elems_of (apply_bg col e)).
Proof.
  induction e as [a cs IH] using elem_ind2. cbn [apply_bg].
  assert (Forall2 (bg_rel col) (flat_map elems_of cs) (flat_map elems_of (map (apply_bg col) cs))) as Hm.
  { induction cs as [|c cs IHcs]; [constructor|]. inversion IH; subst. cbn [map flat_map]. apply Forall2_app; auto. }
  destruct (e_kind a) eqn:Ek; cbn [elems_of]; try (constructor; [left; reflexivity | exact Hm]).
  constructor; [right; split; [exact Ek | reflexivity] | apply Forall2_same; intros; left; reflexivity].
Qed.
Definition root_rel (p : Z) (v : value) (a a' : attrs) : Prop := a' = a \/ a' = set_style a p v.
Lemma set_root_F2 p v e : Forall2 (root_rel p v) (elems_of e) (elems_of (set_root_style p v e)).
Proof.
  destruct e as [a cs]. cbn [set_root_style elems_of]. constructor; [right; reflexivity|].
  apply Forall2_same. intros; left; reflexivity.
Qed.

(* ---- the body ------------------------------------------------------------------------------------------------- *)
Definition body_base (c : lcd_cfg) (al : list (text * text)) (a : attrs) : attrs :=
  clear_attrs (map fst al) (redirect_attrs al (anim_attrs (style_attrs c a))).
(* a' is what the filter makes of the source record a *)
Definition body_rel (c : lcd_cfg) (al : list (text * text)) (a a' : attrs) : Prop :=
  exists a4 a5,
    (a4 = body_base c al a \/ exists col, c_bg c = Some col /\ e_kind a = KP /\ a4 = set_style (body_base c al a) p_BackgroundColor (VColor col)) /\
    (a5 = a4 \/ exists col, c_color c = Some col /\ a5 = set_style a4 p_Color (VColor col)) /\
    (a' = a5 \/ (c_pta c = false /\ a' = set_style a5 p_TextAlign (VEnum e_TextAlignType_center))).

Lemma kind_clear rm a : e_kind (clear_attrs rm a) = e_kind a.
Proof. unfold clear_attrs. destruct (e_region a) as [r|]; [destruct (mem_id r rm)|]; reflexivity. Qed.
Lemma kind_redirect al a : e_kind (redirect_attrs al a) = e_kind a.
Proof. unfold redirect_attrs. destruct (e_region a) as [r|]; [destruct (lookup_id al r)|]; reflexivity. Qed.
Lemma anims_clear rm a : e_anims (clear_attrs rm a) = e_anims a.
Proof. unfold clear_attrs. destruct (e_region a) as [r|]; [destruct (mem_id r rm)|]; reflexivity. Qed.
Lemma anims_redirect al a : e_anims (redirect_attrs al a) = e_anims a.
Proof. unfold redirect_attrs. destruct (e_region a) as [r|]; [destruct (lookup_id al r)|]; reflexivity. Qed.
Lemma styles_clear rm a : e_styles (clear_attrs rm a) = e_styles a.
Proof. unfold clear_attrs. destruct (e_region a) as [r|]; [destruct (mem_id r rm)|]; reflexivity. Qed.
Lemma styles_redirect al a : e_styles (redirect_attrs al a) = e_styles a.
Proof. unfold redirect_attrs. destruct (e_region a) as [r|]; [destruct (lookup_id al r)|]; reflexivity. Qed.
Lemma anims_body_base c al a : e_anims (body_base c al a) = [].
Proof. unfold body_base. rewrite anims_clear, anims_redirect. reflexivity. Qed.
Lemma styles_body_base c al a : e_styles (body_base c al a) = keep_styles c (e_styles a).
Proof. unfold body_base. rewrite styles_clear, styles_redirect. reflexivity. Qed.
Lemma kind_body_base c al a : e_kind (body_base c al a) = e_kind a.
Proof. unfold body_base. rewrite kind_clear, kind_redirect. reflexivity. Qed.

Lemma body_base_F2 c al b :
  Forall2 (fun a a' => a' = body_base c al a) (elems_of b)
          (elems_of (clear_elem (map fst al) (redirect_elem al (anim_elem (style_elem c b))))).
Proof.
  unfold clear_elem, redirect_elem, anim_elem, style_elem. rewrite !map_attrs_compose, elems_of_map_attrs.
  apply Forall2_map_r.
Qed.

Theorem lcd_body_prov c d d' : lcd c d = Ok d' ->
  exists out, lcd_regions c d (keep_styles c (d_initials d)) (d_regions d) [] = Ok out /\
              d_regions d' = retained_of out /\ d_initials d' = keep_styles c (d_initials d) /\
              Forall2 (body_rel c (replaced_of out)) (body_attrs d) (body_attrs d').
Proof.
  intros H. apply lcd_ok_inv in H as [out [Ho ->]]. exists out. split; [exact Ho|]. split; [reflexivity|]. split; [reflexivity|].
  unfold body_attrs, body_pipeline. cbn [d_body]. cbv zeta.
  destruct (d_body d) as [b|]; cbn [option_map].
  - set (al := replaced_of out) in *.
    set (b1 := clear_elem (map fst al) (redirect_elem al (anim_elem (style_elem c b)))) in *.
    pose proof (body_base_F2 c al b) as F1. fold b1 in F1.
    assert (exists b4, (match c_bg c with Some col => Some (apply_bg col b1) | None => Some b1 end) = Some b4 /\
              Forall2 (fun a a4 => a4 = body_base c al a \/ exists col, c_bg c = Some col /\ e_kind a = KP /\
                                                               a4 = set_style (body_base c al a) p_BackgroundColor (VColor col))
                      (elems_of b) (elems_of b4)) as [b4 [E4 F4]].
    { destruct (c_bg c) as [col|]; cbn [option_map]; eexists; (split; [reflexivity|]).
      - pose proof (Forall2_comp _ _ _ _ _ F1 (apply_bg_F2 col b1)) as F. eapply Forall2_impl; [|exact F].
        intros a a4 [x [-> [->|[Hk ->]]]]; [left; reflexivity|]. right. exists col. rewrite kind_body_base in Hk. auto.
      - eapply Forall2_impl; [|exact F1]. intros a a4 ->. left. reflexivity. }
    rewrite E4.
    assert (exists b5, (match c_color c with Some col => option_map (set_root_style p_Color (VColor col)) (Some b4) | None => Some b4 end) = Some b5 /\
              Forall2 (fun a4 a5 => a5 = a4 \/ exists col, c_color c = Some col /\ a5 = set_style a4 p_Color (VColor col))
                      (elems_of b4) (elems_of b5)) as [b5 [E5 F5]].
    { destruct (c_color c) as [col|]; cbn [option_map]; eexists; (split; [reflexivity|]).
      - eapply Forall2_impl; [|apply set_root_F2]. intros a4 a5 [-> | ->]; [left; reflexivity | right; exists col; auto].
      - apply Forall2_same. intros; left; reflexivity. }
    rewrite E5.
    assert (exists b6, (if c_pta c then Some b5 else option_map (set_root_style p_TextAlign (VEnum e_TextAlignType_center)) (Some b5)) = Some b6 /\
              Forall2 (fun a5 a6 => a6 = a5 \/ (c_pta c = false /\ a6 = set_style a5 p_TextAlign (VEnum e_TextAlignType_center)))
                      (elems_of b5) (elems_of b6)) as [b6 [E6 F6]].
    { destruct (c_pta c); cbn [option_map]; eexists; (split; [reflexivity|]).
      - apply Forall2_same. intros; left; reflexivity.
      - eapply Forall2_impl; [|apply set_root_F2]. intros a5 a6 [-> | ->]; [left; reflexivity | right; auto]. }
    rewrite E6.
    pose proof (Forall2_comp _ _ _ _ _ (Forall2_comp _ _ _ _ _ F4 F5) F6) as F.
    eapply Forall2_impl; [|exact F]. intros a a' [a5 [[a4 [H4 H5]] H6]]. exists a4, a5. auto.
  - destruct (c_bg c), (c_color c), (c_pta c); constructor.
Qed.

(* ---- the regions ------------------------------------------------------------------------------------------------ *)
Lemma loop_rel_done c d inits ret rs out : loop_rel c d inits ret rs out ->
  Forall (fun x => exists r wm nda, In r rs /\ region_done c d inits r (fst x) wm nda) out.
Proof.
  intros H. induction H; [constructor| |];
    (constructor; [exists r, wm, nda; split; [left; reflexivity | assumption]|];
     eapply Forall_impl; [|exact IHloop_rel]; intros x [r0 [w0 [n0 [Hi Hd]]]]; exists r0, w0, n0; split; [right; exact Hi | exact Hd]).
Qed.
Lemma In_retained_of out r2 : In r2 (retained_of out) -> In (r2, None) out.
Proof.
  unfold retained_of. intros H. apply in_flat_map in H as [[x o] [Hx Hi]]. cbn [snd fst] in Hi.
  destruct o; [destruct Hi|]. destruct Hi as [<-|[]]. exact Hx.
Qed.

(* every region of the result is a processed source region *)
Theorem lcd_region_prov c d d' r2 : lcd c d = Ok d' -> In r2 (d_regions d') ->
  exists r wm nda, In r (d_regions d) /\ region_done c d (keep_styles c (d_initials d)) r r2 wm nda.
Proof.
  intros H Hi. destruct (lcd_body_prov _ _ _ H) as [out [Ho [Hr _]]]. rewrite Hr in Hi.
  apply In_retained_of in Hi. apply lcd_regions_rel, loop_rel_done in Ho. rewrite Forall_forall in Ho.
  exact (Ho _ Hi).
Qed.

(* the attribute records of a processed region: the root with its new style map, the rest cleaned *)
Lemma region_done_attrs c d inits r r2 wm nda : region_done c d inits r r2 wm nda ->
  exists st, region_layout c d inits (keep_rstyles c (e_styles (eattrs r))) = Ok (st, wm, nda) /\
             elems_of r2 = with_styles (rstyle_attrs c (anim_attrs (eattrs r))) st
                           :: map (fun a => rstyle_attrs c (anim_attrs a)) (flat_map elems_of (echildren r)).
Proof.
  intros [st [Hl ->]]. exists st. rewrite eattrs_clean in *. split; [exact Hl|].
  destruct r as [a cs]. cbn [elems_of eattrs echildren rstyle_elem anim_elem map_attrs]. f_equal.
  clear Hl. rewrite map_map. induction cs as [|x cs IH]; [reflexivity|]. cbn [map flat_map]. rewrite map_app, IH. f_equal.
  fold (anim_elem x). fold (rstyle_elem c (anim_elem x)). unfold rstyle_elem, anim_elem.
  rewrite map_attrs_compose, elems_of_map_attrs. reflexivity.
Qed.
