(* C16: facts shared by the theorems about Model/Lcd.v — style maps, trees, the shape of the region loop. *)
From TT Require Import Model.Doc Gen.StyleTables Model.Isd Model.Lcd Spec.LcdSpec Proofs.Common.ElemInd.

(* ---- style maps ------------------------------------------------------------------------------------------ *)
Lemma sget_sset_eq m p v : sget (sset m p v) p = Some v.
Proof.
  induction m as [|[k w] m IH]; cbn [sset sget].
  - rewrite Z.eqb_refl. reflexivity.
  - destruct (k =? p) eqn:E; cbn [sget]; rewrite E; [reflexivity | exact IH].
Qed.
Lemma sget_sset_neq m p q v : q <> p -> sget (sset m p v) q = sget m q.
Proof.
  intros Hn. induction m as [|[k w] m IH]; cbn [sset sget].
  - destruct (p =? q) eqn:E; [apply Z.eqb_eq in E; congruence | reflexivity].
  - destruct (k =? p) eqn:E; cbn [sget].
    + apply Z.eqb_eq in E. subst k. destruct (p =? q) eqn:E2; [apply Z.eqb_eq in E2; congruence | reflexivity].
    + destruct (k =? q); [reflexivity | exact IH].
Qed.
Lemma shas_sset_eq m p v : shas (sset m p v) p = true.
Proof. unfold shas. rewrite sget_sset_eq. reflexivity. Qed.
Lemma shas_sset_neq m p q v : q <> p -> shas (sset m p v) q = shas m q.
Proof. intros H. unfold shas. rewrite (sget_sset_neq _ _ _ _ H). reflexivity. Qed.

Lemma In_sset m p v kv : In kv (sset m p v) -> kv = (p, v) \/ In kv m.
Proof.
  induction m as [|[k0 w0] m IH]; cbn [sset].
  - intros [H|[]]. left. symmetry. exact H.
  - destruct (k0 =? p) eqn:E.
    + apply Z.eqb_eq in E. subst k0. intros [H|H]; [left; symmetry; exact H | right; right; exact H].
    + intros [H|H]; [right; left; exact H|]. destruct (IH H) as [?|?]; [left; assumption | right; right; assumption].
Qed.
Lemma skeys_sset m p v : skeys (sset m p v) = if existsb (Z.eqb p) (skeys m) then skeys m else skeys m ++ [p].
Proof.
  unfold skeys. induction m as [|[k w] m IH]; cbn [sset map existsb app fst]; [reflexivity|].
  rewrite (Z.eqb_sym p k). destruct (k =? p) eqn:E; cbn [map fst orb]; [reflexivity|].
  rewrite IH. destruct (existsb (Z.eqb p) (map fst m)); reflexivity.
Qed.
Lemma existsb_eqb_In p l : existsb (Z.eqb p) l = true <-> In p l.
Proof.
  rewrite existsb_exists. split.
  - intros [x [Hx E]]. apply Z.eqb_eq in E. subst. exact Hx.
  - intros H. exists p. split; [exact H | apply Z.eqb_refl].
Qed.
Lemma In_skeys_sset m p v k : In k (skeys (sset m p v)) -> k = p \/ In k (skeys m).
Proof.
  rewrite skeys_sset. destruct (existsb (Z.eqb p) (skeys m)); [right; assumption|].
  intros H. apply in_app_or in H as [H|[H|[]]]; [right; exact H | left; symmetry; exact H].
Qed.
Lemma NoDup_sset m p v : NoDup (skeys m) -> NoDup (skeys (sset m p v)).
Proof.
  intros H. rewrite skeys_sset. destruct (existsb (Z.eqb p) (skeys m)) eqn:E; [exact H|].
  assert (~ In p (skeys m)) as Hn by (intro Hi; apply existsb_eqb_In in Hi; congruence).
  apply NoDup_rev in H. rewrite <- (rev_involutive (skeys m ++ [p])). apply NoDup_rev.
  rewrite rev_app_distr. cbn [rev app]. constructor; [rewrite <- in_rev; exact Hn | exact H].
Qed.
Lemma In_sdel m p kv : In kv (sdel m p) -> In kv m.
Proof.
  induction m as [|[k w] m IH]; cbn [sdel]; [tauto|].
  destruct (k =? p); [intros H; right; exact H|]. intros [H|H]; [left; exact H | right; exact (IH H)].
Qed.
Lemma skeys_sdel m p : NoDup (skeys m) -> NoDup (skeys (sdel m p)) /\ ~ In p (skeys (sdel m p)) /\
  forall k, In k (skeys (sdel m p)) -> In k (skeys m).
Proof.
  unfold skeys. induction m as [|[k w] m IH]; cbn [sdel map fst]; intros H.
  - split; [constructor | split; [tauto | tauto]].
  - inversion H as [|? ? Hk Hm]; subst. destruct (k =? p) eqn:E.
    + apply Z.eqb_eq in E. subst k. split; [exact Hm | split; [exact Hk | intros; right; assumption]].
    + apply Z.eqb_neq in E. destruct (IH Hm) as [H1 [H2 H3]]. cbn [map fst]. split; [|split].
      * constructor; [intro Hi; apply Hk, H3, Hi | exact H1].
      * intros [Hi|Hi]; [congruence | exact (H2 Hi)].
      * intros k0 [Hi|Hi]; [left; exact Hi | right; exact (H3 _ Hi)].
Qed.
Lemma sget_In m p v : sget m p = Some v -> In (p, v) m.
Proof.
  induction m as [|[k w] m IH]; cbn [sget]; [discriminate|].
  destruct (k =? p) eqn:E; [apply Z.eqb_eq in E; subst; intros H; inversion H; left; reflexivity | intros H; right; exact (IH H)].
Qed.
Lemma shas_In_skeys m p : shas m p = true <-> In p (skeys m).
Proof.
  unfold shas, skeys. induction m as [|[k w] m IH]; cbn [sget map fst].
  - split; [discriminate | intros []].
  - destruct (k =? p) eqn:E.
    + apply Z.eqb_eq in E. subst. split; [intros _; left; reflexivity | reflexivity].
    + apply Z.eqb_neq in E. rewrite IH. split; [intros H; right; exact H | intros [H|H]; [congruence | exact H]].
Qed.

(* the style clean-up *)
Lemma In_keep_styles c m kv : In kv (keep_styles c m) <-> In kv m /\ supported c (fst kv) = true.
Proof. unfold keep_styles. apply filter_In. Qed.
Lemma skeys_keep_styles c m : skeys (keep_styles c m) = filter (supported c) (skeys m).
Proof.
  unfold skeys, keep_styles. induction m as [|[k w] m IH]; cbn [filter map fst]; [reflexivity|].
  destruct (supported c k); cbn [map fst]; rewrite IH; reflexivity.
Qed.
Lemma NoDup_keep_styles c m : NoDup (skeys m) -> NoDup (skeys (keep_styles c m)).
Proof. intros H. rewrite skeys_keep_styles. apply NoDup_filter. exact H. Qed.
Lemma keep_styles_idem c m : keep_styles c (keep_styles c m) = keep_styles c m.
Proof.
  unfold keep_styles. induction m as [|kv m IH]; cbn [filter]; [reflexivity|].
  destruct (supported c (fst kv)) eqn:E; cbn [filter]; [rewrite E, IH; reflexivity | exact IH].
Qed.

(* the same for the filter used on regions (supported + tts:position) *)
Lemma In_keep_rstyles c m kv : In kv (keep_rstyles c m) <-> In kv m /\ rsupported c (fst kv) = true.
Proof. unfold keep_rstyles. apply filter_In. Qed.
Lemma skeys_keep_rstyles c m : skeys (keep_rstyles c m) = filter (rsupported c) (skeys m).
Proof.
  unfold skeys, keep_rstyles. induction m as [|[k w] m IH]; cbn [filter map fst]; [reflexivity|].
  destruct (rsupported c k); cbn [map fst]; rewrite IH; reflexivity.
Qed.
Lemma NoDup_keep_rstyles c m : NoDup (skeys m) -> NoDup (skeys (keep_rstyles c m)).
Proof. intros H. rewrite skeys_keep_rstyles. apply NoDup_filter. exact H. Qed.
Lemma keep_rstyles_idem c m : keep_rstyles c (keep_rstyles c m) = keep_rstyles c m.
Proof.
  unfold keep_rstyles. induction m as [|kv m IH]; cbn [filter]; [reflexivity|].
  destruct (rsupported c (fst kv)) eqn:E; cbn [filter]; [rewrite E, IH; reflexivity | exact IH].
Qed.
Lemma supported_rsupported c p : supported c p = true -> rsupported c p = true.
Proof. unfold rsupported. intros ->. reflexivity. Qed.

(* ---- trees -------------------------------------------------------------------------------------------------- *)
Lemma elems_of_map_attrs f e : elems_of (map_attrs f e) = map f (elems_of e).
Proof.
  induction e as [a cs IH] using elem_ind2. cbn [map_attrs elems_of map]. f_equal.
  induction cs as [|c cs IHcs]; [reflexivity|].
  inversion IH as [|? ? Hc Hr]; subst. cbn [map flat_map]. rewrite map_app, Hc, (IHcs Hr). reflexivity.
Qed.
Lemma map_attrs_id f e : (forall a, f a = a) -> map_attrs f e = e.
Proof.
  intros Hf. induction e as [a cs IH] using elem_ind2. cbn [map_attrs]. rewrite Hf. f_equal.
  induction cs as [|c cs IHcs]; [reflexivity|]. inversion IH; subst. cbn [map]. f_equal; auto.
Qed.
Lemma map_attrs_ext f g e : (forall a, In a (elems_of e) -> f a = g a) -> map_attrs f e = map_attrs g e.
Proof.
  induction e as [a cs IH] using elem_ind2. intros H. cbn [map_attrs]. f_equal.
  - apply H. left. reflexivity.
  - assert (forall x, In x (flat_map elems_of cs) -> f x = g x) as H' by (intros x Hx; apply H; right; exact Hx).
    clear H. induction cs as [|c cs IHcs]; [reflexivity|]. inversion IH as [|? ? Hc Hr]; subst. cbn [map]. f_equal.
    + apply Hc. intros x Hx. apply H'. cbn [flat_map]. apply in_or_app. left. exact Hx.
    + apply IHcs; [exact Hr|]. intros x Hx. apply H'. cbn [flat_map]. apply in_or_app. right. exact Hx.
Qed.
Lemma map_attrs_compose f g e : map_attrs f (map_attrs g e) = map_attrs (fun a => f (g a)) e.
Proof.
  induction e as [a cs IH] using elem_ind2. cbn [map_attrs]. f_equal. rewrite map_map.
  induction cs as [|c cs IHcs]; [reflexivity|]. inversion IH; subst. cbn [map]. f_equal; auto.
Qed.

(* a property of every attribute record of a tree *)
Definition all_attrs (P : attrs -> Prop) (e : elem) : Prop := forall a, In a (elems_of e) -> P a.
Lemma all_attrs_map_attrs (P Q : attrs -> Prop) f e :
  (forall a, Q a -> P (f a)) -> all_attrs Q e -> all_attrs P (map_attrs f e).
Proof.
  intros Hf Hq a Ha. rewrite elems_of_map_attrs in Ha. apply in_map_iff in Ha as [x [<- Hx]]. apply Hf, Hq, Hx.
Qed.
Lemma all_attrs_node (P : attrs -> Prop) a cs : all_attrs P (Elem a cs) <-> P a /\ Forall (all_attrs P) cs.
Proof.
  unfold all_attrs. cbn [elems_of]. split.
  - intros H. split; [apply H; left; reflexivity|]. apply Forall_forall. intros c Hc x Hx. apply H. right.
    apply in_flat_map. exists c. split; assumption.
  - intros [Ha Hcs] x [<-|Hx]; [exact Ha|]. apply in_flat_map in Hx as [c [Hc Hx]].
    rewrite Forall_forall in Hcs. exact (Hcs c Hc x Hx).
Qed.
Lemma all_attrs_apply_bg (P Q : attrs -> Prop) col e :
  (forall a, Q a -> P a) -> (forall a, Q a -> e_kind a = KP -> P (set_style a p_BackgroundColor (VColor col))) ->
  all_attrs Q e -> all_attrs P (apply_bg col e).
Proof.
  intros H1 H2. induction e as [a cs IH] using elem_ind2. intros Hq.
  apply all_attrs_node in Hq as [Hqa Hqc]. cbn [apply_bg].
  assert (Forall (all_attrs P) (map (apply_bg col) cs)) as Hmap.
  { clear Hqa. induction cs as [|c cs IHcs]; [constructor|].
    inversion IH; subst. inversion Hqc; subst. cbn [map]. constructor; auto. }
  assert (Forall (all_attrs P) cs) as Hsame.
  { clear Hmap IH. induction cs as [|c cs IHcs]; [constructor|]. inversion Hqc; subst. constructor; [|auto].
    intros x Hx. apply H1. auto. }
  destruct (e_kind a) eqn:Ek; apply all_attrs_node; try (split; [apply H1, Hqa | exact Hmap]).
  split; [apply H2; assumption | exact Hsame].
Qed.

(* ---- the region loop ------------------------------------------------------------------------------------------- *)
(* what one iteration makes of a region *)
Definition region_done (c : lcd_cfg) (d : doc) (inits : smap) (r r2 : elem) (wm nda : Z) : Prop :=
  exists st, region_layout c d inits (e_styles (eattrs (rstyle_elem c (anim_elem r)))) = Ok (st, wm, nda) /\
             r2 = Elem (with_styles (eattrs (rstyle_elem c (anim_elem r))) st) (echildren (rstyle_elem c (anim_elem r))).
(* the fingerprint of a processed region: timing of the source region, writing mode, new displayAlign, and the textAlign
   of the processed region when it is preserved *)
Definition region_fp (c : lcd_cfg) (r r2 : elem) (wm nda : Z) : fp :=
  (or0 (e_begin (eattrs r)), e_end (eattrs r), wm, nda, fp_align c (e_styles (eattrs r2))).

Lemma eattrs_clean c r : eattrs (rstyle_elem c (anim_elem r)) = rstyle_attrs c (anim_attrs (eattrs r)).
Proof. destruct r as [a cs]. reflexivity. Qed.

(* out is rs processed one by one; a region is aliased exactly when an earlier retained one (or one of `retained`)
   has its fingerprint *)
Inductive loop_rel (c : lcd_cfg) (d : doc) (inits : smap) : list (fp * text) -> list elem -> list (elem * option text) -> Prop :=
| loop_nil ret : loop_rel c d inits ret [] []
| loop_keep ret r rs r2 wm nda out :
    region_done c d inits r r2 wm nda -> lookup_fp ret (region_fp c r r2 wm nda) = None ->
    loop_rel c d inits ((region_fp c r r2 wm nda, rid (eattrs r)) :: ret) rs out ->
    loop_rel c d inits ret (r :: rs) ((r2, None) :: out)
| loop_alias ret r rs r2 wm nda t out :
    region_done c d inits r r2 wm nda -> lookup_fp ret (region_fp c r r2 wm nda) = Some t ->
    loop_rel c d inits ret rs out ->
    loop_rel c d inits ret (r :: rs) ((r2, Some t) :: out).

Lemma lcd_regions_rel c d inits : forall rs ret out, lcd_regions c d inits rs ret = Ok out -> loop_rel c d inits ret rs out.
Proof.
  induction rs as [|r rs IH]; intros ret out H; cbn [lcd_regions] in H.
  - inversion H. constructor.
  - destruct (region_layout c d inits (e_styles (eattrs (rstyle_elem c (anim_elem r))))) as [[[st wm] nda]|] eqn:El; cbn [bind] in H; [|discriminate].
    set (r2 := Elem (with_styles (eattrs (rstyle_elem c (anim_elem r))) st) (echildren (rstyle_elem c (anim_elem r)))) in *.
    assert (region_fp c r r2 wm nda = (or0 (e_begin (eattrs (rstyle_elem c (anim_elem r)))), e_end (eattrs (rstyle_elem c (anim_elem r))), wm, nda, fp_align c st)) as Ef
      by (unfold region_fp, r2; rewrite eattrs_clean; reflexivity).
    assert (rid (eattrs (rstyle_elem c (anim_elem r))) = rid (eattrs r)) as Er by (rewrite eattrs_clean; reflexivity).
    rewrite <- Ef, Er in H.
    destruct (lookup_fp ret (region_fp c r r2 wm nda)) as [t|] eqn:Elk.
    + destruct (lcd_regions c d inits rs ret) as [out'|] eqn:Eo; cbn [bind] in H; [|discriminate]. inversion H; subst.
      eapply loop_alias; [exists st; split; [exact El | reflexivity] | exact Elk | apply IH; exact Eo].
    + destruct (lcd_regions c d inits rs _) as [out'|] eqn:Eo; cbn [bind] in H; [|discriminate]. inversion H; subst.
      eapply loop_keep; [exists st; split; [exact El | reflexivity] | exact Elk | apply IH; exact Eo].
Qed.

(* the document assembled by lcd *)
Definition body_pipeline (c : lcd_cfg) (al : list (text * text)) (body0 : option elem) : option elem :=
  let body := option_map (clear_elem (map fst al)) (option_map (redirect_elem al) (option_map (fun b => anim_elem (style_elem c b)) body0)) in
  let body := match c_bg c with Some col => option_map (apply_bg col) body | None => body end in
  let body := match c_color c with Some col => option_map (set_root_style p_Color (VColor col)) body | None => body end in
  if c_pta c then body else option_map (set_root_style p_TextAlign (VEnum e_TextAlignType_center)) body.
Lemma lcd_ok_inv c d d' : lcd c d = Ok d' ->
  exists out,
    lcd_regions c d (keep_styles c (d_initials d)) (d_regions d) [] = Ok out /\
    d' = mkDoc (retained_of out) (body_pipeline c (replaced_of out) (d_body d))
               (keep_styles c (d_initials d)) (d_rows d) (d_cols d) (d_pxh d) (d_pxw d) (d_active d) (d_dar d) (d_lang d).
Proof.
  unfold lcd. intros H.
  destruct (lcd_regions c d (keep_styles c (d_initials d)) (d_regions d) []) as [out|] eqn:Eo; cbn [bind] in H; [|discriminate].
  exists out. split; [reflexivity|]. inversion H. reflexivity.
Qed.
