(* C16: "the configured color, background color and centered alignment are what snapshots compute" — for every document,
   configuration and time: every element of every snapshot (Model/Isd.v, the transcription of ISD.from_model that C01/C03/C13
   tie to isd.py) of the filtered document carries the configured colour wherever it carries a colour, and every paragraph the
   configured background colour and (unless text alignment is preserved) textAlign = center.
   The style cascade is not redone here: the value of a plain property after the style phase is C03's style_phase_plain. *)
From TT Require Import Model.Doc Gen.StyleTables Model.Isd Model.Lcd Spec.IsdSpec Spec.IsdShape Spec.StyleSpec Spec.LcdSpec Model.LcdCases.
From TT Require Import Proofs.Common.ElemInd Proofs.Common.StyleFrame Proofs.C13.Shape Proofs.C13.Styles Proofs.C03.Cascade.
From TT Require Import Proofs.C16.Basics Proofs.C16.Prov Proofs.C16.Static Proofs.C16.Refs Proofs.C16.Idem Proofs.C16.Tree.

(* ---- the content model ---------------------------------------------------------------------------------------------------- *)
Lemma content_ok_node in_p a cs : content_ok in_p (Elem a cs) =
  negb (kind_eqb (e_kind a) KRegion) &&
  (if is_leaf_kind (e_kind a) then match cs with [] => true | _ => false end else true) &&
  negb (in_p && kind_eqb (e_kind a) KP) &&
  forallb (content_ok (in_p || kind_eqb (e_kind a) KP)) cs.
Proof. reflexivity. Qed.

(* two trees of the same shape whose corresponding elements have the same kind *)
Lemma content_ok_rel (R : attrs -> attrs -> Prop) : (forall a a', R a a' -> e_kind a' = e_kind a) ->
  forall e e' in_p, elem_rel R e e' -> content_ok in_p e' = content_ok in_p e.
Proof.
  intros Hk. induction e as [a cs IH] using elem_ind2. intros [a' cs'] in_p H. apply elem_rel_node in H as [Ha Hcs].
  rewrite !content_ok_node, (Hk _ _ Ha).
  assert ((if is_leaf_kind (e_kind a) then match cs' with [] => true | _ => false end else true) =
          (if is_leaf_kind (e_kind a) then match cs with [] => true | _ => false end else true)) as E1.
  { destruct (is_leaf_kind (e_kind a)); [|reflexivity]. destruct Hcs; reflexivity. }
  assert (forall b, forallb (content_ok b) cs' = forallb (content_ok b) cs) as E2.
  { intros b. clear E1 Ha. revert cs' Hcs. induction cs as [|x cs IHcs]; intros cs' Hcs; inversion Hcs; subst; [reflexivity|].
    inversion IH; subst. cbn [forallb]. f_equal; auto. }
  rewrite E1, E2. reflexivity.
Qed.

Lemma kind_eqb_true k1 k2 : kind_eqb k1 k2 = true -> k1 = k2.
Proof. destruct k1, k2; cbn; congruence. Qed.
Lemma kind_eqb_refl k : kind_eqb k k = true.
Proof. destruct k; reflexivity. Qed.

(* inside a p there is no p *)
Lemma content_in_p_no_p : forall e, content_ok true e = true -> all_attrs (fun a => e_kind a <> KP) e.
Proof.
  induction e as [a cs IH] using elem_ind2. rewrite content_ok_node. intros H.
  apply andb_true_iff in H as [H Hcs]. apply andb_true_iff in H as [_ Hp]. cbn [andb] in Hp. apply negb_true_iff in Hp.
  apply all_attrs_node. split; [intros E; rewrite E in Hp; discriminate|].
  cbn [orb] in Hcs. rewrite forallb_forall in Hcs. rewrite Forall_forall in IH. apply Forall_forall. intros x Hx. exact (IH x Hx (Hcs x Hx)).
Qed.

(* ---- _apply_bg_color reaches every paragraph ------------------------------------------------------------------------------- *)
Definition bg_on_p (col : Z) (a : attrs) : Prop := e_kind a = KP -> sget (e_styles a) p_BackgroundColor = Some (VColor col).
Lemma apply_bg_all_p col : forall e, content_ok false e = true -> all_attrs (bg_on_p col) (apply_bg col e).
Proof.
  induction e as [a cs IH] using elem_ind2. rewrite content_ok_node. intros H. apply andb_true_iff in H as [_ Hcs]. cbn [orb] in Hcs.
  rewrite forallb_forall in Hcs. rewrite Forall_forall in IH. cbn [apply_bg].
  assert (e_kind a <> KP -> all_attrs (bg_on_p col) (Elem a (map (apply_bg col) cs))) as Hother.
  { intros Hn. apply all_attrs_node. split; [intros E; contradiction|]. apply Forall_forall. intros y Hy.
    apply in_map_iff in Hy as [x [<- Hx]]. apply (IH x Hx). specialize (Hcs x Hx).
    destruct (kind_eqb (e_kind a) KP) eqn:E; [apply kind_eqb_true in E; contradiction | exact Hcs]. }
  destruct (e_kind a) eqn:Ek; try (apply Hother; discriminate).
  apply all_attrs_node. split.
  - intros _. cbn [set_style e_styles with_styles]. apply sget_sset_eq.
  - apply Forall_forall. intros x Hx y Hy. intros E. exfalso. specialize (Hcs x Hx). cbn [kind_eqb] in Hcs.
    exact (content_in_p_no_p x Hcs y Hy E).
Qed.
Lemma all_attrs_set_root (P : attrs -> Prop) p v e : (forall a, P a -> P (set_style a p v)) -> all_attrs P e -> all_attrs P (set_root_style p v e).
Proof.
  destruct e as [a cs]. intros Hf H. cbn [set_root_style]. apply all_attrs_node in H as [Ha Hcs]. apply all_attrs_node. split; [apply Hf, Ha | exact Hcs].
Qed.
Lemma bg_on_p_set col a p v : p <> p_BackgroundColor -> bg_on_p col a -> bg_on_p col (set_style a p v).
Proof.
  intros Hp H E. cbn [set_style e_styles with_styles e_kind] in *. rewrite sget_sset_neq by congruence. exact (H E).
Qed.

Lemma content_ok_map_attrs f : (forall a, e_kind (f a) = e_kind a) -> forall e in_p, content_ok in_p (map_attrs f e) = content_ok in_p e.
Proof.
  intros Hf e in_p. apply (content_ok_rel (fun a a' => a' = f a)); [intros a a' ->; apply Hf | apply elem_rel_map_attrs].
Qed.

(* ---- what the filter leaves on the elements of the body --------------------------------------------------------------------- *)
Definition opt_is (o : option value) (v : value) : Prop := o = None \/ o = Some v.
Section Styled.
  Variables (pta : bool) (color bg : option Z).
  Definition center : value := VEnum e_TextAlignType_center.
  (* every element: no animation; a colour, if any, is the configured one; textAlign, if any and not preserved, is center;
     paragraphs carry the configured background *)
  Definition styled (a : attrs) : Prop :=
    e_anims a = [] /\
    (forall col, color = Some col -> opt_is (sget (e_styles a) p_Color) (VColor col)) /\
    (pta = false -> opt_is (sget (e_styles a) p_TextAlign) center) /\
    (forall col, bg = Some col -> bg_on_p col a).
  (* the root of the body: the configured colour and the centred alignment are specified on it *)
  Definition own (a : attrs) : Prop :=
    (forall col, color = Some col -> sget (e_styles a) p_Color = Some (VColor col)) /\
    (pta = false -> sget (e_styles a) p_TextAlign = Some center).
  (* the style map of a snapshot parent *)
  Definition inh_ok (pst : smap) : Prop :=
    (forall col, color = Some col -> sget pst p_Color = Some (VColor col)) /\
    (pta = false -> sget pst p_TextAlign = Some center).
  Definition complete (pst : smap) : Prop := forall p, In p all_props -> shas pst p = true.
  Definition pa : attrs -> bool := computed_attrs_b pta color bg.

  Lemma pa_text a t :
    pa (mkAttrs (e_kind a) (e_id a) (e_begin a) (e_end a) (e_region a) (e_styles a) (e_anims a) (e_preserve a) (e_lang a) t) = pa a.
  Proof. reflexivity. Qed.

  Lemma plain_Color : plain_prop p_Color = true /\ In p_Color all_props /\ inheritable p_Color = true.
  Proof. repeat split; vm_compute; auto 40. Qed.
  Lemma plain_TextAlign : plain_prop p_TextAlign = true /\ In p_TextAlign all_props /\ inheritable p_TextAlign = true.
  Proof. repeat split; vm_compute; auto 40. Qed.
  Lemma plain_Bg : plain_prop p_BackgroundColor = true /\ In p_BackgroundColor all_props.
  Proof. repeat split; vm_compute; auto 40. Qed.

  Lemma specified_static t a iv p : e_anims a = [] -> specified t (a, iv) p = sget (e_styles a) p.
  Proof. intros H. unfold specified. cbn [fst snd]. rewrite H. reflexivity. Qed.

  (* the style phase on an element of the filtered body, below a complete parent map *)
  Lemma element_style d t a pk pst iv st :
    is_leaf_kind (e_kind a) = false -> kind_eqb (e_kind a) KRegion = false -> styled a -> complete pst -> inh_ok pst \/ own a ->
    style_phase d t a (Some (pk, pst)) iv = Ok st ->
    inh_ok st /\ complete st /\ (forall col, bg = Some col -> e_kind a = KP -> sget st p_BackgroundColor = Some (VColor col)).
  Proof.
    intros Hleaf Hreg [Han [Hc [Ht Hb]]] Hcomp Hio H.
    destruct plain_Color as [C1 [C2 C3]]. destruct plain_TextAlign as [T1 [T2 T3]]. destruct plain_Bg as [B1 B2].
    assert (forall p, In p all_props -> forall pk0 pst0, Some (pk, pst) = Some (pk0, pst0) -> shas pst0 p = true) as Hpar
      by (intros p Hp pk0 pst0 E; inversion E; subst; apply Hcomp, Hp).
    pose proof (style_phase_plain d t a _ iv st p_Color Hleaf C1 C2 (Hpar _ C2) H) as GC.
    pose proof (style_phase_plain d t a _ iv st p_TextAlign Hleaf T1 T2 (Hpar _ T2) H) as GT.
    pose proof (style_phase_plain d t a _ iv st p_BackgroundColor Hleaf B1 B2 (Hpar _ B2) H) as GB.
    rewrite (specified_static t a iv _ Han) in GC. rewrite (specified_static t a iv _ Han) in GT. rewrite (specified_static t a iv _ Han) in GB.
    rewrite Hreg in GC, GT. rewrite C3 in GC. rewrite T3 in GT. cbn [negb andb] in GC, GT.
    split; [split|split].
    - intros col Ec. rewrite GC. destruct (Hc col Ec) as [E|E]; rewrite E; [|reflexivity].
      destruct Hio as [[Hi _]|[Ho _]]; [exact (Hi col Ec) | rewrite (Ho col Ec) in E; discriminate].
    - intros Ep. rewrite GT. destruct (Ht Ep) as [E|E]; rewrite E; [|reflexivity].
      destruct Hio as [[_ Hi]|[_ Ho]]; [exact (Hi Ep) | rewrite (Ho Ep) in E; discriminate].
    - exact (style_phase_complete d t a _ iv st Hleaf H).
    - intros col Eb Ek. rewrite GB, (Hb col Eb Ek). reflexivity.
  Qed.

  Lemma applicable_leaf k p : is_leaf_kind k = true -> applicable k p = false.
  Proof. destruct k; cbn; try discriminate; reflexivity. Qed.
  Lemma is_color_refl col : is_color (VColor col) col = true.
  Proof. cbn. apply Z.eqb_refl. Qed.

  (* the attributes of the snapshot element satisfy the clause *)
  Lemma pa_out_leaf a st : is_leaf_kind (e_kind a) = true -> pa (isd_attrs a (strip_inapplicable (e_kind a) st)) = true.
  Proof.
    intros Hl. unfold pa, computed_attrs_b. cbn [isd_attrs e_styles e_kind]. rewrite sget_strip, (applicable_leaf _ _ Hl).
    destruct color; destruct (e_kind a); try discriminate; reflexivity.
  Qed.
  Lemma pa_out a st : inh_ok st -> (forall col, bg = Some col -> e_kind a = KP -> sget st p_BackgroundColor = Some (VColor col)) ->
    pa (isd_attrs a (strip_inapplicable (e_kind a) st)) = true.
  Proof.
    intros [Hc Ht] Hb. unfold pa, computed_attrs_b. cbn [isd_attrs e_styles e_kind]. rewrite !sget_strip.
    apply andb_true_iff. split.
    - destruct color as [col|]; [|reflexivity]. destruct (applicable (e_kind a) p_Color); [|reflexivity].
      rewrite (Hc col eq_refl). apply is_color_refl.
    - destruct (e_kind a) eqn:Ek; try reflexivity.
      change (applicable KP p_BackgroundColor) with true. change (applicable KP p_TextAlign) with true. cbv iota.
      apply andb_true_iff. split.
      + destruct bg as [col|]; [|reflexivity]. rewrite (Hb col eq_refl eq_refl). apply is_color_refl.
      + destruct pta; [reflexivity|]. rewrite (Ht eq_refl). cbn. reflexivity.
  Qed.
  (* a region element never shows a colour and is not a paragraph *)
  Lemma pa_out_region a st : e_kind a = KRegion -> pa (isd_attrs a (strip_inapplicable (e_kind a) st)) = true.
  Proof.
    intros Ek. unfold pa, computed_attrs_b. cbn [isd_attrs e_styles e_kind]. rewrite sget_strip, Ek.
    change (applicable KRegion p_Color) with false. destruct color; reflexivity.
  Qed.

  Lemma proc_pa d t sel : forall e in_p inh pk pst pb pe r,
    content_ok in_p e = true -> all_attrs styled e -> complete pst -> inh_ok pst \/ own (eattrs e) ->
    proc d t sel inh (Some (pk, pst)) pb pe e = Ok (Some r) -> allp pa r = true.
  Proof.
    induction e as [a cs IH] using elem_ind2. intros in_p inh pk pst pb pe r Hcont Hst Hcomp Hio H.
    rewrite content_ok_node in Hcont. apply andb_true_iff in Hcont as [Hcont Hcs]. apply andb_true_iff in Hcont as [Hcont _].
    apply andb_true_iff in Hcont as [Hreg Hleafcs]. apply negb_true_iff in Hreg.
    apply all_attrs_node in Hst as [Hsa Hscs].
    cbn [proc] in H.
    destruct (negb (active_at t _)); [discriminate|].
    match type of H with (if ?b then _ else _) = _ => destruct b end; [discriminate|].
    destruct (style_phase d t a _ _) as [st|] eqn:Est; [|discriminate]. cbn [bind] in H.
    destruct (display_none st) eqn:Edn; [discriminate|].
    match type of H with bind ?g _ = _ => destruct g as [children|] eqn:Eg end; [|discriminate]. cbn [bind] in H.
    destruct (is_leaf_kind (e_kind a)) eqn:Eleaf.
    - (* br, text: no children *)
      destruct cs; [|discriminate]. injection Eg as <-.
      apply (finish_element_allp pa pa_text a st [] r); [apply pa_out_leaf, Eleaf | reflexivity | exact H].
    - cbn [eattrs] in Hio.
      destruct (element_style d t a pk pst _ st Eleaf Hreg Hsa Hcomp Hio Est) as [Hinh [Hcst Hbg]].
      apply (finish_element_allp pa pa_text a st children r); [apply pa_out; assumption| |exact H].
      clear H. rewrite forallb_forall in Hcs. rewrite Forall_forall in Hscs.
      revert children Eg. induction cs as [|x cs IHcs]; intros children Eg.
      + injection Eg as <-. reflexivity.
      + inversion IH as [|? ? Hx Hrest]; subst.
        match type of Eg with bind ?g _ = _ => destruct g as [rc|] eqn:Ec end; [|discriminate]. cbn [bind] in Eg.
        match type of Eg with bind ?g _ = _ => destruct g as [rs|] eqn:Er end; [|discriminate]. cbn [bind] in Eg. injection Eg as <-.
        assert (allp_list pa rs = true) as Hrs.
        { apply (IHcs Hrest); [intros y Hy; apply Hcs; right; exact Hy | intros y Hy; apply Hscs; right; exact Hy | reflexivity]. }
        destruct rc as [y|]; [|exact Hrs].
        unfold allp_list in *. cbn [forallb]. rewrite Hrs, andb_true_r.
        apply (Hx _ _ _ _ _ _ _ (Hcs x (or_introl eq_refl)) (Hscs x (or_introl eq_refl)) Hcst (or_introl Hinh) Ec).
  Qed.

  Lemma proc_region_pa d t sel r res : e_kind (eattrs r) = KRegion ->
    (forall b, d_body d = Some b -> content_ok false b = true /\ all_attrs styled b /\ own (eattrs b)) ->
    proc_region d t sel r = Ok (Some res) -> allp pa res = true.
  Proof.
    unfold proc_region. intros Ek Hbody H. destruct (negb (active_at t _)); [discriminate|].
    destruct (style_phase d t _ None _) as [st|] eqn:Est; [|discriminate]. cbn [bind] in H.
    destruct (display_none st) eqn:Edn; [discriminate|].
    match type of H with bind ?g _ = _ => destruct g as [children|] eqn:Eg end; [|discriminate]. cbn [bind] in H.
    apply (finish_element_allp pa pa_text (eattrs r) st children res); [apply pa_out_region, Ek| |exact H].
    destruct (d_body d) as [b|]; [|injection Eg as <-; reflexivity].
    destruct (Hbody b eq_refl) as [Hc [Hs Ho]].
    destruct (proc d t sel None _ None None b) as [[x|]|] eqn:Eb; cbn [bind] in Eg; try discriminate; injection Eg as <-; [|reflexivity].
    unfold allp_list. cbn [forallb]. rewrite andb_true_r.
    apply (proc_pa d t sel b false None KRegion st None None x Hc Hs); [|right; exact Ho | exact Eb].
    intros p Hp. eapply style_phase_complete; [|exact Est | exact Hp]. rewrite Ek. reflexivity.
  Qed.

  Lemma isd_pa d t rs : (forall r, In r (d_regions d) -> e_kind (eattrs r) = KRegion) ->
    (forall b, d_body d = Some b -> content_ok false b = true /\ all_attrs styled b /\ own (eattrs b)) ->
    isd d t = Ok rs -> allp_list pa rs = true.
  Proof.
    unfold isd. intros Hk Hbody H. destruct (d_regions d) as [|r0 rest].
    - apply (collect_regions_allp pa _ rs) in H; [exact H|]. intros x o [<-|[]] Hx. apply proc_region_pa in Hx; [exact Hx | reflexivity | exact Hbody].
    - apply (collect_regions_allp pa _ rs) in H; [exact H|]. intros x o Hin Hx. apply in_map_iff in Hin as (r & <- & Hr).
      apply proc_region_pa in Hx; [exact Hx | exact (Hk r Hr) | exact Hbody].
  Qed.
End Styled.

Lemma elems_all_elems : forall e, elems_of e = map eattrs (all_elems e).
Proof.
  induction e as [a cs IH] using elem_ind2. rewrite all_elems_node. cbn [elems_of map eattrs]. f_equal.
  induction cs as [|x cs IHcs]; [reflexivity|]. inversion IH; subst. cbn [flat_map]. rewrite map_app. f_equal; auto.
Qed.
Lemma computed_allp pta color bg s : allp_list (pa pta color bg) s = true -> computed_b pta color bg s = true.
Proof.
  unfold computed_b, allp_list. induction s as [|e s IH]; [reflexivity|]. cbn [forallb flat_map]. intros H.
  apply andb_true_iff in H as [He Hs]. rewrite forallb_app, (IH Hs), andb_true_r.
  unfold allp in He. rewrite elems_all_elems. rewrite forallb_forall in He. apply forallb_forall. intros a Ha.
  apply in_map_iff in Ha as [x [<- Hx]]. exact (He x Hx).
Qed.

(* ---- the filtered document satisfies the premises ---------------------------------------------------------------------------- *)
Lemma body_rel_kind c al a a' : body_rel c al a a' -> e_kind a' = e_kind a.
Proof.
  intros [a4 [a5 [H4 [H5 H6]]]].
  assert (e_kind a4 = e_kind a) as E4 by (destruct H4 as [->|[col [_ [_ ->]]]]; [apply kind_body_base | cbn; apply kind_body_base]).
  assert (e_kind a5 = e_kind a) as E5 by (destruct H5 as [->|[col [_ ->]]]; [exact E4 | cbn; exact E4]).
  destruct H6 as [->|[_ ->]]; [exact E5 | cbn; exact E5].
Qed.
Lemma sget_keep_unsupported c m p : supported c p = false -> sget (keep_styles c m) p = None.
Proof.
  intros Hs. apply sget_None_keys. intros kv Hkv E. apply In_keep_styles in Hkv as [_ Hk]. rewrite E, Hs in Hk. discriminate.
Qed.

Lemma body_rel_styled c al a a' : body_rel c al a a' ->
  e_anims a' = [] /\
  (forall col, c_color c = Some col -> opt_is (sget (e_styles a') p_Color) (VColor col)) /\
  (c_pta c = false -> opt_is (sget (e_styles a') p_TextAlign) center).
Proof.
  intros Hrel. split; [exact (body_rel_anims _ _ _ _ Hrel)|]. destruct Hrel as [a4 [a5 [H4 [H5 H6]]]].
  pose proof (styles_body_base c al a) as Eb. split.
  - intros col Ec.
    assert (sget (e_styles a4) p_Color = None) as E4.
    { destruct H4 as [->|[cb [_ [_ ->]]]]; [|cbn [set_style e_styles with_styles]; rewrite sget_sset_neq by discriminate];
        rewrite Eb; apply sget_keep_unsupported, (supported_color_false _ _ Ec). }
    assert (opt_is (sget (e_styles a5) p_Color) (VColor col)) as E5.
    { destruct H5 as [->|[cc [Ecc ->]]]; [left; exact E4|]. right. cbn [set_style e_styles with_styles]. rewrite sget_sset_eq. congruence. }
    destruct H6 as [->|[_ ->]]; [exact E5|]. cbn [set_style e_styles with_styles]. rewrite sget_sset_neq by discriminate. exact E5.
  - intros Ep.
    assert (sget (e_styles a4) p_TextAlign = None) as E4.
    { destruct H4 as [->|[cb [_ [_ ->]]]]; [|cbn [set_style e_styles with_styles]; rewrite sget_sset_neq by discriminate];
        rewrite Eb; apply sget_keep_unsupported, (supported_ta_false _ Ep). }
    assert (sget (e_styles a5) p_TextAlign = None) as E5.
    { destruct H5 as [->|[cc [_ ->]]]; [exact E4|]. cbn [set_style e_styles with_styles]. rewrite sget_sset_neq by discriminate. exact E4. }
    destruct H6 as [->|[_ ->]]; [left; exact E5|]. right. cbn [set_style e_styles with_styles]. apply sget_sset_eq.
Qed.

Lemma eattrs_set_root p v e : eattrs (set_root_style p v e) = set_style (eattrs e) p v.
Proof. destruct e. reflexivity. Qed.
Lemma content_ok_apply_bg col e in_p : content_ok in_p (apply_bg col e) = content_ok in_p e.
Proof.
  apply (content_ok_rel (bg_rel col)); [|apply elem_rel_apply_bg]. intros a a' [->|[_ ->]]; reflexivity.
Qed.
Lemma content_ok_set_root p v e in_p : content_ok in_p (set_root_style p v e) = content_ok in_p e.
Proof.
  apply (content_ok_rel (root_rel p v)); [|apply elem_rel_set_root]. intros a a' [->| ->]; reflexivity.
Qed.

Lemma pipeline_facts c al b b' : body_pipeline c al (Some b) = Some b' -> content_ok false b = true ->
  content_ok false b' = true /\ (forall col, c_bg c = Some col -> all_attrs (bg_on_p col) b') /\ own (c_pta c) (c_color c) (eattrs b').
Proof.
  unfold body_pipeline. cbv zeta. cbn [option_map]. rewrite base_elem_eq. intros H Hc.
  set (b1 := map_attrs (body_base c al) b) in *.
  assert (content_ok false b1 = true) as C1.
  { unfold b1. rewrite content_ok_map_attrs; [exact Hc | intros a; apply kind_body_base]. }
  (* background *)
  set (b2 := match c_bg c with Some col => apply_bg col b1 | None => b1 end).
  assert ((match c_bg c with Some col => Some (apply_bg col b1) | None => Some b1 end) = Some b2) as E2
    by (unfold b2; destruct (c_bg c); reflexivity).
  rewrite E2 in H. cbn [option_map] in H.
  assert (content_ok false b2 = true /\ (forall col, c_bg c = Some col -> all_attrs (bg_on_p col) b2)) as [C2 B2].
  { unfold b2. destruct (c_bg c) as [cb|]; [|split; [exact C1 | discriminate]].
    split; [rewrite content_ok_apply_bg; exact C1|]. intros col E. inversion E; subst. apply apply_bg_all_p, C1. }
  (* colour *)
  set (b3 := match c_color c with Some col => set_root_style p_Color (VColor col) b2 | None => b2 end).
  assert ((match c_color c with Some col => Some (set_root_style p_Color (VColor col) b2) | None => Some b2 end) = Some b3) as E3
    by (unfold b3; destruct (c_color c); reflexivity).
  rewrite E3 in H. cbn [option_map] in H.
  assert (content_ok false b3 = true /\ (forall col, c_bg c = Some col -> all_attrs (bg_on_p col) b3) /\
          (forall col, c_color c = Some col -> sget (e_styles (eattrs b3)) p_Color = Some (VColor col))) as [C3 [B3 O3]].
  { unfold b3. destruct (c_color c) as [cc|]; [|split; [exact C2 | split; [exact B2 | discriminate]]].
    split; [rewrite content_ok_set_root; exact C2|]. split.
    - intros col E. apply all_attrs_set_root; [intros a; apply bg_on_p_set; discriminate | exact (B2 col E)].
    - intros col E. inversion E; subst. rewrite eattrs_set_root. cbn [set_style e_styles with_styles]. apply sget_sset_eq. }
  (* alignment *)
  destruct (c_pta c) eqn:Ep.
  - inversion H; subst b'. split; [exact C3|]. split; [exact B3|]. split; [exact O3 | discriminate].
  - cbn [option_map] in H. inversion H; subst b'. split; [rewrite content_ok_set_root; exact C3|]. split; [|split].
    + intros col E. apply all_attrs_set_root; [intros a; apply bg_on_p_set; discriminate | exact (B3 col E)].
    + intros col E. rewrite eattrs_set_root. cbn [set_style e_styles with_styles]. rewrite sget_sset_neq by discriminate. exact (O3 col E).
    + intros _. rewrite eattrs_set_root. cbn [set_style e_styles with_styles]. apply sget_sset_eq.
Qed.

(* ---- the theorem ---------------------------------------------------------------------------------------------------------------- *)
Theorem computed_thm c d d' t s : lcd c d = Ok d' -> lcd_content_b d = true -> isd d' t = Ok s ->
  computed_b (c_pta c) (c_color c) (c_bg c) s = true.
Proof.
  intros H Hcont Hisd. apply computed_allp. apply (isd_pa _ _ _ d' t s); [| |exact Hisd].
  - (* regions are region elements *)
    intros r2 Hr2. destruct (lcd_region_prov _ _ _ _ H Hr2) as [r [wm [nda [Hin [st [_ ->]]]]]].
    cbn [eattrs e_kind with_styles]. rewrite eattrs_clean. cbn.
    unfold lcd_content_b in Hcont. apply andb_true_iff in Hcont as [Hk _]. rewrite forallb_forall in Hk.
    apply kind_eqb_true. exact (Hk r Hin).
  - intros b' Eb'. destruct (lcd_body_prov _ _ _ H) as [out [Ho [_ [_ F]]]].
    pose proof H as H'. apply lcd_ok_inv in H' as [out' [Ho' Ed']]. rewrite Ho in Ho'. inversion Ho'; subst out'. clear Ho'.
    assert (d_body d' = body_pipeline c (replaced_of out) (d_body d)) as Epipe by (rewrite Ed'; reflexivity).
    rewrite Eb' in Epipe. destruct (d_body d) as [b|] eqn:Eb.
    2:{ unfold body_pipeline in Epipe. cbv zeta in Epipe. cbn [option_map] in Epipe. destruct (c_bg c), (c_color c), (c_pta c); discriminate. }
    unfold lcd_content_b in Hcont. apply andb_true_iff in Hcont as [_ Hc]. rewrite Eb in Hc.
    destruct (pipeline_facts c _ b b' (eq_sym Epipe) Hc) as [C [B O]].
    split; [exact C|]. split; [|exact O].
    intros a' Ha'. assert (In a' (body_attrs d')) as Hin by (unfold body_attrs; rewrite Eb'; exact Ha').
    destruct (Forall2_In_r _ _ _ _ F Hin) as [a [_ Hrel]]. destruct (body_rel_styled _ _ _ _ Hrel) as [S1 [S2 S3]].
    split; [exact S1|]. split; [exact S2|]. split; [exact S3|]. intros col E. exact (B col E a' Ha').
Qed.
