(* C01: the display value M computes for an element is the TTML cascade of S: last active set step, else the
   specified value, else the document's initial value, else auto (display is not inherited). *)
From TT Require Import Model.Doc Gen.StyleTables Model.Isd Spec.IsdSpec Proofs.Common.StyleFrame Proofs.C01.Leaves.

Fixpoint nodupb (l : list Z) : bool :=
  match l with [] => true | x :: l' => negb (existsb (Z.eqb x) l') && nodupb l' end.
Lemma nodupb_NoDup l : nodupb l = true -> NoDup l.
Proof.
  induction l as [|x l IH]; intros H; [constructor|]. cbn [nodupb] in H. apply andb_true_iff in H as [H1 H2].
  constructor; [|apply IH, H2]. intros Hin. apply negb_true_iff in H1.
  assert (existsb (Z.eqb x) l = true) as Hx by (apply existsb_exists; exists x; split; [exact Hin | apply Z.eqb_refl]).
  congruence.
Qed.
Lemma all_props_nodup : NoDup all_props.
Proof. apply nodupb_NoDup. vm_compute. reflexivity. Qed.

Lemma last_active_display_eq t iv : forall l acc, last_active t iv p_Display l acc = last_active_display t iv l acc.
Proof.
  destruct iv as [b e]. induction l as [|s l IH]; intros acc; [reflexivity|]. cbn [last_active last_active_display fst snd].
  rewrite make_absolute_resolve, active_at_is_active. destruct ((a_prop s =? p_Display) && is_active t _); apply IH.
Qed.

Lemma display_facts :
  p_Display <> p_FontSize /\ p_Display <> p_TextDecoration /\ is_inherited p_Display = false /\
  p_Display <> p_Origin /\ p_Display <> p_Direction /\ p_Display <> p_Position /\ ~ In p_Display ordered_style_props /\
  existsb (Z.eqb p_Display) all_props = true /\
  sget initial_values p_Display = Some (VEnum e_DisplayType_auto) /\ e_DisplayType_auto <> e_DisplayType_none.
Proof.
  repeat split; try discriminate; try reflexivity.
  intros H. cbn in H. repeat (destruct H as [H|H]; [discriminate|]). exact H.
Qed.

Lemma style_phase_display d t a par iv st :
  style_phase d t a par iv = Ok st -> display_none st = negb (displayed d t iv a).
Proof.
  destruct display_facts as (F1 & F2 & F3 & F4 & F5 & F6 & F7 & F8 & F9 & F10).
  unfold style_phase. intros H.
  destruct (apply_anims t iv (e_anims a) [] []) as [st0 todo0] eqn:E0.
  destruct (apply_specified (e_styles a) st0 todo0) as [st1 todo1] eqn:E1.
  assert (G0 : sget st0 p_Display = last_active_display t iv (e_anims a) None).
  { rewrite <- last_active_display_eq. pose proof (apply_anims_get t iv p_Display (e_anims a) [] []) as G. rewrite E0 in G. exact G. }
  assert (G1 : sget st1 p_Display = match sget st0 p_Display with Some v => Some v | None => sget (e_styles a) p_Display end).
  { pose proof (apply_specified_get p_Display (e_styles a) st0 todo0) as G. rewrite E1 in G. exact G. }
  (* the direction special case, inheritance, initial values and computation leave Display alone, except that
     initial values fill it in when absent *)
  match type of H with (let '(st, todo) := ?X in _) = _ => destruct X as [st2 todo2] eqn:E2 end.
  assert (G2 : sget st2 p_Display = sget st1 p_Display).
  { destruct (e_kind a); try (injection E2 as <- <-; reflexivity).
    destruct (negb (shas (e_styles a) p_Direction)); [|injection E2 as <- <-; reflexivity].
    destruct (sget (e_styles a) p_WritingMode) as [[w| | | | | | | | | | | | | |]|]; try (injection E2 as <- <-; reflexivity).
    destruct (w =? e_WritingModeType_lrtb); [injection E2 as <- <-; apply sget_sset_other; exact F5|].
    destruct (w =? e_WritingModeType_rltb); [injection E2 as <- <-; apply sget_sset_other; exact F5|].
    injection E2 as <- <-. reflexivity. }
  set (st3 := match e_kind a, par with
              | KBr, _ | KText, _ | KRegion, _ => st2
              | _, Some (pk, pst) => apply_inherit (e_kind a) pk pst (skeys pst) st2
              | _, None => st2
              end) in H.
  assert (G3 : sget st3 p_Display = sget st2 p_Display).
  { unfold st3. destruct (e_kind a), par as [[pk pst]|]; try reflexivity; apply apply_inherit_get; first [assumption | discriminate]. }
  match type of H with (let '(st, todo) := ?X in _) = _ => destruct X as [st4 todo4] eqn:E4 end.
  assert (G4 : sget st4 p_Display = match sget st3 p_Display with
                                    | Some v => Some v
                                    | None => if is_leaf_kind (e_kind a) then None
                                              else match sget (d_initials d) p_Display with Some v => Some v | None => Some (VEnum e_DisplayType_auto) end
                                    end).
  { destruct (is_leaf_kind (e_kind a)).
    - injection E4 as <- <-. destruct (sget st3 p_Display); reflexivity.
    - pose proof (apply_initial_get d p_Display all_props st3 todo2 all_props_nodup) as G. rewrite E4 in G. cbn [fst] in G.
      rewrite G, F8. destruct (sget st3 p_Display); [reflexivity|]. destruct (sget (d_initials d) p_Display); [reflexivity|].
      destruct (p_Display =? p_Position) eqn:E; [apply Z.eqb_eq in E; congruence|]. exact F9. }
  assert (G5 : sget st p_Display = sget st4 p_Display) by (apply (compute_styles_other d par todo4 p_Display _ _ _ H F7 F4)).
  unfold display_none, displayed. rewrite G5, G4, G3, G2, G1, G0.
  destruct (last_active_display t iv (e_anims a) None) as [v|].
  - destruct v; try reflexivity. rewrite negb_involutive. reflexivity.
  - destruct (sget (e_styles a) p_Display) as [v|].
    + destruct v; try reflexivity. rewrite negb_involutive. reflexivity.
    + destruct (e_kind a); cbn [is_leaf_kind]; try reflexivity;
        (destruct (sget (d_initials d) p_Display) as [v|];
         [destruct v; try reflexivity; rewrite negb_involutive; reflexivity
         | cbn; destruct (e_DisplayType_auto =? e_DisplayType_none) eqn:E; [apply Z.eqb_eq in E; congruence | reflexivity]]).
Qed.
