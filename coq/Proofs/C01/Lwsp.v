(* C01: white-space handling (_construct_text_list, _process_lwsp, _prune_empty_spans) is conservative: it never
   adds, drops, duplicates or reorders a line break or a non-white-space character. *)
From TT Require Import Model.Doc Gen.StyleTables Model.Isd Spec.IsdSpec Proofs.Common.ElemInd.

Lemma shown_leaves_node a cs :
  shown_leaves (Elem a cs) = match e_kind a with KBr | KText => leaf_of a | _ => flat_map shown_leaves cs end.
Proof.
  cbn [shown_leaves]. destruct (e_kind a); try reflexivity;
    (induction cs as [|c cs IH]; [reflexivity | cbn [flat_map]; rewrite <- IH; reflexivity]).
Qed.

(* ---- characters ---------------------------------------------------------------------------------- *)
Lemma is_ws_space c : is_ws c = is_space c.
Proof. unfold is_ws, is_space. destruct (c =? 9), (c =? 13), (c =? 10), (c =? 32); reflexivity. Qed.
Lemma nonspace_collapse : forall t b, nonspace (collapse b t) = nonspace t.
Proof.
  induction t as [|c t IH]; intros b; [reflexivity|]. cbn [collapse]. unfold nonspace in *. cbn [filter].
  rewrite <- is_ws_space. destruct (is_ws c) eqn:E.
  - cbn [negb]. destruct b; [apply IH|]. cbn [filter]. change (is_space 32) with true. cbn [negb]. apply IH.
  - cbn [filter]. rewrite <- is_ws_space, E. cbn [negb]. f_equal. apply IH.
Qed.
Lemma nonspace_app a b : nonspace (a ++ b) = nonspace a ++ nonspace b.
Proof. apply filter_app. Qed.
Lemma nonspace_removelast_space t : last_is (Z.eqb 32) t = true -> nonspace (removelast t) = nonspace t.
Proof.
  intros H. destruct t as [|c t] using rev_ind; [reflexivity|].
  rewrite removelast_last. unfold last_is in H. rewrite rev_unit in H. cbn beta iota in H. apply Z.eqb_eq in H. subst c.
  rewrite nonspace_app. change (nonspace [32]) with (@nil Z). rewrite app_nil_r. reflexivity.
Qed.

(* ---- the two passes keep, position by position, the line breaks and the non-space characters -------------- *)
Definition keeps (x : titem) (t : text) : Prop := nonspace t = nonspace (ti_text x).

Lemma pass1_keeps : forall l prev,
  Forall2 (fun x y => nonspace (ti_text (fst y)) = nonspace (ti_text x)) l (lwsp_pass1 prev l).
Proof.
  induction l as [|x l IH]; intros prev; [constructor|]. cbn [lwsp_pass1].
  destruct (ti_br x || ti_pre x); [constructor; [reflexivity | apply IH]|].
  set (t0 := collapse false (ti_text x)).
  set (t := match t0 with 32 :: t' => if match prev with None => true | Some p => prev_char_lwsp p end then t' else t0 | _ => t0 end).
  assert (Ht : nonspace t = nonspace (ti_text x)).
  { rewrite <- (nonspace_collapse (ti_text x) false). fold t0. unfold t. destruct t0 as [|c t']; [reflexivity|].
    destruct c as [|p|p]; try reflexivity.
    repeat (match goal with |- context [match ?q with xI _ => _ | xO _ => _ | xH => _ end] => is_var q; destruct q end);
      try reflexivity.
    destruct (match prev with None => true | Some p => prev_char_lwsp p end); reflexivity. }
  destruct (is_nonempty t); (constructor; [exact Ht | apply IH]).
Qed.

Lemma pass2_keeps : forall l, Forall2 (fun y t => nonspace t = nonspace (ti_text (fst y))) l (fst (lwsp_pass2 l)).
Proof.
  induction l as [|[x kept] l IH]; [constructor|]. cbn [lwsp_pass2].
  destruct (lwsp_pass2 l) as [rest next] eqn:E. cbn [fst] in IH.
  destruct (negb kept); [cbn [fst]; constructor; [reflexivity | exact IH]|].
  destruct (ti_br x || ti_pre x); [cbn [fst]; constructor; [reflexivity | exact IH]|].
  cbn [fst]. constructor; [|exact IH]. cbn [fst].
  destruct (last_is (Z.eqb 32) (ti_text x)) eqn:El; cbn [andb]; [|reflexivity].
  destruct (match next with None => true | Some n => next_char_lwsp n end); [|reflexivity].
  apply nonspace_removelast_space, El.
Qed.

Lemma Forall2_trans {A B C} (P : A -> B -> Prop) (Q : B -> C -> Prop) (R : A -> C -> Prop) :
  (forall a b c, P a b -> Q b c -> R a c) -> forall l1 l2 l3, Forall2 P l1 l2 -> Forall2 Q l2 l3 -> Forall2 R l1 l3.
Proof.
  intros H l1 l2 l3 H1. revert l3. induction H1 as [|a b l1 l2 Hab H1 IH]; intros l3 H2; inversion H2; subst; constructor.
  - eapply H; eassumption.
  - apply IH. assumption.
Qed.

Lemma process_lwsp_keeps l : Forall2 keeps l (process_lwsp l).
Proof.
  unfold process_lwsp. eapply Forall2_trans; [|apply pass1_keeps|apply pass2_keeps].
  intros a b c H1 H2. unfold keeps. cbn beta in *. rewrite H2. exact H1.
Qed.

(* ---- writing the texts back -------------------------------------------------------------------------- *)
Lemma leaf_of_text a t : e_kind a = KText -> nonspace t = nonspace (e_text a) ->
  leaf_of (mkAttrs (e_kind a) (e_id a) (e_begin a) (e_end a) (e_region a) (e_styles a) (e_anims a) (e_preserve a) (e_lang a) t) = leaf_of a.
Proof. intros Hk Hn. unfold leaf_of. cbn [e_kind e_text]. rewrite Hk, Hn. reflexivity. Qed.

Lemma collect_node pre a cs :
  collect_texts pre (Elem a cs) =
  match e_kind a with
  | KBr => [mkT true pre []]
  | KText => if is_nonempty (e_text a) then [mkT false pre (e_text a)] else []
  | k => if skips_text_list k then [] else flat_map (collect_texts (e_preserve a)) cs
  end.
Proof.
  cbn [collect_texts]. destruct (e_kind a); try reflexivity; cbn [skips_text_list];
    (induction cs as [|c cs IH]; [reflexivity | cbn [flat_map]; rewrite <- IH; reflexivity]).
Qed.

Fixpoint assign_list (cs : list elem) (ts : list text) : list elem * list text :=
  match cs with
  | [] => ([], ts)
  | c :: l' => let '(c', ts1) := assign_texts c ts in let '(l'', ts2) := assign_list l' ts1 in (c' :: l'', ts2)
  end.
Lemma assign_node a cs ts :
  assign_texts (Elem a cs) ts =
  match e_kind a with
  | KBr => (Elem a cs, tl ts)
  | KText => if is_nonempty (e_text a)
             then (Elem (mkAttrs (e_kind a) (e_id a) (e_begin a) (e_end a) (e_region a) (e_styles a) (e_anims a)
                                 (e_preserve a) (e_lang a) (hd [] ts)) cs, tl ts)
             else (Elem a cs, ts)
  | k => if skips_text_list k then (Elem a cs, ts) else let '(cs', ts') := assign_list cs ts in (Elem a cs', ts')
  end.
Proof.
  cbn [assign_texts]. destruct (e_kind a); try reflexivity; cbn [skips_text_list];
    match goal with |- (let '(_, _) := ?F cs ts in _) = _ => replace (F cs ts) with (assign_list cs ts); [reflexivity|] end;
    (revert ts; induction cs as [|c cs IH]; intros ts; [reflexivity|]; cbn [assign_list];
     destruct (assign_texts c ts) as [c' ts1]; rewrite IH; reflexivity).
Qed.

Lemma assign_texts_keeps : forall e pre ts rest, Forall2 keeps (collect_texts pre e) ts ->
  shown_leaves (fst (assign_texts e (ts ++ rest))) = shown_leaves e /\ snd (assign_texts e (ts ++ rest)) = rest.
Proof.
  induction e as [a cs IH] using elem_ind2. intros pre ts rest H.
  rewrite collect_node in H. rewrite assign_node.
  assert (Hlist : forall ts rest, Forall2 keeps (flat_map (collect_texts (e_preserve a)) cs) ts ->
            flat_map shown_leaves (fst (assign_list cs (ts ++ rest))) = flat_map shown_leaves cs /\
            snd (assign_list cs (ts ++ rest)) = rest).
  { clear H ts rest. induction cs as [|c cs IHcs]; intros ts rest H.
    - inversion H; subst. split; reflexivity.
    - inversion IH as [|? ? Hc Hcs]; subst. cbn [flat_map] in H.
      apply Forall2_app_inv_l in H as (ts1 & ts2 & H1 & H2 & ->).
      rewrite <- app_assoc. destruct (Hc (e_preserve a) ts1 (ts2 ++ rest) H1) as [Hs Hr].
      cbn [assign_list]. destruct (assign_texts c (ts1 ++ ts2 ++ rest)) as [c' tsr]. cbn [fst snd] in Hs, Hr. subst tsr.
      destruct (IHcs Hcs ts2 rest H2) as [Hs2 Hr2]. destruct (assign_list cs (ts2 ++ rest)) as [l'' ts2']. cbn [fst snd] in *.
      subst ts2'. cbn [fst snd flat_map]. split; [rewrite Hs, Hs2; reflexivity | reflexivity]. }
  destruct (e_kind a) eqn:Ek; cbn [skips_text_list] in *.
  all: try (inversion H; subst; cbn [app fst snd]; split; reflexivity).
  all: try (destruct (Hlist ts rest H) as [G1 G2]; destruct (assign_list cs (ts ++ rest)) as [cs' ts']; cbn [fst snd] in *; subst ts';
            split; [rewrite !shown_leaves_node, Ek; exact G1 | reflexivity]).
  - (* br *) inversion H as [|x y l l' Hxy Hrest]; subst. inversion Hrest; subst. cbn [app tl fst snd]. split; reflexivity.
  - (* text *) destruct (is_nonempty (e_text a)).
    + inversion H as [|x y l l' Hxy Hrest]; subst. inversion Hrest; subst. cbn [app hd tl fst snd]. split; [|reflexivity].
      rewrite !shown_leaves_node. cbn [e_kind]. rewrite Ek. rewrite <- Ek at 1. apply leaf_of_text; [exact Ek | exact Hxy].
    + inversion H; subst. cbn [app fst snd]. split; reflexivity.
Qed.

Lemma assign_children_list : forall cs ts, assign_children cs ts = fst (assign_list cs ts).
Proof.
  induction cs as [|c cs IH]; intros ts; [reflexivity|]. cbn [assign_children assign_list].
  destruct (assign_texts c ts) as [c' ts']. rewrite IH. destruct (assign_list cs ts'). reflexivity.
Qed.

(* ---- _prune_empty_spans ------------------------------------------------------------------------------ *)
Definition prune_list (l : list elem) : list elem := echildren (prune_empty (Elem (mkAttrs KDiv None None None None [] [] false [] []) l)).
Lemma prune_empty_node a cs : prune_empty (Elem a cs) = Elem a (prune_list cs).
Proof. reflexivity. Qed.
Lemma prune_list_cons c l :
  prune_list (c :: l) =
  let c' := prune_empty c in
  let drop := match e_kind (eattrs c') with
              | KText => negb (is_nonempty (e_text (eattrs c')))
              | KSpan => match echildren c' with [] => true | _ => false end
              | _ => false
              end in
  if drop then prune_list l else c' :: prune_list l.
Proof. reflexivity. Qed.

Lemma prune_keeps : forall e, shown_leaves (prune_empty e) = shown_leaves e.
Proof.
  induction e as [a cs IH] using elem_ind2. rewrite prune_empty_node, !shown_leaves_node.
  assert (G : flat_map shown_leaves (prune_list cs) = flat_map shown_leaves cs).
  { induction cs as [|c cs IHcs]; [reflexivity|]. inversion IH as [|? ? Hc Hcs]; subst.
    rewrite prune_list_cons. cbv zeta. cbn [flat_map]. rewrite <- Hc, <- (IHcs Hcs).
    destruct (prune_empty c) as [a' cs'] eqn:Ep. cbn [eattrs echildren].
    destruct (e_kind a') eqn:Ek; try reflexivity.
    - (* span *) destruct cs'; [|reflexivity]. rewrite shown_leaves_node, Ek. reflexivity.
    - (* text *) destruct (is_nonempty (e_text a')) eqn:En; cbn [negb]; [reflexivity|].
      rewrite shown_leaves_node, Ek. unfold leaf_of. rewrite Ek. destruct (e_text a'); [reflexivity | discriminate]. }
  destruct (e_kind a); try reflexivity; exact G.
Qed.
Lemma prune_list_keeps cs : flat_map shown_leaves (prune_list cs) = flat_map shown_leaves cs.
Proof.
  pose proof (prune_keeps (Elem (mkAttrs KDiv None None None None [] [] false [] []) cs)) as H.
  rewrite prune_empty_node, !shown_leaves_node in H. exact H.
Qed.

(* ---- the whole white-space pass over the children of a p, rt or rtc ------------------------------------ *)
Theorem lwsp_children_keeps a cs : flat_map shown_leaves (lwsp_children a cs) = flat_map shown_leaves cs.
Proof.
  unfold lwsp_children. rewrite prune_empty_node. cbn [echildren]. rewrite prune_list_keeps, assign_children_list.
  pose proof (process_lwsp_keeps (collect_children a cs)) as H. unfold collect_children in *.
  assert (Hlist : forall cs ts rest, Forall2 keeps (flat_map (collect_texts (e_preserve a)) cs) ts ->
            flat_map shown_leaves (fst (assign_list cs (ts ++ rest))) = flat_map shown_leaves cs).
  { clear. induction cs as [|c cs IHcs]; intros ts rest H.
    - inversion H; subst. reflexivity.
    - cbn [flat_map] in H. apply Forall2_app_inv_l in H as (ts1 & ts2 & H1 & H2 & ->).
      rewrite <- app_assoc. destruct (assign_texts_keeps c (e_preserve a) ts1 (ts2 ++ rest) H1) as [Hs Hr].
      cbn [assign_list]. destruct (assign_texts c (ts1 ++ ts2 ++ rest)) as [c' tsr]. cbn [fst snd] in Hs, Hr. subst tsr.
      specialize (IHcs ts2 rest H2). destruct (assign_list cs (ts2 ++ rest)) as [l'' ts2']. cbn [fst flat_map] in *.
      rewrite Hs, IHcs. reflexivity. }
  specialize (Hlist cs _ [] H). rewrite app_nil_r in Hlist. exact Hlist.
Qed.
