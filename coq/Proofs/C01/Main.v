(* C01: the leaves of a snapshot are exactly the leaves the per-leaf TTML2 specification selects. *)
From TT Require Import Model.Doc Gen.StyleTables Model.Isd Spec.IsdSpec Proofs.Common.ElemInd Proofs.Common.StyleFrame.
From TT Require Import Proofs.C01.Leaves Proofs.C01.Display Proofs.C01.Lwsp.

Definition pint (pb pe : option Q) : interval := (match pb with Some x => x | None => 0%Q end, pe).
Lemma make_absolute_pint b e pb pe : make_absolute b e pb pe = resolve (pint pb pe) b e.
Proof. unfold make_absolute, resolve, pint. cbn [fst snd]. destruct e as [x|], pe as [y|]; reflexivity. Qed.
Lemma oid_otext a b : oid_eqb a b = otext_eqb a b.
Proof. reflexivity. Qed.

(* the specification, per element: the visible leaves below e given the parent's interval and inherited region *)
Definition spec_rec (d : doc) (t : Q) (sel : option text) (dflt : attrs) (parent : interval) (inh : option text) (e : elem) : list leaf :=
  flat_map (fun c => leaf_of (last c dflt)) (filter (chain_visible d t sel parent inh) (chains e)).

Lemma chains_node a cs :
  chains (Elem a cs) = match e_kind a with KBr | KText => [[a]] | _ => map (cons a) (flat_map chains cs) end.
Proof.
  cbn [chains]. destruct (e_kind a); try reflexivity; f_equal;
    (induction cs as [|c cs IH]; [reflexivity | cbn [flat_map]; rewrite <- IH; reflexivity]).
Qed.
Lemma chains_nonempty : forall e c, In c (chains e) -> c <> [].
Proof.
  intros [a cs] c H. rewrite chains_node in H. destruct (e_kind a);
    try (apply in_map_iff in H as (x & <- & _); discriminate); destruct H as [<-|[]]; discriminate.
Qed.

Definition head_ok (d : doc) (t : Q) (sel : option text) (iv : interval) (assoc : option text) (a : attrs) (leaf : bool) : bool :=
  is_active t iv && (otext_eqb assoc sel || (negb leaf && match assoc with None => true | Some _ => false end)) && displayed d t iv a.

Lemma filter_cons_chains d t sel parent inh a (X : list (list attrs)) :
  (forall x, In x X -> x <> []) ->
  let iv := resolve parent (e_begin a) (e_end a) in
  let assoc := match e_region a with Some r => Some r | None => inh end in
  filter (chain_visible d t sel parent inh) (map (cons a) X) =
  if head_ok d t sel iv assoc a false then map (cons a) (filter (chain_visible d t sel iv assoc) X) else [].
Proof.
  intros Hne iv assoc. induction X as [|x X IH]; [destruct (head_ok _ _ _ _ _ _ _); reflexivity|].
  cbn [map filter]. rewrite IH by (intros y Hy; apply Hne; right; exact Hy).
  assert (x <> []) as Hx by (apply Hne; left; reflexivity).
  cbn [chain_visible]. fold iv assoc. destruct x as [|a' x']; [congruence|].
  unfold head_ok. cbn [negb andb].
  destruct (is_active t iv && (otext_eqb assoc sel || match assoc with None => true | Some _ => false end) && displayed d t iv a) eqn:E.
  - cbn [andb]. destruct (chain_visible d t sel iv assoc (a' :: x')); reflexivity.
  - cbn [andb]. reflexivity.
Qed.

Lemma last_cons_nonempty {A} (a : A) x d : x <> [] -> last (a :: x) d = last x d.
Proof. destruct x; [congruence | reflexivity]. Qed.

Lemma spec_rec_node d t sel dflt parent inh a cs :
  let iv := resolve parent (e_begin a) (e_end a) in
  let assoc := match e_region a with Some r => Some r | None => inh end in
  spec_rec d t sel dflt parent inh (Elem a cs) =
  match e_kind a with
  | KBr | KText => if head_ok d t sel iv assoc a true then leaf_of a else []
  | _ => if head_ok d t sel iv assoc a false then flat_map (spec_rec d t sel dflt iv assoc) cs else []
  end.
Proof.
  intros iv assoc. unfold spec_rec at 1. rewrite chains_node.
  assert (Hleaf : flat_map (fun c => leaf_of (last c dflt)) (filter (chain_visible d t sel parent inh) [[a]]) =
                  if head_ok d t sel iv assoc a true then leaf_of a else []).
  { cbn [filter chain_visible]. fold iv assoc. unfold head_ok. cbn [negb andb]. rewrite orb_false_r, andb_true_r.
    destruct (is_active t iv && otext_eqb assoc sel && displayed d t iv a); [cbn; apply app_nil_r | reflexivity]. }
  assert (Hnode : flat_map (fun c => leaf_of (last c dflt)) (filter (chain_visible d t sel parent inh) (map (cons a) (flat_map chains cs))) =
                  if head_ok d t sel iv assoc a false then flat_map (spec_rec d t sel dflt iv assoc) cs else []).
  { rewrite filter_cons_chains by (intros x Hx; apply in_flat_map in Hx as (c & _ & Hc); eapply chains_nonempty; exact Hc).
    fold iv assoc. destruct (head_ok d t sel iv assoc a false); [|reflexivity].
    induction cs as [|c cs IH]; [reflexivity|]. cbn [flat_map]. rewrite filter_app, map_app, flat_map_app, IH. f_equal.
    unfold spec_rec. generalize (chains_nonempty c). generalize (chains c). intros X HX.
    induction X as [|x X IHX]; [reflexivity|]. cbn [filter].
    destruct (chain_visible d t sel iv assoc x); [|apply IHX; intros y Hy; apply HX; right; exact Hy].
    cbn [map flat_map]. rewrite last_cons_nonempty by (apply HX; left; reflexivity). f_equal.
    apply IHX. intros y Hy. apply HX. right. exact Hy. }
  destruct (e_kind a); first [exact Hleaf | exact Hnode].
Qed.

Definition leaves_opt (r : option elem) : list leaf := match r with Some e => shown_leaves e | None => [] end.

Lemma leaf_of_isd a st : leaf_of (isd_attrs a st) = leaf_of a.
Proof. reflexivity. Qed.

(* what finish_element returns shows exactly the leaves of the children it was given (or the element's own leaf) *)
Lemma finish_element_leaves a st children r :
  finish_element a st children = Ok r ->
  leaves_opt r = match e_kind a with KBr | KText => leaf_of a | _ => flat_map shown_leaves children end.
Proof.
  unfold finish_element. intros H.
  destruct (negb (push_children_ok (e_kind a) children) && is_nonempty_l children); [discriminate|].
  set (children' := match e_kind a with
                    | KP | KRt | KRtc | KRp => match children with [] => [] | _ => lwsp_children (isd_attrs a st) children end
                    | _ => children end) in H.
  assert (Hc : flat_map shown_leaves children' = flat_map shown_leaves children).
  { unfold children'. destruct (e_kind a); try reflexivity; (destruct children; [reflexivity | apply lwsp_children_keeps]). }
  assert (Hnode : leaves_opt (Some (Elem (isd_attrs a (strip_inapplicable (e_kind a) st)) children')) =
                  match e_kind a with KBr | KText => leaf_of a | _ => flat_map shown_leaves children end).
  { cbn [leaves_opt]. rewrite shown_leaves_node. cbn [isd_attrs e_kind]. rewrite leaf_of_isd.
    destruct (e_kind a); try reflexivity; exact Hc. }
  destruct (keep_always (e_kind a)) eqn:Ek; [injection H as <-; exact Hnode|].
  destruct children' as [|c0 cs0] eqn:Ech.
  - assert (Hempty : flat_map shown_leaves children = []) by (rewrite <- Hc; reflexivity).
    assert (Hnone : leaves_opt None = match e_kind a with KBr | KText => leaf_of a | _ => flat_map shown_leaves children end).
    { destruct (e_kind a); try discriminate; cbn [leaves_opt]; symmetry; exact Hempty. }
    destruct (e_kind a); try (injection H as <-; exact Hnone).
    destruct (sget (strip_inapplicable KRegion st) p_ShowBackground) as [v|]; [|injection H as <-; exact Hnone].
    destruct v; try (injection H as <-; exact Hnone).
    destruct (tag =? e_ShowBackgroundType_always); injection H as <-; [exact Hnode | exact Hnone].
  - injection H as <-. exact Hnode.
Qed.

Lemma leaf_wf_node a cs :
  leaf_wf (Elem a cs) = (match e_kind a with KBr | KText => match cs with [] => true | _ => false end | _ => true end && forallb leaf_wf cs).
Proof.
  reflexivity.
Qed.

Lemma sel_bool (oeq : bool) (assoc : option text) :
  negb oeq && (negb true || match assoc with Some _ => true | None => false end) = false ->
  (oeq || match assoc with Some _ => false | None => true end) = true.
Proof. destruct oeq, assoc; cbn; congruence. Qed.

Theorem proc_leaves d t sel dflt : forall e inh par pb pe r, leaf_wf e = true ->
  proc d t sel inh par pb pe e = Ok r -> leaves_opt r = spec_rec d t sel dflt (pint pb pe) inh e.
Proof.
  induction e as [a cs IH] using elem_ind2. intros inh par pb pe r Hwf H.
  rewrite leaf_wf_node in Hwf. apply andb_true_iff in Hwf as [Hwf1 Hwf2]. rewrite forallb_forall in Hwf2.
  rewrite spec_rec_node. cbn [proc] in H. rewrite make_absolute_pint in H.
  set (iv := resolve (pint pb pe) (e_begin a) (e_end a)) in *.
  set (assoc := match e_region a with Some r => Some r | None => inh end) in *.
  rewrite active_at_is_active in H. unfold head_ok.
  destruct (is_active t iv) eqn:Eact; cbn [negb andb] in *.
  2:{ injection H as <-. destruct (e_kind a); reflexivity. }
  rewrite oid_otext in H.
  destruct (negb (otext_eqb assoc sel) && (negb (match cs with [] => false | _ => true end) || match assoc with Some _ => true | None => false end)) eqn:Epr.
  - (* pruned by region selection *)
    injection H as <-. cbn [leaves_opt].
    apply andb_true_iff in Epr as [E1 E2]. apply negb_true_iff in E1. rewrite E1. cbn [orb].
    destruct (e_kind a); try reflexivity;
      (destruct assoc; [reflexivity|]; cbn [orb] in E2; rewrite orb_false_r in E2; apply negb_true_iff in E2;
       destruct cs; [cbn; destruct (displayed d t iv a); reflexivity | discriminate]).
  - destruct (style_phase d t a par iv) as [st|] eqn:Est; [|discriminate]. cbn [bind] in H.
    rewrite (style_phase_display d t a par iv st Est) in H.
    destruct (displayed d t iv a) eqn:Edisp; cbn [negb] in H.
    2:{ injection H as <-. rewrite !andb_false_r. destruct (e_kind a); reflexivity. }
    match type of H with bind ?g _ = _ => destruct g as [children|] eqn:Eg end; [|discriminate]. cbn [bind] in H.
    apply finish_element_leaves in H. rewrite H. rewrite !andb_true_r.
    assert (Hch : flat_map shown_leaves children = flat_map (spec_rec d t sel dflt iv assoc) cs).
    { clear H Epr Hwf1. revert children Eg. induction cs as [|c cs IHcs]; intros children Eg.
      - injection Eg as <-. reflexivity.
      - inversion IH as [|? ? Hc Hcs]; subst.
        destruct (proc d t sel assoc (Some (e_kind a, st)) (Some (fst iv)) (snd iv) c) as [rc|] eqn:Ec; [|discriminate]. cbn [bind] in Eg.
        match type of Eg with bind ?g _ = _ => destruct g as [rs|] eqn:Er end; [|discriminate]. cbn [bind] in Eg. injection Eg as <-.
        specialize (Hc _ _ _ _ _ (Hwf2 c (or_introl eq_refl)) Ec).
        assert (Hwf2' : forall x, In x cs -> leaf_wf x = true) by (intros x Hx; apply Hwf2; right; exact Hx).
        specialize (IHcs Hcs Hwf2' rs eq_refl). cbn [flat_map].
        assert (Hp : pint (Some (fst iv)) (snd iv) = iv) by (destruct iv; reflexivity). rewrite Hp in Hc.
        rewrite <- Hc, <- IHcs. destruct rc; reflexivity. }
    destruct (e_kind a) eqn:Ek.
    all: try (rewrite Hch; destruct cs as [|c0 cs0];
              [ cbn [flat_map]; match goal with |- _ = (if ?b then _ else _) => destruct b end; reflexivity
              | rewrite (sel_bool _ _ Epr); reflexivity ]).
    all: (destruct cs; [|discriminate Hwf1]; cbn [negb orb andb] in Epr; rewrite andb_true_r in Epr; apply negb_false_iff in Epr;
          rewrite Epr; reflexivity).
Qed.

(* ---- a whole region ------------------------------------------------------------------------------------ *)
Theorem region_leaves d t sel r res :
  e_kind (eattrs r) = KRegion ->
  match d_body d with Some b => leaf_wf b = true | None => True end ->
  proc_region d t sel r = Ok res -> leaves_opt res = leaves_spec d t (eattrs r) sel.
Proof.
  intros Hk Hwf H. unfold proc_region in H. rewrite make_absolute_pint in H. unfold leaves_spec.
  change (pint None None) with root_interval in H.
  set (a := eattrs r) in *. set (iv := resolve root_interval (e_begin a) (e_end a)) in *.
  rewrite active_at_is_active in H. destruct (is_active t iv); cbn [negb andb] in *; [|injection H as <-; reflexivity].
  destruct (style_phase d t a None iv) as [st|] eqn:Est; [|discriminate]. cbn [bind] in H.
  rewrite (style_phase_display d t a None iv st Est) in H.
  destruct (displayed d t iv a); cbn [negb] in H; [|injection H as <-; reflexivity].
  destruct (d_body d) as [b|].
  - destruct (proc d t sel None (Some (KRegion, st)) None None b) as [rb|] eqn:Eb; [|discriminate]. cbn [bind] in H.
    apply finish_element_leaves in H. rewrite H, Hk.
    pose proof (proc_leaves d t sel a b None _ None None rb Hwf Eb) as Hb. change (pint None None) with root_interval in Hb.
    unfold spec_rec in Hb. rewrite <- Hb.
    destruct rb; cbn [flat_map leaves_opt]; rewrite ?app_nil_r; reflexivity.
  - cbn [bind] in H. apply finish_element_leaves in H. rewrite H, Hk. reflexivity.
Qed.

(* ---- the snapshot is the list of the regions that survive, in region order ----------------------------- *)
Lemma collect_regions_spec : forall l rs, collect_regions l = Ok rs ->
  exists outs, Forall2 (fun r o => r = Ok o) l outs /\ rs = flat_map (fun o => match o with Some e => [e] | None => [] end) outs.
Proof.
  induction l as [|r l IH]; intros rs H; cbn [collect_regions] in H.
  - injection H as <-. exists []. split; [constructor | reflexivity].
  - destruct r as [o|]; [|discriminate]. cbn [bind] in H.
    destruct (collect_regions l) as [xs|] eqn:E; [|discriminate]. cbn [bind] in H. injection H as <-.
    destruct (IH xs eq_refl) as (outs & Hf & ->). exists (o :: outs). split; [constructor; [reflexivity | exact Hf]|].
    destruct o; reflexivity.
Qed.

(* ---- the top-level statement: every well-formed document, every time ------------------------------------------- *)
From TT Require Import Spec.DocWf.

(* the content model of the model API makes br and text leaves *)
Lemma cm_ok_leaf_wf : forall e, cm_ok e = true -> leaf_wf e = true.
Proof.
  induction e as [a cs IH] using elem_ind2. intros H. rewrite leaf_wf_node.
  assert (Hn : cm_ok (Elem a cs) = forallb (fun c => child_ok (e_kind a) (e_kind (eattrs c))) cs && forallb cm_ok cs) by reflexivity.
  rewrite Hn in H. apply andb_true_iff in H as [Hk Hcs]. apply andb_true_iff. split.
  - destruct (e_kind a); try reflexivity; (destruct cs as [|c cs']; [reflexivity | cbn in Hk; discriminate]).
  - apply forallb_forall. intros c Hc. rewrite Forall_forall in IH. rewrite forallb_forall in Hcs. apply (IH c Hc), (Hcs c Hc).
Qed.
Lemma doc_wf_body_leaf d : doc_wf d = true -> match d_body d with Some b => leaf_wf b = true | None => True end.
Proof.
  unfold doc_wf. intros H. apply andb_true_iff in H as [_ H]. destruct (d_body d) as [b|]; [|exact I].
  unfold body_ok in H. apply andb_true_iff in H as [_ H]. apply cm_ok_leaf_wf, H.
Qed.
Lemma doc_wf_region_kind d r : doc_wf d = true -> In r (d_regions d) -> e_kind (eattrs r) = KRegion.
Proof.
  unfold doc_wf. intros H Hr. apply andb_true_iff in H as [H _]. rewrite forallb_forall in H. specialize (H r Hr).
  unfold region_ok in H. apply andb_true_iff in H as [H _]. apply andb_true_iff in H as [H _].
  destruct (e_kind (eattrs r)); try discriminate; reflexivity.
Qed.

(* the regions a snapshot is made from, each with the region identity used for selection: the document's regions in
   put_region order, or the default region (selected by "no region") when the document declares none *)
Definition snapshot_sources (d : doc) : list (elem * option text) :=
  match d_regions d with [] => [(default_region, None)] | rs => map (fun r => (r, e_id (eattrs r))) rs end.

(* a region of the snapshot carries the id of the region it was made from: nothing moves to another region *)
Lemma finish_id a st children x : finish_element a st children = Ok (Some x) -> e_id (eattrs x) = e_id a /\ e_kind (eattrs x) = e_kind a.
Proof.
  unfold finish_element. intros H.
  destruct (negb (push_children_ok (e_kind a) children) && is_nonempty_l children); [discriminate|].
  match type of H with context [Elem ?at_ ?ch] => set (e' := Elem at_ ch) in H end.
  assert (Hk : e_id (eattrs e') = e_id a /\ e_kind (eattrs e') = e_kind a) by (split; reflexivity).
  destruct (keep_always (e_kind a)); [injection H as <-; exact Hk|].
  match type of H with match ?c with _ => _ end = _ => destruct c end; [|injection H as <-; exact Hk].
  destruct (e_kind a); try discriminate.
  destruct (sget (strip_inapplicable KRegion st) p_ShowBackground) as [v|]; [|discriminate].
  destruct v; try discriminate. destruct (tag =? e_ShowBackgroundType_always); [injection H as <-; exact Hk | discriminate].
Qed.
Lemma proc_region_id d t sel r x : proc_region d t sel r = Ok (Some x) ->
  e_id (eattrs x) = e_id (eattrs r) /\ e_kind (eattrs x) = e_kind (eattrs r).
Proof.
  unfold proc_region. intros H. destruct (negb (active_at t _)); [discriminate|].
  destruct (style_phase d t _ None _) as [st|]; [|discriminate]. cbn [bind] in H.
  destruct (display_none st); [discriminate|].
  match type of H with bind ?g _ = _ => destruct g as [children|] end; [|discriminate]. cbn [bind] in H.
  apply finish_id in H. exact H.
Qed.

Lemma Forall2_map_l {A B C} (f : A -> B) (P : B -> C -> Prop) : forall l outs, Forall2 P (map f l) outs -> Forall2 (fun x o => P (f x) o) l outs.
Proof.
  induction l as [|x l IH]; intros outs H; inversion H; subst; constructor; [assumption | apply IH; assumption].
Qed.

(* MAIN (top level): the snapshot of a well-formed document at t consists, region by region and in region order, of
   exactly the regions whose per-leaf TTML2 specification it equals: each source region either appears — under its own
   id, showing exactly the leaves `leaves_spec` prescribes (chain active, region-selected, displayed; once each, in
   document order) — or is absent, and then the specification prescribes no leaf for it *)
Definition region_matches (d : doc) (t : Q) (src : elem * option text) (o : option elem) : Prop :=
  leaves_opt o = leaves_spec d t (eattrs (fst src)) (snd src) /\
  match o with Some x => e_id (eattrs x) = e_id (eattrs (fst src)) /\ e_kind (eattrs x) = KRegion | None => True end.

Theorem snapshot_spec d t rs : doc_wf d = true -> isd d t = Ok rs ->
  exists outs, Forall2 (region_matches d t) (snapshot_sources d) outs /\
               rs = flat_map (fun o => match o with Some e => [e] | None => [] end) outs.
Proof.
  intros Hwf Hi. pose proof (doc_wf_body_leaf d Hwf) as Hleaf.
  assert (Hone : forall r sel o, e_kind (eattrs r) = KRegion -> proc_region d t sel r = Ok o -> region_matches d t (r, sel) o).
  { intros r sel o Hk Ho. split; cbn [fst snd].
    - apply (region_leaves d t sel r o Hk Hleaf Ho).
    - destruct o as [x|]; [|exact I]. destruct (proc_region_id d t sel r x Ho) as [H1 H2]. split; [exact H1 | rewrite H2; exact Hk]. }
  unfold isd in Hi. unfold snapshot_sources. destruct (d_regions d) as [|r0 rest] eqn:Er.
  - apply collect_regions_spec in Hi as (outs & HF & ->). exists outs. split; [|reflexivity].
    inversion HF as [|? o ? outs' Ho HF']; subst. inversion HF'; subst. constructor; [|constructor].
    apply (Hone default_region None o eq_refl Ho).
  - apply collect_regions_spec in Hi as (outs & HF & ->). exists outs. split; [|reflexivity].
    apply Forall2_map_l in HF.
    assert (Hin : forall r, In r (r0 :: rest) -> e_kind (eattrs r) = KRegion) by (intros r Hr; apply (doc_wf_region_kind d r Hwf); rewrite Er; exact Hr).
    clear Er. revert outs HF. induction (r0 :: rest) as [|r l IH]; intros outs HF; inversion HF as [|? o ? outs' Ho HF']; subst; [constructor|].
    cbn [map]. constructor.
    + apply (Hone r (e_id (eattrs r)) o (Hin r (or_introl eq_refl)) Ho).
    + apply IH; [intros x Hx; apply Hin; right; exact Hx | exact HF'].
Qed.

(* the hypothesis is satisfiable and the statement is not vacuous: a two-region document whose snapshot at t = 1 shows
   the text "x" in region r1 only *)
Definition c01_ex_doc : doc :=
  mkDoc [Elem (mkAttrs KRegion (Some [114%Z; 49%Z]) None None None [] [] false [] []) [];
         Elem (mkAttrs KRegion (Some [114%Z; 50%Z]) None None None [] [] false [] []) []]
        (Some (Elem (mkAttrs KBody None None None None [] [] false [] [])
           [Elem (mkAttrs KDiv None None None (Some [114%Z; 49%Z]) [] [] false [] [])
              [Elem (mkAttrs KP None (Some (Qmake 1 1)) (Some (Qmake 2 1)) None [] [] false [] [])
                 [Elem (mkAttrs KSpan None None None None [] [] false [] []) [Elem (mkAttrs KText None None None None [] [] false [] [120%Z]) []]]]]))
        [] 15%Z 32%Z 1080%Z 1920%Z None None [].
Lemma snapshot_spec_example :
  doc_wf c01_ex_doc = true /\
  (exists rs, isd c01_ex_doc (Qmake 1 1) = Ok rs /\ map (fun r => leaves_opt (Some r)) rs = [[LText [120%Z]]; []]) /\
  (exists rs, isd c01_ex_doc (Qmake 2 1) = Ok rs /\ map (fun r => leaves_opt (Some r)) rs = [[]; []]).
Proof.
  split; [vm_compute; reflexivity|]. split; eexists; split; vm_compute; reflexivity.
Qed.
