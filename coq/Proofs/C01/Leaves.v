(* C01: proofs relating M (Model/Isd.v) to S (Spec/IsdSpec.v). *)
From TT Require Import Model.Doc Gen.StyleTables Model.Isd Spec.IsdSpec.

(* time containment: the interval M computes is the TTML2 resolution of begin/end against the parent *)
Lemma make_absolute_resolve b e pb pe : make_absolute b e (Some pb) pe = resolve (pb, pe) b e.
Proof. unfold make_absolute, resolve. cbn [fst snd]. destruct e as [x|], pe as [y|]; reflexivity. Qed.
Lemma make_absolute_root b e : make_absolute b e None None = resolve root_interval b e.
Proof. unfold make_absolute, resolve, root_interval. cbn [fst snd]. destruct e as [x|]; reflexivity. Qed.

Lemma active_at_is_active t iv : active_at t iv = is_active t iv.
Proof.
  unfold active_at, is_active, Qltb. rewrite negb_involutive. destruct (snd iv); reflexivity.
Qed.
