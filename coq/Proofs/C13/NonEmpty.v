(* C13, clause 8: no text node of a snapshot is empty and no span is childless, for every document whose source
   respects the content model and every time.  _prune_empty_spans, run on every p that keeps a child, leaves nothing
   empty below it — whatever the subtree looked like before —, and under the content model text nodes and spans occur
   only below a p. *)
From TT Require Import Model.Doc Gen.StyleTables Model.Isd Spec.IsdShape Proofs.Common.ElemInd.
From TT Require Import Proofs.C01.Lwsp Proofs.C13.Shape Proofs.C13.Inv Proofs.C13.ContentModel.

Definition ne_all (e : elem) : bool := forallb nonempty_ok (all_elems e).
Lemma ne_all_node a cs : ne_all (Elem a cs) = nonempty_ok (Elem a cs) && forallb ne_all cs.
Proof. unfold ne_all. rewrite all_elems_cons. cbn [forallb]. rewrite forallb_flat_map. reflexivity. Qed.

(* after _prune_empty_spans nothing below the element is empty (no hypothesis on the element) *)
Lemma prune_clean : forall e, forallb ne_all (echildren (prune_empty e)) = true.
Proof.
  induction e as [a cs IH] using elem_ind2. rewrite prune_empty_node. cbn [echildren].
  induction cs as [|c cs IHcs]; [reflexivity|]. inversion IH as [|? ? Hc Hcs]; subst. specialize (IHcs Hcs).
  rewrite prune_list_cons. cbv zeta.
  destruct (prune_empty c) as [a' cs'] eqn:Ep. cbn [eattrs echildren] in *.
  match goal with |- forallb ne_all (if ?b then _ else _) = true => destruct b eqn:Ed end; [exact IHcs|].
  cbn [forallb]. rewrite IHcs, andb_true_r. rewrite ne_all_node, Hc, andb_true_r.
  unfold nonempty_ok, kind_of. cbn [eattrs echildren].
  destruct (e_kind a'); try reflexivity.
  - destruct cs'; [discriminate | reflexivity].
  - destruct (e_text a'); [discriminate | reflexivity].
Qed.
Lemma prune_list_clean cs : forallb ne_all (prune_list cs) = true.
Proof. exact (prune_clean (Elem (mkAttrs KDiv None None None None [] [] false [] []) cs)). Qed.

Definition block_kind (k : kind) : bool := match k with KBody | KDiv | KP => true | _ => false end.

Lemma proc_ne d t sel : forall e, src_cm e = true -> block_kind (kind_of e) = true -> forall inh par pb pe r,
  proc d t sel inh par pb pe e = Ok (Some r) -> ne_all r = true.
Proof.
  induction e as [a cs IH] using elem_ind2. intros Hsrc Hk inh par pb pe r H.
  pose proof Hsrc as Hsrc0. rewrite src_cm_node in Hsrc. apply andb_true_iff in Hsrc as [Ha Hcs].
  change (kind_of (Elem a cs)) with (e_kind a) in Hk.
  apply proc_inv in H as (st & children & assoc & iv & _ & _ & Hl & Hf).
  apply finish_inv in Hf as (-> & _ & _). rewrite ne_all_node.
  assert (Hself : nonempty_ok (Elem (isd_attrs a (strip_inapplicable (e_kind a) st)) (fin_children a st children)) = true).
  { unfold nonempty_ok, kind_of. cbn [eattrs isd_attrs e_kind]. destruct (e_kind a); try discriminate; reflexivity. }
  rewrite Hself. cbn [andb]. unfold fin_children.
  destruct (lwsp_kind (e_kind a)) eqn:El.
  - destruct children as [|c0 cs0]; [reflexivity|]. unfold lwsp_children. apply prune_clean.
  - (* body, div: the children are div and p *)
    apply forallb_forall. intros x Hx. destruct (proc_list_in _ _ _ _ _ _ _ _ _ Hl x Hx) as (c & Hc & Hp).
    rewrite Forall_forall in IH. rewrite forallb_forall in Hcs.
    change (match e_kind a with KRuby | KRtc => true | _ => cok (e_kind a) (kinds cs) end = true) in Ha.
    assert (Hkc : block_kind (kind_of c) = true).
    { assert (Hin : In (kind_of c) (kinds cs)) by (apply in_map, Hc).
      destruct (e_kind a); try discriminate; unfold cok in Ha; rewrite forallb_forall in Ha; specialize (Ha _ Hin);
        destruct (kind_of c); try discriminate; reflexivity. }
    apply (IH c Hc (Hcs c Hc) Hkc _ _ _ _ _ Hp).
Qed.

Theorem snapshot_nonempty d t rs :
  doc_content_wf d = true -> isd d t = Ok rs -> nth 8 (shape_clauses [] false rs) false = true.
Proof.
  intros Hwf H. cbn [nth shape_clauses]. rewrite every_forallb.
  unfold doc_content_wf in Hwf. apply andb_true_iff in Hwf as [Hreg Hbody].
  apply forallb_forall. intros o Ho. destruct (isd_inv d t rs H o Ho) as (sel & r & Hr & Hp).
  assert (Hk : kind_of r = KRegion).
  { destruct Hr as [Hr| ->]; [|reflexivity]. rewrite forallb_forall in Hreg. specialize (Hreg r Hr). destruct (kind_of r); try discriminate; reflexivity. }
  apply proc_region_inv in Hp as (st & children & _ & _ & Hch & Hf).
  apply finish_inv in Hf as (-> & _ & _). fold (ne_all (Elem (isd_attrs (eattrs r) (strip_inapplicable (e_kind (eattrs r)) st)) (fin_children (eattrs r) st children))).
  rewrite ne_all_node. unfold fin_children. change (e_kind (eattrs r)) with (kind_of r). rewrite Hk. cbn [lwsp_kind].
  assert (Hself : forall l, nonempty_ok (Elem (isd_attrs (eattrs r) (strip_inapplicable KRegion st)) l) = true).
  { intros l. unfold nonempty_ok, kind_of. cbn [eattrs isd_attrs e_kind]. change (e_kind (eattrs r)) with (kind_of r). rewrite Hk. reflexivity. }
  rewrite Hself. cbn [andb].
  destruct Hch as [->|(b & x & Eb & Hpb & ->)]; [reflexivity|]. rewrite Eb in Hbody. apply andb_true_iff in Hbody as [Hkb Hsb].
  cbn [forallb]. rewrite andb_true_r. apply (proc_ne d t sel b Hsb) with (2 := Hpb). destruct (kind_of b); try discriminate; reflexivity.
Qed.
