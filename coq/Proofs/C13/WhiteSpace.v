(* C13, clause 9: in every snapshot, text whose parent is not xml:space=preserve contains no tab, CR or LF and no two
   consecutive spaces — for every document whose source respects the content model and every time.
   _process_lwsp gives every text node it is handed a collapsed text (or leaves it alone under preserve);
   _construct_text_list hands it every text node below a p except those below rt, rtc and rp, and those get their
   own pass when the rt / rp is built; _prune_empty_spans only removes nodes. *)
From TT Require Import Model.Doc Gen.StyleTables Model.Isd Spec.IsdShape Proofs.Common.ElemInd.
From TT Require Import Proofs.C01.Lwsp Proofs.C13.Shape Proofs.C13.Inv Proofs.C13.ContentModel.

(* ---- the clause, without the finding's excuse --------------------------------------------------------------------- *)
Fixpoint wsk (e : elem) : bool :=
  match e with
  | Elem a cs =>
      (fix go (l : list elem) : bool :=
         match l with
         | [] => true
         | c :: l' => (match kind_of c with KText => e_preserve a || collapsed false (e_text (eattrs c)) | _ => wsk c end) && go l'
         end) cs
  end.
Definition child_ok (pre : bool) (c : elem) : bool :=
  match kind_of c with KText => pre || collapsed false (e_text (eattrs c)) | _ => wsk c end.
Lemma wsk_node a cs : wsk (Elem a cs) = forallb (child_ok (e_preserve a)) cs.
Proof. cbn [wsk]. induction cs as [|c cs IH]; [reflexivity|]. cbn [forallb]. rewrite <- IH. reflexivity. Qed.
Lemma ws_ok_wsk : forall e u, ws_ok false u e = wsk e.
Proof.
  induction e as [a cs IH] using elem_ind2. intros u. rewrite wsk_node. cbn [ws_ok].
  induction cs as [|c cs IHcs]; [reflexivity|]. inversion IH as [|? ? Hc Hcs]; subst. cbn [forallb]. rewrite <- (IHcs Hcs). f_equal.
  unfold child_ok. destruct (kind_of c); try apply Hc. cbn [andb]. rewrite orb_false_r. reflexivity.
Qed.

(* ---- characters ----------------------------------------------------------------------------------------------------- *)
Lemma collapsed_collapse : forall t b, collapsed b (collapse b t) = true.
Proof.
  induction t as [|c t IH]; intros b; [reflexivity|]. cbn [collapse]. unfold is_ws.
  destruct (c =? 9) eqn:E9; [destruct b; cbn [orb collapsed]; [apply IH | change (32 =? 9) with false; change (32 =? 10) with false; change (32 =? 13) with false; change (32 =? 32) with true; cbn [orb negb andb]; apply IH]|].
  destruct (c =? 13) eqn:E13; [destruct b; cbn [orb collapsed]; [apply IH | change (32 =? 9) with false; change (32 =? 10) with false; change (32 =? 13) with false; change (32 =? 32) with true; cbn [orb negb andb]; apply IH]|].
  destruct (c =? 10) eqn:E10; [destruct b; cbn [orb collapsed]; [apply IH | change (32 =? 9) with false; change (32 =? 10) with false; change (32 =? 13) with false; change (32 =? 32) with true; cbn [orb negb andb]; apply IH]|].
  destruct (c =? 32) eqn:E32; cbn [orb].
  - destruct b; [apply IH|]. cbn [collapsed]. change (32 =? 9) with false. change (32 =? 10) with false. change (32 =? 13) with false. change (32 =? 32) with true.
    cbn [orb negb andb]. apply IH.
  - cbn [collapsed]. rewrite E9, E10, E13, E32. cbn [orb]. apply IH.
Qed.
Lemma collapsed_weaken : forall t, collapsed true t = true -> collapsed false t = true.
Proof.
  intros [|c t] H; [reflexivity|]. cbn [collapsed] in *. destruct ((c =? 9) || (c =? 10) || (c =? 13)); [discriminate|].
  destruct (c =? 32); [discriminate | exact H].
Qed.
Lemma collapsed_removelast : forall t b, collapsed b t = true -> collapsed b (removelast t) = true.
Proof.
  induction t as [|c t IH]; intros b H; [reflexivity|]. destruct t as [|c' t']; [reflexivity|].
  change (removelast (c :: c' :: t')) with (c :: removelast (c' :: t')). cbn [collapsed] in H |- *.
  destruct ((c =? 9) || (c =? 10) || (c =? 13)); [discriminate|].
  destruct (c =? 32).
  - apply andb_true_iff in H as [H1 H2]. rewrite H1. cbn [andb]. apply IH, H2.
  - apply IH, H.
Qed.
(* dropping a leading space *)
Definition strip_lead (cond : bool) (t : text) : text := match t with 32 :: t' => if cond then t' else t | _ => t end.
Lemma strip_lead_collapsed cond t : collapsed false t = true -> collapsed false (strip_lead cond t) = true.
Proof.
  intros H. unfold strip_lead. destruct t as [|c t']; [reflexivity|].
  destruct c as [|p|p]; try exact H.
  repeat (match goal with |- context [match ?q with xI _ => _ | xO _ => _ | xH => _ end] => is_var q; destruct q end); try exact H.
  destruct cond; [|exact H]. apply collapsed_weaken. exact H.
Qed.

(* ---- _process_lwsp: every node that is neither a br nor under preserve ends with a collapsed text -------------------- *)
Definition good (x : titem) (t : text) : bool := ti_br x || ti_pre x || collapsed false t.

Lemma pass1_good : forall l prev,
  Forall2 (fun x y => ti_br (fst y) = ti_br x /\ ti_pre (fst y) = ti_pre x /\
                      (ti_br x || ti_pre x = true \/ collapsed false (ti_text (fst y)) = true)) l (lwsp_pass1 prev l).
Proof.
  induction l as [|x l IH]; intros prev; [constructor|]. cbn [lwsp_pass1].
  destruct (ti_br x || ti_pre x) eqn:Eb; [constructor; [cbn [fst]; auto | apply IH]|].
  apply orb_false_iff in Eb as [Eb1 Eb2].
  set (t0 := collapse false (ti_text x)).
  set (t := match t0 with 32 :: t' => if match prev with None => true | Some p => prev_char_lwsp p end then t' else t0 | _ => t0 end).
  assert (Ht : collapsed false t = true).
  { change t with (strip_lead (match prev with None => true | Some p => prev_char_lwsp p end) t0).
    apply strip_lead_collapsed. apply collapsed_collapse. }
  destruct (is_nonempty t); (constructor; [cbn [fst ti_br ti_pre ti_text]; rewrite Eb1, Eb2; auto | apply IH]).
Qed.
Lemma pass2_good : forall l,
  Forall2 (fun y t => ti_br (fst y) || ti_pre (fst y) = true \/ (collapsed false (ti_text (fst y)) = true -> collapsed false t = true))
          l (fst (lwsp_pass2 l)).
Proof.
  induction l as [|[x kept] l IH]; [constructor|]. cbn [lwsp_pass2].
  destruct (lwsp_pass2 l) as [rest next] eqn:E. cbn [fst] in IH.
  destruct (negb kept); [cbn [fst]; constructor; [right; auto | exact IH]|].
  destruct (ti_br x || ti_pre x) eqn:Eb; [cbn [fst]; constructor; [left; exact Eb | exact IH]|].
  cbn [fst]. constructor; [|exact IH]. cbn [fst]. right. intros H.
  match goal with |- collapsed false (if ?c then _ else _) = true => destruct c end; [apply collapsed_removelast, H | exact H].
Qed.
Lemma process_lwsp_good l : Forall2 (fun x t => good x t = true) l (process_lwsp l).
Proof.
  unfold process_lwsp. eapply Forall2_trans; [|apply (pass1_good l None)|apply pass2_good].
  intros x y t (H1 & H2 & H3) H4. cbn beta in *. unfold good. rewrite H1, H2 in H4.
  destruct H3 as [H3|H3]; [rewrite H3; reflexivity|]. destruct H4 as [H4|H4]; [rewrite H4; reflexivity|].
  rewrite (H4 H3). apply orb_true_r.
Qed.

(* ---- before the pass: everything the text list does not reach is already fine ----------------------------------------- *)
Fixpoint part (e : elem) : bool :=
  match e with
  | Elem a cs =>
      match e_kind a with
      | KText => true
      | KBr | KRt | KRtc | KRp => wsk (Elem a cs)
      | _ => (fix go (l : list elem) : bool := match l with [] => true | c :: l' => part c && go l' end) cs
      end
  end.
Lemma part_node a cs :
  part (Elem a cs) = match e_kind a with KText => true | KBr | KRt | KRtc | KRp => wsk (Elem a cs) | _ => forallb part cs end.
Proof.
  cbn [part]. destruct (e_kind a); try reflexivity; (induction cs as [|c cs IH]; [reflexivity | cbn [forallb]; rewrite <- IH; reflexivity]).
Qed.

Lemma child_ok_part : forall e pre, child_ok pre e = true -> part e = true.
Proof.
  induction e as [a cs IH] using elem_ind2. intros pre H. rewrite part_node. unfold child_ok, kind_of in H. cbn [eattrs] in H.
  destruct (e_kind a); try reflexivity; try exact H; rewrite wsk_node in H; rewrite forallb_forall in *; rewrite Forall_forall in IH;
    intros x Hx; apply (IH x Hx (e_preserve a)), H, Hx.
Qed.

(* writing the new texts back *)
Lemma assign_ok : forall e pre ts rest, Forall2 (fun x t => good x t = true) (collect_texts pre e) ts -> part e = true ->
  child_ok pre (fst (assign_texts e (ts ++ rest))) = true /\ snd (assign_texts e (ts ++ rest)) = rest.
Proof.
  induction e as [a cs IH] using elem_ind2. intros pre ts rest H Hp.
  rewrite collect_node in H. rewrite assign_node. rewrite part_node in Hp.
  assert (Hlist : forall ts rest, Forall2 (fun x t => good x t = true) (flat_map (collect_texts (e_preserve a)) cs) ts ->
            forallb part cs = true ->
            forallb (child_ok (e_preserve a)) (fst (assign_list cs (ts ++ rest))) = true /\ snd (assign_list cs (ts ++ rest)) = rest).
  { clear H Hp ts rest. induction cs as [|c cs IHcs]; intros ts rest H Hp.
    - inversion H; subst. split; reflexivity.
    - inversion IH as [|? ? Hc Hcs]; subst. cbn [flat_map] in H. cbn [forallb] in Hp. apply andb_true_iff in Hp as [Hp1 Hp2].
      apply Forall2_app_inv_l in H as (ts1 & ts2 & H1 & H2 & ->).
      rewrite <- app_assoc. destruct (Hc (e_preserve a) ts1 (ts2 ++ rest) H1 Hp1) as [Hs Hr].
      cbn [assign_list]. destruct (assign_texts c (ts1 ++ ts2 ++ rest)) as [c' tsr]. cbn [fst snd] in Hs, Hr. subst tsr.
      destruct (IHcs Hcs ts2 rest H2 Hp2) as [Hs2 Hr2]. destruct (assign_list cs (ts2 ++ rest)) as [l'' ts2']. cbn [fst snd] in *.
      subst ts2'. cbn [forallb]. rewrite Hs, Hs2. split; reflexivity. }
  assert (Hnode : forall cs', kind_eqb (e_kind a) KText = false -> child_ok pre (Elem a cs') = forallb (child_ok (e_preserve a)) cs').
  { intros cs' Hk. rewrite <- wsk_node. unfold child_ok, kind_of. cbn [eattrs]. destruct (e_kind a); try reflexivity; discriminate. }
  destruct (e_kind a) eqn:Ek; cbn [skips_text_list] in *.
  all: try (destruct (Hlist ts rest H Hp) as [G1 G2]; destruct (assign_list cs (ts ++ rest)) as [cs' ts']; cbn [fst snd] in *; subst ts';
            split; [rewrite Hnode by reflexivity; exact G1 | reflexivity]).
  all: try (inversion H; subst; cbn [app fst snd]; split; [unfold child_ok, kind_of; cbn [eattrs]; rewrite Ek; exact Hp | reflexivity]).
  - (* br *) inversion H as [|x y l l' Hxy Hrest]; subst. inversion Hrest; subst. cbn [app tl fst snd]. split; [|reflexivity].
    unfold child_ok, kind_of. cbn [eattrs]. rewrite Ek. exact Hp.
  - (* text *) destruct (is_nonempty (e_text a)) eqn:En.
    + inversion H as [|x y l l' Hxy Hrest]; subst. inversion Hrest; subst. cbn [app hd tl fst snd]. split; [|reflexivity].
      unfold child_ok, kind_of. cbn [eattrs e_kind e_text]. unfold good in Hxy. cbn [ti_br ti_pre orb] in Hxy. exact Hxy.
    + inversion H; subst. cbn [app fst snd]. split; [|reflexivity].
      unfold child_ok, kind_of. cbn [eattrs]. rewrite Ek. destruct (e_text a); [apply orb_true_r | discriminate].
Qed.
Lemma assign_list_ok pre : forall cs ts, Forall2 (fun x t => good x t = true) (flat_map (collect_texts pre) cs) ts ->
  forallb part cs = true -> forallb (child_ok pre) (fst (assign_list cs ts)) = true.
Proof.
  induction cs as [|c cs IHcs]; intros ts H Hp; [reflexivity|].
  cbn [flat_map] in H. cbn [forallb] in Hp. apply andb_true_iff in Hp as [Hp1 Hp2].
  apply Forall2_app_inv_l in H as (ts1 & ts2 & H1 & H2 & ->).
  destruct (assign_ok c pre ts1 ts2 H1 Hp1) as [Hs Hr].
  cbn [assign_list]. destruct (assign_texts c (ts1 ++ ts2)) as [c' tsr]. cbn [fst snd] in Hs, Hr. subst tsr.
  specialize (IHcs ts2 H2 Hp2). destruct (assign_list cs ts2) as [l'' ts2']. cbn [fst forallb] in *. rewrite Hs, IHcs. reflexivity.
Qed.

(* pruning only removes nodes *)
Lemma prune_child_ok : forall e pre, child_ok pre e = true -> child_ok pre (prune_empty e) = true.
Proof.
  induction e as [a cs IH] using elem_ind2. intros pre H. rewrite prune_empty_node. unfold child_ok, kind_of in *. cbn [eattrs] in *.
  destruct (e_kind a); try exact H; rewrite wsk_node in *; rewrite forallb_forall in *; rewrite Forall_forall in IH;
    intros x Hx; apply prune_list_in in Hx as (c & Hc & ->); apply (IH c Hc), H, Hc.
Qed.
Lemma prune_list_child_ok pre cs : forallb (child_ok pre) cs = true -> forallb (child_ok pre) (prune_list cs) = true.
Proof.
  intros H. rewrite forallb_forall in *. intros x Hx. apply prune_list_in in Hx as (c & Hc & ->). apply prune_child_ok, H, Hc.
Qed.

Lemma lwsp_children_ws a cs : forallb part cs = true -> forallb (child_ok (e_preserve a)) (lwsp_children a cs) = true.
Proof.
  intros Hp. unfold lwsp_children. rewrite prune_empty_node. cbn [echildren]. apply prune_list_child_ok.
  rewrite assign_children_list. apply assign_list_ok; [|exact Hp]. apply process_lwsp_good.
Qed.

(* ---- snapshot generation ------------------------------------------------------------------------------------------------- *)
Definition ws_kind (k : kind) : bool := match k with KBody | KDiv | KP | KRt | KRtc | KRp => true | _ => false end.

Lemma proc_ws d t sel : forall e, src_cm e = true -> forall inh par pb pe r,
  proc d t sel inh par pb pe e = Ok (Some r) -> part r = true /\ (ws_kind (kind_of e) = true -> wsk r = true).
Proof.
  induction e as [a cs IH] using elem_ind2. intros Hsrc inh par pb pe r H.
  pose proof Hsrc as Hsrc0. rewrite src_cm_node in Hsrc. apply andb_true_iff in Hsrc as [Ha Hcs].
  change (match e_kind a with KRuby | KRtc => true | _ => cok (e_kind a) (kinds cs) end = true) in Ha.
  change (kind_of (Elem a cs)) with (e_kind a).
  apply proc_inv in H as (st & children & assoc & iv & _ & _ & Hl & Hf).
  apply finish_inv in Hf as (-> & _ & _).
  rewrite Forall_forall in IH. rewrite forallb_forall in Hcs.
  assert (Hch : forall x, In x children -> exists c, In c cs /\ kind_of x = kind_of c /\ part x = true /\ (ws_kind (kind_of c) = true -> wsk x = true)).
  { intros x Hx. destruct (proc_list_in _ _ _ _ _ _ _ _ _ Hl x Hx) as (c & Hc & Hp). exists c.
    destruct (IH c Hc (Hcs c Hc) _ _ _ _ _ Hp) as [G1 G2]. destruct (proc_cm d t sel c (Hcs c Hc) _ _ _ _ _ Hp) as [G3 _]. auto. }
  assert (Hpart : forallb part children = true).
  { apply forallb_forall. intros x Hx. destruct (Hch x Hx) as (c & _ & _ & G & _). exact G. }
  assert (Epre : forall s, e_preserve (isd_attrs a s) = if is_leaf_kind (e_kind a) then false else e_preserve a) by reflexivity.
  rewrite part_node, wsk_node. cbn [isd_attrs e_kind]. fold (isd_attrs a (strip_inapplicable (e_kind a) st)).
  rewrite Epre. unfold fin_children.
  destruct (lwsp_kind (e_kind a)) eqn:El.
  - (* p, rt, rtc, rp: the white-space pass *)
    assert (G : forallb (child_ok (if is_leaf_kind (e_kind a) then false else e_preserve a))
                        (match children with [] => [] | _ :: _ => lwsp_children (isd_attrs a st) children end) = true).
    { destruct children as [|c0 cs0]; [reflexivity|]. rewrite <- (Epre st). apply lwsp_children_ws. exact Hpart. }
    split; [|intros _; exact G].
    destruct (e_kind a); try discriminate; try exact G.
    (* p *) rewrite forallb_forall in *. intros x Hx. apply (child_ok_part x _ (G x Hx)).
  - (* no pass here: the children as they are *)
    assert (Hk : is_leaf_kind (e_kind a) = true -> children = []).
    { intros Hleaf. destruct (e_kind a); try discriminate; unfold cok in Ha; (destruct cs; [|discriminate]);
        apply (proc_list_nil_inv _ _ _ _ _ _ _ _ Hl). }
    split.
    + destruct (e_kind a) eqn:Ek; try discriminate; try exact Hpart; try reflexivity.
      rewrite (Hk eq_refl). reflexivity.
    + intros Hw. destruct (e_kind a) eqn:Ek; try discriminate; cbn [is_leaf_kind];
        apply forallb_forall; intros x Hx; destruct (Hch x Hx) as (c & Hc & Hkx & _ & Hwx);
        assert (Hin : In (kind_of c) (kinds cs)) by (apply in_map, Hc);
        unfold cok in Ha; rewrite forallb_forall in Ha; specialize (Ha _ Hin);
        unfold child_ok; rewrite Hkx; destruct (kind_of c); try discriminate; apply Hwx; reflexivity.
Qed.

Theorem snapshot_whitespace d t rs :
  doc_content_wf d = true -> isd d t = Ok rs -> nth 9 (shape_clauses [] false rs) false = true.
Proof.
  intros Hwf H. cbn [nth shape_clauses].
  unfold doc_content_wf in Hwf. apply andb_true_iff in Hwf as [Hreg Hbody].
  apply forallb_forall. intros o Ho. rewrite ws_ok_wsk. destruct (isd_inv d t rs H o Ho) as (sel & r & Hr & Hp).
  apply proc_region_inv in Hp as (st & children & _ & _ & Hch & Hf).
  apply finish_inv in Hf as (-> & _ & _). rewrite wsk_node.
  destruct Hch as [->|(b & x & Eb & Hpb & ->)].
  - unfold fin_children. destruct (lwsp_kind _); reflexivity.
  - rewrite Eb in Hbody. apply andb_true_iff in Hbody as [Hkb Hsb].
    destruct (proc_ws d t sel b Hsb _ _ _ _ _ Hpb) as [Gp Gw]. destruct (proc_cm d t sel b Hsb _ _ _ _ _ Hpb) as [Gk _].
    assert (Hx : forall pre, child_ok pre x = true).
    { intros pre. unfold child_ok. rewrite Gk. destruct (kind_of b); try discriminate. apply Gw. reflexivity. }
    unfold fin_children. destruct (lwsp_kind _).
    + change (e_preserve (isd_attrs (eattrs r) (strip_inapplicable (e_kind (eattrs r)) st))) with (e_preserve (isd_attrs (eattrs r) st)).
      apply lwsp_children_ws. cbn [forallb]. rewrite Gp. reflexivity.
    + cbn [forallb]. rewrite Hx. reflexivity.
Qed.
