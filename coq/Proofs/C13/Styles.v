(* C13: an element of a snapshot carries exactly the style properties applicable to its kind (clause 4), and
   never display:none (clause 7). *)
From TT Require Import Model.Doc Gen.StyleTables Model.Isd Spec.IsdSpec Spec.IsdShape Proofs.Common.ElemInd Proofs.Common.StyleFrame.
From TT Require Import Proofs.C01.Display Proofs.C13.Shape.

Lemma shas_sset m p v q : shas m q = true -> shas (sset m p v) q = true.
Proof.
  unfold shas. intros H. destruct (Z.eq_dec q p) as [->|Hne]; [rewrite sget_sset_same; reflexivity|].
  rewrite sget_sset_other by exact Hne. exact H.
Qed.
Lemma shas_sset_same m p v : shas (sset m p v) p = true.
Proof. unfold shas. rewrite sget_sset_same. reflexivity. Qed.

(* ---- every pass keeps the keys it finds --------------------------------------------------------------- *)
Lemma compute_prop_keeps d par st p st' q : compute_prop d par st p = Ok st' -> shas st q = true -> shas st' q = true.
Proof.
  intros H Hq. unfold compute_prop in H.
  repeat match type of H with
         | (if ?c then _ else _) = _ => destruct c
         | match ?x with _ => _ end = _ => destruct x eqn:?
         | bind ?x _ = _ => destruct x eqn:?; cbn [bind] in H
         | Err _ = Ok _ => discriminate
         | Ok _ = Ok _ => injection H as <-
         end; repeat apply shas_sset; exact Hq.
Qed.
Lemma compute_styles_keeps d par todo q : forall order st st',
  compute_styles d par todo order st = Ok st' -> shas st q = true -> shas st' q = true.
Proof.
  induction order as [|p order IH]; intros st st' H Hq; cbn [compute_styles] in H; [injection H as <-; exact Hq|].
  destruct (existsb (Z.eqb p) todo); [|apply (IH _ _ H Hq)].
  destruct (compute_prop d par st p) as [st1|] eqn:E; [|discriminate]. cbn [bind] in H.
  apply (IH _ _ H). apply (compute_prop_keeps _ _ _ _ _ _ E Hq).
Qed.

Lemma compute_prop_position d par st st' : compute_prop d par st p_Position = Ok st' -> shas st' p_Position = true.
Proof.
  intros H.
  assert (E : compute_prop d par st p_Position =
    match sget st p_Position with
    | None =>
        match sget st p_Origin with
        | Some (VCoord x y) => Ok (sset st p_Position (VPos x e_PositionType_HEdge_left y e_PositionType_VEdge_top))
        | _ => Err errCompute
        end
    | Some (VPos ho he vo ve) =>
        match sget st p_Extent with
        | Some (VExtent eh ew) =>
            if negb (unit_eqb (lu eh) Urh && unit_eqb (lu ew) Urw) then Err errCompute
            else
            bind (compute_length vo (Some (rh (Qminus (qz 100) (lv eh)))) None (Some (c_h d)) (Some (px_h d))) (fun v1 =>
            let v2 := if ve =? e_PositionType_VEdge_bottom
                      then mkLen (Qminus (Qminus (qz 100) (lv eh)) (lv v1)) (lu v1) else v1 in
            bind (compute_length ho (Some (rw (Qminus (qz 100) (lv ew)))) None (Some (c_w d)) (Some (px_w d))) (fun h1 =>
            let h2 := if he =? e_PositionType_HEdge_right
                      then mkLen (Qminus (Qminus (qz 100) (lv ew)) (lv h1)) (lu h1) else h1 in
            Ok (sset (sset st p_Origin (VCoord h2 v2)) p_Position (VPos h2 e_PositionType_HEdge_left v2 e_PositionType_VEdge_top))))
        | _ => Err errCompute
        end
    | Some _ => Err errCompute
    end) by reflexivity.
  rewrite E in H. clear E.
  repeat match type of H with
         | (if ?c then _ else _) = _ => destruct c
         | match ?x with _ => _ end = _ => destruct x eqn:?
         | bind ?x _ = _ => destruct x eqn:?; cbn [bind] in H
         | Err _ = Ok _ => discriminate
         | Ok _ = Ok _ => injection H as <-
         end; apply shas_sset_same.
Qed.

Lemma compute_styles_position d par todo : forall order st st',
  compute_styles d par todo order st = Ok st' -> In p_Position order -> existsb (Z.eqb p_Position) todo = true ->
  shas st' p_Position = true.
Proof.
  induction order as [|p order IH]; intros st st' H Hin Htodo; [destruct Hin|]. cbn [compute_styles] in H.
  destruct Hin as [->|Hin].
  - rewrite Htodo in H. destruct (compute_prop d par st p_Position) as [st1|] eqn:E; [|discriminate]. cbn [bind] in H.
    apply (compute_styles_keeps _ _ _ _ _ _ _ H). apply (compute_prop_position _ _ _ _ E).
  - destruct (existsb (Z.eqb p) todo).
    + destruct (compute_prop d par st p) as [st1|] eqn:E; [|discriminate]. cbn [bind] in H. apply (IH _ _ H Hin Htodo).
    + apply (IH _ _ H Hin Htodo).
Qed.

(* initial values: a listed property that is absent is scheduled for computation *)
Lemma apply_initial_todo_mono d q : forall props st todo,
  existsb (Z.eqb q) todo = true -> existsb (Z.eqb q) (snd (apply_initial d props st todo)) = true.
Proof.
  induction props as [|x props IH]; intros st todo Ht; [exact Ht|]. cbn [apply_initial].
  destruct (shas st x); [apply IH; exact Ht|].
  destruct (sget (d_initials d) x); [apply IH; cbn [existsb]; rewrite Ht; apply orb_true_r|].
  destruct (x =? p_Position); [apply IH; cbn [existsb]; rewrite Ht; apply orb_true_r|].
  destruct (sget initial_values x); apply IH; cbn [existsb]; rewrite Ht; apply orb_true_r.
Qed.
Lemma apply_initial_todo d q : forall props st todo,
  In q props -> shas st q = false -> existsb (Z.eqb q) (snd (apply_initial d props st todo)) = true.
Proof.
  induction props as [|p props IH]; intros st todo Hin Hq; [destruct Hin|]. cbn [apply_initial].
  destruct (Z.eq_dec p q) as [->|Hne].
  - rewrite Hq.
    destruct (sget (d_initials d) q); [apply apply_initial_todo_mono; cbn [existsb]; rewrite Z.eqb_refl; reflexivity|].
    destruct (q =? p_Position); [apply apply_initial_todo_mono; cbn [existsb]; rewrite Z.eqb_refl; reflexivity|].
    destruct (sget initial_values q); apply apply_initial_todo_mono; cbn [existsb]; rewrite Z.eqb_refl; reflexivity.
  - destruct Hin as [Hin|Hin]; [congruence|].
    assert (Hq' : forall v, shas (sset st p v) q = false) by (intros v; unfold shas in *; rewrite sget_sset_other by congruence; exact Hq).
    destruct (shas st p); [apply IH; assumption|].
    destruct (sget (d_initials d) p); [apply IH; [assumption | apply Hq']|].
    destruct (p =? p_Position); [apply IH; assumption|].
    destruct (sget initial_values p); apply IH; try assumption. apply Hq'.
Qed.

Lemma table_facts :
  forallb (fun q => (q =? p_Position) || shas initial_values q) all_props = true /\ In p_Position ordered_style_props.
Proof. split; [vm_compute; reflexivity | cbn; tauto]. Qed.

(* the tail of the style phase: initial values then ordered computation *)
Lemma style_phase_tail d t a par iv st : style_phase d t a par iv = Ok st ->
  exists st3 todo3,
    compute_styles d par (snd (if is_leaf_kind (e_kind a) then (st3, todo3) else apply_initial d all_props st3 todo3))
                   ordered_style_props
                   (fst (if is_leaf_kind (e_kind a) then (st3, todo3) else apply_initial d all_props st3 todo3)) = Ok st.
Proof.
  unfold style_phase. intros H.
  destruct (apply_anims t iv (e_anims a) [] []) as [st0 todo0].
  destruct (apply_specified (e_styles a) st0 todo0) as [st1 todo1].
  match type of H with (let '(st, todo) := ?X in _) = _ => destruct X as [st2 todo2] end.
  match type of H with (let '(st, todo) := (if _ then _ else apply_initial d all_props ?s3 ?t3) in _) = _ => exists s3, t3 end.
  match type of H with (let '(st, todo) := ?X in _) = _ => destruct X as [st4 todo4] end. exact H.
Qed.

(* after the style phase of a non-leaf element every one of the 36 properties has a value *)
Theorem style_phase_complete d t a par iv st :
  is_leaf_kind (e_kind a) = false -> style_phase d t a par iv = Ok st ->
  forall q, In q all_props -> shas st q = true.
Proof.
  intros Hk H q Hq. destruct (style_phase_tail _ _ _ _ _ _ H) as (st3 & todo3 & Ht). rewrite Hk in Ht.
  destruct table_facts as [Htab Hord]. rewrite forallb_forall in Htab. specialize (Htab q Hq).
  pose proof (apply_initial_get d q all_props st3 todo3 all_props_nodup) as G.
  destruct (apply_initial d all_props st3 todo3) as [st4 todo4] eqn:E4. cbn [fst snd] in *.
  destruct (shas st4 q) eqn:E; [apply (compute_styles_keeps _ _ _ _ _ _ _ Ht E)|].
  (* absent after the initial values: it can only be Position, which is then computed from Origin *)
  unfold shas in E. rewrite G in E.
  destruct (sget st3 q) eqn:E3; [discriminate|].
  assert (Hex : existsb (Z.eqb q) all_props = true) by (apply existsb_exists; exists q; split; [exact Hq | apply Z.eqb_refl]).
  rewrite Hex in E. destruct (sget (d_initials d) q); [discriminate|].
  destruct (q =? p_Position) eqn:Epos.
  - apply Z.eqb_eq in Epos. subst q.
    apply (compute_styles_position _ _ _ _ _ _ Ht Hord).
    pose proof (apply_initial_todo d p_Position all_props st3 todo3 Hq) as Ht3. rewrite E4 in Ht3. cbn [snd] in Ht3.
    apply Ht3. unfold shas. rewrite E3. reflexivity.
  - cbn [orb] in Htab. unfold shas in Htab. destruct (sget initial_values q); discriminate.
Qed.

(* ---- filtering by applicability --------------------------------------------------------------------------- *)
Lemma sget_strip k st q : sget (strip_inapplicable k st) q = if applicable k q then sget st q else None.
Proof.
  unfold strip_inapplicable. induction st as [|[p v] st IH]; cbn [filter sget fst]; [destruct (applicable k q); reflexivity|].
  destruct (applicable k p) eqn:Ep; cbn [sget].
  - destruct (p =? q) eqn:E; [apply Z.eqb_eq in E; subst p; rewrite Ep; reflexivity | exact IH].
  - destruct (p =? q) eqn:E; [apply Z.eqb_eq in E; subst p; rewrite IH, Ep; reflexivity | exact IH].
Qed.
Lemma skeys_strip k st : forall q, In q (skeys (strip_inapplicable k st)) -> applicable k q = true.
Proof.
  unfold skeys, strip_inapplicable. intros q H. apply in_map_iff in H as ([p v] & <- & Hin).
  apply filter_In in Hin as [_ Hp]. exact Hp.
Qed.
Lemma in_skeys m q : shas m q = true -> In q (skeys m).
Proof.
  unfold shas, skeys. induction m as [|[p v] m IH]; cbn [sget map fst]; [discriminate|].
  destruct (p =? q) eqn:E; [apply Z.eqb_eq in E; left; exact E | intros H; right; apply IH, H].
Qed.
Lemma applicable_to_spec k q : In q (applicable_to k) <-> applicable k q = true.
Proof.
  unfold applicable_to, applicable. destruct (assoc_z applicable_table (kind_num k)) as [l|]; [|split; [intros [] | discriminate]].
  split; intros H.
  - apply existsb_exists. exists q. split; [exact H | apply Z.eqb_refl].
  - apply existsb_exists in H as (x & Hx & E). apply Z.eqb_eq in E. subst x. exact Hx.
Qed.
Lemma applicable_in_all k : forall q, In q (applicable_to k) -> In q all_props.
Proof.
  assert (H : forallb (fun q => existsb (Z.eqb q) all_props) (applicable_to k) = true) by (destruct k; vm_compute; reflexivity).
  rewrite forallb_forall in H. intros q Hq. specialize (H q Hq). apply existsb_exists in H as (x & Hx & E).
  apply Z.eqb_eq in E. subst x. exact Hx.
Qed.
Lemma subset_spec a b : (forall x, In x a -> In x b) -> subset a b = true.
Proof.
  intros H. unfold subset. apply forallb_forall. intros x Hx. apply existsb_exists. exists x. split; [apply H, Hx | apply Z.eqb_refl].
Qed.

(* clause 4 on the attributes M builds *)
Definition styles_exact_a (a : attrs) : bool :=
  let keys := skeys (e_styles a) in
  match e_kind a with
  | KBr | KText => subset keys (applicable_to (e_kind a))
  | k => subset keys (applicable_to k) && subset (applicable_to k) keys
  end.
Lemma styles_exact_out d t a par iv st :
  style_phase d t a par iv = Ok st -> display_none st = false ->
  styles_exact_a (isd_attrs a (strip_inapplicable (e_kind a) st)) = true.
Proof.
  intros H _. unfold styles_exact_a. cbn [isd_attrs e_kind e_styles].
  assert (H1 : subset (skeys (strip_inapplicable (e_kind a) st)) (applicable_to (e_kind a)) = true).
  { apply subset_spec. intros q Hq. apply applicable_to_spec. apply (skeys_strip _ _ _ Hq). }
  assert (H2 : is_leaf_kind (e_kind a) = false -> subset (applicable_to (e_kind a)) (skeys (strip_inapplicable (e_kind a) st)) = true).
  { intros Hk. apply subset_spec. intros q Hq. apply in_skeys. unfold shas. rewrite sget_strip.
    pose proof Hq as Hq'. apply applicable_to_spec in Hq'. rewrite Hq'.
    pose proof (style_phase_complete d t a par iv st Hk H q (applicable_in_all _ q Hq)) as Hs. exact Hs. }
  destruct (e_kind a); cbn [is_leaf_kind] in H2; try exact H1; rewrite H1, H2; reflexivity.
Qed.

Theorem snapshot_styles_exact d t rs : isd d t = Ok rs -> nth 4 (shape_clauses [] false rs) false = true.
Proof.
  intros H. cbn [nth shape_clauses]. rewrite (every_allp _ styles_exact_a) by (intros [a cs]; reflexivity).
  apply (isd_allp styles_exact_a) with (d := d) (t := t); [reflexivity | apply styles_exact_out | exact H].
Qed.

(* clause 7: no element of a snapshot computes to display:none *)
Definition not_none_a (a : attrs) : bool :=
  match sget (e_styles a) p_Display with Some (VEnum x) => negb (x =? e_DisplayType_none) | _ => true end.
Lemma not_none_out d t a par iv st :
  style_phase d t a par iv = Ok st -> display_none st = false -> not_none_a (isd_attrs a (strip_inapplicable (e_kind a) st)) = true.
Proof.
  intros _ Hd. unfold not_none_a. cbn [isd_attrs e_styles]. rewrite sget_strip.
  destruct (applicable (e_kind a) p_Display); [|reflexivity].
  unfold display_none in Hd. destruct (sget st p_Display) as [[x| | | | | | | | | | | | | |]|]; try reflexivity. rewrite Hd. reflexivity.
Qed.
Theorem snapshot_no_display_none d t rs : isd d t = Ok rs -> nth 7 (shape_clauses [] false rs) false = true.
Proof.
  intros H. cbn [nth shape_clauses]. rewrite (every_allp _ not_none_a) by (intros [a cs]; reflexivity).
  apply (isd_allp not_none_a) with (d := d) (t := t); [reflexivity | apply not_none_out | exact H].
Qed.

(* clause 10: a region without content is in the snapshot only when its computed tts:showBackground is always *)
Lemma finish_region_empty a st children r :
  e_kind a = KRegion -> finish_element a st children = Ok (Some r) -> empty_region_ok r = true.
Proof.
  intros Hk H. unfold finish_element in H. rewrite Hk in H. cbn [push_children_ok negb andb keep_always] in H.
  destruct children as [|c cs].
  - destruct (sget (strip_inapplicable KRegion st) p_ShowBackground) as [v|] eqn:E; [|discriminate].
    destruct v; try discriminate. destruct (tag =? e_ShowBackgroundType_always) eqn:Et; [|discriminate].
    injection H as <-. unfold empty_region_ok. cbn [echildren eattrs isd_attrs e_styles]. rewrite E, Et. reflexivity.
  - injection H as <-. reflexivity.
Qed.
Theorem snapshot_empty_regions d t rs :
  Forall (fun r => e_kind (eattrs r) = KRegion) (d_regions d) -> isd d t = Ok rs -> nth 10 (shape_clauses [] false rs) false = true.
Proof.
  intros Hreg H. cbn [nth shape_clauses].
  assert (G : forall l, (forall x o, In x l -> x = Ok (Some o) -> empty_region_ok o = true) ->
                        forall rs, collect_regions l = Ok rs -> forallb empty_region_ok rs = true).
  { induction l as [|x l IH]; intros Hall rs' Hc; cbn [collect_regions] in Hc; [injection Hc as <-; reflexivity|].
    destruct x as [o|]; [|discriminate]. cbn [bind] in Hc. destruct (collect_regions l) as [xs|] eqn:E; [|discriminate].
    cbn [bind] in Hc. injection Hc as <-.
    assert (Hxs : forallb empty_region_ok xs = true) by (apply IH; [intros y o' Hy; apply Hall; right; exact Hy | reflexivity]).
    destruct o as [e|]; [|exact Hxs]. cbn [forallb]. rewrite (Hall (Ok (Some e)) e (or_introl eq_refl) eq_refl). exact Hxs. }
  assert (Hpr : forall sel r o, e_kind (eattrs r) = KRegion -> proc_region d t sel r = Ok (Some o) -> empty_region_ok o = true).
  { intros sel r o Hk Hp. unfold proc_region in Hp. destruct (negb (active_at t _)); [discriminate|].
    destruct (style_phase d t _ None _) as [st|]; [|discriminate]. cbn [bind] in Hp.
    destruct (display_none st); [discriminate|].
    match type of Hp with bind ?g _ = _ => destruct g as [children|] end; [|discriminate]. cbn [bind] in Hp.
    apply (finish_region_empty _ _ _ _ Hk Hp). }
  unfold isd in H. destruct (d_regions d) as [|r0 rest] eqn:Er.
  - apply (G _) in H; [exact H|]. intros x o [<-|[]] Hx. apply (Hpr None default_region o (eq_refl KRegion) Hx).
  - apply (G _) in H; [exact H|]. intros x o Hin Hx. apply in_map_iff in Hin as (r & <- & Hr).
    rewrite Forall_forall in Hreg. apply (Hpr _ _ _ (Hreg r Hr) Hx).
Qed.
