(* C13: clause 6 on every element, and all eleven clauses together. *)
From TT Require Import Model.Doc Gen.StyleTables Model.Isd Spec.IsdShape Proofs.Common.ElemInd.
From TT Require Import Proofs.C13.Shape Proofs.C13.Styles Proofs.C13.OriginPosition Proofs.C13.Inv Proofs.C13.ContentModel
                       Proofs.C13.NonEmpty Proofs.C13.WhiteSpace Proofs.C13.Units.

(* the content model admits a region nowhere below another element *)
Lemma cok_noregion k ks : cok k ks = true -> forallb (fun x => negb (kind_eqb x KRegion)) ks = true.
Proof.
  intros H. destruct (forall_kind k) eqn:Ek.
  - destruct k; try discriminate; unfold cok in H; rewrite forallb_forall in *; intros x Hx; specialize (H x Hx);
      destruct x; try discriminate; reflexivity.
  - pose proof (cok_nodrop k ks Ek H) as Hn. destruct k; try discriminate; unfold cok in H.
    + destruct ks as [|[] [|? ?]]; try discriminate; reflexivity.
    + destruct ks; [reflexivity | discriminate].
    + destruct ks; [reflexivity | discriminate].
    + repeat (apply orb_true_iff in H as [H|H]);
        repeat (destruct ks as [|[] ks]; cbn [klist_eqb kind_eqb andb] in H; try discriminate); reflexivity.
    + apply orb_true_iff in H as [H|H].
      * rewrite forallb_forall in *. intros x Hx. specialize (H x Hx). destruct x; try discriminate; reflexivity.
      * destruct ks as [|[] rest]; try discriminate. cbn [forallb kind_eqb negb andb].
        rewrite <- forallb_rev. destruct (rev rest) as [|[] mid]; try discriminate. cbn [forallb kind_eqb negb andb].
        rewrite forallb_forall in *. intros x Hx. specialize (H x Hx). destruct x; try discriminate; reflexivity.
Qed.
Lemma cm_no_region_below : forall e, cm e = true ->
  forallb (fun x => negb (kind_eqb (kind_of x) KRegion)) (flat_map all_elems (echildren e)) = true.
Proof.
  induction e as [a cs IH] using elem_ind2. rewrite cm_node. intros H. apply andb_true_iff in H as [Hk Hcs]. cbn [echildren].
  apply cok_noregion in Hk. rewrite forallb_flat_map. apply forallb_forall. intros c Hc.
  rewrite Forall_forall in IH. rewrite forallb_forall in Hcs, Hk.
  pose proof (IH c Hc (Hcs c Hc)) as IHc. assert (Hin : In (kind_of c) (kinds cs)) by (apply in_map, Hc). specialize (Hk _ Hin).
  destruct c as [ac ccs]. rewrite all_elems_cons. cbn [forallb]. cbn [echildren] in IHc. rewrite IHc, andb_true_r. exact Hk.
Qed.

Lemma regions_of_wf d : doc_content_wf d = true -> Forall (fun r => e_kind (eattrs r) = KRegion) (d_regions d).
Proof.
  unfold doc_content_wf. intros H. apply andb_true_iff in H as [H _]. apply Forall_forall. intros r Hr.
  rewrite forallb_forall in H. specialize (H r Hr). unfold kind_of in H. destruct (e_kind (eattrs r)); try discriminate; reflexivity.
Qed.

Theorem snapshot_origin_position_all d t rs :
  doc_content_wf d = true -> isd d t = Ok rs -> nth 6 (shape_clauses [] false rs) false = true.
Proof.
  intros Hwf H. cbn [nth shape_clauses]. rewrite every_forallb.
  pose proof (snapshot_origin_position d t rs (regions_of_wf d Hwf) H) as Hop.
  pose proof (snapshot_content_model d t rs Hwf H) as Hcm. cbn [nth shape_clauses] in Hcm. apply andb_true_iff in Hcm as [_ Hcm].
  rewrite every_forallb in Hcm. rewrite forallb_forall in *. intros o Ho.
  destruct o as [a cs] eqn:Eo. rewrite all_elems_cons. cbn [forallb]. rewrite <- Eo in *. rewrite (Hop o Ho). cbn [andb].
  pose proof (cm_no_region_below o (Hcm o Ho)) as Hb. rewrite Eo in Hb. cbn [echildren] in Hb.
  rewrite forallb_forall in *. intros x Hx. specialize (Hb x Hx). unfold origin_position_ok. destruct (kind_of x); try reflexivity; discriminate.
Qed.

Theorem snapshot_shape d t rs : doc_wf d = true -> isd d t = Ok rs -> isd_shape rs = true.
Proof.
  intros Hwf H. unfold doc_wf in Hwf. apply andb_true_iff in Hwf as [Hc Hv].
  pose proof (snapshot_no_timing d t rs H) as C0. pose proof (snapshot_no_anims d t rs H) as C1.
  pose proof (snapshot_no_region_refs d t rs H) as C2. pose proof (snapshot_content_model d t rs Hc H) as C3.
  pose proof (snapshot_styles_exact d t rs H) as C4. pose proof (snapshot_units d t rs Hv H) as C5.
  pose proof (snapshot_origin_position_all d t rs Hc H) as C6. pose proof (snapshot_no_display_none d t rs H) as C7.
  pose proof (snapshot_nonempty d t rs Hc H) as C8. pose proof (snapshot_whitespace d t rs Hc H) as C9.
  pose proof (snapshot_empty_regions d t rs (regions_of_wf d Hc) H) as C10.
  cbn [nth shape_clauses] in *. unfold isd_shape, shape_clauses. cbn [forallb].
  rewrite C0, C1, C2, C3, C4, C5, C6, C7, C8, C9, C10. reflexivity.
Qed.

(* the whole content model of data_model.md on the source implies the part of it the theorems ask for *)
Lemma full_content_model_suffices d :
  forallb (fun r => kind_eqb (kind_of r) KRegion) (d_regions d) = true ->
  match d_body d with None => true | Some b => kind_eqb (kind_of b) KBody && forallb children_ok (all_elems b) end = true ->
  doc_content_wf d = true.
Proof.
  intros Hr Hb. unfold doc_content_wf. rewrite Hr. cbn [andb]. destruct (d_body d) as [b|]; [|reflexivity].
  apply andb_true_iff in Hb as [H1 H2]. rewrite H1. cbn [andb]. rewrite forallb_forall in *. intros x Hx. specialize (H2 x Hx).
  unfold src_children_ok. destruct (kind_of x); try exact H2; reflexivity.
Qed.

(* ---- the hypotheses are satisfiable: a document with two regions, nested divisions, mixed xml:space, line breaks, ruby with
   delimiters, lengths in every unit, an animation step and an initial value ---------------------------------------------------- *)
Definition ex_text (s : text) : elem := Elem (mkAttrs KText None None None None [] [] false [] s) [].
Definition ex_el (k : kind) (pre : bool) (st : smap) (cs : list elem) : elem := Elem (mkAttrs k None None None None st [] pre [] []) cs.
Definition ex_len (n : Z) (u : unit_) : len := mkLen (inject_Z n) u.
Definition ex_doc : doc :=
  mkDoc
    [ Elem (mkAttrs KRegion (Some [114; 49]) None None None
              [(p_Extent, VExtent (ex_len 50 Upct) (ex_len 640 Upx)); (p_Origin, VCoord (ex_len 2 Uc) (ex_len 10 Upx));
               (p_Disparity, VLen (ex_len 3 Upx)); (p_Padding, VPad (ex_len 1 Uem) (ex_len 2 Upct) (ex_len 1 Uc) (ex_len 4 Upx));
               (p_ShowBackground, VEnum e_ShowBackgroundType_always)]
              [mkAnim p_Disparity (Some (inject_Z 1)) None (VLen (ex_len 1 Uc))] false [] []) [];
      Elem (mkAttrs KRegion (Some [114; 50]) (Some (inject_Z 5)) None None
              [(p_Position, VPos (ex_len 10 Upct) e_PositionType_HEdge_right (ex_len 5 Upx) e_PositionType_VEdge_bottom);
               (p_Extent, VExtent (ex_len 30 Urh) (ex_len 40 Urw))] [] false [] []) [] ]
    (Some (ex_el KBody false []
      [ Elem (mkAttrs KDiv None None None (Some [114; 49]) [(p_FontSize, VLen (ex_len 150 Upct))] [] false [] [])
          [ ex_el KDiv false []
              [ ex_el KP false [(p_LineHeight, VLen (ex_len 125 Upct)); (p_LinePadding, VLen (ex_len 1 Uc));
                                (p_TextShadow, VShadow [(ex_len 1 Upx, ex_len 1 Uem, Some (ex_len 10 Upct), None)])]
                  [ ex_el KSpan false [(p_TextOutline, VOutline None (ex_len 5 Upct))] [ex_text [32; 32; 97; 32; 10; 9; 98; 32]];
                    ex_el KBr false [] [];
                    ex_el KSpan false [] [ex_text [32; 10]; ex_el KSpan true [] [ex_text [32; 32; 122; 32; 32]]; ex_el KSpan false [] []];
                    ex_el KRuby false []
                      [ ex_el KRb false [] [ex_el KSpan false [] [ex_text [26085]]];
                        ex_el KRp false [] [ex_el KSpan false [] [ex_text [32; 40; 9; 32]]];
                        ex_el KRt false [(p_RubyReserve, VReserve 0 None)] [ex_el KSpan false [] [ex_text [110; 32; 32; 105]]];
                        ex_el KRp false [] [ex_el KSpan false [] [ex_text [41]]] ] ] ] ] ]))
    [(p_Color, VColor 4278190335)] 15 32 1080 1920 None None [101; 110].

Example ex_doc_wf : doc_wf ex_doc = true.
Proof. vm_compute. reflexivity. Qed.
Example ex_doc_snapshot : exists rs, isd ex_doc (inject_Z 2) = Ok rs /\ length rs = 1%nat /\ isd_shape rs = true.
Proof. eexists. split; [vm_compute; reflexivity | split; vm_compute; reflexivity]. Qed.
