(* C13: proofs about the shape of snapshots produced by M. *)
From TT Require Import Model.Doc Gen.StyleTables Model.Isd Spec.IsdShape Proofs.Common.ElemInd.

(* every element of a snapshot is built by isd_attrs: no timing, no animation, no region reference *)
Lemma isd_attrs_clean a st :
  e_begin (isd_attrs a st) = None /\ e_end (isd_attrs a st) = None /\ e_anims (isd_attrs a st) = [] /\ e_region (isd_attrs a st) = None.
Proof. repeat split. Qed.
