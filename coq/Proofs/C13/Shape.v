(* C13: shape clauses of snapshots produced by M, for every document and time. *)
From TT Require Import Model.Doc Gen.StyleTables Model.Isd Spec.IsdSpec Spec.IsdShape Proofs.Common.ElemInd Proofs.Common.StyleFrame.
From TT Require Import Proofs.C01.Lwsp.

Lemma all_elems_node a cs : all_elems (Elem a cs) = Elem a cs :: flat_map all_elems cs.
Proof. reflexivity. Qed.

(* ---- clauses that only look at attributes other than the text ------------------------------------------- *)
Section AttrPredicate.
  Variable pa : attrs -> bool.
  Hypothesis pa_text : forall a t,
    pa (mkAttrs (e_kind a) (e_id a) (e_begin a) (e_end a) (e_region a) (e_styles a) (e_anims a) (e_preserve a) (e_lang a) t) = pa a.
  Definition allp (e : elem) : bool := forallb (fun x => pa (eattrs x)) (all_elems e).
  Definition allp_list (l : list elem) : bool := forallb allp l.

  Lemma allp_node a cs : allp (Elem a cs) = pa a && allp_list cs.
  Proof.
    unfold allp. rewrite all_elems_node. cbn [forallb eattrs]. f_equal. unfold allp_list.
    induction cs as [|c cs IH]; [reflexivity|]. cbn [flat_map forallb]. rewrite forallb_app, IH. reflexivity.
  Qed.

  Lemma assign_texts_allp : forall e ts, allp (fst (assign_texts e ts)) = allp e.
  Proof.
    induction e as [a cs IH] using elem_ind2. intros ts. rewrite assign_node.
    assert (Hl : forall ts, allp_list (fst (assign_list cs ts)) = allp_list cs).
    { clear ts. induction cs as [|c cs IHcs]; intros ts; [reflexivity|]. inversion IH as [|? ? Hc Hcs]; subst.
      cbn [assign_list]. specialize (Hc ts). destruct (assign_texts c ts) as [c' ts1]. cbn [fst] in Hc.
      specialize (IHcs Hcs ts1). destruct (assign_list cs ts1) as [l'' ts2]. cbn [fst allp_list forallb] in *.
      rewrite Hc. f_equal. exact IHcs. }
    assert (HT : allp (Elem (mkAttrs (e_kind a) (e_id a) (e_begin a) (e_end a) (e_region a) (e_styles a) (e_anims a)
                                     (e_preserve a) (e_lang a) (hd [] ts)) cs) = allp (Elem a cs))
      by (rewrite !allp_node, pa_text; reflexivity).
    destruct (e_kind a) eqn:Ek; cbn [skips_text_list fst]; try reflexivity;
      try (specialize (Hl ts); destruct (assign_list cs ts) as [cs' ts']; cbn [fst] in *; rewrite !allp_node, Hl; reflexivity).
    destruct (is_nonempty (e_text a)); cbn [fst]; [exact HT | reflexivity].
  Qed.

  Lemma prune_allp : forall e, allp e = true -> allp (prune_empty e) = true.
  Proof.
    induction e as [a cs IH] using elem_ind2. rewrite prune_empty_node, !allp_node. intros H.
    apply andb_true_iff in H as [Ha Hcs]. rewrite Ha. cbn [andb].
    induction cs as [|c cs IHcs]; [reflexivity|]. inversion IH as [|? ? Hc Hrest]; subst.
    cbn [allp_list forallb] in Hcs. apply andb_true_iff in Hcs as [H1 H2].
    rewrite prune_list_cons. cbv zeta.
    match goal with |- allp_list (if ?b then _ else _) = true => destruct b end; [apply IHcs; assumption|].
    cbn [allp_list forallb]. rewrite (Hc H1). cbn [andb]. apply IHcs; assumption.
  Qed.
  Lemma prune_list_allp cs : allp_list cs = true -> allp_list (prune_list cs) = true.
  Proof.
    induction cs as [|c cs IHcs]; [reflexivity|]. intros Hcs.
    cbn [allp_list forallb] in Hcs. apply andb_true_iff in Hcs as [H1 H2].
    rewrite prune_list_cons. cbv zeta.
    match goal with |- allp_list (if ?b then _ else _) = true => destruct b end; [apply IHcs; assumption|].
    cbn [allp_list forallb]. rewrite (prune_allp c H1). cbn [andb]. apply IHcs; assumption.
  Qed.

  Lemma lwsp_children_allp a cs : allp_list cs = true -> allp_list (lwsp_children a cs) = true.
  Proof.
    intros H. unfold lwsp_children. rewrite prune_empty_node. cbn [echildren]. apply prune_list_allp.
    rewrite assign_children_list.
    generalize (process_lwsp (collect_children a cs)). induction cs as [|c cs IHcs]; intros ts; [reflexivity|].
    cbn [allp_list forallb] in H. apply andb_true_iff in H as [H1 H2]. cbn [assign_list].
    pose proof (assign_texts_allp c ts) as Hc. destruct (assign_texts c ts) as [c' ts1]. cbn [fst] in Hc.
    specialize (IHcs H2 ts1). destruct (assign_list cs ts1) as [l'' ts2]. cbn [fst allp_list forallb] in *.
    rewrite Hc, H1. exact IHcs.
  Qed.

  (* every element M puts into a snapshot satisfies pa, provided the attributes built from a successful style
     phase that does not compute display:none do *)
  Hypothesis pa_out : forall d t a par iv st,
    style_phase d t a par iv = Ok st -> display_none st = false -> pa (isd_attrs a (strip_inapplicable (e_kind a) st)) = true.

  Lemma finish_element_allp a st children r :
    pa (isd_attrs a (strip_inapplicable (e_kind a) st)) = true ->
    allp_list children = true -> finish_element a st children = Ok (Some r) -> allp r = true.
  Proof.
    unfold finish_element. intros Hpa Hc H.
    destruct (negb (push_children_ok (e_kind a) children) && is_nonempty_l children); [discriminate|].
    set (children' := match e_kind a with
                      | KP | KRt | KRtc | KRp => match children with [] => [] | _ => lwsp_children (isd_attrs a st) children end
                      | _ => children end) in H.
    assert (Hc' : allp_list children' = true).
    { unfold children'. destruct (e_kind a); try exact Hc; (destruct children; [reflexivity | apply lwsp_children_allp; exact Hc]). }
    assert (Hn : allp (Elem (isd_attrs a (strip_inapplicable (e_kind a) st)) children') = true) by (rewrite allp_node, Hpa, Hc'; reflexivity).
    destruct (keep_always (e_kind a)); [injection H as <-; exact Hn|].
    destruct children'; [|injection H as <-; exact Hn].
    destruct (e_kind a); try discriminate.
    destruct (sget (strip_inapplicable KRegion st) p_ShowBackground) as [v|]; [|discriminate].
    destruct v; try discriminate. destruct (tag =? e_ShowBackgroundType_always); [injection H as <-; exact Hn | discriminate].
  Qed.

  Lemma proc_allp d t sel : forall e inh par pb pe r, proc d t sel inh par pb pe e = Ok (Some r) -> allp r = true.
  Proof.
    induction e as [a cs IH] using elem_ind2. intros inh par pb pe r H. cbn [proc] in H.
    destruct (negb (active_at t _)); [discriminate|].
    match type of H with (if ?b then _ else _) = _ => destruct b end; [discriminate|].
    destruct (style_phase d t a par _) as [st|] eqn:Est; [|discriminate]. cbn [bind] in H.
    destruct (display_none st) eqn:Edn; [discriminate|].
    match type of H with bind ?g _ = _ => destruct g as [children|] eqn:Eg end; [|discriminate]. cbn [bind] in H.
    apply (finish_element_allp a st children r); [apply (pa_out _ _ _ _ _ _ Est Edn)| |exact H].
    clear H. revert children Eg. induction cs as [|c cs IHcs]; intros children Eg.
    - injection Eg as <-. reflexivity.
    - inversion IH as [|? ? Hc Hcs]; subst.
      match type of Eg with bind ?g _ = _ => destruct g as [rc|] eqn:Ec end; [|discriminate]. cbn [bind] in Eg.
      match type of Eg with bind ?g _ = _ => destruct g as [rs|] eqn:Er end; [|discriminate]. cbn [bind] in Eg. injection Eg as <-.
      specialize (IHcs Hcs rs eq_refl). destruct rc as [x|]; [|exact IHcs].
      cbn [allp_list forallb]. rewrite (Hc _ _ _ _ _ Ec). exact IHcs.
  Qed.

  Lemma proc_region_allp d t sel r res : proc_region d t sel r = Ok (Some res) -> allp res = true.
  Proof.
    unfold proc_region. intros H. destruct (negb (active_at t _)); [discriminate|].
    destruct (style_phase d t _ None _) as [st|] eqn:Est; [|discriminate]. cbn [bind] in H.
    destruct (display_none st) eqn:Edn; [discriminate|].
    match type of H with bind ?g _ = _ => destruct g as [children|] eqn:Eg end; [|discriminate]. cbn [bind] in H.
    apply (finish_element_allp (eattrs r) st children res); [apply (pa_out _ _ _ _ _ _ Est Edn)| |exact H].
    destruct (d_body d) as [b|]; [|injection Eg as <-; reflexivity].
    destruct (proc d t sel None _ None None b) as [[x|]|] eqn:Eb; cbn [bind] in Eg; try discriminate; injection Eg as <-; [|reflexivity].
    cbn [allp_list forallb]. rewrite (proc_allp _ _ _ _ _ _ _ _ _ Eb). reflexivity.
  Qed.

  Lemma collect_regions_allp : forall l rs,
    (forall x o, In x l -> x = Ok (Some o) -> allp o = true) -> collect_regions l = Ok rs -> allp_list rs = true.
  Proof.
    induction l as [|x l IH]; intros rs Hall H; cbn [collect_regions] in H.
    - injection H as <-. reflexivity.
    - destruct x as [o|]; [|discriminate]. cbn [bind] in H. destruct (collect_regions l) as [xs|] eqn:E; [|discriminate].
      cbn [bind] in H. injection H as <-.
      assert (Hxs : allp_list xs = true) by (apply IH; [intros y o' Hy; apply Hall; right; exact Hy | reflexivity]).
      destruct o as [e|]; [|exact Hxs]. cbn [allp_list forallb]. rewrite (Hall (Ok (Some e)) e (or_introl eq_refl) eq_refl). exact Hxs.
  Qed.

  Theorem isd_allp d t rs : isd d t = Ok rs -> allp_list rs = true.
  Proof.
    unfold isd. intros H. destruct (d_regions d) as [|r0 rest].
    - apply (collect_regions_allp _ rs) in H; [exact H|]. intros x o [<-|[]] Hx. apply proc_region_allp in Hx. exact Hx.
    - apply (collect_regions_allp _ rs) in H; [exact H|]. intros x o Hin Hx. apply in_map_iff in Hin as (r & <- & _).
      apply proc_region_allp in Hx. exact Hx.
  Qed.
End AttrPredicate.

Lemma every_allp (p : elem -> bool) (pa : attrs -> bool) rs :
  (forall e, p e = pa (eattrs e)) -> every rs p = allp_list pa rs.
Proof.
  intros H. unfold every, all_of, allp_list, allp. induction rs as [|r rs IH]; [reflexivity|].
  cbn [flat_map forallb]. rewrite forallb_app, IH. f_equal.
  generalize (all_elems r). intros l. induction l as [|x l IHl]; [reflexivity | cbn [forallb]; rewrite H, IHl; reflexivity].
Qed.

(* ---- clauses 0, 1, 2: no begin/end, no animation step, no region reference ---------------------------------- *)
Definition no_timing (a : attrs) : bool := match e_begin a, e_end a with None, None => true | _, _ => false end.
Definition no_anims (a : attrs) : bool := match e_anims a with [] => true | _ => false end.
Definition no_region (a : attrs) : bool := match e_region a with None => true | _ => false end.

Theorem snapshot_no_timing d t rs : isd d t = Ok rs -> nth 0 (shape_clauses [] false rs) false = true.
Proof.
  intros H. cbn [nth shape_clauses]. rewrite (every_allp _ no_timing) by reflexivity.
  apply (isd_allp no_timing) with (d := d) (t := t); [reflexivity | intros; reflexivity | exact H].
Qed.
Theorem snapshot_no_anims d t rs : isd d t = Ok rs -> nth 1 (shape_clauses [] false rs) false = true.
Proof.
  intros H. cbn [nth shape_clauses]. rewrite (every_allp _ no_anims) by reflexivity.
  apply (isd_allp no_anims) with (d := d) (t := t); [reflexivity | intros; reflexivity | exact H].
Qed.
Theorem snapshot_no_region_refs d t rs : isd d t = Ok rs -> nth 2 (shape_clauses [] false rs) false = true.
Proof.
  intros H. cbn [nth shape_clauses]. rewrite (every_allp _ no_region) by reflexivity.
  apply (isd_allp no_region) with (d := d) (t := t); [reflexivity | intros; reflexivity | exact H].
Qed.
