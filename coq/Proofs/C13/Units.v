(* C13, clause 5: every length of every style value of every snapshot element is root-container relative (rh / rw),
   for every document whose non-computed properties carry no other length (doc_values_wf) and every time.
   Invariant of the style phase: a value in the element's style map is already root relative, or its property is
   scheduled for computation and still ahead in _ORDERED_STYLE_PROPS; each compute step resolves its property against
   references that are behind it in that order (own font size, own extent, own origin) or belong to the parent. *)
From TT Require Import Model.Doc Gen.StyleTables Model.Isd Spec.IsdShape Proofs.Common.ElemInd Proofs.Common.StyleFrame.
From TT Require Import Proofs.C01.Lwsp Proofs.C13.Shape Proofs.C13.Inv Proofs.C13.OriginPosition.

Definition memz (q : Z) (l : list Z) : bool := existsb (Z.eqb q) l.
Lemma memz_in q l : memz q l = true <-> In q l.
Proof.
  unfold memz. split; intros H.
  - apply existsb_exists in H as (x & Hx & E). apply Z.eqb_eq in E. subst x. exact Hx.
  - apply existsb_exists. exists q. split; [exact H | apply Z.eqb_refl].
Qed.

Definition okv (o : option value) : bool := match o with Some v => value_units_ok v | None => true end.
Definition Uok (st : smap) : Prop := forall p, okv (sget st p) = true.
(* ok, or pending: scheduled and still to come in the list S of properties to compute *)
Definition J (todo S : list Z) (st : smap) : Prop := forall p, okv (sget st p) = true \/ (memz p todo = true /\ In p S).

Lemma J_sset todo S st p v : J todo S st -> value_units_ok v = true -> J todo S (sset st p v).
Proof.
  intros HJ Hv q. destruct (Z.eq_dec q p) as [->|Hne]; [left; rewrite sget_sset_same; exact Hv|].
  rewrite sget_sset_other by exact Hne. apply HJ.
Qed.
Lemma J_todo_cons todo S st p : J todo S st -> J (p :: todo) S st.
Proof. intros HJ q. destruct (HJ q) as [H|[H1 H2]]; [left; exact H | right; split; [unfold memz in *; cbn [existsb]; rewrite H1; apply orb_true_r | exact H2]]. Qed.
Lemma J_schedule todo S st p v : J todo S st -> src_value_ok p v = true -> (forall q, computed_prop q = true -> In q S) ->
  J (p :: todo) S (sset st p v).
Proof.
  intros HJ Hv HS q. destruct (Z.eq_dec q p) as [->|Hne].
  - rewrite sget_sset_same. unfold src_value_ok in Hv. apply orb_true_iff in Hv as [Hv|Hv]; [|left; exact Hv].
    right. split; [unfold memz; cbn [existsb]; rewrite Z.eqb_refl; reflexivity | apply HS, Hv].
  - rewrite sget_sset_other by exact Hne. apply J_todo_cons, HJ.
Qed.

Section Phase.
  Variable S : list Z.
  Hypothesis HS : forall q, computed_prop q = true -> In q S.

  Lemma apply_anims_J t iv : forall l st todo,
    forallb (fun s => src_value_ok (a_prop s) (a_val s)) l = true -> J todo S st ->
    J (snd (apply_anims t iv l st todo)) S (fst (apply_anims t iv l st todo)).
  Proof.
    induction l as [|s l IH]; intros st todo Hl HJ; [exact HJ|]. cbn [forallb] in Hl. apply andb_true_iff in Hl as [H1 H2].
    cbn [apply_anims]. destruct (active_at t _); [|apply IH; assumption].
    apply IH; [exact H2|]. apply J_schedule; assumption.
  Qed.
  Lemma apply_specified_J : forall l st todo,
    forallb (fun kv => src_value_ok (fst kv) (snd kv)) l = true -> J todo S st ->
    J (snd (apply_specified l st todo)) S (fst (apply_specified l st todo)).
  Proof.
    induction l as [|[p v] l IH]; intros st todo Hl HJ; [exact HJ|]. cbn [forallb fst snd] in Hl. apply andb_true_iff in Hl as [H1 H2].
    cbn [apply_specified]. destruct (shas st p); [apply IH; assumption|].
    apply IH; [exact H2|]. apply J_schedule; assumption.
  Qed.
  Lemma inherit_prop_J k pk pst todo st p : Uok pst -> J todo S st -> J todo S (inherit_prop k pk pst st p).
  Proof.
    intros Hp HJ. unfold inherit_prop.
    destruct (p =? p_FontSize).
    { destruct (shas st p); [exact HJ|]. pose proof (Hp p) as Hpv. destruct (sget pst p) as [[]|]; try exact HJ.
      apply J_sset; [exact HJ|]. cbn [okv value_units_ok] in Hpv. destruct (match k with KRtc => true | KRt => negb (kind_eqb pk KRtc) | _ => false end); exact Hpv. }
    destruct (p =? p_TextDecoration).
    { destruct (sget pst p) as [[]|]; try exact HJ. destruct (sget st p) as [[]|]; try exact HJ; apply J_sset; try exact HJ; reflexivity. }
    destruct (p =? p_WritingMode).
    { (* the writing mode copied from the parent is one of the parent's (already root relative) values *)
      pose proof (Hp p) as Hpv. destruct (sget pst p) as [v|]; [|exact HJ]. apply J_sset; assumption. }
    destruct (is_inherited p && negb (shas st p)); [|exact HJ].
    pose proof (Hp p) as Hpv. destruct (sget pst p) as [v|]; [|exact HJ]. apply J_sset; assumption.
  Qed.
  Lemma apply_inherit_J k pk pst todo : Uok pst -> forall keys st, J todo S st -> J todo S (apply_inherit k pk pst keys st).
  Proof. intros Hp. induction keys as [|p keys IH]; intros st HJ; [exact HJ|]. cbn [apply_inherit]. apply IH, inherit_prop_J; assumption. Qed.

  Lemma initial_values_ok : forallb (fun kv => src_value_ok (fst kv) (snd kv)) initial_values = true.
  Proof. vm_compute. reflexivity. Qed.
  Lemma sget_forallb (f : Z -> value -> bool) : forall (m : smap) p v, forallb (fun kv => f (fst kv) (snd kv)) m = true -> sget m p = Some v -> f p v = true.
  Proof.
    induction m as [|[k w] m IH]; intros p v H Hg; [discriminate|]. cbn [forallb fst snd] in H. apply andb_true_iff in H as [H1 H2].
    cbn [sget] in Hg. destruct (k =? p) eqn:E; [apply Z.eqb_eq in E; subst k; injection Hg as <-; exact H1 | apply (IH _ _ H2 Hg)].
  Qed.
  Lemma apply_initial_J d : forallb (fun kv => src_value_ok (fst kv) (snd kv)) (d_initials d) = true ->
    forall props st todo, J todo S st -> J (snd (apply_initial d props st todo)) S (fst (apply_initial d props st todo)).
  Proof.
    intros Hd. induction props as [|p props IH]; intros st todo HJ; [exact HJ|]. cbn [apply_initial].
    destruct (shas st p) eqn:Es; [apply IH, HJ|].
    destruct (sget (d_initials d) p) as [v|] eqn:Ei.
    { apply IH. apply J_schedule; [exact HJ | apply (sget_forallb src_value_ok _ _ _ Hd Ei) | exact HS]. }
    destruct (p =? p_Position); [apply IH, J_todo_cons, HJ|].
    destruct (sget initial_values p) as [v|] eqn:Eiv; [|apply IH, J_todo_cons, HJ].
    apply IH. apply J_schedule; [exact HJ | apply (sget_forallb src_value_ok _ _ _ initial_values_ok Eiv) | exact HS].
  Qed.
End Phase.

(* ---- lengths --------------------------------------------------------------------------------------------------------- *)
Lemma compute_length_rr src pct em c px l : compute_length src pct em c px = Ok l ->
  olen_ok pct = true -> olen_ok em = true -> olen_ok c = true -> olen_ok px = true -> root_relative l = true.
Proof.
  unfold compute_length. intros H H1 H2 H3 H4.
  destruct (lu src) eqn:Eu;
    try (match type of H with match ?o with _ => _ end = _ => destruct o as [r|]; [|discriminate] end; injection H as <-;
         unfold root_relative; cbn [lu]; assumption);
    injection H as <-; unfold root_relative; rewrite Eu; reflexivity.
Qed.
Lemma get_len_ok st p : okv (sget st p) = true -> olen_ok (get_len st p) = true.
Proof. unfold get_len. destruct (sget st p) as [[]|]; try reflexivity. exact (fun H => H). Qed.
Lemma font_relative_rr d st l l' : font_relative d st l = Ok l' -> okv (sget st p_FontSize) = true -> root_relative l' = true.
Proof.
  unfold font_relative. intros H Hf. apply (compute_length_rr _ _ _ _ _ _ H); try reflexivity; apply get_len_ok, Hf.
Qed.
Definition shadow_ok (s : len * len * option len * option Z) : bool := let '(x, y, b, _) := s in root_relative x && root_relative y && olen_ok b.
Lemma compute_shadows_rr d st : okv (sget st p_FontSize) = true -> forall ss ss', compute_shadows d st ss = Ok ss' -> forallb shadow_ok ss' = true.
Proof.
  intros Hf. induction ss as [|[[[x y] blur] col] ss IH]; intros ss' H; cbn [compute_shadows] in H; [injection H as <-; reflexivity|].
  destruct (font_relative d st x) as [x'|] eqn:Ex; [|discriminate]. cbn [bind] in H.
  destruct (font_relative d st y) as [y'|] eqn:Ey; [|discriminate]. cbn [bind] in H.
  assert (Hb : forall b', match blur with None => Ok None | Some b => bind (font_relative d st b) (fun b' => Ok (Some b')) end = Ok b' -> olen_ok b' = true).
  { intros b' Hb. destruct blur as [b|]; [|injection Hb as <-; reflexivity].
    destruct (font_relative d st b) as [b1|] eqn:Eb; [|discriminate]. cbn [bind] in Hb. injection Hb as <-. cbn [olen_ok]. apply (font_relative_rr _ _ _ _ Eb Hf). }
  destruct (match blur with None => Ok None | Some b => _ end) as [b'|] eqn:Ebl; [|discriminate]. cbn [bind] in H.
  destruct (compute_shadows d st ss) as [rest|] eqn:Er; [|discriminate]. cbn [bind] in H. injection H as <-.
  cbn [forallb shadow_ok]. rewrite (font_relative_rr _ _ _ _ Ex Hf), (font_relative_rr _ _ _ _ Ey Hf), (Hb b' eq_refl), (IH rest eq_refl). reflexivity.
Qed.

(* ---- one compute step ------------------------------------------------------------------------------------------------- *)
Definition par_ok (par : option (kind * smap)) : Prop := match par with Some (_, pst) => Uok pst | None => True end.
(* the references of the own style map a property is computed against *)
Definition refs (p : Z) : list Z :=
  if p =? p_FontSize then [] else if p =? p_Origin then [] else if p =? p_TextEmphasis then []
  else if p =? p_Extent then [p_FontSize] else if p =? p_Position then [p_Extent; p_Origin]
  else if p =? p_Padding then [p_FontSize; p_Extent] else [p_FontSize].

Ltac simpl_eqb H :=
  repeat match type of H with context [?a =? ?b] =>
    let v := eval vm_compute in (a =? b) in change (a =? b) with v in H end; cbv beta iota in H.
Ltac crush H :=
  repeat match type of H with
         | (if ?c then _ else _) = _ => destruct c eqn:?
         | match ?x with _ => _ end = _ => destruct x eqn:?
         | bind ?x _ = _ => destruct x eqn:?; cbn [bind] in H
         | Err _ = Ok _ => discriminate
         | Ok _ = Ok _ => injection H as <-
         end.
Ltac rr :=
  repeat match goal with
         | H : compute_length _ _ _ _ _ = Ok ?l |- _ =>
             let R := fresh "R" in
             assert (R : root_relative l = true)
               by (apply (compute_length_rr _ _ _ _ _ _ H); try reflexivity; try assumption; try (apply get_len_ok; assumption));
             clear H
         | H : font_relative _ _ _ = Ok ?l |- _ =>
             let R := fresh "R" in assert (R : root_relative l = true) by (apply (font_relative_rr _ _ _ _ H); assumption); clear H
         end.

Ltac fin :=
  cbn [okv value_units_ok olen_ok];
  repeat match goal with |- context [if ?c then _ else _] => destruct c end;
  unfold root_relative in *; cbn [lu] in *;
  repeat match goal with R : match ?u with _ => _ end = true |- _ => rewrite R; clear R end; reflexivity.

Lemma ordered_cases p : In p ordered_style_props ->
  p = p_FontSize \/ p = p_Disparity \/ p = p_Extent \/ p = p_Origin \/ p = p_Position \/ p = p_LineHeight \/ p = p_LinePadding \/
  p = p_RubyReserve \/ p = p_TextOutline \/ p = p_TextShadow \/ p = p_TextEmphasis \/ p = p_Padding.
Proof. cbn. intros H. repeat (destruct H as [H|H]; [subst p; tauto|]). destruct H. Qed.

Lemma compute_prop_ok d par st p st' : compute_prop d par st p = Ok st' -> In p ordered_style_props -> par_ok par ->
  (forall q, In q (refs p) -> okv (sget st q) = true) ->
  okv (sget st' p) = true /\ (p = p_Position -> okv (sget st' p_Origin) = true).
Proof.
  intros H Hin Hpar Hrefs. apply ordered_cases in Hin.
  assert (HF : In p_FontSize (refs p) -> okv (sget st p_FontSize) = true) by (intros X; apply Hrefs, X).
  assert (HE : In p_Extent (refs p) -> okv (sget st p_Extent) = true) by (intros X; apply Hrefs, X).
  assert (HO : In p_Origin (refs p) -> okv (sget st p_Origin) = true) by (intros X; apply Hrefs, X).
  clear Hrefs.
  repeat (destruct Hin as [Hin|Hin]); subst p; unfold compute_prop in H; simpl_eqb H.
  - (* font size *)
    split; [|discriminate].
    assert (Hpv : olen_ok (match par with Some (_, pst) => get_len pst p_FontSize | None => None end) = true).
    { destruct par as [[pk pst]|]; [apply get_len_ok, Hpar | reflexivity]. }
    destruct (match par with Some (_, pst) => get_len pst p_FontSize | None => None end) as [pl|];
      crush H; rr; rewrite sget_sset_same; assumption.
  - (* disparity *)
    split; [|discriminate]. specialize (HF (or_introl eq_refl)). crush H. rr. rewrite sget_sset_same. assumption.
  - (* extent *)
    split; [|discriminate]. specialize (HF (or_introl eq_refl)). crush H. rr. rewrite sget_sset_same. cbn [okv value_units_ok]. rewrite R, R0. reflexivity.
  - (* origin *)
    split; [|discriminate]. crush H. rr. rewrite sget_sset_same. cbn [okv value_units_ok]. rewrite R, R0. reflexivity.
  - (* position *)
    specialize (HE (or_introl eq_refl)). specialize (HO (or_intror (or_introl eq_refl))).
    assert (Hne : p_Origin <> p_Position) by discriminate.
    crush H.
    + (* specified: offsets from the edges *)
      rr. split; [rewrite sget_sset_same | intros _; rewrite sget_sset_other by exact Hne; rewrite sget_sset_same]; fin.
    + (* not specified: the computed origin *)
      split; [rewrite sget_sset_same; exact HO | intros _; rewrite sget_sset_other by exact Hne].
      match goal with E : sget st p_Origin = Some _ |- _ => rewrite E end. exact HO.
  - (* line height *)
    split; [|discriminate]. specialize (HF (or_introl eq_refl)). crush H.
    + match goal with E : sget st p_LineHeight = Some _ |- _ => rewrite E end. reflexivity.
    + rr. rewrite sget_sset_same. assumption.
  - (* line padding *)
    split; [|discriminate]. specialize (HF (or_introl eq_refl)). crush H. rr. rewrite sget_sset_same. assumption.
  - (* ruby reserve *)
    split; [|discriminate]. specialize (HF (or_introl eq_refl)). crush H.
    + match goal with E : sget st p_RubyReserve = Some _ |- _ => rewrite E end. reflexivity.
    + rr. rewrite sget_sset_same. assumption.
    + rewrite sget_sset_same. cbn [okv value_units_ok olen_ok]. apply get_len_ok in HF.
      match goal with E : get_len st p_FontSize = Some _ |- _ => rewrite E in HF end. exact HF.
  - (* text outline *)
    split; [|discriminate]. specialize (HF (or_introl eq_refl)). crush H.
    + match goal with E : sget st p_TextOutline = Some _ |- _ => rewrite E end. reflexivity.
    + rr. rewrite sget_sset_same. assumption.
  - (* text shadow *)
    split; [|discriminate]. specialize (HF (or_introl eq_refl)). crush H.
    + match goal with E : sget st p_TextShadow = Some _ |- _ => rewrite E end. reflexivity.
    + rewrite sget_sset_same. cbn [okv value_units_ok].
      match goal with E : compute_shadows _ _ _ = Ok _ |- _ => exact (compute_shadows_rr _ _ HF _ _ E) end.
  - (* text emphasis: no length *)
    split; [|discriminate]. crush H.
    + match goal with E : sget st p_TextEmphasis = Some _ |- _ => rewrite E end. reflexivity.
    + rewrite sget_sset_same. reflexivity.
  - (* padding *)
    split; [|discriminate]. specialize (HF (or_introl eq_refl)). specialize (HE (or_intror (or_introl eq_refl))).
    crush H.
    cbn [okv value_units_ok] in HE; apply andb_true_iff in HE as [HE1 HE2].
    assert (Hax : forall b : bool, olen_ok (Some (if b then w else h)) = true /\ olen_ok (Some (if b then h else w)) = true /\
                                  olen_ok (Some (if b then c_w d else c_h d)) = true /\ olen_ok (Some (if b then c_h d else c_w d)) = true /\
                                  olen_ok (Some (if b then px_w d else px_h d)) = true /\ olen_ok (Some (if b then px_h d else px_w d)) = true).
    { intros []; repeat split; try assumption; reflexivity. }
    destruct (Hax (is_vertical (sget st p_WritingMode))) as (A1 & A2 & A3 & A4 & A5 & A6).
    rr. rewrite sget_sset_same. cbn [okv value_units_ok]. rewrite R, R0, R1, R2. reflexivity.
Qed.

(* ---- the ordered computation --------------------------------------------------------------------------------------- *)
Fixpoint order_ok (l : list Z) : bool :=
  match l with
  | [] => true
  | p :: rest => memz p ordered_style_props && negb (memz p rest) && forallb (fun q => negb (memz q (p :: rest))) (refs p) &&
                 negb (memz p_Origin rest && (p =? p_Position)) && order_ok rest
  end.

Lemma compute_styles_J d par todo : par_ok par -> forall l st st', order_ok l = true -> J todo l st ->
  compute_styles d par todo l st = Ok st' -> Uok st'.
Proof.
  intros Hpar. induction l as [|p S IH]; intros st st' Ho HJ H; cbn [compute_styles] in H.
  - injection H as <-. intros q. destruct (HJ q) as [G|[_ []]]. exact G.
  - cbn [order_ok] in Ho. repeat (apply andb_true_iff in Ho as [Ho ?]).
    rename H0 into HoS, H1 into Hpos, H2 into Hrefs, H3 into HpS. apply memz_in in Ho. apply negb_true_iff in HpS.
    assert (HnS : ~ In p S) by (intros X; apply memz_in in X; congruence).
    change (existsb (Z.eqb p) todo) with (memz p todo) in H.
    destruct (memz p todo) eqn:Et.
    + destruct (compute_prop d par st p) as [st1|] eqn:E; [|discriminate]. cbn [bind] in H.
      apply (IH st1 st' HoS); [|exact H]. clear H IH.
      assert (Hr : forall q, In q (refs p) -> okv (sget st q) = true).
      { intros q Hq. rewrite forallb_forall in Hrefs. specialize (Hrefs q Hq). apply negb_true_iff in Hrefs.
        destruct (HJ q) as [G|[_ G]]; [exact G|]. apply memz_in in G. congruence. }
      destruct (compute_prop_ok d par st p st1 E Ho Hpar Hr) as [G1 G2].
      intros q. destruct (Z.eq_dec q p) as [->|Hne]; [left; exact G1|].
      destruct (Z.eq_dec p p_Position) as [->|Hnp].
      * destruct (Z.eq_dec q p_Origin) as [->|Hno]; [left; apply G2; reflexivity|].
        rewrite (compute_prop_other d par st p_Position st1 q E Hne Hno).
        destruct (HJ q) as [G|[G3 [G4|G4]]]; [left; exact G | congruence | right; split; assumption].
      * rewrite (compute_prop_other_np d par st p st1 q E Hnp Hne).
        destruct (HJ q) as [G|[G3 [G4|G4]]]; [left; exact G | congruence | right; split; assumption].
    + apply (IH st st' HoS); [|exact H]. intros q. destruct (HJ q) as [G|[G3 [G4|G4]]]; [left; exact G | congruence | right; split; assumption].
Qed.
Lemma ordered_order_ok : order_ok ordered_style_props = true.
Proof. vm_compute. reflexivity. Qed.

(* ---- the whole style phase ------------------------------------------------------------------------------------------------- *)
Definition attrs_values_ok (a : attrs) : bool :=
  forallb (fun kv => src_value_ok (fst kv) (snd kv)) (e_styles a) && forallb (fun s => src_value_ok (a_prop s) (a_val s)) (e_anims a).

Theorem style_phase_units d t a par iv st :
  forallb (fun kv => src_value_ok (fst kv) (snd kv)) (d_initials d) = true -> attrs_values_ok a = true -> par_ok par ->
  style_phase d t a par iv = Ok st -> Uok st.
Proof.
  intros Hd Ha Hpar H. unfold attrs_values_ok in Ha. apply andb_true_iff in Ha as [Hs Han].
  assert (HS : forall q, computed_prop q = true -> In q ordered_style_props) by (intros q Hq; apply memz_in, Hq).
  unfold style_phase in H.
  assert (J0 : J [] ordered_style_props []) by (intros q; left; reflexivity).
  pose proof (apply_anims_J _ HS t iv (e_anims a) [] [] Han J0) as J1.
  destruct (apply_anims t iv (e_anims a) [] []) as [st0 todo0]. cbn [fst snd] in J1.
  pose proof (apply_specified_J _ HS (e_styles a) st0 todo0 Hs J1) as J2.
  destruct (apply_specified (e_styles a) st0 todo0) as [st1 todo1]. cbn [fst snd] in J2.
  match type of H with (let '(st, todo) := ?X in _) = _ => assert (J3 : J (snd X) ordered_style_props (fst X)) end.
  { destruct (e_kind a); try exact J2. destruct (negb (shas (e_styles a) p_Direction)); [|exact J2].
    destruct (sget (e_styles a) p_WritingMode) as [[w| | | | | | | | | | | | | |]|]; try exact J2.
    destruct (w =? e_WritingModeType_lrtb); [cbn [fst snd]; apply J_todo_cons, J_sset; [exact J2 | reflexivity]|].
    destruct (w =? e_WritingModeType_rltb); [cbn [fst snd]; apply J_todo_cons, J_sset; [exact J2 | reflexivity]|]. exact J2. }
  match type of H with (let '(st, todo) := ?X in _) = _ => destruct X as [st2 todo2] end. cbn [fst snd] in J3.
  assert (J4 : J todo2 ordered_style_props (match e_kind a, par with
                                              | KBr, _ | KText, _ | KRegion, _ => st2
                                              | _, Some (pk, pst) => apply_inherit (e_kind a) pk pst (skeys pst) st2
                                              | _, None => st2
                                              end)).
  { destruct par as [[pk pst]|]; [|destruct (e_kind a); exact J3].
    destruct (e_kind a); try exact J3; apply apply_inherit_J; assumption. }
  revert H J4. generalize (match e_kind a, par with
                           | KBr, _ | KText, _ | KRegion, _ => st2
                           | _, Some (pk, pst) => apply_inherit (e_kind a) pk pst (skeys pst) st2
                           | _, None => st2
                           end). intros st3 H J4.
  assert (J5 : J (snd (if is_leaf_kind (e_kind a) then (st3, todo2) else apply_initial d all_props st3 todo2)) ordered_style_props
                 (fst (if is_leaf_kind (e_kind a) then (st3, todo2) else apply_initial d all_props st3 todo2))).
  { destruct (is_leaf_kind (e_kind a)); [exact J4 | apply apply_initial_J; assumption]. }
  destruct (if is_leaf_kind (e_kind a) then (st3, todo2) else apply_initial d all_props st3 todo2) as [st4 todo4]. cbn [fst snd] in J5.
  apply (compute_styles_J d par todo4 Hpar _ _ _ ordered_order_ok J5 H).
Qed.

(* ---- keys of a style map are unique, so the map read by key is the list of its entries ----------------------------------- *)
Lemma skeys_sset m p v : skeys (sset m p v) = if shas m p then skeys m else skeys m ++ [p].
Proof.
  unfold shas, skeys. induction m as [|[k w] m IH]; cbn [sset sget map fst app]; [reflexivity|].
  destruct (k =? p) eqn:E; cbn [map fst]; [reflexivity|]. rewrite IH. destruct (sget m p); reflexivity.
Qed.
Lemma shas_in m p : shas m p = true <-> In p (skeys m).
Proof.
  unfold shas, skeys. induction m as [|[k w] m IH]; cbn [sget map fst In]; [split; [discriminate | intros []]|].
  destruct (k =? p) eqn:E; [apply Z.eqb_eq in E; split; auto|]. rewrite IH. split; [auto | intros [X|X]; [apply Z.eqb_neq in E; congruence | exact X]].
Qed.
Lemma nodup_sset m p v : NoDup (skeys m) -> NoDup (skeys (sset m p v)).
Proof.
  intros H. rewrite skeys_sset. destruct (shas m p) eqn:E; [exact H|].
  assert (G : forall l, NoDup l -> ~ In p l -> NoDup (l ++ [p])).
  { induction l as [|x l IH]; intros Hl Hn; [constructor; [intros [] | constructor]|]. inversion Hl; subst. cbn [app]. constructor.
    - intros X. apply in_app_or in X as [X|[X|[]]]; [contradiction | subst; apply Hn; left; reflexivity].
    - apply IH; [assumption | intros X; apply Hn; right; exact X]. }
  apply G; [exact H|]. intros X. apply shas_in in X. congruence.
Qed.

Lemma compute_prop_nodup d par st p st' : compute_prop d par st p = Ok st' -> NoDup (skeys st) -> NoDup (skeys st').
Proof. intros H Hn. unfold compute_prop in H. crush H; repeat apply nodup_sset; exact Hn. Qed.
Lemma compute_styles_nodup d par todo : forall order st st', compute_styles d par todo order st = Ok st' -> NoDup (skeys st) -> NoDup (skeys st').
Proof.
  induction order as [|p order IH]; intros st st' H Hn; cbn [compute_styles] in H; [injection H as <-; exact Hn|].
  destruct (existsb (Z.eqb p) todo); [|apply (IH _ _ H Hn)].
  destruct (compute_prop d par st p) as [st1|] eqn:E; [|discriminate]. cbn [bind] in H.
  apply (IH _ _ H). apply (compute_prop_nodup _ _ _ _ _ E Hn).
Qed.
Lemma apply_anims_nodup t iv : forall l st todo, NoDup (skeys st) -> NoDup (skeys (fst (apply_anims t iv l st todo))).
Proof.
  induction l as [|s l IH]; intros st todo Hn; [exact Hn|]. cbn [apply_anims]. destruct (active_at t _); [apply IH, nodup_sset, Hn | apply IH, Hn].
Qed.
Lemma apply_specified_nodup : forall l st todo, NoDup (skeys st) -> NoDup (skeys (fst (apply_specified l st todo))).
Proof.
  induction l as [|[p v] l IH]; intros st todo Hn; [exact Hn|]. cbn [apply_specified]. destruct (shas st p); [apply IH, Hn | apply IH, nodup_sset, Hn].
Qed.
Lemma inherit_prop_nodup k pk pst st p : NoDup (skeys st) -> NoDup (skeys (inherit_prop k pk pst st p)).
Proof.
  intros Hn. unfold inherit_prop.
  repeat match goal with
         | |- context [if ?c then _ else _] => destruct c
         | |- context [match ?x with _ => _ end] => destruct x
         end; try exact Hn; apply nodup_sset, Hn.
Qed.
Lemma apply_inherit_nodup k pk pst : forall keys st, NoDup (skeys st) -> NoDup (skeys (apply_inherit k pk pst keys st)).
Proof. induction keys as [|p keys IH]; intros st Hn; [exact Hn|]. cbn [apply_inherit]. apply IH, inherit_prop_nodup, Hn. Qed.
Lemma apply_initial_nodup d : forall props st todo, NoDup (skeys st) -> NoDup (skeys (fst (apply_initial d props st todo))).
Proof.
  induction props as [|p props IH]; intros st todo Hn; [exact Hn|]. cbn [apply_initial].
  destruct (shas st p); [apply IH, Hn|]. destruct (sget (d_initials d) p); [apply IH, nodup_sset, Hn|].
  destruct (p =? p_Position); [apply IH, Hn|]. destruct (sget initial_values p); [apply IH, nodup_sset, Hn | apply IH, Hn].
Qed.
Lemma style_phase_nodup d t a par iv st : style_phase d t a par iv = Ok st -> NoDup (skeys st).
Proof.
  unfold style_phase. intros H.
  pose proof (apply_anims_nodup t iv (e_anims a) [] [] (NoDup_nil Z)) as N0.
  destruct (apply_anims t iv (e_anims a) [] []) as [st0 todo0]. cbn [fst] in N0.
  pose proof (apply_specified_nodup (e_styles a) st0 todo0 N0) as N1.
  destruct (apply_specified (e_styles a) st0 todo0) as [st1 todo1]. cbn [fst] in N1.
  match type of H with (let '(st, todo) := ?X in _) = _ => assert (N2 : NoDup (skeys (fst X))) end.
  { destruct (e_kind a); try exact N1. destruct (negb (shas (e_styles a) p_Direction)); [|exact N1].
    destruct (sget (e_styles a) p_WritingMode) as [[w| | | | | | | | | | | | | |]|]; try exact N1.
    destruct (w =? e_WritingModeType_lrtb); [apply nodup_sset, N1|]. destruct (w =? e_WritingModeType_rltb); [apply nodup_sset, N1 | exact N1]. }
  match type of H with (let '(st, todo) := ?X in _) = _ => destruct X as [st2 todo2] end. cbn [fst] in N2.
  assert (N3 : NoDup (skeys (match e_kind a, par with
                             | KBr, _ | KText, _ | KRegion, _ => st2
                             | _, Some (pk, pst) => apply_inherit (e_kind a) pk pst (skeys pst) st2
                             | _, None => st2
                             end))).
  { destruct par as [[pk pst]|]; [|destruct (e_kind a); exact N2]. destruct (e_kind a); try exact N2; apply apply_inherit_nodup, N2. }
  revert H N3. generalize (match e_kind a, par with
                           | KBr, _ | KText, _ | KRegion, _ => st2
                           | _, Some (pk, pst) => apply_inherit (e_kind a) pk pst (skeys pst) st2
                           | _, None => st2
                           end). intros st3 H N3.
  assert (N4 : NoDup (skeys (fst (if is_leaf_kind (e_kind a) then (st3, todo2) else apply_initial d all_props st3 todo2)))).
  { destruct (is_leaf_kind (e_kind a)); [exact N3 | apply apply_initial_nodup, N3]. }
  destruct (if is_leaf_kind (e_kind a) then (st3, todo2) else apply_initial d all_props st3 todo2) as [st4 todo4]. cbn [fst] in N4.
  apply (compute_styles_nodup _ _ _ _ _ _ H N4).
Qed.

Lemma sget_of_in : forall (m : smap) p v, NoDup (skeys m) -> In (p, v) m -> sget m p = Some v.
Proof.
  induction m as [|[k w] m IH]; intros p v Hn Hin; [destruct Hin|]. cbn [skeys map fst] in Hn. inversion Hn as [|? ? Hk Hm]; subst.
  cbn [sget]. destruct Hin as [E|Hin]; [injection E as -> ->; rewrite Z.eqb_refl; reflexivity|].
  destruct (k =? p) eqn:E; [|apply IH; assumption]. apply Z.eqb_eq in E. subst k. exfalso. apply Hk.
  change (In (fst (p, v)) (map fst m)). apply in_map, Hin.
Qed.

(* ---- clause 5 on the attributes M builds -------------------------------------------------------------------------------- *)
Definition units_a (a : attrs) : bool := forallb (fun kv => existsb (Z.eqb (fst kv)) [] || value_units_ok (snd kv)) (e_styles a).
Lemma units_out a k st : Uok st -> NoDup (skeys st) -> units_a (isd_attrs a (strip_inapplicable k st)) = true.
Proof.
  intros HU Hn. unfold units_a. cbn [isd_attrs e_styles existsb orb]. apply forallb_forall. intros [p v] Hin.
  unfold strip_inapplicable in Hin. apply filter_In in Hin as [Hin _]. cbn [snd]. pose proof (HU p) as G. rewrite (sget_of_in _ _ _ Hn Hin) in G. exact G.
Qed.

Definition src_vals (e : elem) : bool := forallb src_values_ok (all_elems e).
Lemma src_vals_node a cs : src_vals (Elem a cs) = attrs_values_ok a && forallb src_vals cs.
Proof. unfold src_vals. rewrite all_elems_cons. cbn [forallb]. rewrite forallb_flat_map. reflexivity. Qed.

Section Proc.
  Variables (d : doc) (t : Q) (sel : option text).
  Hypothesis Hd : forallb (fun kv => src_value_ok (fst kv) (snd kv)) (d_initials d) = true.
  Let pa_text : forall a tx, units_a (mkAttrs (e_kind a) (e_id a) (e_begin a) (e_end a) (e_region a) (e_styles a) (e_anims a) (e_preserve a) (e_lang a) tx) = units_a a.
  Proof. reflexivity. Qed.

  Lemma proc_units : forall e, src_vals e = true -> forall inh par pb pe r, par_ok par ->
    proc d t sel inh par pb pe e = Ok (Some r) -> allp units_a r = true.
  Proof.
    induction e as [a cs IH] using elem_ind2. intros Hsrc inh par pb pe r Hpar H.
    rewrite src_vals_node in Hsrc. apply andb_true_iff in Hsrc as [Ha Hcs].
    apply proc_inv in H as (st & children & assoc & iv & Hst & _ & Hl & Hf).
    pose proof (style_phase_units d t a par iv st Hd Ha Hpar Hst) as HU.
    apply (finish_element_allp units_a pa_text a st children r); [apply units_out; [exact HU | apply (style_phase_nodup _ _ _ _ _ _ Hst)] | | exact Hf].
    apply forallb_forall. intros x Hx. destruct (proc_list_in _ _ _ _ _ _ _ _ _ Hl x Hx) as (c & Hc & Hp).
    rewrite Forall_forall in IH. rewrite forallb_forall in Hcs. apply (IH c Hc (Hcs c Hc) _ (Some (e_kind a, st)) _ _ _ HU Hp).
  Qed.

  Lemma proc_region_units r o : attrs_values_ok (eattrs r) = true ->
    match d_body d with Some b => src_vals b | None => true end = true ->
    proc_region d t sel r = Ok (Some o) -> allp units_a o = true.
  Proof.
    intros Ha Hb H. apply proc_region_inv in H as (st & children & Hst & _ & Hch & Hf).
    pose proof (style_phase_units d t (eattrs r) None _ st Hd Ha I Hst) as HU.
    apply (finish_element_allp units_a pa_text (eattrs r) st children o); [apply units_out; [exact HU | apply (style_phase_nodup _ _ _ _ _ _ Hst)] | | exact Hf].
    destruct Hch as [->|(b & x & Eb & Hp & ->)]; [reflexivity|]. rewrite Eb in Hb. cbn [allp_list forallb]. rewrite andb_true_r.
    apply (proc_units b Hb _ (Some (KRegion, st)) _ _ _ HU Hp).
  Qed.
End Proc.

Theorem snapshot_units d t rs :
  doc_values_wf d = true -> isd d t = Ok rs -> nth 5 (shape_clauses [] false rs) false = true.
Proof.
  intros Hwf H. cbn [nth shape_clauses]. rewrite (every_allp _ units_a) by (intros [a cs]; reflexivity).
  unfold doc_values_wf in Hwf. apply andb_true_iff in Hwf as [Hwf Hbody]. apply andb_true_iff in Hwf as [Hini Hreg].
  apply forallb_forall. intros o Ho. destruct (isd_inv d t rs H o Ho) as (sel & r & Hr & Hp).
  apply (proc_region_units d t sel Hini r o); [| |exact Hp].
  - destruct Hr as [Hr| ->]; [|reflexivity]. rewrite forallb_forall in Hreg. apply (Hreg r Hr).
  - destruct (d_body d); [exact Hbody | reflexivity].
Qed.
