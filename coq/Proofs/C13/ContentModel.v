(* C13, clause 3: every snapshot respects the content model of doc/data_model.md (regions at the top, each holding at
   most one body; children of the kinds the parent's class accepts; the ruby and rtc child patterns), for every
   document whose source respects it (doc_content_wf) and every time. *)
From TT Require Import Model.Doc Gen.StyleTables Model.Isd Spec.IsdShape Proofs.Common.ElemInd.
From TT Require Import Proofs.C01.Lwsp Proofs.C13.Shape Proofs.C13.Inv.

(* children_ok as a function of the element's kind and the kinds of its children *)
Definition cok (k : kind) (ks : list kind) : bool :=
  match k with
  | KRegion => match ks with [] => true | [KBody] => true | _ => false end
  | KBody => forallb (fun k => kin k [KDiv]) ks
  | KDiv => forallb (fun k => kin k [KP; KDiv]) ks
  | KP => forallb (fun k => kin k [KSpan; KBr; KRuby]) ks
  | KSpan => forallb (fun k => kin k [KSpan; KBr; KText]) ks
  | KBr | KText => match ks with [] => true | _ => false end
  | KRuby => klist_eqb ks [KRb; KRt] || klist_eqb ks [KRb; KRp; KRt; KRp] || klist_eqb ks [KRbc; KRtc] || klist_eqb ks [KRbc; KRtc; KRtc]
  | KRb | KRt | KRp => forallb (fun k => kin k [KSpan]) ks
  | KRbc => forallb (fun k => kin k [KRb]) ks
  | KRtc => forallb (fun k => kin k [KRt]) ks ||
            match ks with
            | KRp :: rest => match rev rest with KRp :: mid => forallb (fun k => kin k [KRt]) mid | _ => false end
            | _ => false
            end
  end.
Lemma children_ok_cok e : children_ok e = cok (kind_of e) (kinds (echildren e)).
Proof. reflexivity. Qed.

Definition cm (e : elem) : bool := forallb children_ok (all_elems e).
Lemma cm_node a cs : cm (Elem a cs) = cok (e_kind a) (kinds cs) && forallb cm cs.
Proof. unfold cm. rewrite all_elems_cons. cbn [forallb]. rewrite forallb_flat_map. reflexivity. Qed.

(* kinds whose rule is "every child is one of ..." : the rule passes to any list made of some of the children *)
Definition forall_kind (k : kind) : bool :=
  match k with KBody | KDiv | KP | KSpan | KRb | KRt | KRp | KRbc => true | _ => false end.
Lemma cok_incl k ks ks' : forall_kind k = true -> (forall x, In x ks' -> In x ks) -> cok k ks = true -> cok k ks' = true.
Proof.
  intros Hk Hin H. destruct k; try discriminate; unfold cok in *; rewrite forallb_forall in *; intros x Hx; apply H, Hin, Hx.
Qed.
(* the others fix the list of kinds; none of them admits a text node or a span *)
Definition droppable (k : kind) : bool := match k with KText | KSpan => true | _ => false end.
Lemma forallb_rev {A} (p : A -> bool) l : forallb p (rev l) = forallb p l.
Proof.
  induction l as [|x l IH]; [reflexivity|]. cbn [rev forallb]. rewrite forallb_app, IH. cbn [forallb]. rewrite andb_true_r. apply andb_comm.
Qed.
Lemma cok_nodrop k ks : forall_kind k = false -> cok k ks = true -> forallb (fun x => negb (droppable x)) ks = true.
Proof.
  intros Hk H. destruct k; try discriminate; unfold cok in H.
  - destruct ks as [|[] [|? ?]]; try discriminate; reflexivity.
  - destruct ks; [reflexivity | discriminate].
  - destruct ks; [reflexivity | discriminate].
  - repeat (apply orb_true_iff in H as [H|H]);
      repeat (destruct ks as [|[] ks]; cbn [klist_eqb kind_eqb andb] in H; try discriminate); reflexivity.
  - apply orb_true_iff in H as [H|H].
    + rewrite forallb_forall in *. intros x Hx. specialize (H x Hx). destruct x; try discriminate; reflexivity.
    + destruct ks as [|[] rest]; try discriminate. cbn [forallb droppable negb andb].
      rewrite <- forallb_rev. destruct (rev rest) as [|[] mid]; try discriminate. cbn [forallb droppable negb andb].
      rewrite forallb_forall in *. intros x Hx. specialize (H x Hx). destruct x; try discriminate; reflexivity.
Qed.

(* ---- writing texts back changes no kind -------------------------------------------------------------------------- *)
Lemma kinds_cons c cs : kinds (c :: cs) = kind_of c :: kinds cs.
Proof. reflexivity. Qed.
Lemma assign_texts_kind_cm : forall e ts, kind_of (fst (assign_texts e ts)) = kind_of e /\ cm (fst (assign_texts e ts)) = cm e.
Proof.
  induction e as [a cs IH] using elem_ind2. intros ts. rewrite assign_node.
  assert (Hl : forall ts, kinds (fst (assign_list cs ts)) = kinds cs /\ forallb cm (fst (assign_list cs ts)) = forallb cm cs).
  { clear ts. induction cs as [|c cs IHcs]; intros ts; [split; reflexivity|]. inversion IH as [|? ? Hc Hcs]; subst.
    cbn [assign_list]. specialize (Hc ts). destruct (assign_texts c ts) as [c' ts1]. cbn [fst] in Hc.
    specialize (IHcs Hcs ts1). destruct (assign_list cs ts1) as [l'' ts2]. cbn [fst] in *.
    destruct Hc as [Hk Hm]. destruct IHcs as [IH1 IH2]. rewrite !kinds_cons. cbn [forallb]. rewrite Hk, Hm, IH1, IH2. split; reflexivity. }
  destruct (e_kind a) eqn:Ek; cbn [skips_text_list fst]; try (split; reflexivity);
    try (specialize (Hl ts); destruct (assign_list cs ts) as [cs' ts']; cbn [fst] in *; destruct Hl as [H1 H2];
         split; [reflexivity | rewrite !cm_node, H1, H2; reflexivity]).
  destruct (is_nonempty (e_text a)); cbn [fst]; split; try reflexivity.
  - unfold kind_of. cbn [eattrs e_kind]. symmetry. exact Ek.
  - rewrite !cm_node. cbn [e_kind]. rewrite Ek. reflexivity.
Qed.
Lemma assign_list_kinds_cm : forall cs ts,
  kinds (fst (assign_list cs ts)) = kinds cs /\ forallb cm (fst (assign_list cs ts)) = forallb cm cs.
Proof.
  induction cs as [|c cs IHcs]; intros ts; [split; reflexivity|]. cbn [assign_list].
  pose proof (assign_texts_kind_cm c ts) as Hc. destruct (assign_texts c ts) as [c' ts1]. cbn [fst] in Hc.
  specialize (IHcs ts1). destruct (assign_list cs ts1) as [l'' ts2]. cbn [fst] in *.
  destruct Hc as [Hk Hm]. destruct IHcs as [IH1 IH2]. rewrite !kinds_cons. cbn [forallb]. rewrite Hk, Hm, IH1, IH2. split; reflexivity.
Qed.

(* ---- pruning removes text nodes and spans only ------------------------------------------------------------------------ *)
Lemma prune_empty_kind e : kind_of (prune_empty e) = kind_of e.
Proof. destruct e. reflexivity. Qed.
Lemma prune_list_in : forall cs x, In x (prune_list cs) -> exists c, In c cs /\ x = prune_empty c.
Proof.
  induction cs as [|c cs IH]; intros x Hx; [destruct Hx|]. rewrite prune_list_cons in Hx. cbv zeta in Hx.
  assert (G : In x (prune_list cs) -> exists c0, In c0 (c :: cs) /\ x = prune_empty c0).
  { intros H. destruct (IH x H) as (c0 & H0 & H1). exists c0. split; [right; exact H0 | exact H1]. }
  match type of Hx with In x (if ?b then _ else _) => destruct b end; [apply G, Hx|].
  destruct Hx as [<-|Hx]; [|apply G, Hx]. exists c. split; [left|]; reflexivity.
Qed.
Lemma prune_list_nodrop : forall cs, forallb (fun x => negb (droppable x)) (kinds cs) = true -> prune_list cs = map prune_empty cs.
Proof.
  induction cs as [|c cs IH]; intros H; [reflexivity|]. rewrite kinds_cons in H. cbn [forallb] in H.
  apply andb_true_iff in H as [H1 H2]. rewrite prune_list_cons. cbv zeta. cbn [map]. rewrite (IH H2).
  change (e_kind (eattrs (prune_empty c))) with (kind_of (prune_empty c)). rewrite prune_empty_kind.
  destruct (kind_of c); try reflexivity; discriminate.
Qed.
Lemma kinds_map_prune cs : kinds (map prune_empty cs) = kinds cs.
Proof. induction cs as [|c cs IH]; [reflexivity|]. cbn [map]. rewrite !kinds_cons, prune_empty_kind, IH. reflexivity. Qed.

Lemma cok_prune k cs : cok k (kinds cs) = true -> cok k (kinds (prune_list cs)) = true.
Proof.
  intros H. destruct (forall_kind k) eqn:Ek.
  - apply (cok_incl k (kinds cs)); [exact Ek | | exact H]. intros x Hx. unfold kinds in *. apply in_map_iff in Hx as (y & <- & Hy).
    apply prune_list_in in Hy as (c & Hc & ->). rewrite prune_empty_kind. apply in_map. exact Hc.
  - rewrite (prune_list_nodrop cs (cok_nodrop k _ Ek H)), kinds_map_prune. exact H.
Qed.

Lemma prune_cm : forall e, cm e = true -> cm (prune_empty e) = true.
Proof.
  induction e as [a cs IH] using elem_ind2. rewrite prune_empty_node, !cm_node. intros H.
  apply andb_true_iff in H as [Hk Hcs]. rewrite (cok_prune _ _ Hk). cbn [andb].
  apply forallb_forall. intros x Hx. apply prune_list_in in Hx as (c & Hc & ->).
  rewrite Forall_forall in IH. apply (IH c Hc). rewrite forallb_forall in Hcs. apply Hcs, Hc.
Qed.
Lemma prune_list_cm cs : forallb cm cs = true -> forallb cm (prune_list cs) = true.
Proof.
  intros H. apply forallb_forall. intros x Hx. apply prune_list_in in Hx as (c & Hc & ->).
  apply prune_cm. rewrite forallb_forall in H. apply H, Hc.
Qed.

(* ---- the white-space pass over the children of an element ---------------------------------------------------------- *)
Lemma lwsp_children_cm k a cs :
  cok k (kinds cs) = true -> forallb cm cs = true ->
  cok k (kinds (lwsp_children a cs)) = true /\ forallb cm (lwsp_children a cs) = true.
Proof.
  intros Hk Hc. unfold lwsp_children. rewrite prune_empty_node. cbn [echildren]. rewrite assign_children_list.
  destruct (assign_list_kinds_cm cs (process_lwsp (collect_children a cs))) as [H1 H2].
  split; [apply cok_prune; rewrite H1; exact Hk | apply prune_list_cm; rewrite H2; exact Hc].
Qed.

Lemma fin_children_cm a st children :
  cok (e_kind a) (kinds children) = true -> forallb cm children = true ->
  cok (e_kind a) (kinds (fin_children a st children)) = true /\ forallb cm (fin_children a st children) = true.
Proof.
  intros Hk Hc. unfold fin_children. destruct (lwsp_kind (e_kind a)); [|split; assumption].
  destruct children as [|c cs]; [split; assumption|]. apply lwsp_children_cm; assumption.
Qed.

(* ---- the patterns Ruby.push_children and Rtc.push_children insist on are those of the content model --------------- *)
Lemma kinds_eqb_klist a b : kinds_eqb a b = klist_eqb a b.
Proof. reflexivity. Qed.
Lemma ruby_ok_cok cs : ruby_children_ok cs = true -> cok KRuby (kinds cs) = true.
Proof. unfold ruby_children_ok, cok. change (kinds_of cs) with (kinds cs). rewrite !kinds_eqb_klist. exact (fun H => H). Qed.
Lemma rtc_ok_cok cs : rtc_children_ok cs = true -> cok KRtc (kinds cs) = true.
Proof.
  unfold rtc_children_ok, cok. change (kinds_of cs) with (kinds cs). generalize (kinds cs). intros ks H.
  assert (E : forall l, forallb (fun k => kind_eqb k KRt) l = forallb (fun k => kin k [KRt]) l).
  { induction l as [|k l IHl]; [reflexivity|]. cbn [forallb]. rewrite IHl. f_equal. destruct k; reflexivity. }
  rewrite E in H.
  destruct ((2 <? Z.of_nat (length ks)) && kind_eqb (hd KBody ks) KRp && kind_eqb (last ks KBody) KRp) eqn:Ec;
    [|rewrite H; reflexivity].
  apply andb_true_iff in Ec as [Ec El]. apply andb_true_iff in Ec as [Elen Eh].
  destruct ks as [|k0 rest]; [discriminate|]. cbn [hd] in Eh. destruct k0; try discriminate. cbn [tl] in H.
  destruct rest as [|k1 rest'] using rev_ind; [cbn in Elen; discriminate|]. clear IHrest' Elen.
  rewrite removelast_last in H.
  assert (Hl : last (KRp :: rest' ++ [k1]) KBody = k1).
  { change (KRp :: rest' ++ [k1]) with ((KRp :: rest') ++ [k1]). apply last_last. }
  rewrite Hl in El. destruct k1; try discriminate.
  apply orb_true_iff. right. rewrite rev_unit. exact (eq_trans (forallb_rev _ _) H).
Qed.

(* ---- snapshot generation --------------------------------------------------------------------------------------------- *)
Definition src_cm (e : elem) : bool := forallb src_children_ok (all_elems e).
Lemma src_cm_node a cs : src_cm (Elem a cs) = src_children_ok (Elem a cs) && forallb src_cm cs.
Proof. unfold src_cm. rewrite all_elems_cons. cbn [forallb]. rewrite forallb_flat_map. reflexivity. Qed.

Lemma proc_list_nil_inv d t sel assoc par pb pe children : proc_list d t sel assoc par pb pe [] = Ok children -> children = [].
Proof. cbn [proc_list]. intros H. injection H as <-. reflexivity. Qed.

Lemma proc_cm d t sel : forall e, src_cm e = true -> forall inh par pb pe r,
  proc d t sel inh par pb pe e = Ok (Some r) -> kind_of r = kind_of e /\ cm r = true.
Proof.
  induction e as [a cs IH] using elem_ind2. intros Hsrc inh par pb pe r H.
  rewrite src_cm_node in Hsrc. apply andb_true_iff in Hsrc as [Ha Hcs].
  apply proc_inv in H as (st & children & assoc & iv & _ & _ & Hl & Hf).
  apply finish_inv in Hf as (-> & Hpush & Hkeep). split; [reflexivity|].
  (* every child of the result comes from a source child: same kind, content model inside *)
  assert (Hch : forall x, In x children -> (exists c, In c cs /\ kind_of x = kind_of c) /\ cm x = true).
  { intros x Hx. destruct (proc_list_in _ _ _ _ _ _ _ _ _ Hl x Hx) as (c & Hc & Hp).
    rewrite Forall_forall in IH. rewrite forallb_forall in Hcs. destruct (IH c Hc (Hcs c Hc) _ _ _ _ _ Hp) as [Hk Hm].
    split; [exists c; split; assumption | exact Hm]. }
  assert (Hcm : forallb cm children = true) by (apply forallb_forall; intros x Hx; apply (Hch x Hx)).
  assert (Hkinds : forall k, In k (kinds children) -> In k (kinds cs)).
  { intros k Hk. unfold kinds in *. apply in_map_iff in Hk as (x & <- & Hx). destruct (Hch x Hx) as [(c & Hc & ->) _]. apply in_map, Hc. }
  assert (Hcok : cok (e_kind a) (kinds children) = true).
  { change (match e_kind a with KRuby | KRtc => true | _ => cok (e_kind a) (kinds cs) end = true) in Ha.
    destruct (forall_kind (e_kind a)) eqn:Efk.
    - apply (cok_incl _ (kinds cs)); [exact Efk | exact Hkinds|]. destruct (e_kind a); try discriminate; exact Ha.
    - assert (Hne : forall_kind (e_kind a) = false -> keep_always (e_kind a) = false -> e_kind a <> KRegion -> children <> []).
      { intros _ Hka Hr ->. destruct Hkeep as [Hk|[Hk|Hk]]; [congruence | | congruence].
        apply Hk. unfold fin_children. destruct (lwsp_kind (e_kind a)); reflexivity. }
      destruct (e_kind a) eqn:Ek; try discriminate.
      + (* region below the body: the source rule applies *)
        unfold cok in Ha. destruct cs as [|c0 [|c1 cs1]].
        * rewrite (proc_list_nil_inv _ _ _ _ _ _ _ _ Hl). reflexivity.
        * destruct children as [|x [|y ys]]; [reflexivity| |].
          -- destruct (Hch x (or_introl eq_refl)) as [(c & [<-|[]] & Hk) _]. rewrite kinds_cons, Hk. exact Ha.
          -- exfalso. cbn [proc_list] in Hl.
             destruct (proc d t sel assoc _ _ _ c0) as [[z|]|]; cbn [bind] in Hl; discriminate.
        * rewrite !kinds_cons in Ha. destruct (kind_of c0); discriminate.
      + (* br *) unfold cok in Ha.
        destruct cs; [|discriminate]. rewrite (proc_list_nil_inv _ _ _ _ _ _ _ _ Hl). reflexivity.
      + (* text *) unfold cok in Ha.
        destruct cs; [|discriminate]. rewrite (proc_list_nil_inv _ _ _ _ _ _ _ _ Hl). reflexivity.
      + (* ruby *) destruct Hpush as [->|Hp]; [exfalso; apply (Hne eq_refl eq_refl); [discriminate | reflexivity]|].
        apply ruby_ok_cok. exact Hp.
      + (* rtc *) destruct Hpush as [->|Hp]; [exfalso; apply (Hne eq_refl eq_refl); [discriminate | reflexivity]|].
        apply rtc_ok_cok. exact Hp. }
  rewrite cm_node. cbn [isd_attrs e_kind].
  destruct (fin_children_cm a st children Hcok Hcm) as [G1 G2]. rewrite G1, G2. reflexivity.
Qed.

Lemma proc_region_cm d t sel r o :
  kind_of r = KRegion -> match d_body d with Some b => kind_eqb (kind_of b) KBody && src_cm b | None => true end = true ->
  proc_region d t sel r = Ok (Some o) -> kind_of o = KRegion /\ cm o = true.
Proof.
  intros Hk Hb H. apply proc_region_inv in H as (st & children & _ & _ & Hch & Hf).
  apply finish_inv in Hf as (-> & _ & _). split; [exact Hk|]. rewrite cm_node. cbn [isd_attrs e_kind].
  change (e_kind (eattrs r)) with (kind_of r). unfold fin_children. change (e_kind (eattrs r)) with (kind_of r). rewrite Hk. cbn [lwsp_kind].
  destruct Hch as [->|(b & x & Eb & Hp & ->)]; [reflexivity|]. rewrite Eb in Hb. apply andb_true_iff in Hb as [Hkb Hsb].
  destruct (proc_cm d t sel b Hsb _ _ _ _ _ Hp) as [Hkx Hmx]. rewrite kinds_cons, Hkx. cbn [forallb]. rewrite Hmx.
  destruct (kind_of b); try discriminate. reflexivity.
Qed.

Theorem snapshot_content_model d t rs :
  doc_content_wf d = true -> isd d t = Ok rs -> nth 3 (shape_clauses [] false rs) false = true.
Proof.
  intros Hwf H. cbn [nth shape_clauses]. rewrite every_forallb.
  unfold doc_content_wf in Hwf. apply andb_true_iff in Hwf as [Hreg Hbody].
  assert (G : forall o, In o rs -> kind_of o = KRegion /\ cm o = true).
  { intros o Ho. destruct (isd_inv d t rs H o Ho) as (sel & r & Hr & Hp).
    assert (Hk : kind_of r = KRegion).
    { destruct Hr as [Hr| ->]; [|reflexivity]. rewrite forallb_forall in Hreg. specialize (Hreg r Hr). destruct (kind_of r); try discriminate; reflexivity. }
    apply (proc_region_cm d t sel r o Hk Hbody Hp). }
  apply andb_true_iff. split; apply forallb_forall; intros o Ho; destruct (G o Ho) as [G1 G2]; [rewrite G1; reflexivity | exact G2].
Qed.
