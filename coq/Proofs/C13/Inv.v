(* C13: inversion lemmas for M's snapshot generation — what a successful proc / proc_region / isd was built from. *)
From TT Require Import Model.Doc Gen.StyleTables Model.Isd Spec.IsdShape Proofs.Common.ElemInd.
From TT Require Import Proofs.C01.Lwsp Proofs.C13.Shape.

(* the children loop of proc, named *)
Fixpoint proc_list (d : doc) (t : Q) (sel assoc : option text) (par : option (kind * smap)) (pb pe : option Q) (l : list elem)
  : res (list elem) :=
  match l with
  | [] => Ok []
  | c :: l' =>
      bind (proc d t sel assoc par pb pe c) (fun r =>
      bind (proc_list d t sel assoc par pb pe l') (fun rs => Ok (match r with Some x => x :: rs | None => rs end)))
  end.

(* the children finish_element gives the element: white-space handled below p, rt, rtc, rp *)
Definition lwsp_kind (k : kind) : bool := match k with KP | KRt | KRtc | KRp => true | _ => false end.
Definition fin_children (a : attrs) (st : smap) (children : list elem) : list elem :=
  if lwsp_kind (e_kind a) then match children with [] => [] | _ => lwsp_children (isd_attrs a st) children end else children.

Lemma finish_inv a st children r : finish_element a st children = Ok (Some r) ->
  r = Elem (isd_attrs a (strip_inapplicable (e_kind a) st)) (fin_children a st children) /\
  (children = [] \/ push_children_ok (e_kind a) children = true) /\
  (keep_always (e_kind a) = true \/ fin_children a st children <> [] \/ e_kind a = KRegion).
Proof.
  unfold finish_element. intros H.
  assert (Hp : children = [] \/ push_children_ok (e_kind a) children = true).
  { destruct (push_children_ok (e_kind a) children); [right; reflexivity|]. destruct children; [left; reflexivity | discriminate]. }
  destruct (negb (push_children_ok (e_kind a) children) && is_nonempty_l children); [discriminate|].
  match type of H with context [Elem _ ?c] => replace c with (fin_children a st children) in H
                                              by (unfold fin_children; destruct (e_kind a); reflexivity) end.
  destruct (keep_always (e_kind a)) eqn:Ek; [injection H as <-; repeat split; auto|].
  destruct (fin_children a st children) as [|y ys] eqn:Ef;
    [|injection H as <-; repeat split; auto; right; left; discriminate].
  destruct (e_kind a) eqn:Ekd; try discriminate.
  destruct (sget (strip_inapplicable KRegion st) p_ShowBackground) as [v|]; [|discriminate].
  destruct v; try discriminate; destruct (tag =? e_ShowBackgroundType_always); [|discriminate].
  injection H as <-; repeat split; auto.
Qed.

Lemma proc_inv d t sel inh par pb pe a cs r : proc d t sel inh par pb pe (Elem a cs) = Ok (Some r) ->
  exists st children assoc iv,
    style_phase d t a par iv = Ok st /\ display_none st = false /\
    proc_list d t sel assoc (Some (e_kind a, st)) (Some (fst iv)) (snd iv) cs = Ok children /\
    finish_element a st children = Ok (Some r).
Proof.
  intros H. cbn [proc] in H.
  destruct (negb (active_at t _)); [discriminate|].
  match type of H with (if ?b then _ else _) = _ => destruct b end; [discriminate|].
  destruct (style_phase d t a par _) as [st|] eqn:Est; [|discriminate]. cbn [bind] in H.
  destruct (display_none st) eqn:Edn; [discriminate|].
  match type of H with bind (?F cs) _ = _ =>
    assert (Hl : forall l, F l = proc_list d t sel (match e_region a with Some r => Some r | None => inh end) (Some (e_kind a, st))
                                           (Some (fst (make_absolute (e_begin a) (e_end a) pb pe)))
                                           (snd (make_absolute (e_begin a) (e_end a) pb pe)) l)
      by (induction l as [|c l IHl]; [reflexivity | cbn [proc_list]; rewrite <- IHl; reflexivity]);
    rewrite Hl in H; clear Hl
  end.
  match type of H with bind ?g _ = _ => destruct g as [children|] eqn:Eg end; [|discriminate]. cbn [bind] in H.
  eexists st, children, _, _. repeat split; eassumption.
Qed.

Lemma proc_list_in d t sel assoc par pb pe : forall cs children,
  proc_list d t sel assoc par pb pe cs = Ok children ->
  forall x, In x children -> exists c, In c cs /\ proc d t sel assoc par pb pe c = Ok (Some x).
Proof.
  induction cs as [|c cs IH]; intros children H x Hx; cbn [proc_list] in H.
  - injection H as <-. destruct Hx.
  - destruct (proc d t sel assoc par pb pe c) as [rc|] eqn:Ec; [|discriminate]. cbn [bind] in H.
    destruct (proc_list d t sel assoc par pb pe cs) as [rs|] eqn:Er; [|discriminate]. cbn [bind] in H. injection H as <-.
    assert (G : In x rs -> exists c0, In c0 (c :: cs) /\ proc d t sel assoc par pb pe c0 = Ok (Some x)).
    { intros Hin. destruct (IH rs eq_refl x Hin) as (c0 & H0 & H1). exists c0. split; [right; exact H0 | exact H1]. }
    destruct rc as [y|]; [|apply G, Hx]. destruct Hx as [<-|Hx]; [|apply G, Hx].
    exists c. split; [left; reflexivity | exact Ec].
Qed.

Lemma proc_region_inv d t sel r o : proc_region d t sel r = Ok (Some o) ->
  exists st children,
    style_phase d t (eattrs r) None (make_absolute (e_begin (eattrs r)) (e_end (eattrs r)) None None) = Ok st /\
    display_none st = false /\
    (children = [] \/ exists b x, d_body d = Some b /\ proc d t sel None (Some (KRegion, st)) None None b = Ok (Some x) /\ children = [x]) /\
    finish_element (eattrs r) st children = Ok (Some o).
Proof.
  unfold proc_region. intros H. destruct (negb (active_at t _)); [discriminate|].
  destruct (style_phase d t _ None _) as [st|] eqn:Est; [|discriminate]. cbn [bind] in H.
  destruct (display_none st) eqn:Edn; [discriminate|].
  match type of H with bind ?g _ = _ => destruct g as [children|] eqn:Eg end; [|discriminate]. cbn [bind] in H.
  exists st, children. repeat split; try assumption.
  destruct (d_body d) as [b|]; [|injection Eg as <-; left; reflexivity].
  destruct (proc d t sel None _ None None b) as [[x|]|] eqn:Eb; cbn [bind] in Eg; try discriminate; injection Eg as <-;
    [right; exists b, x; repeat split; assumption | left; reflexivity].
Qed.

Lemma collect_regions_in : forall l rs, collect_regions l = Ok rs -> forall o, In o rs -> In (Ok (Some o)) l.
Proof.
  induction l as [|x l IH]; intros rs H o Ho; cbn [collect_regions] in H.
  - injection H as <-. destruct Ho.
  - destruct x as [y|]; [|discriminate]. cbn [bind] in H. destruct (collect_regions l) as [xs|] eqn:E; [|discriminate].
    cbn [bind] in H. injection H as <-.
    destruct y as [e|]; [destruct Ho as [<-|Ho]; [left; reflexivity|]|]; right; apply (IH xs eq_refl o Ho).
Qed.

(* every region of a snapshot was produced by proc_region from a registered region, or from the default region *)
Lemma isd_inv d t rs : isd d t = Ok rs ->
  forall o, In o rs -> exists sel r, (In r (d_regions d) \/ r = default_region) /\ proc_region d t sel r = Ok (Some o).
Proof.
  unfold isd. intros H o Ho. destruct (d_regions d) as [|r0 rest] eqn:Er.
  - apply (collect_regions_in _ _ H) in Ho. destruct Ho as [Ho|[]]. exists None, default_region. split; [right; reflexivity | exact Ho].
  - apply (collect_regions_in _ _ H) in Ho. apply in_map_iff in Ho as (r & Hr & Hin). exists (e_id (eattrs r)), r. split; [left; exact Hin | exact Hr].
Qed.

(* list-level facts about forallb over all_elems *)
Lemma all_elems_cons a cs : all_elems (Elem a cs) = Elem a cs :: flat_map all_elems cs.
Proof. reflexivity. Qed.
Lemma forallb_flat_map {A B} (f : A -> list B) (p : B -> bool) l :
  forallb p (flat_map f l) = forallb (fun x => forallb p (f x)) l.
Proof. induction l as [|x l IH]; [reflexivity|]. cbn [flat_map forallb]. rewrite forallb_app, IH. reflexivity. Qed.
Lemma every_forallb rs p : every rs p = forallb (fun r => forallb p (all_elems r)) rs.
Proof. unfold every, all_of. apply forallb_flat_map. Qed.
