(* C13, clause 6: on every region of a snapshot tts:origin and tts:position coincide. *)
From TT Require Import Model.Doc Gen.StyleTables Model.Isd Spec.IsdSpec Spec.IsdShape Proofs.Common.ElemInd Proofs.Common.StyleFrame.
From TT Require Import Proofs.C01.Display Proofs.C13.Shape Proofs.C13.Styles Proofs.C03.Values Proofs.C03.Cascade Proofs.C03.Chain Proofs.C03.FontSize.

(* computing a property other than Position leaves every other key alone (Origin included) *)
Lemma compute_prop_other_np d par st p st' q :
  compute_prop d par st p = Ok st' -> p <> p_Position -> q <> p -> sget st' q = sget st q.
Proof.
  intros H Hp Hq. unfold compute_prop in H.
  destruct (p =? p_FontSize); [|destruct (p =? p_Extent); [|destruct (p =? p_Origin); [|destruct (p =? p_Position) eqn:E; [apply Z.eqb_eq in E; congruence|]]]].
  all: repeat match type of H with
         | (if ?c then _ else _) = _ => destruct c
         | match ?x with _ => _ end = _ => destruct x eqn:?
         | bind ?x _ = _ => destruct x eqn:?; cbn [bind] in H
         | Err _ = Ok _ => discriminate
         | Ok _ = Ok _ => injection H as <-
         end; rewrite ?sget_sset_other by assumption; reflexivity.
Qed.
Lemma compute_styles_other_np d par todo q : forall order st st',
  compute_styles d par todo order st = Ok st' -> ~ In q order -> ~ In p_Position order -> sget st' q = sget st q.
Proof.
  induction order as [|p order IH]; intros st st' H Hq Hp; cbn [compute_styles] in H; [injection H as <-; reflexivity|].
  assert (Hq' : ~ In q order) by (intros X; apply Hq; right; exact X).
  assert (Hp' : ~ In p_Position order) by (intros X; apply Hp; right; exact X).
  destruct (existsb (Z.eqb p) todo); [|apply (IH _ _ H Hq' Hp')].
  destruct (compute_prop d par st p) as [st1|] eqn:E; [|discriminate]. cbn [bind] in H.
  rewrite (IH _ _ H Hq' Hp'). apply (compute_prop_other_np _ _ _ _ _ _ E).
  - intros ->. apply Hp. left. reflexivity.
  - intros ->. apply Hq. left. reflexivity.
Qed.

Definition coincide (st : smap) : Prop :=
  exists x y, sget st p_Origin = Some (VCoord x y) /\ sget st p_Position = Some (VPos x e_PositionType_HEdge_left y e_PositionType_VEdge_top).

Lemma compute_position_coincide d par st st' : compute_prop d par st p_Position = Ok st' -> coincide st'.
Proof.
  intros H.
  assert (E : compute_prop d par st p_Position =
    match sget st p_Position with
    | None =>
        match sget st p_Origin with
        | Some (VCoord x y) => Ok (sset st p_Position (VPos x e_PositionType_HEdge_left y e_PositionType_VEdge_top))
        | _ => Err errCompute
        end
    | Some (VPos ho he vo ve) =>
        match sget st p_Extent with
        | Some (VExtent eh ew) =>
            if negb (unit_eqb (lu eh) Urh && unit_eqb (lu ew) Urw) then Err errCompute
            else
            bind (compute_length vo (Some (rh (Qminus (qz 100) (lv eh)))) None (Some (c_h d)) (Some (px_h d))) (fun v1 =>
            let v2 := if ve =? e_PositionType_VEdge_bottom
                      then mkLen (Qminus (Qminus (qz 100) (lv eh)) (lv v1)) (lu v1) else v1 in
            bind (compute_length ho (Some (rw (Qminus (qz 100) (lv ew)))) None (Some (c_w d)) (Some (px_w d))) (fun h1 =>
            let h2 := if he =? e_PositionType_HEdge_right
                      then mkLen (Qminus (Qminus (qz 100) (lv ew)) (lv h1)) (lu h1) else h1 in
            Ok (sset (sset st p_Origin (VCoord h2 v2)) p_Position (VPos h2 e_PositionType_HEdge_left v2 e_PositionType_VEdge_top))))
        | _ => Err errCompute
        end
    | Some _ => Err errCompute
    end) by reflexivity.
  rewrite E in H. clear E.
  assert (Hne : p_Origin <> p_Position) by discriminate.
  destruct (sget st p_Position) as [v|] eqn:Ep.
  - destruct v; try discriminate. destruct (sget st p_Extent) as [[]|]; try discriminate.
    destruct (negb _); [discriminate|].
    destruct (compute_length v _ None _ _) as [v1|]; [|discriminate]. cbn [bind] in H.
    destruct (compute_length h _ None _ _) as [h1|]; [|discriminate]. cbn [bind] in H. injection H as <-.
    eexists. eexists. split; [rewrite sget_sset_other by exact Hne; apply sget_sset_same | apply sget_sset_same].
  - destruct (sget st p_Origin) as [[]|] eqn:Eo; try discriminate. injection H as <-.
    eexists. eexists. split; [rewrite sget_sset_other by exact Hne; exact Eo | apply sget_sset_same].
Qed.

Lemma ordered_split : exists pre post, ordered_style_props = pre ++ p_Position :: post /\
  ~ In p_Position post /\ ~ In p_Origin post /\ ~ In p_Position pre.
Proof.
  exists [p_FontSize; p_Disparity; p_Extent; p_Origin]. eexists. split; [reflexivity|].
  repeat split; cbn; intros H; repeat (destruct H as [H|H]; [discriminate|]); exact H.
Qed.

Lemma compute_styles_app d par todo : forall pre post st st',
  compute_styles d par todo (pre ++ post) st = Ok st' ->
  exists mid, compute_styles d par todo pre st = Ok mid /\ compute_styles d par todo post mid = Ok st'.
Proof.
  induction pre as [|p pre IH]; intros post st st' H; cbn [app compute_styles] in *; [exists st; split; [reflexivity | exact H]|].
  destruct (existsb (Z.eqb p) todo); [|apply IH; exact H].
  destruct (compute_prop d par st p) as [st1|]; [|discriminate]. cbn [bind] in *. apply IH. exact H.
Qed.

(* a region always has Position scheduled for computation *)
Lemma region_phase_tail d t a iv st :
  e_kind a = KRegion -> style_phase d t a None iv = Ok st ->
  exists st2 todo2, (mem p_Position todo2 = true \/ shas st2 p_Position = false) /\
    compute_styles d None (snd (apply_initial d all_props st2 todo2)) ordered_style_props (fst (apply_initial d all_props st2 todo2)) = Ok st.
Proof.
  intros Hk H. unfold style_phase in H.
  destruct (apply_anims t iv (e_anims a) [] []) as [st0 todo0] eqn:E0.
  destruct (apply_specified (e_styles a) st0 todo0) as [st1 todo1] eqn:E1.
  assert (T1 : mem p_Position todo1 = shas st1 p_Position).
  { pose proof (apply_anims_get t iv p_Position (e_anims a) [] []) as G0. pose proof (apply_anims_todo t iv p_Position (e_anims a) [] []) as T0.
    pose proof (apply_specified_get p_Position (e_styles a) st0 todo0) as G1. pose proof (apply_specified_todo p_Position (e_styles a) st0 todo0) as T1.
    rewrite E0 in G0, T0. rewrite E1 in G1, T1. cbn [fst snd] in G0, T0, G1, T1. rewrite T1, T0. unfold shas. rewrite G1, G0. cbn [sget].
    destruct (last_active t iv p_Position (e_anims a) None); cbn [is_some orb negb andb]; [reflexivity|]. destruct (sget (e_styles a) p_Position); reflexivity. }
  rewrite Hk in H.
  match type of H with (let '(st, todo) := ?X in _) = _ => destruct X as [st2 todo2] eqn:E2 end.
  exists st2, todo2. split.
  - assert (Hd : p_Position <> p_Direction) by discriminate.
    assert (X : (mem p_Position todo2 = mem p_Position todo1 \/ mem p_Position todo2 = true) /\ shas st2 p_Position = shas st1 p_Position).
    { destruct (negb (shas (e_styles a) p_Direction)); [|injection E2 as <- <-; split; [left|]; reflexivity].
      destruct (sget (e_styles a) p_WritingMode) as [[w| | | | | | | | | | | | | |]|]; try (injection E2 as <- <-; split; [left|]; reflexivity).
      destruct (w =? e_WritingModeType_lrtb); [injection E2 as <- <-; split; [left; reflexivity | apply shas_sset_other; congruence]|].
      destruct (w =? e_WritingModeType_rltb); [injection E2 as <- <-; split; [left; reflexivity | apply shas_sset_other; congruence]|].
      injection E2 as <- <-. split; [left|]; reflexivity. }
    destruct X as [[X|X] Y]; [|left; exact X]. rewrite X, T1, <- Y. destruct (shas st2 p_Position); [left | right]; reflexivity.
  - destruct (apply_initial d all_props st2 todo2) as [st4 todo4]. exact H.
Qed.

Theorem region_origin_position d t a iv st :
  e_kind a = KRegion -> style_phase d t a None iv = Ok st -> coincide st.
Proof.
  intros Hk H. destruct (region_phase_tail d t a iv st Hk H) as (st2 & todo2 & T2 & Ht). clear H.
  pose proof (apply_initial_todo_exact d p_Position all_props st2 todo2 all_props_nodup) as T.
  destruct (apply_initial d all_props st2 todo2) as [st4 todo4]. cbn [fst snd] in Ht, T.
  assert (T4 : mem p_Position todo4 = true).
  { rewrite T. destruct T2 as [T2|T2]; [rewrite T2; reflexivity|]. rewrite T2. cbn [negb andb]. rewrite andb_true_r.
    change (mem p_Position all_props) with true. apply orb_true_r. }
  destruct ordered_split as (pre & post & Hord & Hpost1 & Hpost2 & Hpre). rewrite Hord in Ht.
  apply compute_styles_app in Ht as (mid & Hpre_run & Hrest). cbn [compute_styles] in Hrest.
  change (existsb (Z.eqb p_Position) todo4) with (mem p_Position todo4) in Hrest. rewrite T4 in Hrest.
  destruct (compute_prop d None mid p_Position) as [st5|] eqn:E5; [|discriminate]. cbn [bind] in Hrest.
  destruct (compute_position_coincide d None mid st5 E5) as (x & y & Ho & Hp).
  exists x, y. split.
  - rewrite (compute_styles_other_np d None todo4 p_Origin post st5 st Hrest Hpost2 Hpost1). exact Ho.
  - rewrite (compute_styles_other_np d None todo4 p_Position post st5 st Hrest Hpost1 Hpost1). exact Hp.
Qed.

(* clause 6 on the attributes M builds for a region *)
Lemma lens_equal_refl l : lens_equal l l = true.
Proof. unfold lens_equal. destruct (lu l); cbn; apply Qeq_bool_iff; reflexivity. Qed.

Lemma finish_region_origin_position a st children r :
  e_kind a = KRegion -> coincide st -> finish_element a st children = Ok (Some r) -> origin_position_ok r = true.
Proof.
  intros Hk (x & y & Ho & Hp) H. unfold finish_element in H. rewrite Hk in H. cbn [push_children_ok negb andb keep_always] in H.
  assert (G : origin_position_ok (Elem (isd_attrs a (strip_inapplicable KRegion st)) children) = true).
  { unfold origin_position_ok, kind_of. cbn [eattrs isd_attrs e_kind e_styles]. rewrite Hk. rewrite !sget_strip.
    change (applicable KRegion p_Origin) with true. change (applicable KRegion p_Position) with true. rewrite Ho, Hp.
    rewrite !lens_equal_refl, !Z.eqb_refl. reflexivity. }
  destruct children as [|c cs].
  - destruct (sget (strip_inapplicable KRegion st) p_ShowBackground) as [v|]; [|discriminate].
    destruct v; try discriminate. destruct (tag =? e_ShowBackgroundType_always); [|discriminate]. injection H as <-. exact G.
  - injection H as <-. exact G.
Qed.

Theorem snapshot_origin_position d t rs :
  Forall (fun r => e_kind (eattrs r) = KRegion) (d_regions d) -> isd d t = Ok rs -> forallb origin_position_ok rs = true.
Proof.
  intros Hreg H.
  assert (G : forall l, (forall x o, In x l -> x = Ok (Some o) -> origin_position_ok o = true) ->
                        forall rs, collect_regions l = Ok rs -> forallb origin_position_ok rs = true).
  { induction l as [|x l IH]; intros Hall rs' Hc; cbn [collect_regions] in Hc; [injection Hc as <-; reflexivity|].
    destruct x as [o|]; [|discriminate]. cbn [bind] in Hc. destruct (collect_regions l) as [xs|] eqn:E; [|discriminate].
    cbn [bind] in Hc. injection Hc as <-.
    assert (Hxs : forallb origin_position_ok xs = true) by (apply IH; [intros y o' Hy; apply Hall; right; exact Hy | reflexivity]).
    destruct o as [e|]; [|exact Hxs]. cbn [forallb]. rewrite (Hall (Ok (Some e)) e (or_introl eq_refl) eq_refl). exact Hxs. }
  assert (Hpr : forall sel r o, e_kind (eattrs r) = KRegion -> proc_region d t sel r = Ok (Some o) -> origin_position_ok o = true).
  { intros sel r o Hk Hp. unfold proc_region in Hp. destruct (negb (active_at t _)); [discriminate|].
    destruct (style_phase d t _ None _) as [st|] eqn:Est; [|discriminate]. cbn [bind] in Hp.
    destruct (display_none st); [discriminate|].
    match type of Hp with bind ?g _ = _ => destruct g as [children|] end; [|discriminate]. cbn [bind] in Hp.
    apply (finish_region_origin_position _ _ _ _ Hk (region_origin_position _ _ _ _ _ Hk Est) Hp). }
  unfold isd in H. destruct (d_regions d) as [|r0 rest] eqn:Er.
  - apply (G _) in H; [exact H|]. intros x o [<-|[]] Hx. apply (Hpr None default_region o (eq_refl KRegion) Hx).
  - apply (G _) in H; [exact H|]. intros x o Hin Hx. apply in_map_iff in Hin as (r & <- & Hr).
    rewrite Forall_forall in Hreg. apply (Hpr _ _ _ (Hreg r Hr) Hx).
Qed.
