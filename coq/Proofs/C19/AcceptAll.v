(* C19: the acceptance table for all 19 documented keys (Accept.v, AcceptFont.v, AcceptColor.v put together). *)
From Coq Require Import String.
From TT Require Import Base.Prelude Base.CliTypes Gen.CliUnicode Model.Cli Spec.CliSpec Proofs.C19.Accept Proofs.C19.AcceptFont
  Proofs.C19.AcceptColor.

Theorem config_exact k v : in_table k v = true -> trigger k v = false -> exact k v.
Proof.
  intros I Tr. destruct (table_key k) eqn:K; [exact (config_exact_plain k v K I Tr)|].
  destruct k; try discriminate K.
  - apply acc_font_stack; [|exact Tr]. intros ->. discriminate I.
  - apply acc_color; [reflexivity|exact Tr].
  - apply acc_color; [reflexivity|exact Tr].
Qed.
Theorem config_accepts k v : in_table k v = true -> trigger k v = false -> (accepts k v = true <-> documented k v = true).
Proof. intros I Tr. exact (proj1 (config_exact k v I Tr)). Qed.
Theorem config_meaning k v : in_table k v = true -> trigger k v = false -> documented k v = true -> decode k v = Ok (meaning k v).
Proof. intros I Tr. exact (proj2 (config_exact k v I Tr)). Qed.
Theorem config_rejects k v : in_table k v = true -> trigger k v = false -> documented k v = false -> exists e, decode k v = Raise e.
Proof.
  intros I Tr D. pose proof (proj1 (config_exact k v I Tr)) as A. unfold agrees, accepts in A.
  destruct (decode k v) as [c|e]; [|eauto]. destruct A as [A _]. rewrite D in A. discriminate (A eq_refl).
Qed.
(* ten keys need no hypothesis about triggers at all: the eight true | false keys, time_format and safe_area *)
Definition untriggered_key (k : key) : bool := bool_key k || match k with KTimeFormat | KSafeArea => true | _ => false end.
Lemma untriggered_key_trigger k v : untriggered_key k = true -> trigger k v = false.
Proof. destruct k; try discriminate; intros _; destruct v; reflexivity. Qed.
Theorem config_exact_untriggered k v : untriggered_key k = true -> in_table k v = true -> exact k v.
Proof. intros K I. exact (config_exact k v I (untriggered_key_trigger k v K)). Qed.
(* imsc_writer.fps: the only residue is CPython's limit on the length of digit strings *)
Theorem config_exact_fps s : (Z.of_nat (length s) <=? 4300) = true -> exact KFps (JStr s).
Proof. intro L. apply config_exact; [reflexivity|]. unfold trigger. cbn. lia. Qed.
