(* C19: from the raw command line to the bytes written.  Args.v (argparse on the grammar), SpecPlan.v (the plan is the one
   README prescribes) and Pipeline.v (the run follows the plan) put together. *)
From Coq Require Import String.
From TT Require Import Base.Prelude Base.CliTypes Gen.CliUnicode Model.Cli Spec.CliSpec Proofs.C19.Plan Proofs.C19.Types
  Proofs.C19.Args Proofs.C19.Pipeline Proofs.C19.SpecPlan.

Section Main.
  Variables doc bytes : Type.
  Variable read_doc : reader -> text -> res doc.
  Variable set_lang : text -> doc -> doc.
  Variable run_filter : filter_app -> doc -> res doc.
  Variable write_doc : writer -> doc -> res bytes.
  Variable json_of : text -> option json.
  Variable files : text -> file_src.

  Notation run_tokens := (run_tokens doc bytes read_doc set_lang run_filter write_doc json_of files).
  Notation run_convert := (run_convert doc bytes read_doc set_lang run_filter write_doc).
  Notation lib_pipeline := (lib_pipeline doc bytes read_doc set_lang run_filter write_doc).

  (* the end of a run that follows plan p *)
  Definition pipeline_end (p : plan_t) (o : options) : final bytes :=
    match lib_pipeline p (o_input o) with Ok b => FDone (o_output o) b | Raise e => FError e end.

  Theorem plan_is_pipeline items toks o c cf :
    tokens_of items toks -> spec_options items = Some (o, c, cf) ->
    let i := inline_of json_of c in let f := file_of files cf in
    sources_ok i f = true -> clean o (effective i f) = true ->
    match spec_plan o (effective i f) with
    | Some p => plan_tokens json_of files (T "convert" :: toks) = OPlan p /\
                snd (run_tokens (T "convert" :: toks)) = pipeline_end p o /\
                (forall b, lib_pipeline p (o_input o) = Ok b -> fst (run_tokens (T "convert" :: toks)) = plan_events p (o_input o) (o_output o))
    | None => (exists e, plan_tokens json_of files (T "convert" :: toks) = OError e) /\
              (exists e, snd (run_tokens (T "convert" :: toks)) = FError e)
    end.
  Proof.
    intros G SO i f S C. pose proof (plan_is_spec o i f S C) as P. unfold agrees_module in P.
    unfold plan_tokens, Cli.run_tokens. rewrite parse_main_convert, (parse_convert_grammar items toks G), SO. fold i f.
    destruct (spec_plan o (effective i f)) as [p|].
    - rewrite P. split; [reflexivity|]. rewrite (run_follows_plan _ _ _ _ _ _ _ _ _ _ P []).
      pose proof (exec_plan_result doc bytes read_doc set_lang run_filter write_doc p (o_input o) (o_output o) []) as R.
      destruct (exec_plan doc bytes read_doc set_lang run_filter write_doc p (o_input o) (o_output o) []) as [l [[pth b]|e]] eqn:X; cbn [snd] in R.
      + unfold pipeline_end. split.
        * cbn [snd]. destruct (lib_pipeline p (o_input o)); inversion R; subst. reflexivity.
        * intros b' L. cbn [fst]. pose proof (exec_plan_log doc bytes read_doc set_lang run_filter write_doc p (o_input o) (o_output o) b' L) as Lg.
          rewrite X in Lg. exact Lg.
      + unfold pipeline_end. split.
        * cbn [snd]. destruct (lib_pipeline p (o_input o)); inversion R; subst. reflexivity.
        * intros b' L. rewrite L in R. discriminate R.
    - destruct P as (e & P). rewrite P. split; [eauto|].
      destruct (run_without_plan_fails doc bytes read_doc set_lang run_filter write_doc o i f e P []) as (e' & R).
      destruct (run_convert o i f []) as [l [[pth b]|e'']]; cbn [snd] in *; [discriminate R|eauto].
  Qed.

  (* the run follows the plan, whatever the configuration is *)
  Theorem run_is_pipeline o i f :
    match convert o i f with
    | Ok p => snd (run_convert o i f []) = match lib_pipeline p (o_input o) with Ok b => Ok (o_output o, b) | Raise e => Raise e end /\
              (forall b, lib_pipeline p (o_input o) = Ok b -> fst (run_convert o i f []) = plan_events p (o_input o) (o_output o))
    | Raise _ => exists e, snd (run_convert o i f []) = Raise e
    end.
  Proof.
    destruct (convert o i f) as [p|e] eqn:P.
    - rewrite (run_follows_plan _ _ _ _ _ _ _ _ _ _ P []). split.
      + apply exec_plan_result.
      + intros b L. exact (exec_plan_log doc bytes read_doc set_lang run_filter write_doc p (o_input o) (o_output o) b L).
    - exact (run_without_plan_fails doc bytes read_doc set_lang run_filter write_doc o i f e P []).
  Qed.

  (* for ANY token list: a run that ends in an error, or in the usage text, has opened no output file *)
  Theorem no_output_on_error toks :
    (forall path b, snd (run_tokens toks) <> FDone path b) -> no_output_event (fst (run_tokens toks)) = true.
  Proof.
    unfold Cli.run_tokens. destruct (parse_main toks) as [| |o c cf]; try reflexivity. intro H.
    pose proof (run_no_output_on_error doc bytes read_doc set_lang run_filter write_doc o (inline_of json_of c) (file_of files cf) []) as N.
    destruct (run_convert o (inline_of json_of c) (file_of files cf) []) as [l [[pth b]|e]]; cbn [fst snd] in *.
    - exfalso. exact (H pth b eq_refl).
    - exact (N e eq_refl eq_refl).
  Qed.
  (* ... and one that ends well has opened exactly the -o path, once, as its last effect, after writing what the library
     pipeline gives on the plan *)
  Theorem output_only_when_done toks path b :
    snd (run_tokens toks) = FDone path b ->
    exists o c cf p, parse_main toks = CConvert o c cf /\ convert o (inline_of json_of c) (file_of files cf) = Ok p /\
                     path = o_output o /\ lib_pipeline p (o_input o) = Ok b /\
                     fst (run_tokens toks) = plan_events p (o_input o) (o_output o).
  Proof.
    unfold Cli.run_tokens. destruct (parse_main toks) as [| |o c cf]; try discriminate. intro H.
    destruct (run_convert o (inline_of json_of c) (file_of files cf) []) as [l [[pth b']|e]] eqn:X; cbn [fst snd] in *; [|discriminate H].
    injection H as E1 E2. subst pth b'. destruct (run_ok_has_plan doc bytes read_doc set_lang run_filter write_doc o _ _ [] (path, b) ltac:(rewrite X; reflexivity)) as (p & P).
    exists o, c, cf, p. split; [reflexivity|]. split; [exact P|].
    rewrite (run_follows_plan _ _ _ _ _ _ _ _ _ _ P []) in X.
    pose proof (exec_plan_result doc bytes read_doc set_lang run_filter write_doc p (o_input o) (o_output o) []) as R. rewrite X in R. cbn [snd] in R.
    destruct (lib_pipeline p (o_input o)) as [b0|] eqn:L; [|discriminate R]. injection R as E1 E2. subst b0. split; [exact E1|]. split; [reflexivity|].
    pose proof (exec_plan_log doc bytes read_doc set_lang run_filter write_doc p (o_input o) (o_output o) b L) as Lg. rewrite X in Lg. exact Lg.
  Qed.
End Main.
