(* C19: stl_reader.font_stack.  Every documented font stack (TTML2 <font-families>, Spec/CliSpec.v fonts_ok) is accepted
   by the decoder of Model/Cli.v (since the repair of parse_font_families: a family name of one character included) and
   the accepted string is what the reader is given.  The converse is recorded finding undocumented-values-accepted: the
   decoder validates nothing beyond "some family-like token occurs". *)
From Coq Require Import String.
From TT Require Import Base.Prelude Base.CliTypes Gen.CliUnicode Model.Cli Spec.CliSpec Proofs.C19.Accept.

Definition in4 (c : Z) : bool := mem c [39; 34; 44; 32].
Lemma in4_cases c : in4 c = true -> c = 39 \/ c = 34 \/ c = 44 \/ c = 32.
Proof. unfold in4, mem. cbn [existsb]. lia. Qed.
Lemma in4_dot c : in4 c = true -> re_dot c = true /\ (c =? 92) = false.
Proof. intro H. destruct (in4_cases c H) as [->|[->|[->| ->]]]; split; reflexivity. Qed.

(* a character other than apostrophe, quotation mark, comma and space starts an unquoted family *)
Lemma font_any_plain s : existsb (fun c => negb (in4 c)) s = true -> font_any s = true.
Proof.
  induction s as [|c r IH]; [discriminate|]. cbn [existsb]. intro H.
  change (font_any (c :: r)) with (font_match_at (c :: r) || font_any r).
  destruct (in4 c) eqn:I; cbn [negb orb] in H.
  - rewrite (IH H). apply orb_true_r.
  - assert (M : noquote_match (c :: r) = true).
    { unfold noquote_match, unit1_plain. fold (in4 c). rewrite I. apply orb_true_r. }
    unfold font_match_at. rewrite M. rewrite orb_true_r. reflexivity.
Qed.

(* strings made of those four characters only: a documented one holds a quoted family, which the quoted alternatives match *)
Lemma close_in4 q post mid prev :
  forallb in4 mid = true -> (prev =? 92) = false -> quoted_close q prev (mid ++ q :: post) = true.
Proof.
  revert prev; induction mid as [|c mid IH]; intros prev F P; cbn [app quoted_close].
  - rewrite Z.eqb_refl, P. reflexivity.
  - cbn [forallb] in F. apply andb_true_iff in F as [Fc Fm]. destruct (in4_dot c Fc) as [D N].
    destruct ((c =? q) && negb (prev =? 92)); [reflexivity|]. rewrite D. apply IH; assumption.
Qed.
Lemma quoted_in4 r : forall q ne,
  forallb in4 r = true -> fonts_scan (FsQuoted q ne) false r = true ->
  exists mid post, r = mid ++ q :: post /\ forallb in4 mid = true /\ (ne = false -> mid <> []).
Proof.
  induction r as [|c r IH]; intros q ne F S; [discriminate S|].
  cbn [forallb] in F. apply andb_true_iff in F as [Fc Fr]. destruct (in4_dot c Fc) as [_ N].
  cbn [fonts_scan] in S. destruct (c =? q) eqn:E.
  - apply Z.eqb_eq in E. subst c. destruct ne; [|discriminate S].
    exists [], r. repeat split; try reflexivity. discriminate.
  - rewrite N in S. destruct (IH q true Fr S) as (mid & post & -> & Fm & _).
    exists (c :: mid), post. repeat split; [cbn [forallb]; rewrite Fc, Fm; reflexivity|discriminate].
Qed.
Lemma font_any_in4 s : forallb in4 s = true -> fonts_scan FsStart false s = true -> font_any s = true.
Proof.
  induction s as [|c r IH]; intros F S; [discriminate S|].
  cbn [forallb] in F. apply andb_true_iff in F as [Fc Fr].
  change (font_any (c :: r)) with (font_match_at (c :: r) || font_any r).
  destruct (in4_cases c Fc) as [->|[->|[->| ->]]]; cbn in S.
  - destruct (quoted_in4 r 39 false Fr S) as (mid & post & -> & Fm & NE).
    destruct mid as [|c0 mid]; [exfalso; apply NE; reflexivity|]. cbn [forallb] in Fm. apply andb_true_iff in Fm as [F0 Fm].
    destruct (in4_dot c0 F0) as [D N]. unfold font_match_at. cbn [app quoted_ok]. rewrite D, (close_in4 39 post mid c0 Fm N). reflexivity.
  - destruct (quoted_in4 r 34 false Fr S) as (mid & post & -> & Fm & NE).
    destruct mid as [|c0 mid]; [exfalso; apply NE; reflexivity|]. cbn [forallb] in Fm. apply andb_true_iff in Fm as [F0 Fm].
    destruct (in4_dot c0 F0) as [D N]. unfold font_match_at. cbn [app quoted_ok]. rewrite D, (close_in4 34 post mid c0 Fm N).
    rewrite orb_true_r. reflexivity.
  - discriminate S.
  - rewrite (IH Fr S). apply orb_true_r.
Qed.

Theorem fonts_documented_accepted s : fonts_ok s = true -> font_any s = true.
Proof.
  intro H. destruct (existsb (fun c => negb (in4 c)) s) eqn:E; [exact (font_any_plain s E)|].
  apply font_any_in4; [|exact H].
  clear H. induction s as [|c r IH]; [reflexivity|]. cbn [existsb] in E. apply orb_false_iff in E as [Ec Er].
  cbn [forallb]. rewrite (IH Er). apply negb_false_iff in Ec. rewrite Ec. reflexivity.
Qed.

Theorem acc_font_stack v : v <> JNull -> trigger KFontStack v = false -> exact KFontStack v.
Proof.
  intros NN Tr. apply trigger_false in Tr as (L & _).
  destruct v; try contradiction; try (apply exact_of_decode; intro H; try discriminate H; reflexivity).
  cbn [trigger_lenient] in L. apply negb_false_iff in L.
  apply exact_of_decode; cbn [documented]; intro H; [|rewrite L in H; discriminate H].
  unfold decode, dec_font_stack. rewrite (fonts_documented_accepted s L). reflexivity.
Qed.
(* since the repair: a single unquoted family name, however short, is documented and accepted *)
Lemma letter_not_in4 c : letter c = true -> in4 c = false /\ (c =? 92) = false /\ (c =? 32) = false /\ (c =? 39) || (c =? 34) = false /\ (c =? 44) = false.
Proof. unfold letter, in4, mem. cbn [existsb]. intro H. repeat split; lia. Qed.
Lemma fonts_unq_letters r : forallb letter r = true -> fonts_scan FsUnq false r = true.
Proof.
  induction r as [|c r IH]; [reflexivity|]. cbn [forallb]. intro H. apply andb_true_iff in H as [L R].
  destruct (letter_not_in4 _ L) as (_ & A & _ & B & C). cbn [fonts_scan]. rewrite C, B, A. exact (IH R).
Qed.
Theorem font_single_name s :
  forallb letter s = true -> s <> [] -> accepts KFontStack (JStr s) = true /\ documented KFontStack (JStr s) = true.
Proof.
  intros H NE. assert (D : fonts_ok s = true).
  { destruct s as [|a r]; [contradiction|]. cbn [forallb] in H. apply andb_true_iff in H as [La Lr].
    destruct (letter_not_in4 _ La) as (_ & A1 & A2 & A3 & A4). unfold fonts_ok. cbn [fonts_scan]. rewrite A2, A3, A4, A1.
    exact (fonts_unq_letters r Lr). }
  split; [|exact D]. unfold accepts, decode, dec_font_stack. rewrite (fonts_documented_accepted s D). reflexivity.
Qed.
Theorem font_documented_accepts s : fonts_ok s = true -> accepts KFontStack (JStr s) = true.
Proof. intro H. unfold accepts, decode, dec_font_stack. rewrite (fonts_documented_accepted s H). reflexivity. Qed.
