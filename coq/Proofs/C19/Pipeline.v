(* C19: the run.  Model/Cli.v run_convert follows tt.convert statement by statement with the readers, filters and
   writers as arbitrary functions that may raise.  Whatever they are:
   - when the plan exists (convert = Ok p) the run is exactly "follow p": its result is the library pipeline of
     Spec/CliSpec.v run on p (lib_pipeline: reader, document language, filters in order, writer), written to the -o path,
     and when that succeeds its log is plan_events p;
   - when no plan exists the run ends in an error;
   - a run that ends in an error has opened no output file (no EvOutput in its log); a run that ends well has opened
     exactly one, last, at the -o path. *)
From Coq Require Import String.
From TT Require Import Base.Prelude Base.CliTypes Gen.CliUnicode Model.Cli Spec.CliSpec Proofs.C19.Plan.

Section Run.
  Variables doc bytes : Type.
  Variable read_doc : reader -> text -> res doc.
  Variable set_lang : text -> doc -> doc.
  Variable run_filter : filter_app -> doc -> res doc.
  Variable write_doc : writer -> doc -> res bytes.

  Notation run_convert := (run_convert doc bytes read_doc set_lang run_filter write_doc).
  Notation run_read := (run_read doc read_doc).
  Notation run_lang := (run_lang doc set_lang).
  Notation run_filters := (run_filters doc run_filter).
  Notation run_write := (run_write doc bytes write_doc).
  Notation call_reader := (call_reader doc read_doc).
  Notation call_writer := (call_writer doc bytes write_doc).
  Notation lib_pipeline := (lib_pipeline doc bytes read_doc set_lang run_filter write_doc).
  Notation filters_pipeline := (filters_pipeline doc run_filter).

  (* ---------------------------------------------------------------- "follow the plan", with its log *)
  Fixpoint exec_filters (fs : list filter_app) (d : doc) (l : list event) : list event * res doc :=
    match fs with
    | [] => (l, Ok d)
    | f :: r => match run_filter f d with
                | Ok d' => exec_filters r d' (l ++ [EvFilter f])
                | Raise e => (l ++ [EvFilter f], Raise e)
                end
    end.
  Definition exec_plan (p : plan_t) (input output : text) (l : list event) : list event * res (text * bytes) :=
    let l := l ++ match p_progress p with Some b => [EvProgress b] | None => [] end in
    let l := l ++ match p_level p with Some z => [EvLevel z] | None => [] end in
    let l := l ++ [EvRead (p_reader p) input] in
    match read_doc (p_reader p) input with
    | Raise e => (l, Raise e)
    | Ok d =>
        let l := l ++ match p_lang p with Some s => [EvLang s] | None => [] end in
        let d := match p_lang p with Some s => set_lang s d | None => d end in
        match exec_filters (p_filters p) d l with
        | (l, Raise e) => (l, Raise e)
        | (l, Ok d) =>
            let l := l ++ [EvWrite (p_writer p)] in
            match write_doc (p_writer p) d with
            | Raise e => (l, Raise e)
            | Ok b => (l ++ [EvOutput output], Ok (output, b))
            end
        end
    end.

  Lemma run_filters_exec names data fs : apply_filters names data = Ok fs ->
    forall d l, run_filters names data d l = exec_filters fs d l.
  Proof.
    revert fs; induction names as [|n r IH]; intros fs H d l; cbn [apply_filters] in H.
    - inversion H; subst. reflexivity.
    - cbn [Cli.run_filters]. revert H. destruct (get_filter_by_name n) as [[]|]; intro H; [|exact (IH _ H d l)].
      inv_bind H. inversion H; subst. unfold cbind, cthen, lift, emit. cbn [exec_filters].
      destruct (run_filter _ d) as [d'|e]; [|reflexivity]. apply IH. reflexivity.
  Qed.

  (* the phases of the run when their configuration steps succeed *)
  Lemma run_config_ok i f data g lv :
    load_config i f = Ok data -> read_config "general" parse_general data = Ok g ->
    match g with
    | Some (ll, _, _) => if is_null ll then Ok None else do z <- check_level ll; Ok (Some z)
    | None => Ok None end = Ok lv ->
    forall l, run_config i f l =
              ((l ++ match (match g with Some (_, pb, _) => Some pb | None => None end) with Some b => [EvProgress b] | None => [] end)
                 ++ match lv with Some z => [EvLevel z] | None => [] end, Ok (data, g)).
  Proof.
    intros E E0 E1 l. unfold run_config, cbind, cthen, lift, ret, emit. rewrite E, E0.
    destruct g as [[[ll pb] dl]|]; [|inversion E1; subst; rewrite !app_nil_r; reflexivity].
    destruct (is_null ll); [inversion E1; subst; rewrite app_nil_r; reflexivity|].
    destruct (check_level ll); [|discriminate E1]. inversion E1; subst. reflexivity.
  Qed.
  Lemma run_types_ok o rt wt :
    get_file_type (o_itype o) (splitext (o_input o)) = Ok rt -> get_file_type (o_otype o) (splitext (o_output o)) = Ok wt ->
    forall l, run_types o l = (l, Ok (rt, wt)).
  Proof. intros E E' l. unfold run_types, cbind, lift, ret. rewrite E, E'. reflexivity. Qed.
  Lemma run_read_ok rt data rd path :
    match rt with
    | TTML => Ok RdTtml
    | SCC => do c <- read_config "scc_reader" parse_scc data; Ok (RdScc c)
    | STL => do c <- read_config "stl_reader" parse_stl data; Ok (RdStl c)
    | SRT => Ok RdSrt
    | VTT => Ok RdVtt end = Ok rd ->
    forall l, run_read rt data path l = (l ++ [EvRead rd path], read_doc rd path).
  Proof.
    intros E l. unfold Cli.run_read, Cli.call_reader, cbind, cthen, lift, emit.
    destruct rt; inv_bind E; inversion E; subst; destruct (read_doc _ path); reflexivity.
  Qed.
  Lemma run_lang_ok (g : option (json * bool * json)) lang d :
    match g with
    | Some (_, _, dl) => if is_null dl then Ok None else do s <- check_lang dl; Ok (Some s)
    | None => Ok None end = Ok lang ->
    forall l, run_lang g d l = (l ++ match lang with Some s => [EvLang s] | None => [] end,
                                Ok (match lang with Some s => set_lang s d | None => d end)).
  Proof.
    intros E l. unfold Cli.run_lang, cbind, cthen, lift, emit, ret.
    destruct g as [[[ll pb] dl]|]; [|inversion E; subst; rewrite app_nil_r; reflexivity].
    destruct (is_null dl); [inversion E; subst; rewrite app_nil_r; reflexivity|].
    destruct (check_lang dl); [|discriminate E]. inversion E; subst. reflexivity.
  Qed.
  Lemma run_write_ok wt data wr d path :
    match wt with
    | TTML => do c <- read_config "imsc_writer" parse_imsc data; Ok (WrTtml c)
    | SRT => do c <- read_config "srt_writer" parse_srt data; Ok (WrSrt c)
    | VTT => do c <- read_config "vtt_writer" parse_vtt data; Ok (WrVtt c)
    | SCC | STL => Raise EExitUnsupported end = Ok wr ->
    forall l, run_write wt data d path l =
              match write_doc wr d with
              | Ok b => ((l ++ [EvWrite wr]) ++ [EvOutput path], Ok (path, b))
              | Raise e => (l ++ [EvWrite wr], Raise e)
              end.
  Proof.
    intros E l. unfold Cli.run_write, Cli.call_writer, cbind, cthen, lift, emit, ret.
    destruct wt; try discriminate E; inv_bind E; inversion E; subst; destruct (write_doc _ d); reflexivity.
  Qed.

  Theorem run_follows_plan o i f p : convert o i f = Ok p ->
    forall l, run_convert o i f l = exec_plan p (o_input o) (o_output o) l.
  Proof.
    unfold convert. intro H. inv_bind H. inversion H; subst; clear H. intro l.
    unfold Cli.run_convert. unfold cbind at 1. rewrite (run_config_ok _ _ _ _ _ E E0 E1). cbn [fst snd].
    unfold cbind at 1. rewrite (run_types_ok _ _ _ E2 E3). cbn [fst snd].
    unfold cbind at 1. rewrite (run_read_ok _ _ _ _ E4).
    unfold exec_plan. cbn [p_progress p_level p_reader p_lang p_filters p_writer].
    destruct (read_doc a4 (o_input o)) as [d|e]; [|reflexivity].
    unfold cbind at 1. rewrite (run_lang_ok _ _ d E5).
    unfold cbind at 1. rewrite (run_filters_exec _ _ _ E6).
    destruct (exec_filters a6 _ _) as [l3 [d3|e]]; [|reflexivity].
    rewrite (run_write_ok _ _ _ d3 _ E7). destruct (write_doc a7 d3); reflexivity.
  Qed.

  (* ---------------------------------------------------------------- what "follow the plan" amounts to *)
  Lemma exec_filters_result fs : forall d l, snd (exec_filters fs d l) = filters_pipeline fs d.
  Proof.
    induction fs as [|f r IH]; intros d l; [reflexivity|]. cbn [exec_filters CliSpec.filters_pipeline].
    destruct (run_filter f d); [apply IH|reflexivity].
  Qed.
  Lemma exec_filters_log fs : forall d l d', filters_pipeline fs d = Ok d' -> fst (exec_filters fs d l) = l ++ List.map EvFilter fs.
  Proof.
    induction fs as [|f r IH]; intros d l d' H; [cbn; rewrite app_nil_r; reflexivity|]. cbn [exec_filters CliSpec.filters_pipeline List.map] in *.
    destruct (run_filter f d) as [d1|e]; [|discriminate H]. rewrite (IH _ _ _ H), <- app_assoc. reflexivity.
  Qed.
  Lemma exec_filters_quiet fs : forall d l, no_output_event l = true -> no_output_event (fst (exec_filters fs d l)) = true.
  Proof.
    induction fs as [|f r IH]; intros d l N; [exact N|]. cbn [exec_filters].
    assert (N' : no_output_event (l ++ [EvFilter f]) = true) by (unfold no_output_event in *; rewrite forallb_app, N; reflexivity).
    destruct (run_filter f d); [apply IH; exact N'|exact N'].
  Qed.
  Theorem exec_plan_result p input output l :
    snd (exec_plan p input output l) = match lib_pipeline p input with Ok b => Ok (output, b) | Raise e => Raise e end.
  Proof.
    unfold exec_plan, CliSpec.lib_pipeline. destruct (read_doc (p_reader p) input) as [d|e]; [|reflexivity].
    match goal with |- context [exec_filters ?fs ?d ?l] => pose proof (exec_filters_result fs d l) as R; destruct (exec_filters fs d l) as [l3 [d3|e]] end;
      cbn [snd] in R; rewrite <- R; [|reflexivity]. destruct (write_doc (p_writer p) d3); reflexivity.
  Qed.
  Theorem exec_plan_log p input output b :
    lib_pipeline p input = Ok b -> fst (exec_plan p input output []) = plan_events p input output.
  Proof.
    unfold exec_plan, CliSpec.lib_pipeline, plan_events. destruct (read_doc (p_reader p) input) as [d|e]; [|discriminate].
    set (d1 := match p_lang p with Some s => set_lang s d | None => d end).
    destruct (filters_pipeline (p_filters p) d1) as [d2|e] eqn:F; [|discriminate]. intro W.
    match goal with |- context [exec_filters ?fs ?d ?l] =>
      pose proof (exec_filters_log fs d l _ F) as L; pose proof (exec_filters_result fs d l) as R; destruct (exec_filters fs d l) as [l3 [d3|e]] end;
      cbn [fst snd] in L, R; rewrite F in R; [|discriminate R]. inversion R; subst. rewrite W. cbn [fst app].
    rewrite <- !app_assoc. reflexivity.
  Qed.
  Theorem exec_plan_no_output p input output l e :
    no_output_event l = true -> snd (exec_plan p input output l) = Raise e -> no_output_event (fst (exec_plan p input output l)) = true.
  Proof.
    intros N. unfold exec_plan.
    assert (A : forall l x, no_output_event l = true -> no_output_event x = true -> no_output_event (l ++ x) = true)
      by (intros; unfold no_output_event in *; rewrite forallb_app; apply andb_true_iff; auto).
    set (l1 := ((l ++ _) ++ _) ++ _).
    assert (N1 : no_output_event l1 = true).
    { unfold l1. repeat apply A; try exact N; try reflexivity; [destruct (p_progress p)|destruct (p_level p)]; reflexivity. }
    destruct (read_doc (p_reader p) input) as [d|e']; [|intros _; exact N1].
    set (l2 := l1 ++ _). assert (N2 : no_output_event l2 = true) by (unfold l2; apply A; [exact N1|destruct (p_lang p); reflexivity]).
    match goal with |- context [exec_filters ?fs ?d ?l] => pose proof (exec_filters_quiet fs d l N2) as Q; destruct (exec_filters fs d l) as [l3 [d3|e']] end;
      cbn [fst] in Q; [|intros _; exact Q].
    destruct (write_doc (p_writer p) d3); [discriminate|]. intros _. apply A; [exact Q|reflexivity].
  Qed.

  (* ---------------------------------------------------------------- without a plan the run fails; and it never opens
     the output file before its last step *)
  Lemma cbind_ok {A B} (c : comp A) (k : A -> comp B) l b :
    snd (cbind c k l) = Ok b -> exists a l', c l = (l', Ok a) /\ snd (k a l') = Ok b.
  Proof. unfold cbind. destruct (c l) as [l' [a|e]]; [eauto|discriminate]. Qed.
  Lemma run_config_inv i f l data g : snd (run_config i f l) = Ok (data, g) ->
    load_config i f = Ok data /\ read_config "general" parse_general data = Ok g /\
    exists lv, match g with
               | Some (ll, _, _) => if is_null ll then Ok None else do z <- check_level ll; Ok (Some z)
               | None => Ok None end = Ok lv.
  Proof.
    unfold run_config, cbind, cthen, lift, ret, emit. destruct (load_config i f) as [data'|] eqn:E; [|discriminate].
    destruct (read_config "general" parse_general data') as [g'|] eqn:E0; [|discriminate].
    destruct g' as [[[ll pb] dl]|]; cbn [fst snd].
    - destruct (is_null ll) eqn:N; cbn [snd].
      + intro H; inversion H; subst. rewrite N. eauto.
      + destruct (check_level ll) as [z|] eqn:C; cbn [snd]; [|discriminate]. intro H; inversion H; subst. rewrite N, C. cbn. eauto.
    - intro H; inversion H; subst. eauto.
  Qed.
  Lemma run_types_inv o l rt wt : snd (run_types o l) = Ok (rt, wt) ->
    get_file_type (o_itype o) (splitext (o_input o)) = Ok rt /\ get_file_type (o_otype o) (splitext (o_output o)) = Ok wt.
  Proof.
    unfold run_types, cbind, lift, ret. destruct (get_file_type (o_itype o) _) eqn:E; [|discriminate].
    destruct (get_file_type (o_otype o) _) eqn:E0; [|discriminate]. cbn. intro H; inversion H; subst. split; reflexivity.
  Qed.
  Lemma run_read_inv rt data path l d : snd (run_read rt data path l) = Ok d ->
    exists rd, match rt with
               | TTML => Ok RdTtml
               | SCC => do c <- read_config "scc_reader" parse_scc data; Ok (RdScc c)
               | STL => do c <- read_config "stl_reader" parse_stl data; Ok (RdStl c)
               | SRT => Ok RdSrt
               | VTT => Ok RdVtt end = Ok rd.
  Proof.
    unfold Cli.run_read, Cli.call_reader, cbind, cthen, lift, emit. destruct rt; eauto.
    - destruct (read_config "scc_reader" parse_scc data); [cbn; eauto|discriminate].
    - destruct (read_config "stl_reader" parse_stl data); [cbn; eauto|discriminate].
  Qed.
  Lemma run_lang_inv (g : option (json * bool * json)) d l d' : snd (run_lang g d l) = Ok d' ->
    exists lang, match g with
                 | Some (_, _, dl) => if is_null dl then Ok None else do s <- check_lang dl; Ok (Some s)
                 | None => Ok None end = Ok lang.
  Proof.
    unfold Cli.run_lang, cbind, cthen, lift, emit, ret. destruct g as [[[ll pb] dl]|]; [|eauto].
    destruct (is_null dl); [eauto|]. destruct (check_lang dl); [cbn; eauto|discriminate].
  Qed.
  Lemma run_write_inv wt data d path l x : snd (run_write wt data d path l) = Ok x ->
    exists wr, match wt with
               | TTML => do c <- read_config "imsc_writer" parse_imsc data; Ok (WrTtml c)
               | SRT => do c <- read_config "srt_writer" parse_srt data; Ok (WrSrt c)
               | VTT => do c <- read_config "vtt_writer" parse_vtt data; Ok (WrVtt c)
               | SCC | STL => Raise EExitUnsupported end = Ok wr.
  Proof.
    unfold Cli.run_write, Cli.call_writer, cbind, cthen, lift, emit, ret. destruct wt; try discriminate.
    - destruct (read_config "imsc_writer" parse_imsc data); [cbn; eauto|discriminate].
    - destruct (read_config "srt_writer" parse_srt data); [cbn; eauto|discriminate].
    - destruct (read_config "vtt_writer" parse_vtt data); [cbn; eauto|discriminate].
  Qed.
  Lemma run_filters_ok names data : forall d l d', snd (run_filters names data d l) = Ok d' -> exists fs, apply_filters names data = Ok fs.
  Proof.
    induction names as [|n r IH]; intros d l d' H; [cbn; eauto|]. cbn [Cli.run_filters apply_filters] in *.
    destruct (get_filter_by_name n) as [[]|]; [|exact (IH _ _ _ H)].
    unfold cbind, cthen, lift, emit in H. destruct (read_config "lcd" parse_lcd data) as [c|]; [|discriminate H].
    destruct (run_filter _ d) as [d1|]; [|discriminate H]. destruct (IH _ _ _ H) as (fs & ->). cbn [bind]. eauto.
  Qed.
  Theorem run_ok_has_plan o i f l x : snd (run_convert o i f l) = Ok x -> exists p, convert o i f = Ok p.
  Proof.
    unfold Cli.run_convert, convert. intro H.
    apply cbind_ok in H as ([data g] & l1 & C & H). apply cbind_ok in H as ([rt wt] & l2 & Ty & H).
    apply cbind_ok in H as (d & l3 & Rd & H). apply cbind_ok in H as (d1 & l4 & Lg & H). apply cbind_ok in H as (d2 & l5 & Fl & H).
    cbn [fst snd] in *.
    destruct (run_config_inv i f l data g ltac:(rewrite C; reflexivity)) as (X1 & X2 & lv & X3).
    rewrite X1. cbn [bind]. rewrite X2. cbn [bind]. rewrite X3. cbn [bind].
    destruct (run_types_inv o l1 rt wt ltac:(rewrite Ty; reflexivity)) as (X4 & X5). rewrite X4. cbn [bind]. rewrite X5. cbn [bind].
    destruct (run_read_inv rt data (o_input o) l2 d ltac:(rewrite Rd; reflexivity)) as (rd & ->). cbn [bind].
    destruct (run_lang_inv g d l3 d1 ltac:(rewrite Lg; reflexivity)) as (lang & ->). cbn [bind].
    destruct (run_filters_ok (o_filters o) data d1 l4 d2 ltac:(rewrite Fl; reflexivity)) as (fs & ->). cbn [bind].
    destruct (run_write_inv wt data d2 (o_output o) l5 x H) as (wr & ->). cbn [bind]. eauto.
  Qed.
  Corollary run_without_plan_fails o i f e : convert o i f = Raise e -> forall l, exists e', snd (run_convert o i f l) = Raise e'.
  Proof.
    intros H l. destruct (snd (run_convert o i f l)) as [x|e'] eqn:R; [|eauto].
    destruct (run_ok_has_plan _ _ _ _ _ R) as (p & P). rewrite P in H. discriminate H.
  Qed.

  (* quiet: never logs an output event; safe: logs one at most on the way to success *)
  Definition quiet {A} (c : comp A) : Prop := forall l, no_output_event l = true -> no_output_event (fst (c l)) = true.
  Definition safe {A} (c : comp A) : Prop :=
    forall l, no_output_event l = true -> forall e, snd (c l) = Raise e -> no_output_event (fst (c l)) = true.
  Lemma no_out_app l x : no_output_event l = true -> no_output_event x = true -> no_output_event (l ++ x) = true.
  Proof. intros. unfold no_output_event in *. rewrite forallb_app. apply andb_true_iff. auto. Qed.
  Lemma quiet_ret {A} (a : A) : quiet (ret a).
  Proof. intros l N. exact N. Qed.
  Lemma quiet_lift {A} (r : res A) : quiet (lift r).
  Proof. intros l N. exact N. Qed.
  Lemma quiet_emit e : (match e with EvOutput _ => false | _ => true end) = true -> quiet (emit e).
  Proof. intros E l N. unfold emit. cbn [fst]. apply no_out_app; [exact N|]. cbn. rewrite E. reflexivity. Qed.
  Lemma quiet_cbind {A B} (c : comp A) (k : A -> comp B) : quiet c -> (forall a, quiet (k a)) -> quiet (cbind c k).
  Proof.
    intros Qc Qk l N. unfold cbind. specialize (Qc l N). destruct (c l) as [l' [a|e]]; cbn [fst] in *; [apply Qk; exact Qc|exact Qc].
  Qed.
  Lemma safe_cbind {A B} (c : comp A) (k : A -> comp B) : quiet c -> (forall a, safe (k a)) -> safe (cbind c k).
  Proof.
    intros Qc Sk l N e. unfold cbind. specialize (Qc l N). destruct (c l) as [l' [a|e']]; cbn [fst snd] in *; [apply Sk; exact Qc|intros _; exact Qc].
  Qed.
  Lemma quiet_run_filters names data : forall d, quiet (run_filters names data d).
  Proof.
    induction names as [|n r IH]; intro d; [apply quiet_ret|]. cbn [Cli.run_filters].
    destruct (get_filter_by_name n) as [[]|]; [|apply IH].
    apply quiet_cbind; [apply quiet_lift|]. intro c. apply quiet_cbind; [apply quiet_emit; reflexivity|]. intros _.
    apply quiet_cbind; [apply quiet_lift|]. intro d'. apply IH.
  Qed.
  Lemma safe_call_writer w d path : safe (call_writer w d path).
  Proof.
    intros l N e. unfold Cli.call_writer, cthen, cbind, emit, lift, ret. destruct (write_doc w d); cbn [fst snd]; [discriminate|].
    intros _. apply no_out_app; [exact N|reflexivity].
  Qed.
  Theorem run_no_output_on_error o i f l e :
    no_output_event l = true -> snd (run_convert o i f l) = Raise e -> no_output_event (fst (run_convert o i f l)) = true.
  Proof.
    intros N H. revert l N e H. change (safe (run_convert o i f)). unfold Cli.run_convert.
    apply safe_cbind.
    { unfold run_config. apply quiet_cbind; [apply quiet_lift|]. intro data. apply quiet_cbind; [apply quiet_lift|]. intro g.
      apply quiet_cbind; [destruct g as [[[? ?] ?]|]; [apply quiet_emit; reflexivity|apply quiet_ret]|]. intros _.
      apply quiet_cbind; [|intros _; apply quiet_ret].
      destruct g as [[[ll ?] ?]|]; [|apply quiet_ret]. destruct (is_null ll); [apply quiet_ret|].
      apply quiet_cbind; [apply quiet_lift|]. intro z. apply quiet_emit. reflexivity. }
    intros dg. apply safe_cbind.
    { unfold run_types. apply quiet_cbind; [apply quiet_lift|]. intro rt. apply quiet_cbind; [apply quiet_lift|]. intro wt. apply quiet_ret. }
    intros tw. apply safe_cbind.
    { assert (Q : forall r, quiet (call_reader r (o_input o))).
      { intro r. unfold Cli.call_reader. apply quiet_cbind; [apply quiet_emit; reflexivity|]. intros _. apply quiet_lift. }
      unfold Cli.run_read. destruct (fst tw); try apply Q; (apply quiet_cbind; [apply quiet_lift|]); intro c; apply Q. }
    intros d. apply safe_cbind.
    { unfold Cli.run_lang. destruct (snd dg) as [[[? ?] dl]|]; [|apply quiet_ret]. destruct (is_null dl); [apply quiet_ret|].
      apply quiet_cbind; [apply quiet_lift|]. intro s. apply quiet_cbind; [apply quiet_emit; reflexivity|]. intros _. apply quiet_ret. }
    intros d1. apply safe_cbind; [apply quiet_run_filters|]. intros d2.
    unfold Cli.run_write. destruct (snd tw); try (apply safe_cbind; [apply quiet_lift|]; intro c; apply safe_call_writer);
      intros l N e _; exact N.
  Qed.
End Run.
