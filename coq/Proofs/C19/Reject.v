(* C19: HOW a configuration value is rejected, and the complete outcome of stl_reader.program_start_tc.
   Every decoder of Model/Cli.v that raises raises ValueError (its own "Invalid ... value. Expect: ..." error) — for ALL
   JSON values of all 19 keys, inside or outside README's table; every module section fails by ValueError or not at all,
   whatever it holds; and so does read_config_from_json on any JSON value at all (a configuration or a section that is
   not an object included).  (Until the repairs of stl_reader.program_start_tc / font_stack, scc_reader.text_align,
   general.document_lang / log_level and read_config_from_json, values of the wrong JSON type escaped as
   AttributeError / TypeError.) *)
From Coq Require Import String.
From TT Require Import Base.Prelude Base.CliTypes Gen.CliUnicode Model.Cli Spec.CliSpec Proofs.C19.Accept Proofs.C19.AcceptAll.

(* ------------------------------------------------------------------ "raises nothing but ValueError" *)
Definition only_value {A} (r : res A) : Prop := forall e, r = Raise e -> e = EValue.
Lemma ov_ok {A} (a : A) : only_value (Ok a).
Proof. intros e H. discriminate H. Qed.
Lemma ov_value {A} : only_value (@Raise A EValue).
Proof. intros e H. inversion H. reflexivity. Qed.
Lemma ov_bind {A B} (r : res A) (f : A -> res B) : only_value r -> (forall a, only_value (f a)) -> only_value (bind r f).
Proof. intros R F e H. destruct r as [a|e']; cbn [bind] in H; [exact (F a e H)|]. inversion H; subst. apply R. reflexivity. Qed.
Lemma ov_if {A} (b : bool) (x y : res A) : only_value x -> only_value y -> only_value (if b then x else y).
Proof. destruct b; auto. Qed.

Lemma ov_int_of_digits s : only_value (int_of_digits s).
Proof. unfold int_of_digits. apply ov_if; [apply ov_value|apply ov_ok]. Qed.
Lemma fraction_ok n d : (d =? 0) = false -> exists f, fraction n d = Ok f.
Proof. intro D. unfold fraction. rewrite D. eauto. Qed.
Lemma ov_dec_bool v : only_value (dec_bool v).
Proof. destruct v; first [apply ov_ok|apply ov_value]. Qed.
Lemma ov_dec_time_format v : only_value (dec_time_format v).
Proof. destruct v; try apply ov_value; try apply ov_ok. cbn [dec_time_format]. repeat apply ov_if; first [apply ov_ok|apply ov_value]. Qed.
Lemma ov_dec_fps v : only_value (dec_fps v).
Proof.
  destruct v; try apply ov_value; try apply ov_ok. cbn [dec_fps].
  destruct (split_on 47 s) as [|a [|b [|c r]]]; try apply ov_value.
  apply ov_if; [|apply ov_value]. apply ov_bind; [apply ov_int_of_digits|]. intro n.
  apply ov_if; [apply ov_value|]. apply ov_bind; [apply ov_int_of_digits|]. intro d.
  destruct (d =? 0) eqn:D; [apply ov_value|]. destruct (fraction_ok n d D) as (f & ->). cbn [bind]. apply ov_ok.
Qed.
Lemma ov_dec_start_tc v : only_value (dec_start_tc v).
Proof. destruct v; try apply ov_value; try apply ov_ok. cbn [dec_start_tc]. repeat apply ov_if; first [apply ov_ok|apply ov_value]. Qed.
Lemma ov_dec_font_stack v : only_value (dec_font_stack v).
Proof. destruct v; try apply ov_value; try apply ov_ok. cbn [dec_font_stack]. apply ov_if; [apply ov_ok|apply ov_value]. Qed.
Lemma ov_dec_max_row_count v : only_value (dec_max_row_count v).
Proof. destruct v; try apply ov_value; try apply ov_ok. cbn [dec_max_row_count]. apply ov_if; [apply ov_ok|apply ov_value]. Qed.
Lemma ov_dec_safe_area v : only_value (dec_safe_area v).
Proof. destruct v; try apply ov_value. cbn [dec_safe_area]. apply ov_if; [apply ov_value|apply ov_ok]. Qed.
Lemma ov_color_component s : only_value (color_component s).
Proof. unfold color_component. apply ov_bind; [apply ov_int_of_digits|]. intro z. apply ov_if; [apply ov_value|apply ov_ok]. Qed.
Lemma ov_parse_color s : only_value (parse_color s).
Proof.
  unfold parse_color. destruct (assocT (py_lower s) named_colors); [apply ov_ok|].
  destruct (match_hex s); [apply ov_ok|].
  destruct (match_rgb s) as [[[a b] c]|].
  { repeat (apply ov_bind; [apply ov_color_component|]; intro). apply ov_ok. }
  destruct (match_rgba s) as [[[[a b] c] d]|]; [|apply ov_value].
  repeat (apply ov_bind; [apply ov_color_component|]; intro). apply ov_ok.
Qed.
Lemma ov_dec_color v : only_value (dec_color v).
Proof. destruct v; try apply ov_value; try apply ov_ok. cbn [dec_color]. apply ov_bind; [apply ov_parse_color|]. intro. apply ov_ok. Qed.
Lemma ov_dec_scc_text_align v : only_value (dec_scc_text_align v).
Proof. destruct v; try apply ov_value. cbn [dec_scc_text_align]. repeat apply ov_if; first [apply ov_ok|apply ov_value]. Qed.
Lemma ov_dec_str_or_null v : only_value (dec_str_or_null v).
Proof. destruct v; first [apply ov_ok|apply ov_value]. Qed.

(* ------------------------------------------------------------------ one key at a time, all JSON values *)
Theorem decode_raises_value_error k v e : decode k v = Raise e -> e = EValue.
Proof.
  revert e. change (only_value (decode k v)).
  destruct k; unfold decode;
    try (apply ov_bind; [first [apply ov_dec_bool|apply ov_dec_time_format|apply ov_dec_fps|apply ov_dec_start_tc|apply ov_dec_font_stack
                                |apply ov_dec_max_row_count|apply ov_dec_safe_area|apply ov_dec_color|apply ov_dec_scc_text_align]|intro; apply ov_ok]).
  - (* log_level: a str that is not the name of a level is rejected by logging, with a ValueError too *)
    destruct v; cbn [dec_str_or_null bind is_null check_level]; try apply ov_ok; try apply ov_value.
    destruct (assocT s log_levels); cbn [bind]; [apply ov_ok|apply ov_value].
  - (* document_lang *) destruct v; cbn [dec_str_or_null bind is_null check_lang]; try apply ov_ok; apply ov_value.
Qed.
(* outside the triggers an undocumented value of the table is rejected, and by ValueError *)
Theorem config_rejects_value_error k v :
  in_table k v = true -> trigger k v = false -> documented k v = false -> decode k v = Raise EValue.
Proof.
  intros I Tr D. pose proof (proj1 (config_exact k v I Tr)) as A. unfold agrees, accepts in A.
  destruct (decode k v) as [c|e] eqn:E.
  - destruct A as [A _]. rewrite D in A. discriminate (A eq_refl).
  - rewrite (decode_raises_value_error k v e E). reflexivity.
Qed.

(* ------------------------------------------------------------------ whole sections *)
Lemma ov_field {A} d name (dec : json -> res A) dflt : (forall v, only_value (dec v)) -> only_value (field d name dec dflt).
Proof. intro H. unfold field. destruct (obj_get (T name) d); [apply H|apply ov_ok]. Qed.
Ltac ov_section :=
  repeat (apply ov_bind; [apply ov_field; first [exact ov_dec_bool|exact ov_dec_time_format|exact ov_dec_fps|exact ov_dec_start_tc
                                                 |exact ov_dec_font_stack|exact ov_dec_max_row_count|exact ov_dec_safe_area|exact ov_dec_color
                                                 |exact ov_dec_scc_text_align|exact ov_dec_str_or_null]|intro]); try apply ov_ok.
Theorem sections_raise_value_error d :
  only_value (parse_general d) /\ only_value (parse_imsc d) /\ only_value (parse_scc d) /\ only_value (parse_stl d) /\
  only_value (parse_srt d) /\ only_value (parse_vtt d) /\ only_value (parse_lcd d).
Proof.
  repeat split.
  - unfold parse_general. ov_section.
  - unfold parse_imsc. ov_section.
  - unfold parse_scc. apply ov_field. exact ov_dec_scc_text_align.
  - unfold parse_stl. ov_section.
  - unfold parse_srt. apply ov_field. exact ov_dec_bool.
  - unfold parse_vtt. ov_section.
  - unfold parse_lcd. ov_section.
Qed.
(* tt.py read_config_from_json, on ANY configuration value: a configuration or a section that is not a JSON object included *)
Theorem read_config_raises_value_error {A} name (parse : list (text * json) -> res A) data :
  (forall d, only_value (parse d)) -> only_value (read_config name parse data).
Proof.
  intro P. unfold read_config. destruct data as [[]|]; try apply ov_ok; try apply ov_value.
  destruct (obj_get (T name) l) as [[]|]; try apply ov_ok; try apply ov_value.
  apply ov_bind; [apply P|intro; apply ov_ok].
Qed.

(* ------------------------------------------------------------------ stl_reader.program_start_tc, completely *)
Lemma ci_tcp_upper s : ci_eq s (T "TCP") = true -> py_upper s = T "TCP".
Proof.
  unfold ci_eq. intro H. apply text_eqb_eq in H. change (List.map lc (T "TCP")) with [116; 99; 112] in H.
  destruct s as [|a [|b [|c [|x s]]]]; try discriminate H. cbn [List.map] in H. inversion H as [[A B C]]. clear H.
  assert (a = 84 \/ a = 116) as [-> | ->] by (unfold lc in A; destruct ((65 <=? a) && (a <=? 90)) eqn:?; lia).
  all: assert (b = 67 \/ b = 99) as [-> | ->] by (unfold lc in B; destruct ((65 <=? b) && (b <=? 90)) eqn:?; lia).
  all: assert (c = 80 \/ c = 112) as [-> | ->] by (unfold lc in C; destruct ((65 <=? c) && (c <=? 90)) eqn:?; lia).
  all: reflexivity.
Qed.
Lemma upper_tcp_iff s : text_eqb (py_upper s) (T "TCP") = ci_eq s (T "TCP").
Proof.
  destruct (ci_eq s (T "TCP")) eqn:C.
  - rewrite (ci_tcp_upper s C). reflexivity.
  - destruct (text_eqb (py_upper s) (T "TCP")) eqn:U; [|reflexivity]. rewrite (py_upper_ci _ _ tcp_plain U) in C. discriminate C.
Qed.
Lemma re_dot_lf c : re_dot c = negb (c =? 10).
Proof. unfold re_dot, re_dot_excluded, mem. cbn [existsb]. rewrite orb_false_r. reflexivity. Qed.
Lemma digit_sep c : digit c = true -> df_sep c = true.
Proof. unfold digit, df_sep. intro D. rewrite re_dot_lf. lia. Qed.
Lemma df_any_sep s : df_match s || ndf_match s = tc_any_sep s.
Proof.
  destruct (ndf_match s) eqn:N; [rewrite (ndf_df s N)|]; rewrite ?orb_false_r; cbn [orb].
  2: { destruct s as [|a [|b [|x [|c [|d [|y [|e [|f [|z [|g [|h [|]]]]]]]]]]]]; try reflexivity.
       unfold df_match, tc_any_sep, df_sep. change is_d with digit. cbn [forallb]. rewrite !re_dot_lf.
       destruct (digit a), (digit b), (digit c), (digit d), (digit e), (digit f), (digit g), (digit h); cbn [andb]; try reflexivity;
         rewrite ?andb_false_r; try reflexivity.
       destruct (x =? 10) eqn:X, (y =? 10) eqn:Y, (z =? 10) eqn:Z; cbn [negb andb orb]; rewrite ?andb_false_r, ?orb_true_r; try reflexivity; lia. }
  apply ndf_df in N. symmetry.
  destruct s as [|a [|b [|x [|c [|d [|y [|e [|f [|z [|g [|h [|]]]]]]]]]]]]; try discriminate N.
  unfold df_match in N. rewrite !andb_true_iff in N. destruct N as ((((((((((A & B) & X) & C) & D) & Y) & E) & F) & Z) & G) & H).
  unfold tc_any_sep. change is_d with digit in *. cbn [forallb]. rewrite A, B, C, D, E, F, G, H. cbn [andb].
  unfold df_sep in X, Y, Z. rewrite re_dot_lf in X, Y, Z.
  destruct (x =? 10) eqn:X', (y =? 10) eqn:Y', (z =? 10) eqn:Z'; cbn [negb andb]; try reflexivity; lia.
Qed.
(* null: not specified; "TCP" in any letter case: TCP; a complete time code (any three separators but a line feed): kept
   as written; every other string and every value that is not a string: ValueError *)
Theorem start_tc_outcome v :
  decode KStartTc v =
  match v with
  | JNull => Ok CNone
  | JStr s => if ci_eq s (T "TCP") then Ok (CText (T "TCP")) else if tc_any_sep s then Ok (CText s) else Raise EValue
  | _ => Raise EValue
  end.
Proof.
  destruct v; try reflexivity. unfold decode, dec_start_tc. rewrite upper_tcp_iff, df_any_sep.
  destruct (ci_eq s (T "TCP")); [reflexivity|]. destruct (tc_any_sep s); reflexivity.
Qed.
(* the documented time codes are among them, and nothing but the recorded leniency is added *)
Theorem start_tc_documented_or_lenient s :
  accepts KStartTc (JStr s) = (documented KStartTc (JStr s) || trigger_lenient KStartTc (JStr s)) && (ci_eq s (T "TCP") || tc_any_sep s).
Proof.
  unfold accepts. rewrite start_tc_outcome.
  assert (A : is_ok (if ci_eq s (T "TCP") then Ok (CText (T "TCP")) else if tc_any_sep s then Ok (CText s) else Raise EValue) = ci_eq s (T "TCP") || tc_any_sep s).
  { destruct (ci_eq s (T "TCP")); [reflexivity|]. destruct (tc_any_sep s); reflexivity. }
  rewrite A. clear A. destruct (ci_eq s (T "TCP") || tc_any_sep s) eqn:X; [|rewrite andb_false_r; reflexivity].
  rewrite andb_true_r. symmetry. cbn [documented trigger_lenient].
  destruct (text_eqb s (T "TCP")) eqn:E; [reflexivity|]. cbn [negb andb orb].
  destruct (ci_eq s (T "TCP")) eqn:C; [apply orb_true_r|]. cbn [orb] in *.
  destruct s as [|a [|b [|x [|c [|d [|y [|e [|f [|z [|g [|h [|]]]]]]]]]]]]; try discriminate X.
  unfold tc_any_sep in X. cbn [forallb] in X. rewrite !andb_true_iff in X.
  destruct X as ((A & B & C' & D & E' & F & G & H & _) & _).
  destruct ((x =? 58) && (y =? 58) && (z =? 58)) eqn:S; cbn [negb]; [|apply orb_true_r].
  rewrite !andb_true_iff in S. destruct S as ((Sx & Sy) & Sz). apply Z.eqb_eq in Sx, Sy, Sz. subst x y z.
  rewrite tc_ok_of_shape; [reflexivity|]. cbn [forallb]. rewrite A, B, C', D, E', F, G, H. reflexivity.
Qed.
