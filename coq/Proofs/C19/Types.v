(* C19: type inference.  FileTypes.get_file_type composed with posixpath.splitext (Model/Cli.v) resolves to type t
   exactly when the specification's type_ok holds (Spec/CliSpec.v): the --itype/--otype argument if given, else the
   file extension, compared case-insensitively; otherwise the run ends with an error. *)
From Coq Require Import String.
From TT Require Import Base.Prelude Base.CliTypes Gen.CliUnicode Model.Cli Spec.CliSpec Proofs.C19.Plan.

(* ------------------------------------------------------------------ rsplit *)
Lemma rsplit_some c s a b : rsplit c s = Some (a, b) -> s = a ++ c :: b /\ ~ In c b.
Proof.
  revert a b; induction s as [|x t IH]; intros a b H; cbn [rsplit] in H; [discriminate|].
  destruct (rsplit c t) as [[a' b']|] eqn:R.
  - inversion H; subst. destruct (IH _ _ eq_refl) as [-> N]. split; [reflexivity|exact N].
  - destruct (x =? c) eqn:E; [|discriminate]. inversion H; subst. apply Z.eqb_eq in E; subst. split; [reflexivity|].
    clear -R. induction b as [|y b IH]; [intros []|]. cbn [rsplit] in R.
    destruct (rsplit c b) as [[? ?]|]; [discriminate|]. destruct (y =? c) eqn:E; [discriminate|].
    intros [->|I]; [rewrite Z.eqb_refl in E; discriminate|]. exact (IH eq_refl I).
Qed.
Lemma rsplit_none c s : rsplit c s = None -> ~ In c s.
Proof.
  induction s as [|y b IH]; [intros _ []|]. cbn [rsplit].
  destruct (rsplit c b) as [[? ?]|]; [discriminate|]. destruct (y =? c) eqn:E; [discriminate|].
  intros _ [->|I]; [rewrite Z.eqb_refl in E; discriminate|]. exact (IH eq_refl I).
Qed.
Lemma rsplit_notin c s : ~ In c s -> rsplit c s = None.
Proof.
  intro N. destruct (rsplit c s) as [[a b]|] eqn:R; [|reflexivity].
  destruct (rsplit_some _ _ _ _ R) as [-> _]. exfalso. apply N. apply in_or_app. right. left. reflexivity.
Qed.
Lemma rsplit_app c a b : ~ In c b -> rsplit c (a ++ c :: b) = Some (a, b).
Proof.
  intro N. induction a as [|x a IH]; cbn [app rsplit].
  - rewrite (rsplit_notin _ _ N). rewrite Z.eqb_refl. reflexivity.
  - rewrite IH. reflexivity.
Qed.
Lemma mem_In c l : mem c l = true <-> In c l.
Proof.
  unfold mem. rewrite existsb_exists. split.
  - intros (x & I & E). apply Z.eqb_eq in E. subst. exact I.
  - intro I. exists c. split; [exact I|apply Z.eqb_refl].
Qed.

(* the file name proper, M's way and S's way *)
Definition m_name (stem : text) : text := match rsplit 47 stem with Some (_, b) => b | None => stem end.
Lemma until_slash_app a b : ~ In 47 a -> until_slash (a ++ 47 :: b) = a.
Proof.
  induction a as [|x a IH]; intro N; cbn [app until_slash]; [reflexivity|].
  destruct (x =? 47) eqn:E; [apply Z.eqb_eq in E; subst; exfalso; apply N; left; reflexivity|].
  rewrite IH; [reflexivity|]. intro I. apply N. right. exact I.
Qed.
Lemma until_slash_notin a : ~ In 47 a -> until_slash a = a.
Proof.
  induction a as [|x a IH]; intro N; cbn [until_slash]; [reflexivity|].
  destruct (x =? 47) eqn:E; [apply Z.eqb_eq in E; subst; exfalso; apply N; left; reflexivity|].
  rewrite IH; [reflexivity|]. intro I. apply N. right. exact I.
Qed.
Lemma name_agree stem : m_name stem = last_component stem.
Proof.
  unfold m_name, last_component. destruct (rsplit 47 stem) as [[a b]|] eqn:R.
  - destruct (rsplit_some _ _ _ _ R) as [-> N]. rewrite rev_app_distr. cbn [rev]. rewrite <- app_assoc. cbn [app].
    rewrite until_slash_app; [rewrite rev_involutive; reflexivity|]. intro I. apply N. apply in_rev. exact I.
  - rewrite until_slash_notin; [rewrite rev_involutive; reflexivity|].
    intro I. apply (rsplit_none _ _ R). apply in_rev. exact I.
Qed.

(* ------------------------------------------------------------------ str.lower against an ASCII literal *)
Lemma lc_ascii_lower c : lc c = ascii_lower c.
Proof. reflexivity. Qed.
(* the only non-ASCII characters whose lower-case image is ASCII give k (regenerated table) *)
Lemma lower_table c i : assocZ c lower_ascii = Some i -> i = [107].
Proof.
  unfold lower_ascii. cbn [assocZ]. destruct (c =? 8490); intro H; inversion H; reflexivity.
Qed.
Definition plain_lit (lit : text) : Prop := Forall (fun x => 0 <= x < 128 /\ x <> 107) lit.
Lemma py_lower_lit s lit : plain_lit lit -> (py_lower s = lit <-> List.map lc s = lit).
Proof.
  revert lit; induction s as [|c s IH]; intros lit P.
  - cbn. tauto.
  - change (py_lower (c :: s)) with ((if c <? 128 then [ascii_lower c] else match assocZ c lower_ascii with Some i => i | None => [c] end) ++ py_lower s).
    cbn [List.map]. destruct (c <? 128) eqn:A.
    + cbn [app]. change (lc c) with (ascii_lower c). destruct lit as [|h lit]; [split; discriminate|].
      inversion P; subst. specialize (IH lit H2). split; intro H; inversion H; subst; f_equal; apply IH; reflexivity.
    + assert (NA : lc c = c) by (unfold lc; destruct ((65 <=? c) && (c <=? 90)) eqn:E; [lia|reflexivity]).
      rewrite NA. destruct (assocZ c lower_ascii) as [i|] eqn:L.
      * rewrite (lower_table _ _ L). cbn [app]. split; intro H.
        -- destruct lit as [|h lit]; [discriminate|]. inversion H; subst. inversion P; subst. lia.
        -- destruct lit as [|h lit]; [discriminate|]. inversion H; subst. inversion P; subst. lia.
      * cbn [app]. split; intro H; destruct lit as [|h lit]; try discriminate; inversion H; subst; inversion P; subst; lia.
Qed.

Lemma tname_plain t : plain_lit (tname t).
Proof. destruct t; vm_compute; repeat constructor; try lia; discriminate. Qed.
Lemma tname_lc t : List.map lc (tname t) = tname t.
Proof. destruct t; reflexivity. Qed.
Lemma ci_eq_tname s t : ci_eq s (tname t) = true <-> List.map lc s = tname t.
Proof. unfold ci_eq. rewrite tname_lc. apply text_eqb_eq. Qed.

(* FileTypes(value) *)
Lemma file_type_of_value_iff v t : file_type_of_value v = Ok t <-> v = tname t.
Proof.
  unfold file_type_of_value, file_types. cbn [assocT]. split.
  - repeat match goal with |- context [text_eqb v ?l] => let E := fresh "E" in destruct (text_eqb v l) eqn:E end;
      intro H; inversion H; subst;
      repeat match goal with E : text_eqb _ _ = true |- _ => apply text_eqb_eq in E end; subst; try reflexivity; assumption.
  - intros ->. destruct t; reflexivity.
Qed.
Lemma lookup_lower s t : file_type_of_value (py_lower s) = Ok t <-> ci_eq s (tname t) = true.
Proof. rewrite file_type_of_value_iff, ci_eq_tname. apply py_lower_lit. apply tname_plain. Qed.

(* ------------------------------------------------------------------ splitext *)
Definition nondot (c : Z) : bool := negb (c =? 46).
Lemma splitext_cases p :
  (splitext p = [] /\ forall stem e, p = stem ++ 46 :: e -> ~ In 46 e -> ~ In 47 e -> existsb nondot (last_component stem) = false) \/
  (exists stem e, p = stem ++ 46 :: e /\ ~ In 46 e /\ ~ In 47 e /\ existsb nondot (last_component stem) = true /\ splitext p = 46 :: e).
Proof.
  unfold splitext. destruct (rsplit 46 p) as [[stem e]|] eqn:R.
  - destruct (rsplit_some _ _ _ _ R) as [-> N46].
    assert (U : forall stem' e', stem ++ 46 :: e = stem' ++ 46 :: e' -> ~ In 46 e' -> stem' = stem /\ e' = e).
    { intros stem' e' Eq N'. pose proof (rsplit_app 46 stem' e' N') as R'. rewrite <- Eq in R'. rewrite R in R'. inversion R'; auto. }
    destruct (mem 47 e) eqn:M.
    + left. split; [reflexivity|]. intros stem' e' Eq N1 N2. destruct (U _ _ Eq N1) as [-> ->].
      exfalso. apply N2. apply mem_In. exact M.
    + fold (m_name stem). rewrite name_agree. fold nondot. destruct (existsb nondot (last_component stem)) eqn:X.
      * right. exists stem, e. repeat split; try assumption. intro I. apply mem_In in I. congruence.
      * left. split; [reflexivity|]. intros stem' e' Eq N1 N2. destruct (U _ _ Eq N1) as [-> ->]. exact X.
  - left. split; [reflexivity|]. intros stem e -> _ _. exfalso. apply (rsplit_none _ _ R). apply in_or_app. right. left. reflexivity.
Qed.

(* characters of a type name are letters: an extension equal to one (up to case) has neither dot nor slash *)
Lemma lc_letter_inv c x : lc c = x -> 97 <= x <= 122 -> c <> 46 /\ c <> 47.
Proof. unfold lc. destruct ((65 <=? c) && (c <=? 90)) eqn:E; intros; lia. Qed.
Lemma tname_letters t : Forall (fun x => 97 <= x <= 122) (tname t).
Proof. destruct t; vm_compute; repeat constructor; discriminate. Qed.
Lemma ext_no_sep e t : List.map lc e = tname t -> ~ In 46 e /\ ~ In 47 e.
Proof.
  intro H. pose proof (tname_letters t) as L. rewrite <- H in L. clear H.
  induction e as [|c e IH]; [split; intros []|]. cbn [List.map] in L. inversion L; subst.
  destruct (IH H2) as [A B]. destruct (lc_letter_inv c _ eq_refl H1) as [C D].
  split; intros [->|I]; auto.
Qed.

Lemma nth_split_dot (p : text) k : nth_error p k = Some 46 -> p = firstn k p ++ 46 :: skipn (S k) p.
Proof.
  revert k; induction p as [|x p IH]; intros [|k] H; try discriminate; cbn in *.
  - inversion H; reflexivity.
  - f_equal. apply IH. exact H.
Qed.
Lemma skipn_after (stem e : text) x : skipn (S (length stem)) (stem ++ x :: e) = e.
Proof. induction stem as [|y stem IH]; [reflexivity|exact IH]. Qed.
Lemma firstn_before (stem e : text) : firstn (length stem) (stem ++ e) = stem.
Proof. induction stem as [|y stem IH]; [destruct e; reflexivity|cbn; f_equal; exact IH]. Qed.
Lemma nth_at (stem e : text) x : nth_error (stem ++ x :: e) (length stem) = Some x.
Proof. induction stem as [|y stem IH]; [reflexivity|exact IH]. Qed.
Lemma ext_at_split stem e t :
  ext_at (stem ++ 46 :: e) t (length stem) = ci_eq e (tname t) && names_a_file stem.
Proof. unfold ext_at. rewrite nth_at, skipn_after, firstn_before. reflexivity. Qed.

Theorem types_iff g p t : get_file_type g (splitext p) = Ok t <-> type_ok g p t = true.
Proof.
  destruct g as [g|]; cbn [get_file_type type_ok]; [apply lookup_lower|].
  set (ext := splitext p). set (e' := match ext with 46 :: r => r | _ => ext end).
  rewrite lookup_lower, existsb_exists. subst e' ext.
  destruct (splitext_cases p) as [[E None_]|(stem & e & P & N46 & N47 & Nm & E)]; rewrite E.
  - split; [intro H; vm_compute in H; destruct t; discriminate|].
    intros (k & _ & X). exfalso. unfold ext_at in X. destruct (nth_error p k) as [c|] eqn:Nth; [|discriminate].
    destruct (c =? 46) eqn:C; [apply Z.eqb_eq in C; subst c|
      destruct c as [|c|c]; try discriminate; repeat (destruct c as [c|c|]; try discriminate)].
    apply andb_true_iff in X as [X1 X2]. apply ci_eq_tname in X1. destruct (ext_no_sep _ _ X1) as [A B].
    pose proof (None_ _ _ (nth_split_dot _ _ Nth) A B) as F. unfold names_a_file in X2. fold nondot in X2. congruence.
  - split.
    + intro H. exists (length stem). split.
      * apply in_seq. subst p. rewrite app_length. cbn. lia.
      * subst p. rewrite ext_at_split. rewrite H. unfold names_a_file. fold nondot. rewrite Nm. reflexivity.
    + intros (k & _ & X). unfold ext_at in X. destruct (nth_error p k) as [c|] eqn:Nth; [|discriminate].
      destruct (c =? 46) eqn:C; [apply Z.eqb_eq in C; subst c|
        destruct c as [|c|c]; try discriminate; repeat (destruct c as [c|c|]; try discriminate)].
      apply andb_true_iff in X as [X1 X2]. pose proof X1 as X1'. apply ci_eq_tname in X1'. destruct (ext_no_sep _ _ X1') as [A B].
      pose proof (nth_split_dot _ _ Nth) as Sp. rewrite P in Sp at 1.
      pose proof (rsplit_app 46 stem e N46) as R1. rewrite Sp in R1. rewrite (rsplit_app 46 _ _ A) in R1.
      injection R1 as H0 H1. rewrite <- H1. exact X1.
Qed.

Theorem types_unique g p t t' : type_ok g p t = true -> type_ok g p t' = true -> t = t'.
Proof. rewrite <- !types_iff. intros A B. rewrite A in B. inversion B. reflexivity. Qed.

(* a conversion plan exists only for resolved types, and the resolved output type can be written *)
Theorem plan_types n o i f p :
  plan (Subcommand n o) i f = OPlan p ->
  type_ok (o_itype o) (o_input o) (reader_type (p_reader p)) = true /\
  type_ok (o_otype o) (o_output o) (writer_type (p_writer p)) = true /\ writable (writer_type (p_writer p)) = true.
Proof.
  unfold plan. rewrite is_subcommand. destruct (text_eqb n (T "convert")); [|discriminate].
  destruct (convert o i f) eqn:C; [|discriminate]. intro H; inversion H; subst.
  destruct (convert_ok _ _ _ _ C) as (rt & wt & R & W & <- & <- & Wr & _).
  rewrite <- !types_iff. auto.
Qed.
(* unsupported input type, or an output type that is unknown or cannot be written: error, whatever else is given *)
Theorem unsupported_types o i f :
  (forall t, type_ok (o_itype o) (o_input o) t = false) \/
  (forall t, writable t = true -> type_ok (o_otype o) (o_output o) t = false) ->
  exists e, plan (Subcommand (T "convert") o) i f = OError e.
Proof.
  intro H. change (plan (Subcommand (T "convert") o) i f) with (match convert o i f with Ok p => OPlan p | Raise e => OError e end).
  destruct (convert o i f) eqn:C; [exfalso|eauto].
  destruct (convert_ok _ _ _ _ C) as (rt & wt & R & W & _ & _ & Wr & _).
  apply types_iff in R. apply types_iff in W. destruct H as [H|H]; [rewrite H in R|rewrite (H _ Wr) in W]; discriminate.
Qed.
