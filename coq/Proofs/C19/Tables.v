(* Tie 1 for C19: the hand transcription in Model/Cli.v agrees with what harness/gen_c19.py regenerated from the
   source on every run (Gen/CliTables.v): file-type table, filter registry, dataclass fields in order (all optional,
   so ModuleConfiguration.validate never raises on a dict) with the name of their decoder, decoded defaults, the shape
   of tt.convert read from its AST (order of effects, reader and writer dispatch with their configuration sections),
   the argparse declarations (sub-commands, option strings, destinations, actions, required, defaults), and every
   decoder on the fixed probe set.  If the code changes, these stop compiling and the check runs its violation search. *)
From Coq Require Import String.
From TT Require Import Base.Prelude Base.CliTypes Gen.CliUnicode Model.Cli Spec.CliSpec Model.CliCases Gen.CliTables Gen.CliShape.

Fixpoint all2 {A B} (f : A -> B -> bool) (a : list A) (b : list B) : bool :=
  match a, b with [], [] => true | x :: a', y :: b' => f x y && all2 f a' b' | _, _ => false end.
Definition tt_eqb (a b : text * text) : bool := text_eqb (fst a) (fst b) && text_eqb (snd a) (snd b).

(* FileTypes: member values are the keys of M's table, in order; member names are the upper-cased values *)
Lemma file_types_agree :
  list_eqb text_eqb (List.map snd gen_file_types) (List.map fst file_types) = true /\
  forallb (fun nv => text_eqb (py_upper (snd nv)) (fst nv)) gen_file_types = true.
Proof. vm_compute. split; reflexivity. Qed.

(* DocumentFilter._all_filters: exactly the LCD filter, registered under its configuration section name *)
Lemma filter_registry_agrees :
  list_eqb tt_eqb gen_filter_registry [(T "lcd", T "lcd")] = true /\
  list_eqb text_eqb (List.map fst gen_filter_registry) (List.map fst filter_registry) = true.
Proof. vm_compute. split; reflexivity. Qed.

(* configuration classes: section names, field names in dataclass order, every field optional for validate(), and the
   decoder attached to each field is the function M transcribes under that name *)
Lemma config_fields_agree :
  all2 (fun g m => text_eqb (fst (fst g)) (T (fst m)) &&
                       all2 (fun gf mf => text_eqb (fst (fst gf)) (T (fst mf)) && text_eqb (snd gf) (T (snd mf))) (snd g) (snd m) &&
                       forallb (fun gf => snd (fst gf)) (snd g))
           gen_config_fields config_table = true.
Proof. vm_compute. reflexivity. Qed.
(* the specification's key table names the same fields *)
Lemma spec_keys_agree :
  forallb (fun m => list_eqb String.eqb (List.map fst (keys_of (fst m))) (List.map fst (snd m))) config_table = true.
Proof. vm_compute. reflexivity. Qed.

(* the body of tt.convert, read from its AST: the order of its effects, and which reader / writer is called with which
   configuration section for which file type — M's tables, and through them S's sections_in_use *)
Definition dispatch_eqb (g : text * text * option text) (m : ftype * (string * option string)) : bool :=
  match g, m with
  | (v, alias, sec), (t, (malias, msec)) =>
      opt_eqb text_eqb (Some v) (option_map fst (find (fun vt => Z.eqb (ftype_code (snd vt)) (ftype_code t)) file_types)) &&
      text_eqb alias (T malias) && opt_eqb text_eqb sec (option_map T msec)
  end.
Lemma convert_shape_agrees :
  list_eqb text_eqb gen_phases (List.map (fun p => T (phase_name p)) phase_order) = true /\
  all2 dispatch_eqb gen_reader_table reader_table = true /\ all2 dispatch_eqb gen_writer_table writer_table = true.
Proof. vm_compute. repeat split; reflexivity. Qed.
(* S's reading of which section goes with which type is the same table *)
Lemma spec_sections_agree :
  forallb (fun t => list_eqb String.eqb
                      (match t with SCC => ["scc_reader"] | STL => ["stl_reader"] | _ => [] end)%string
                      (match assocT (tname t) (List.map (fun r => (tname (fst r), snd (snd r))) reader_table) with
                       | Some (Some x) => [x] | _ => [] end)) all_ftypes = true /\
  forallb (fun t => Bool.eqb (writable t) (match assocT (tname t) (List.map (fun r => (tname (fst r), tt)) writer_table) with Some _ => true | None => false end) &&
                    list_eqb String.eqb
                      (match t with TTML => ["imsc_writer"] | SRT => ["srt_writer"] | VTT => ["vtt_writer"] | _ => [] end)%string
                      (match assocT (tname t) (List.map (fun r => (tname (fst r), snd (snd r))) writer_table) with
                       | Some (Some x) => [x] | _ => [] end)) all_ftypes = true.
Proof. vm_compute. split; reflexivity. Qed.

(* argparse: the sub-commands; every option string of `convert` with its destination; `store` with one argument
   everywhere except `filter` (append, default []) and help; exactly input and output are required; and S's flags
   are the same option strings (without -h/--help) *)
Definition dest_name (d : dest) : string :=
  match d with DHelp => "help" | DInput => "input" | DOutput => "output" | DItype => "itype" | DOtype => "otype" | DFilter => "filter"
             | DConfig => "config" | DConfigFile => "config_file" end%string.
Definition option_row_ok (g : text * text * text * bool * text) (m : text * dest) : bool :=
  match g with (o, d, kind, req, dflt) =>
    text_eqb o (fst m) && text_eqb d (T (dest_name (snd m))) &&
    text_eqb kind (T (match snd m with DHelp => "_HelpAction" | DFilter => "_AppendAction" | _ => "_StoreAction" end)%string) &&
    Bool.eqb req (existsb (fun r => dest_code r =? dest_code (snd m)) required_dests) &&
    text_eqb dflt (T (match snd m with DHelp => "'==SUPPRESS=='" | DFilter => "[]" | _ => "None" end)%string)
  end.
Lemma argparse_agrees :
  list_eqb text_eqb gen_subcommands subcommands = true /\ all2 option_row_ok gen_options option_strings = true /\
  all2 (fun (a : text * dest) (b : string * dest) => text_eqb (fst a) (T (fst b)) && (dest_code (snd a) =? dest_code (snd b)))
           (List.filter (fun od => negb (dest_code (snd od) =? 0)) option_strings) spec_flags = true.
Proof. vm_compute. repeat split; reflexivity. Qed.

Lemma defaults_agree :
  default_scc = gen_default_scc /\ default_stl = gen_default_stl /\ default_imsc = gen_default_imsc /\
  default_srt = gen_default_srt /\ default_vtt = gen_default_vtt /\ default_lcd = gen_default_lcd /\
  default_general = gen_default_general.
Proof. vm_compute. repeat split; reflexivity. Qed.

(* every decoder on the probe set: same decoded value or same exception class as the code *)
Lemma probes_agree : forallb probe_ok gen_probes = true.
Proof. vm_compute. reflexivity. Qed.
(* and the README table judged on the code's answers: only recorded findings are departed from *)
Lemma probes_spec_ok : forallb (fun p => negb (probe_class p =? 9) && negb (probe_class p =? 8)) gen_probes = true.
Proof. vm_compute. reflexivity. Qed.
(* and how the code rejected: by ValueError, always *)
Lemma probes_escape_ok : forallb (fun p => probe_escape p =? 0) gen_probes = true.
Proof. vm_compute. reflexivity. Qed.
