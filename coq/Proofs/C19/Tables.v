(* Tie 1 for C19: the hand transcription in Model/Cli.v agrees with what harness/gen_c19.py regenerated from the
   source on every run (Gen/CliTables.v): file-type table, filter registry, dataclass fields in order (all optional,
   so ModuleConfiguration.validate never raises on a dict), decoded defaults, and every decoder on the fixed probe
   set.  If the code changes, these stop compiling and the check runs its violation search. *)
From Coq Require Import String.
From TT Require Import Base.Prelude Base.CliTypes Gen.CliUnicode Model.Cli Spec.CliSpec Model.CliCases Gen.CliTables.

Fixpoint all2 {A B} (f : A -> B -> bool) (a : list A) (b : list B) : bool :=
  match a, b with [], [] => true | x :: a', y :: b' => f x y && all2 f a' b' | _, _ => false end.
Definition tt_eqb (a b : text * text) : bool := text_eqb (fst a) (fst b) && text_eqb (snd a) (snd b).

(* FileTypes: member values are the keys of M's table, in order; member names are the upper-cased values *)
Lemma file_types_agree :
  list_eqb text_eqb (List.map snd gen_file_types) (List.map fst file_types) = true /\
  forallb (fun nv => text_eqb (py_upper (snd nv)) (fst nv)) gen_file_types = true.
Proof. vm_compute. split; reflexivity. Qed.

(* DocumentFilter._all_filters: exactly the LCD filter, registered under its configuration section name *)
Lemma filter_registry_agrees :
  list_eqb tt_eqb gen_filter_registry [(T "lcd", T "lcd")] = true /\
  list_eqb text_eqb (List.map fst gen_filter_registry) (List.map fst filter_registry) = true.
Proof. vm_compute. split; reflexivity. Qed.

(* configuration classes: section names, field names in dataclass order, every field optional for validate();
   exactly the general section has no decoders *)
Definition model_fields : list (string * list string) :=
  [("general", ["log_level"; "progress_bar"; "document_lang"]);
   ("imsc_writer", ["time_format"; "fps"]);
   ("scc_reader", ["text_align"]);
   ("stl_reader", ["disable_fill_line_gap"; "program_start_tc"; "disable_line_padding"; "font_stack"; "max_row_count"]);
   ("srt_writer", ["text_formatting"]);
   ("vtt_writer", ["line_position"; "text_align"; "cue_id"]);
   ("lcd", ["safe_area"; "preserve_text_align"; "color"; "bg_color"])]%string.
Lemma config_fields_agree :
  all2 (fun g m => text_eqb (fst g) (T (fst m)) &&
                       all2 (fun gf mf => text_eqb (fst (fst gf)) (T mf)) (snd g) (snd m) &&
                       forallb (fun gf => snd (fst gf)) (snd g) &&
                       forallb (fun gf => Bool.eqb (snd gf) (negb (text_eqb (fst g) (T "general")))) (snd g))
           gen_config_fields model_fields = true.
Proof. vm_compute. reflexivity. Qed.
(* the specification's key table names the same fields *)
Lemma spec_keys_agree :
  forallb (fun m => list_eqb String.eqb (List.map fst (keys_of (fst m))) (snd m)) model_fields = true.
Proof. vm_compute. reflexivity. Qed.

Lemma defaults_agree :
  default_scc = gen_default_scc /\ default_stl = gen_default_stl /\ default_imsc = gen_default_imsc /\
  default_srt = gen_default_srt /\ default_vtt = gen_default_vtt /\ default_lcd = gen_default_lcd /\
  default_general = gen_default_general.
Proof. vm_compute. repeat split; reflexivity. Qed.

(* every decoder on the probe set: same decoded value or same exception class as the code *)
Lemma probes_agree : forallb probe_ok gen_probes = true.
Proof. vm_compute. reflexivity. Qed.
(* and the README table judged on the code's answers: only recorded findings are departed from *)
Lemma probes_spec_ok : forallb (fun p => negb (probe_class p =? 9)) gen_probes = true.
Proof. vm_compute. reflexivity. Qed.
