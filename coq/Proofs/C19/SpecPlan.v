(* C19: the plan is the one README prescribes.  For every command line and every configuration whose consulted values
   lie inside the documented table and outside the triggers of the recorded findings (Spec/CliSpec.v clean), Model/Cli.v
   convert returns exactly Spec/CliSpec.v spec_plan — reader by --itype / extension with its section, document_lang,
   the known filters in command-line order each configured from "lcd", writer by --otype / extension with its section,
   every key carrying the documented meaning of its value or its README default — and fails when spec_plan has no plan
   (an undocumented value, a section that is not an object, an unresolvable or unwritable type). *)
From Coq Require Import String.
From TT Require Import Base.Prelude Base.CliTypes Gen.CliUnicode Model.Cli Spec.CliSpec Proofs.C19.Plan Proofs.C19.Types
  Proofs.C19.Accept Proofs.C19.AcceptAll.

(* ------------------------------------------------------------------ typed decoders *)
Definition decides {A} (k : key) (dec : json -> res A) (mean : json -> A) : Prop :=
  forall v, in_table k v = true -> trigger k v = false ->
            (documented k v = true -> dec v = Ok (mean v)) /\ (documented k v = false -> exists e, dec v = Raise e).
Lemma decides_of_exact {A} k (dec : json -> res A) (wrap : A -> cval) (mean : json -> A) :
  (forall v, decode k v = do x <- dec v; Ok (wrap x)) -> (forall v, meaning k v = wrap (mean v)) ->
  (forall a b, wrap a = wrap b -> a = b) -> decides k dec mean.
Proof.
  intros D M Inj v I Tr. split; intro Doc.
  - pose proof (config_meaning k v I Tr Doc) as H. rewrite D, M in H. destruct (dec v) as [x|e]; [|discriminate H].
    cbn [bind] in H. inversion H as [W]. apply Inj in W. subst. reflexivity.
  - destruct (config_rejects k v I Tr Doc) as (e & H). rewrite D in H. destruct (dec v) as [x|e']; [discriminate H|eauto].
Qed.
Lemma cbool_inj a b : CBool a = CBool b -> a = b.
Proof. intro H; inversion H; reflexivity. Qed.
Lemma copt_inj {A} (f : A -> cval) : (forall a b, f a = f b -> a = b) -> (forall a, f a <> CNone) -> forall x y, copt f x = copt f y -> x = y.
Proof.
  intros Inj NN [a|] [b|]; cbn [copt]; intro H; try reflexivity.
  - f_equal. apply Inj. exact H.
  - exfalso. exact (NN _ H).
  - exfalso. symmetry in H. exact (NN _ H).
Qed.
Lemma dec_bool_decides k : bool_key k = true -> decides k dec_bool mean_bool.
Proof. intro K. apply (decides_of_exact k dec_bool CBool mean_bool); [destruct k; try discriminate K; reflexivity ..|exact cbool_inj]. Qed.
Lemma dec_time_format_decides : decides KTimeFormat dec_time_format mean_tfmt.
Proof.
  apply (decides_of_exact _ _ (copt CTfmt)); try reflexivity. apply copt_inj; [intros a b H; inversion H; reflexivity|discriminate].
Qed.
Lemma dec_fps_decides : decides KFps dec_fps mean_fps.
Proof.
  apply (decides_of_exact _ _ (copt (fun f : Z * Z => CFrac (fst f) (snd f)))); try reflexivity.
  apply copt_inj; [intros [a b] [c d] H; inversion H; reflexivity|discriminate].
Qed.
Lemma dec_scc_decides : decides KSccTextAlign dec_scc_text_align mean_align.
Proof. apply (decides_of_exact _ _ CAlign); try reflexivity. intros a b H; inversion H; reflexivity. Qed.
Lemma ctext_inj : forall x y, copt CText x = copt CText y -> x = y.
Proof. apply copt_inj; [intros a b H; inversion H; reflexivity|discriminate]. Qed.
Lemma dec_start_tc_decides : decides KStartTc dec_start_tc mean_text.
Proof. apply (decides_of_exact _ _ (copt CText)); try reflexivity. exact ctext_inj. Qed.
Lemma dec_font_stack_decides : decides KFontStack dec_font_stack mean_text.
Proof. apply (decides_of_exact _ _ (copt CText)); try reflexivity. exact ctext_inj. Qed.
Lemma dec_max_row_decides : decides KMaxRowCount dec_max_row_count mean_mrc.
Proof.
  apply (decides_of_exact _ _ (copt CMrc)); try reflexivity. apply copt_inj; [intros a b H; inversion H; reflexivity|discriminate].
Qed.
Lemma dec_safe_area_decides : decides KSafeArea dec_safe_area mean_int.
Proof. apply (decides_of_exact _ _ CInt); try reflexivity. intros a b H; inversion H; reflexivity. Qed.
Lemma dec_color_decides k : color_key k = true -> decides k dec_color mean_color.
Proof.
  intro K. apply (decides_of_exact k _ (copt (fun c : rgba => match c with (r, g, b, a) => CColor r g b a end)));
    [destruct k; try discriminate K; reflexivity ..|].
  apply copt_inj; [intros [[[a b] c] d] [[[a' b'] c'] d'] H; inversion H; reflexivity|intros [[[a b] c] d]; discriminate].
Qed.

(* ------------------------------------------------------------------ one field *)
Definition value_clean (k : key) (o : option json) : bool :=
  match o with None => true | Some v => in_table k v && negb (trigger k v) end.
Lemma field_sval {A} d name k (dec : json -> res A) (mean : json -> A) dflt :
  decides k dec mean -> value_clean k (obj_get (T name) d) = true ->
  match sval (JObj d) name k mean dflt with
  | Some a => field d name dec dflt = Ok a
  | None => exists e, field d name dec dflt = Raise e
  end.
Proof.
  intros D C. unfold sval, field. change (jget name (JObj d)) with (obj_get (T name) d).
  destruct (obj_get (T name) d) as [v|]; [|reflexivity]. cbn [value_clean] in C. apply andb_true_iff in C as [I Tr].
  apply negb_true_iff in Tr. destruct (D v I Tr) as [Y N]. destruct (documented k v); [exact (Y eq_refl)|exact (N eq_refl)].
Qed.
Definition keys_clean (sec : string) (d : list (text * json)) : bool :=
  forallb (fun nk => value_clean (snd nk) (obj_get (T (fst nk)) d)) (keys_of sec).

(* ------------------------------------------------------------------ one module *)
Definition agrees_module {A} (spec : option A) (parsed : res A) : Prop :=
  match spec with Some c => parsed = Ok c | None => exists e, parsed = Raise e end.
Ltac use_field H :=
  let X := fresh "X" in
  pose proof H as X;
  match type of X with
  | match ?s with Some _ => _ | None => _ end => destruct s; [rewrite X; cbn [bind]|destruct X as (? & X); rewrite X; cbn [bind agrees_module]; eauto]
  end; clear X.
Lemma module_scc d : keys_clean "scc_reader" d = true -> agrees_module (spec_scc (JObj d)) (parse_scc d).
Proof.
  unfold keys_clean. cbn [keys_of String.eqb Ascii.eqb Bool.eqb forallb fst snd]. rewrite andb_true_r. intro C.
  unfold spec_scc, parse_scc, agrees_module. exact (field_sval d "text_align" KSccTextAlign _ _ _ dec_scc_decides C).
Qed.
Lemma module_srt d : keys_clean "srt_writer" d = true -> agrees_module (spec_srt (JObj d)) (parse_srt d).
Proof.
  unfold keys_clean. cbn [keys_of String.eqb Ascii.eqb Bool.eqb forallb fst snd]. rewrite andb_true_r. intro C.
  unfold spec_srt, parse_srt, agrees_module. exact (field_sval d "text_formatting" KTextFormatting _ _ _ (dec_bool_decides KTextFormatting eq_refl) C).
Qed.
Lemma module_imsc d : keys_clean "imsc_writer" d = true -> agrees_module (spec_imsc (JObj d)) (parse_imsc d).
Proof.
  unfold keys_clean. cbn [keys_of String.eqb Ascii.eqb Bool.eqb forallb fst snd]. rewrite andb_true_r. intro C.
  apply andb_true_iff in C as [C1 C2]. unfold spec_imsc, parse_imsc. cbv beta iota delta [default_imsc im_time_format im_fps].
  use_field (field_sval d "time_format" KTimeFormat _ _ None dec_time_format_decides C1).
  use_field (field_sval d "fps" KFps _ _ None dec_fps_decides C2).
  cbn [agrees_module]. reflexivity.
Qed.
Lemma module_vtt d : keys_clean "vtt_writer" d = true -> agrees_module (spec_vtt (JObj d)) (parse_vtt d).
Proof.
  unfold keys_clean. cbn [keys_of String.eqb Ascii.eqb Bool.eqb forallb fst snd]. rewrite andb_true_r. intro C.
  apply andb_true_iff in C as [C1 C]. apply andb_true_iff in C as [C2 C3]. unfold spec_vtt, parse_vtt. cbv beta iota delta [default_vtt vt_line_position vt_text_align vt_cue_id].
  use_field (field_sval d "line_position" KLinePosition _ _ false (dec_bool_decides KLinePosition eq_refl) C1).
  use_field (field_sval d "text_align" KVttTextAlign _ _ false (dec_bool_decides KVttTextAlign eq_refl) C2).
  use_field (field_sval d "cue_id" KCueId _ _ true (dec_bool_decides KCueId eq_refl) C3).
  cbn [agrees_module]. reflexivity.
Qed.
Lemma module_stl d : keys_clean "stl_reader" d = true -> agrees_module (spec_stl (JObj d)) (parse_stl d).
Proof.
  unfold keys_clean. cbn [keys_of String.eqb Ascii.eqb Bool.eqb forallb fst snd]. rewrite andb_true_r. intro C.
  apply andb_true_iff in C as [C1 C]. apply andb_true_iff in C as [C2 C]. apply andb_true_iff in C as [C3 C]. apply andb_true_iff in C as [C4 C5].
  unfold spec_stl, parse_stl. cbv beta iota delta [default_stl st_fill_gap st_start_tc st_line_padding st_font_stack st_max_row].
  use_field (field_sval d "disable_fill_line_gap" KFillLineGap _ _ false (dec_bool_decides KFillLineGap eq_refl) C1).
  use_field (field_sval d "program_start_tc" KStartTc _ _ None dec_start_tc_decides C2).
  use_field (field_sval d "disable_line_padding" KLinePadding _ _ false (dec_bool_decides KLinePadding eq_refl) C3).
  use_field (field_sval d "font_stack" KFontStack _ _ None dec_font_stack_decides C4).
  use_field (field_sval d "max_row_count" KMaxRowCount _ _ None dec_max_row_decides C5).
  cbn [agrees_module]. reflexivity.
Qed.
Lemma module_lcd d : keys_clean "lcd" d = true -> agrees_module (spec_lcd (JObj d)) (parse_lcd d).
Proof.
  unfold keys_clean. cbn [keys_of String.eqb Ascii.eqb Bool.eqb forallb fst snd]. rewrite andb_true_r. intro C.
  apply andb_true_iff in C as [C1 C]. apply andb_true_iff in C as [C2 C]. apply andb_true_iff in C as [C3 C4].
  unfold spec_lcd, parse_lcd. cbv beta iota delta [default_lcd lc_safe_area lc_preserve_text_align lc_color lc_bg_color].
  use_field (field_sval d "safe_area" KSafeArea _ _ 10 dec_safe_area_decides C1).
  use_field (field_sval d "preserve_text_align" KPreserveTextAlign _ _ false (dec_bool_decides KPreserveTextAlign eq_refl) C2).
  use_field (field_sval d "color" KColor _ _ None (dec_color_decides KColor eq_refl) C3).
  use_field (field_sval d "bg_color" KBgColor _ _ None (dec_color_decides KBgColor eq_refl) C4).
  cbn [agrees_module]. reflexivity.
Qed.

(* ------------------------------------------------------------------ the general section: log_level and document_lang
   are kept as given by GeneralConfiguration.parse and interpreted by convert *)
Definition level_dec (v : json) : res (option Z) := if is_null v then Ok None else do z <- check_level v; Ok (Some z).
Definition lang_dec (v : json) : res (option text) := if is_null v then Ok None else do s <- check_lang v; Ok (Some s).
(* the two steps together: GeneralConfiguration.parse lets None and any str through, convert interprets it *)
Definition via_str {A} (dec : json -> res A) (v : json) : res A := do x <- dec_str_or_null v; dec x.
Lemma level_decides : decides KLogLevel (via_str level_dec) mean_level.
Proof.
  apply (decides_of_exact _ _ (copt CInt)); [| reflexivity |apply copt_inj; [intros a b H; inversion H; reflexivity|discriminate]].
  intro v. unfold decode, via_str, level_dec. destruct (dec_str_or_null v) as [x|]; [|reflexivity]. cbn [bind].
  destruct (is_null x); [reflexivity|]. destruct (check_level x); reflexivity.
Qed.
Lemma lang_decides : decides KDocumentLang (via_str lang_dec) mean_text.
Proof.
  apply (decides_of_exact _ _ (copt CText)); [| reflexivity |exact ctext_inj].
  intro v. unfold decode, via_str, lang_dec. destruct (dec_str_or_null v) as [x|]; [|reflexivity]. cbn [bind].
  destruct (is_null x); [reflexivity|]. destruct (check_lang x); reflexivity.
Qed.
Lemma field_via {A} d name dflt (dec : json -> res A) (a : A) :
  dec_str_or_null dflt = Ok dflt -> dec dflt = Ok a ->
  field d name (via_str dec) a = do x <- field d name dec_str_or_null dflt; dec x.
Proof. intros H1 H2. unfold field, via_str. destruct (obj_get (T name) d); [reflexivity|]. cbn [bind]. symmetry. exact H2. Qed.
(* what convert makes of the parsed general section *)
Definition level_of (g : option (json * bool * json)) : res (option Z) :=
  match g with Some (ll, _, _) => if is_null ll then Ok None else do z <- check_level ll; Ok (Some z) | None => Ok None end.
Definition lang_of (g : option (json * bool * json)) : res (option text) :=
  match g with Some (_, _, dl) => if is_null dl then Ok None else do s <- check_lang dl; Ok (Some s) | None => Ok None end.
Definition progress_of (g : option (json * bool * json)) : option bool := match g with Some (_, pb, _) => Some pb | None => None end.
Lemma module_general d : keys_clean "general" d = true ->
  match spec_general (JObj d) with
  | Some (lv, pb, lang) => exists ll dl, parse_general d = Ok (ll, pb, dl) /\ level_dec ll = Ok lv /\ lang_dec dl = Ok lang
  | None => (exists e, parse_general d = Raise e) \/
            exists ll pb dl, parse_general d = Ok (ll, pb, dl) /\ ((exists e, level_dec ll = Raise e) \/ (exists e, lang_dec dl = Raise e))
  end.
Proof.
  unfold keys_clean. cbn [keys_of String.eqb Ascii.eqb Bool.eqb forallb fst snd]. rewrite andb_true_r. intro C.
  apply andb_true_iff in C as [C1 C]. apply andb_true_iff in C as [C2 C3].
  unfold parse_general, default_general. cbn [fst snd]. unfold spec_general.
  pose proof (field_sval d "log_level" KLogLevel _ _ (Some 20) level_decides C1) as L.
  pose proof (field_sval d "progress_bar" KProgressBar _ _ true (dec_bool_decides KProgressBar eq_refl) C2) as P.
  pose proof (field_sval d "document_lang" KDocumentLang _ _ None lang_decides C3) as G.
  rewrite (field_via d "log_level" (JStr (T "INFO")) level_dec (Some 20) eq_refl eq_refl) in L.
  rewrite (field_via d "document_lang" JNull lang_dec None eq_refl eq_refl) in G.
  revert L P G.
  destruct (sval (JObj d) "log_level" KLogLevel mean_level (Some 20)) as [lv|];
    destruct (sval (JObj d) "progress_bar" KProgressBar mean_bool true) as [pb|];
    destruct (sval (JObj d) "document_lang" KDocumentLang mean_text None) as [lang|];
    destruct (field d "log_level" dec_str_or_null (JStr (T "INFO"))) as [ll|e1];
    destruct (field d "progress_bar" dec_bool true) as [pb'|e2];
    destruct (field d "document_lang" dec_str_or_null JNull) as [dl|e3]; cbn [bind]; intros L P G;
    try discriminate L; try discriminate P; try discriminate G;
    try (destruct L as (? & L); discriminate L); try (destruct P as (? & P); discriminate P); try (destruct G as (? & G); discriminate G);
    try (left; eexists; reflexivity).
  all: try (inversion P; subst; exists ll, dl; repeat split; assumption).
  all: right; exists ll, pb', dl; (split; [reflexivity|]); first [left; exact L|right; exact G].
Qed.

(* ------------------------------------------------------------------ sections *)
Definition top_ok (cfg : option json) : bool := match cfg with None | Some JNull | Some (JObj _) => true | Some _ => false end.
Lemma section_clean_keys name l d : obj_get (T name) l = Some (JObj d) -> section_clean name (Some (JObj l)) = keys_clean name d.
Proof.
  intro H. unfold section_clean, section. change (jget name (JObj l)) with (obj_get (T name) l). rewrite H. reflexivity.
Qed.
Lemma read_config_smodule {A} name (parse : list (text * json) -> res A) (spec : json -> option A) cfg :
  top_ok cfg = true -> (forall d, keys_clean name d = true -> agrees_module (spec (JObj d)) (parse d)) ->
  section_clean name cfg = true -> agrees_module (smodule name spec cfg) (read_config name parse cfg).
Proof.
  intros Top M C. unfold smodule, ssection, read_config. destruct cfg as [[]|]; try discriminate Top; try reflexivity.
  change (jget name (JObj l)) with (obj_get (T name) l).
  destruct (obj_get (T name) l) as [[]|] eqn:E; try reflexivity; try (cbn; eauto).
  rewrite (section_clean_keys _ _ _ E) in C. specialize (M _ C). unfold agrees_module in *.
  destruct (spec (JObj l0)); [rewrite M; reflexivity|destruct M as (e & ->); cbn; eauto].
Qed.
Lemma general_section cfg : top_ok cfg = true -> section_clean "general" cfg = true ->
  match smodule "general" spec_general cfg with
  | Some sg => exists g, read_config "general" parse_general cfg = Ok g /\
                         level_of g = Ok (match sg with Some (l, _, _) => l | None => None end) /\
                         lang_of g = Ok (match sg with Some (_, _, l) => l | None => None end) /\
                         progress_of g = match sg with Some (_, b, _) => Some b | None => None end
  | None => (exists e, read_config "general" parse_general cfg = Raise e) \/
            exists g, read_config "general" parse_general cfg = Ok g /\ ((exists e, level_of g = Raise e) \/ (exists e, lang_of g = Raise e))
  end.
Proof.
  intros Top C. unfold smodule, ssection, read_config. destruct cfg as [[]|]; try discriminate Top; try (exists None; repeat split; reflexivity).
  change (jget "general" (JObj l)) with (obj_get (T "general") l).
  destruct (obj_get (T "general") l) as [[]|] eqn:E; try (exists None; repeat split; reflexivity); try (left; cbn; eauto).
  rewrite (section_clean_keys _ _ _ E) in C. pose proof (module_general _ C) as M.
  destruct (spec_general (JObj l0)) as [[[lv pb] lang]|].
  - destruct M as (ll & dl & -> & L & G). cbn [bind]. exists (Some (ll, pb, dl)). repeat split; assumption.
  - destruct M as [(e & ->)|(ll & pb & dl & -> & M)]; [left; cbn; eauto|]. right. exists (Some (ll, pb, dl)). split; [reflexivity|exact M].
Qed.

(* ------------------------------------------------------------------ types *)
Lemma type_find g p : match find_type g p with
                      | Some t => get_file_type g (splitext p) = Ok t
                      | None => exists e, get_file_type g (splitext p) = Raise e
                      end.
Proof.
  unfold find_type. destruct (find (type_ok g p) all_types) as [t|] eqn:F.
  - apply find_some in F as [_ F]. apply types_iff. exact F.
  - destruct (get_file_type g (splitext p)) as [t|e] eqn:G; [|eauto]. apply types_iff in G.
    pose proof (find_none _ _ F t) as N. rewrite N in G; [discriminate G|]. destruct t; cbn; tauto.
Qed.

(* ------------------------------------------------------------------ filters *)
Lemma apply_filters_none names data : existsb spec_known_filter names = false -> apply_filters names data = Ok [].
Proof.
  induction names as [|n r IH]; [reflexivity|]. cbn [existsb apply_filters]. intro H. apply orb_false_iff in H as [A B].
  rewrite <- known_filter_spec in A. unfold known_filter in A. destruct (get_filter_by_name n); [discriminate A|]. exact (IH B).
Qed.
Lemma apply_filters_some names data c :
  read_config "lcd" parse_lcd data = Ok c ->
  apply_filters names data = Ok (List.map (fun _ => FLcd (match c with Some c => c | None => default_lcd end)) (List.filter spec_known_filter names)).
Proof.
  intro R. induction names as [|n r IH]; [reflexivity|]. cbn [apply_filters List.filter]. rewrite <- known_filter_spec. unfold known_filter.
  destruct (get_filter_by_name n) as [[]|]; [|exact IH]. rewrite R, IH. reflexivity.
Qed.
Lemma apply_filters_fail names data e :
  read_config "lcd" parse_lcd data = Raise e -> existsb spec_known_filter names = true -> exists e', apply_filters names data = Raise e'.
Proof.
  intros R. induction names as [|n r IH]; [discriminate|]. cbn [apply_filters existsb]. rewrite <- known_filter_spec. unfold known_filter.
  destruct (get_filter_by_name n) as [[]|]; [intros _; rewrite R; cbn; eauto|]. cbn [orb]. exact IH.
Qed.

(* ------------------------------------------------------------------ the whole plan *)
Lemma load_ok i f : sources_ok i f = true -> load_config i f = Ok (effective i f).
Proof. destruct i, f; try discriminate; reflexivity. Qed.
Ltac fail_step :=
  match goal with
  | |- exists e, bind ?r _ = Raise e => let E := fresh "E" in destruct r eqn:E; [cbn [bind]|cbn [bind]; eauto]
  end.
Definition spec_reader (rt : ftype) (cfg : option json) : option reader :=
  match rt with
  | TTML => Some RdTtml | SRT => Some RdSrt | VTT => Some RdVtt
  | SCC => option_map RdScc (smodule "scc_reader" spec_scc cfg)
  | STL => option_map RdStl (smodule "stl_reader" spec_stl cfg)
  end.
Definition spec_filters (names : list text) (cfg : option json) : option (list filter_app) :=
  if existsb spec_known_filter names
  then match smodule "lcd" spec_lcd cfg with
       | Some c => let c := match c with Some c => c | None => Build_lcd_cfg 10 false None None end in
                   Some (List.map (fun _ => FLcd c) (List.filter spec_known_filter names))
       | None => None
       end
  else Some [].
Definition spec_writer (wt : ftype) (cfg : option json) : option writer :=
  match wt with
  | TTML => option_map WrTtml (smodule "imsc_writer" spec_imsc cfg)
  | SRT => option_map WrSrt (smodule "srt_writer" spec_srt cfg)
  | VTT => option_map WrVtt (smodule "vtt_writer" spec_vtt cfg)
  | SCC | STL => None
  end.
Lemma spec_plan_unfold o cfg : top_ok cfg = true ->
  spec_plan o cfg =
  match smodule "general" spec_general cfg, find_type (o_itype o) (o_input o), find_type (o_otype o) (o_output o) with
  | Some g, Some rt, Some wt =>
      match spec_reader rt cfg, spec_filters (o_filters o) cfg, spec_writer wt cfg with
      | Some rd, Some fs, Some wr =>
          Some (Build_plan_t rd (match g with Some (_, _, l) => l | None => None end) fs wr
                             (match g with Some (l, _, _) => l | None => None end)
                             (match g with Some (_, b, _) => Some b | None => None end))
      | _, _, _ => None
      end
  | _, _, _ => None
  end.
Proof. intro Top. unfold spec_plan. destruct cfg as [[]|]; try discriminate Top; reflexivity. Qed.
Definition m_reader (rt : ftype) (cfg : option json) : res reader :=
  match rt with
  | TTML => Ok RdTtml
  | SCC => do c <- read_config "scc_reader" parse_scc cfg; Ok (RdScc c)
  | STL => do c <- read_config "stl_reader" parse_stl cfg; Ok (RdStl c)
  | SRT => Ok RdSrt
  | VTT => Ok RdVtt
  end.
Definition m_writer (wt : ftype) (cfg : option json) : res writer :=
  match wt with
  | TTML => do c <- read_config "imsc_writer" parse_imsc cfg; Ok (WrTtml c)
  | SRT => do c <- read_config "srt_writer" parse_srt cfg; Ok (WrSrt c)
  | VTT => do c <- read_config "vtt_writer" parse_vtt cfg; Ok (WrVtt c)
  | SCC | STL => Raise EExitUnsupported
  end.
Lemma convert_unfold o i f cfg : load_config i f = Ok cfg ->
  convert o i f =
  do g <- read_config "general" parse_general cfg;
  do level <- level_of g;
  do rt <- get_file_type (o_itype o) (splitext (o_input o));
  do wt <- get_file_type (o_otype o) (splitext (o_output o));
  do rd <- m_reader rt cfg;
  do lang <- lang_of g;
  do fs <- apply_filters (o_filters o) cfg;
  do wr <- m_writer wt cfg;
  Ok (Build_plan_t rd lang fs wr level (progress_of g)).
Proof. intro L. unfold convert. rewrite L. reflexivity. Qed.
Lemma option_map_agrees {A B} (f : A -> B) (s : option A) (r : res A) :
  agrees_module s r -> agrees_module (option_map f s) (do c <- r; Ok (f c)).
Proof. unfold agrees_module. destruct s; [intros ->; reflexivity|intros (e & ->); cbn; eauto]. Qed.
Lemma reader_agrees rt cfg wt names :
  top_ok cfg = true -> (forall s, In s (sections_in_use rt wt names) -> section_clean s cfg = true) ->
  agrees_module (spec_reader rt cfg) (m_reader rt cfg).
Proof.
  intros Top C. destruct rt; try reflexivity; unfold spec_reader, m_reader; apply option_map_agrees.
  - apply (read_config_smodule "scc_reader" parse_scc spec_scc cfg Top module_scc). apply C. unfold sections_in_use. cbn. tauto.
  - apply (read_config_smodule "stl_reader" parse_stl spec_stl cfg Top module_stl). apply C. unfold sections_in_use. cbn. tauto.
Qed.
Lemma in_use_writer rt wt names s :
  In s (match wt with TTML => ["imsc_writer"%string] | SRT => ["srt_writer"%string] | VTT => ["vtt_writer"%string] | _ => [] end) ->
  In s (sections_in_use rt wt names).
Proof. intro H. unfold sections_in_use. apply in_or_app. right. apply in_or_app. right. apply in_or_app. right. exact H. Qed.
Lemma writer_agrees rt cfg wt names :
  top_ok cfg = true -> (forall s, In s (sections_in_use rt wt names) -> section_clean s cfg = true) ->
  agrees_module (spec_writer wt cfg) (m_writer wt cfg).
Proof.
  intros Top C. destruct wt; try (cbn; eauto; fail); unfold spec_writer, m_writer; apply option_map_agrees.
  - apply (read_config_smodule "imsc_writer" parse_imsc spec_imsc cfg Top module_imsc). apply C. apply in_use_writer. left. reflexivity.
  - apply (read_config_smodule "srt_writer" parse_srt spec_srt cfg Top module_srt). apply C. apply in_use_writer. left. reflexivity.
  - apply (read_config_smodule "vtt_writer" parse_vtt spec_vtt cfg Top module_vtt). apply C. apply in_use_writer. left. reflexivity.
Qed.
Lemma filters_agree rt cfg wt names :
  top_ok cfg = true -> (forall s, In s (sections_in_use rt wt names) -> section_clean s cfg = true) ->
  agrees_module (spec_filters names cfg) (apply_filters names cfg).
Proof.
  intros Top C. unfold spec_filters. destruct (existsb spec_known_filter names) eqn:K; [|cbn; apply apply_filters_none; exact K].
  assert (Cs : section_clean "lcd" cfg = true).
  { apply C. unfold sections_in_use. rewrite K. apply in_or_app. right. apply in_or_app. right. apply in_or_app. left. left. reflexivity. }
  pose proof (read_config_smodule "lcd" parse_lcd spec_lcd cfg Top module_lcd Cs) as M. unfold agrees_module in *.
  destruct (smodule "lcd" spec_lcd cfg) as [c|]; [exact (apply_filters_some _ _ _ M)|].
  destruct M as (e & M). exact (apply_filters_fail _ _ _ M K).
Qed.

Theorem plan_is_spec o i f :
  sources_ok i f = true -> clean o (effective i f) = true -> agrees_module (spec_plan o (effective i f)) (convert o i f).
Proof.
  intros S C. rewrite (convert_unfold o i f _ (load_ok _ _ S)). set (cfg := effective i f) in *.
  destruct (top_ok cfg) eqn:Top.
  2:{ (* the configuration is not an object: no plan, and the first section read fails *)
      assert (N : spec_plan o cfg = None) by (unfold spec_plan; destruct cfg as [[]|]; try discriminate Top; reflexivity).
      rewrite N. assert (R : read_config "general" parse_general cfg = Raise EValue) by (destruct cfg as [[]|]; try discriminate Top; reflexivity).
      rewrite R. cbn. eauto. }
  rewrite (spec_plan_unfold o cfg Top).
  assert (Cg : section_clean "general" cfg = true).
  { unfold clean in C. rewrite forallb_forall in C. apply C. unfold sections_consulted.
    destruct (find_type (o_itype o) (o_input o)); [destruct (find_type (o_otype o) (o_output o))|]; left; reflexivity. }
  pose proof (general_section cfg Top Cg) as G.
  pose proof (type_find (o_itype o) (o_input o)) as Ti. pose proof (type_find (o_otype o) (o_output o)) as To.
  destruct (smodule "general" spec_general cfg) as [sg|].
  2:{ cbn [agrees_module]. destruct G as [(e & ->)|(g & -> & [(e & L)|(e & L)])]; [cbn; eauto| |]; cbn [bind]; rewrite L.
      - cbn. eauto.
      - repeat fail_step. eauto. }
  destruct G as (g & -> & L & Lg & Pg). cbn [bind]. rewrite L, Lg, Pg. cbn [bind].
  destruct (find_type (o_itype o) (o_input o)) as [rt|] eqn:Fi; [|destruct Ti as (e & ->); cbn; eauto]. rewrite Ti. cbn [bind].
  destruct (find_type (o_otype o) (o_output o)) as [wt|] eqn:Fo; [|destruct To as (e & ->); cbn; eauto]. rewrite To. cbn [bind].
  assert (C' : forall s, In s (sections_in_use rt wt (o_filters o)) -> section_clean s cfg = true).
  { unfold clean, sections_consulted in C. rewrite Fi, Fo in C. rewrite forallb_forall in C. exact C. }
  pose proof (reader_agrees rt cfg wt _ Top C') as R. pose proof (filters_agree rt cfg wt _ Top C') as F.
  pose proof (writer_agrees rt cfg wt _ Top C') as W. unfold agrees_module in R, F, W.
  destruct (spec_reader rt cfg) as [rd|]; [rewrite R; cbn [bind]|destruct R as (e & ->); cbn; eauto].
  destruct (spec_filters (o_filters o) cfg) as [fs|]; [rewrite F; cbn [bind]|destruct F as (e & ->); cbn; eauto].
  destruct (spec_writer wt cfg) as [wr|]; [rewrite W; cbn [bind agrees_module]; reflexivity|destruct W as (e & ->); cbn; eauto].
Qed.
(* without readable configuration sources there is no plan either *)
Theorem bad_sources_fail o i f : sources_ok i f = false -> exists e, convert o i f = Raise e.
Proof. intro S. unfold convert. destruct i, f; try discriminate S; cbn; eauto. Qed.
