(* C19: configuration acceptance, all keys but the colours and the font stack (AcceptColor.v, AcceptFont.v).
   For every key, the decoder of Model/Cli.v accepts a JSON value of the table (non-null; null too for the colours)
   exactly when README documents it (Spec/CliSpec.v documented), and then decodes it to its documented meaning
   (Spec/CliSpec.v meaning) — outside the executable triggers of the recorded findings. *)
From Coq Require Import String.
From TT Require Import Base.Prelude Base.CliTypes Gen.CliUnicode Model.Cli Spec.CliSpec Proofs.C19.Types.

(* ------------------------------------------------------------------ finite string sets *)
Lemma one_of_In s l : one_of s l = true <-> In s (List.map T l).
Proof.
  unfold one_of. rewrite existsb_exists. split.
  - intros (x & I & E). apply text_eqb_eq in E. subst. apply in_map. exact I.
  - intro I. apply in_map_iff in I as (x & <- & I). exists x. split; [exact I|]. apply text_eqb_eq. reflexivity.
Qed.
Lemma one_of_false s l : one_of s l = false <-> ~ In s (List.map T l).
Proof. rewrite <- one_of_In. destruct (one_of s l); split; congruence. Qed.
Lemma assocT_In {A} s (l : list (text * A)) : (exists v, assocT s l = Some v) <-> In s (List.map fst l).
Proof.
  induction l as [|[k v] l IH]; cbn [assocT List.map In fst].
  - split; [intros (v & H); discriminate|intros []].
  - destruct (text_eqb s k) eqn:E.
    + apply text_eqb_eq in E. subst. split; eauto.
    + rewrite IH. split; [auto|]. intros [->|I]; [|exact I].
      assert (text_eqb s s = true) by (apply text_eqb_eq; reflexivity). congruence.
Qed.

(* ------------------------------------------------------------------ str.lower / str.upper *)
Lemma py_lower_id s : forallb lower_letter s = true -> py_lower s = s.
Proof.
  induction s as [|c s IH]; [reflexivity|]. cbn [forallb]. intro H. apply andb_true_iff in H as [L R].
  change (py_lower (c :: s)) with ((if c <? 128 then [ascii_lower c] else match assocZ c lower_ascii with Some i => i | None => [c] end) ++ py_lower s).
  unfold lower_letter in L. assert (c <? 128 = true) as -> by lia. rewrite (IH R). cbn [app]. f_equal.
  unfold ascii_lower. destruct ((65 <=? c) && (c <=? 90)) eqn:E; lia.
Qed.
(* every non-ASCII character whose upper-case image is ASCII yields an image starting with S, I or F *)
Lemma upper_table c i : assocZ c upper_ascii = Some i -> exists h t, i = h :: t /\ (h = 83 \/ h = 73 \/ h = 70).
Proof.
  unfold upper_ascii. cbn [assocZ].
  repeat match goal with |- context [c =? ?k] => destruct (c =? k) end;
    intro H; inversion H; subst; eauto 6.
Qed.
Definition upper_plain (lit : text) : Prop := Forall (fun x => 0 <= x < 128 /\ x <> 83 /\ x <> 73 /\ x <> 70) lit.
Lemma lc_upper c : lc (ascii_upper c) = lc c.
Proof.
  unfold lc, ascii_upper.
  destruct ((97 <=? c) && (c <=? 122)) eqn:A; destruct ((65 <=? c) && (c <=? 90)) eqn:B;
    try destruct ((65 <=? c - 32) && (c - 32 <=? 90)) eqn:C; lia.
Qed.
Lemma py_upper_lit s lit : upper_plain lit -> py_upper s = lit -> List.map lc s = List.map lc lit.
Proof.
  revert lit; induction s as [|c s IH]; intros lit P H.
  - cbn in H. subst. reflexivity.
  - change (py_upper (c :: s)) with ((if c <? 128 then [ascii_upper c] else match assocZ c upper_ascii with Some i => i | None => [c] end) ++ py_upper s) in H.
    destruct (c <? 128) eqn:A.
    + cbn [app] in H. destruct lit as [|h lit]; [discriminate|]. inversion H; subst. inversion P; subst.
      cbn [List.map]. rewrite lc_upper. f_equal. apply IH; [assumption|reflexivity].
    + destruct (assocZ c upper_ascii) as [i|] eqn:U.
      * destruct (upper_table _ _ U) as (h & t & -> & Hh). cbn [app] in H. destruct lit as [|h' lit]; [discriminate|].
        inversion H; subst. inversion P; subst. lia.
      * cbn [app] in H. destruct lit as [|h' lit]; [discriminate|]. inversion H; subst. inversion P; subst. lia.
Qed.
Lemma py_upper_ci s lit : upper_plain lit -> text_eqb (py_upper s) lit = true -> ci_eq s lit = true.
Proof. intros P H. apply text_eqb_eq in H. unfold ci_eq. apply text_eqb_eq. apply py_upper_lit; assumption. Qed.

(* ------------------------------------------------------------------ trigger bookkeeping *)
Lemma trigger_false k v : trigger k v = false -> trigger_lenient k v = false /\ trigger_rejected k v = false.
Proof. unfold trigger. intro H. apply orb_false_iff in H. exact H. Qed.

Definition agrees (k : key) (v : json) : Prop := accepts k v = true <-> documented k v = true.
(* the decoder decides the table and gives the documented meaning *)
Definition exact (k : key) (v : json) : Prop :=
  agrees k v /\ (documented k v = true -> decode k v = Ok (meaning k v)).
Lemma exact_of_decode k v : (documented k v = true -> decode k v = Ok (meaning k v)) -> (documented k v = false -> accepts k v = false) -> exact k v.
Proof.
  intros D N. split; [|exact D]. unfold agrees. destruct (documented k v) eqn:E.
  - unfold accepts. rewrite (D eq_refl). split; reflexivity.
  - rewrite (N eq_refl). split; intro H; discriminate H.
Qed.

(* ---- keys documented as true | false: no trigger at all *)
Lemma acc_bool k v : bool_key k = true -> in_table k v = true -> exact k v.
Proof.
  intros K I. apply exact_of_decode; destruct k; try discriminate K; destruct v; try discriminate I; cbn; intro H;
    try reflexivity; try discriminate H.
Qed.

(* ---- general.log_level *)
Lemma acc_log_level v : v <> JNull -> trigger KLogLevel v = false -> exact KLogLevel v.
Proof.
  intros NN Tr. apply trigger_false in Tr as (L & _).
  assert (A : agrees KLogLevel v).
  { unfold agrees. destruct v; try contradiction; try discriminate L; try (split; intro H; discriminate H).
    cbn [trigger_lenient] in L. apply one_of_false in L.
    change (documented KLogLevel (JStr s)) with (one_of s ["INFO"; "WARN"; "ERROR"]%string). rewrite one_of_In.
    assert (A : accepts KLogLevel (JStr s) = true <-> In s (List.map fst log_levels)).
    { rewrite <- assocT_In. unfold accepts, decode, check_level. cbn [dec_str_or_null is_null bind].
      destruct (assocT s log_levels); cbn; split; eauto; try discriminate. intros (? & ?); discriminate. }
    rewrite A. clear A. revert L.
    set (L8 := List.map fst log_levels). vm_compute in L8. subst L8.
    set (L5 := List.map T _). vm_compute in L5. subst L5.
    set (L3 := List.map T _). vm_compute in L3. subst L3.
    cbn [In]. tauto. }
  split; [exact A|]. intro D. destruct v; try discriminate D. cbn [documented] in D. apply one_of_In in D.
  cbn [List.map In] in D. destruct D as [<-|[<-|[<-|[]]]]; vm_compute; reflexivity.
Qed.

(* ---- general.document_lang *)
Lemma acc_document_lang v : v <> JNull -> trigger KDocumentLang v = false -> exact KDocumentLang v.
Proof.
  intros NN Tr. apply trigger_false in Tr as (L & _). split.
  - unfold agrees. destruct v; try contradiction; try (split; intro H; discriminate H).
    cbn [trigger_lenient] in L. apply negb_false_iff in L. cbn [documented]. rewrite L. split; reflexivity.
  - intro D. destruct v; try discriminate D. reflexivity.
Qed.

(* ---- imsc_writer.time_format: exact, no trigger needed *)
Lemma acc_time_format v : v <> JNull -> exact KTimeFormat v.
Proof.
  intros NN. apply exact_of_decode; destruct v; try contradiction; cbn [documented]; intro H; try discriminate H; try reflexivity;
    unfold accepts, decode, dec_time_format, meaning, mean_tfmt, one_of in *; cbn [existsb] in H;
    destruct (text_eqb s (T "frames")); try reflexivity; destruct (text_eqb s (T "clock_time")); try reflexivity;
    destruct (text_eqb s (T "clock_time_with_frames")); try reflexivity; discriminate H.
Qed.

(* ---- scc_reader.text_align *)
Lemma acc_scc_text_align v : v <> JNull -> trigger KSccTextAlign v = false -> exact KSccTextAlign v.
Proof.
  intros NN Tr. apply trigger_false in Tr as (L & _). split.
  - unfold agrees. destruct v; try contradiction; try (split; intro H; discriminate H).
    cbn [trigger_lenient] in L. apply negb_false_iff in L.
    unfold accepts, decode, dec_scc_text_align, documented, one_of. rewrite (py_lower_id _ L). cbn [existsb].
    destruct (text_eqb s (T "auto")) eqn:A; destruct (text_eqb s (T "left")) eqn:B; destruct (text_eqb s (T "center")) eqn:C;
      destruct (text_eqb s (T "right")) eqn:D; split; intro H; try reflexivity; try discriminate H.
  - intro D. destruct v; try discriminate D. cbn [documented] in D. apply one_of_In in D.
    cbn [List.map In] in D. destruct D as [<-|[<-|[<-|[<-|[]]]]]; vm_compute; reflexivity.
Qed.

(* ---- stl_reader.max_row_count *)
Lemma mnr_plain : upper_plain (T "MNR").
Proof. vm_compute. repeat constructor; try lia; discriminate. Qed.
Lemma acc_max_row_count v : v <> JNull -> trigger KMaxRowCount v = false -> exact KMaxRowCount v.
Proof.
  intros NN Tr. apply trigger_false in Tr as (L & _). split.
  - unfold agrees. destruct v; try contradiction; try discriminate L; try (split; intro H; discriminate H); [split; reflexivity|].
    cbn [trigger_lenient] in L. unfold accepts, decode, dec_max_row_count, documented.
    destruct (text_eqb s (T "MNR")) eqn:E.
    + apply text_eqb_eq in E. subst. split; reflexivity.
    + cbn [negb andb] in L. destruct (text_eqb (py_upper s) (T "MNR")) eqn:U.
      * rewrite (py_upper_ci _ _ mnr_plain U) in L. discriminate.
      * split; intro H; discriminate H.
  - intro D. destruct v; try discriminate D; [reflexivity|]. cbn [documented] in D. apply text_eqb_eq in D. subst. reflexivity.
Qed.

(* ---- lcd.safe_area: an integer between 0 and 30, nothing else; no trigger *)
Lemma acc_safe_area v : v <> JNull -> exact KSafeArea v.
Proof.
  intros NN. apply exact_of_decode; destruct v; try contradiction; cbn [documented]; intro H; try discriminate H; try reflexivity;
    unfold accepts, decode, dec_safe_area, meaning, mean_int in *; cbn [bind];
    destruct ((z <? 0) || (30 <? z)) eqn:E; try reflexivity; lia.
Qed.

(* ------------------------------------------------------------------ int() on a string of ASCII digits *)
Lemma is_d_digit c : is_d c = digit c.
Proof. reflexivity. Qed.
Lemma all_d_digits s : all_d s = all_digits s.
Proof. reflexivity. Qed.
Lemma number_dval s : number s = dval s.
Proof.
  unfold number, dval. generalize 0. induction s as [|c s IH]; intro a; [reflexivity|]. cbn [fold_left]. rewrite IH.
  unfold dstep. f_equal. lia.
Qed.
Lemma int_of_digits_ok s : (Z.of_nat (length s) <=? 4300) = true -> int_of_digits s = Ok (dval s).
Proof. intro L. unfold int_of_digits. assert ((int_max_str_digits <? Z.of_nat (length s)) = false) as -> by (unfold int_max_str_digits; lia). reflexivity. Qed.
Lemma fold_dstep_zero s acc : forallb digit s = true -> 0 <= acc ->
  0 <= fold_left dstep s acc /\ (fold_left dstep s acc = 0 <-> acc = 0 /\ forallb (fun c => c =? 48) s = true).
Proof.
  revert acc; induction s as [|c s IH]; intros acc D A.
  - cbn. split; [exact A|]. tauto.
  - cbn [forallb] in D. apply andb_true_iff in D as [Dc Ds]. cbn [fold_left forallb].
    assert (0 <= dstep acc c) by (unfold dstep, digit in *; lia).
    destruct (IH _ Ds H) as [P Q]. split; [exact P|]. rewrite Q. rewrite andb_true_iff. unfold dstep, digit in *.
    split.
    + intros [X Y]. split; [lia|]. split; [lia|exact Y].
    + intros [X [Y1 Y2]]. split; [lia|exact Y2].
Qed.
Lemma dval_nonneg s : forallb digit s = true -> 0 <= dval s.
Proof. intro D. exact (proj1 (fold_dstep_zero s 0 D (Z.le_refl 0))). Qed.
Lemma dval_nonzero s : forallb digit s = true -> (dval s =? 0) = negb (existsb (fun c => negb (c =? 48)) s).
Proof.
  intro D. destruct (fold_dstep_zero s 0 D (Z.le_refl 0)) as [_ Q]. unfold dval.
  assert (E : existsb (fun c => negb (c =? 48)) s = negb (forallb (fun c => c =? 48) s)).
  { clear. induction s as [|c s IH]; [reflexivity|]. cbn [existsb forallb]. rewrite IH. destruct (c =? 48); reflexivity. }
  rewrite E, negb_involutive. destruct (forallb (fun c => c =? 48) s) eqn:F.
  - apply Z.eqb_eq. apply Q. auto.
  - apply Z.eqb_neq. intro X. apply Q in X as [_ X]. discriminate.
Qed.

(* ---- imsc_writer.fps: "<num>/<denom>", both positive; only CPython's digit limit stands in the way *)
Lemma split_fields c s : split_on c s = fields c s.
Proof. induction s as [|x s IH]; [reflexivity|]. cbn [split_on fields]. rewrite IH. reflexivity. Qed.
Lemma fields_nonempty c s : fields c s <> [].
Proof. destruct s as [|x s]; cbn [fields]; [discriminate|]. destruct (x =? c); [discriminate|]. destruct (fields c s); discriminate. Qed.
(* every field is no longer than s *)
Lemma fields_len c s : Forall (fun part => (length part <= length s)%nat) (fields c s).
Proof.
  induction s as [|x s IH]; [cbn; repeat constructor|]. cbn [fields length].
  destruct (x =? c).
  - constructor; [cbn; lia|]. eapply Forall_impl; [|exact IH]. cbn. intros; lia.
  - destruct (fields c s) as [|h t] eqn:F; [exfalso; exact (fields_nonempty _ _ F)|].
    inversion IH; subst. constructor; [cbn [length]; lia|]. eapply Forall_impl; [|eassumption]. cbn. intros; lia.
Qed.
Lemma all_digits_forall a : all_digits a = true -> forallb digit a = true.
Proof. destruct a; [discriminate|]. intro H; exact H. Qed.
(* the decoder on "a/b" with a, b digit strings below the limit *)
Lemma dec_fps_digits a b :
  all_digits a = true -> all_digits b = true -> (Z.of_nat (length a) <=? 4300) = true -> (Z.of_nat (length b) <=? 4300) = true ->
  (do n <- int_of_digits a;
   if n =? 0 then Raise EValue else do d <- int_of_digits b; if d =? 0 then Raise EValue else do f <- fraction n d; Ok (Some f)) =
  if positive_number a && positive_number b
  then Ok (Some (number a / Z.gcd (number a) (number b), number b / Z.gcd (number a) (number b))) else Raise EValue.
Proof.
  intros Da Db La Lb. rewrite (int_of_digits_ok _ La), (int_of_digits_ok _ Lb). cbn [bind].
  pose proof (all_digits_forall _ Da) as Fa. pose proof (all_digits_forall _ Db) as Fb.
  unfold positive_number. rewrite Da, Db. cbn [andb].
  rewrite (dval_nonzero _ Fa). destruct (existsb (fun c => negb (c =? 48)) a); cbn [negb andb]; [|reflexivity].
  pose proof (dval_nonzero _ Fb) as Zb. rewrite Zb. destruct (existsb (fun c => negb (c =? 48)) b); cbn [negb andb]; [|reflexivity].
  pose proof (dval_nonneg _ Fb) as Pb. cbn [negb] in Zb.
  unfold fraction. rewrite Zb. assert ((dval b <? 0) = false) as -> by lia. cbn [bind]. rewrite !number_dval. reflexivity.
Qed.
Lemma acc_fps v : v <> JNull -> trigger KFps v = false -> exact KFps v.
Proof.
  intros NN Tr. apply trigger_false in Tr as (_ & R).
  destruct v; try contradiction; try (apply exact_of_decode; intro H; try discriminate H; reflexivity).
  cbn [trigger_rejected] in R.
  assert (X : dec_fps (JStr s) = if fps_ok s then Ok (mean_fps (JStr s)) else Raise EValue).
  { unfold dec_fps, fps_ok, mean_fps. rewrite split_fields. pose proof (fields_len 47 s) as Len.
    destruct (fields 47 s) as [|a [|b [|c r]]]; try reflexivity.
    inversion Len as [|? ? La Len']; subst. inversion Len' as [|? ? Lb _]; subst.
    change (all_d a) with (all_digits a). change (all_d b) with (all_digits b).
    destruct (all_digits a) eqn:Da; [|unfold positive_number; rewrite Da; reflexivity].
    destruct (all_digits b) eqn:Db; [|unfold positive_number; rewrite Db; cbn [andb]; rewrite andb_false_r; reflexivity].
    cbn [andb]. rewrite (dec_fps_digits a b Da Db) by lia. destruct (positive_number a && positive_number b); reflexivity. }
  apply exact_of_decode; cbn [documented]; intro H; unfold accepts, decode; rewrite X, H; [|reflexivity].
  cbn [bind meaning]. unfold fps_ok in H. unfold mean_fps. destruct (fields 47 s) as [|a [|b [|c r]]]; try discriminate H. reflexivity.
Qed.

(* ---- stl_reader.program_start_tc *)
Fixpoint join (c : Z) (l : list text) : text :=
  match l with [] => [] | x :: r => match r with [] => x | _ => x ++ c :: join c r end end.
Lemma fields_join c s : join c (fields c s) = s.
Proof.
  induction s as [|x s IH]; [reflexivity|]. cbn [fields].
  pose proof (fields_nonempty c s) as NE. destruct (fields c s) as [|h t]; [contradiction|].
  destruct (x =? c) eqn:E.
  - apply Z.eqb_eq in E. subst x. cbn [join app]. cbn [join] in IH. rewrite IH. reflexivity.
  - cbn [join]. cbn [join] in IH. destruct t as [|t0 t']; [rewrite IH; reflexivity|]. cbn [app]. rewrite IH. reflexivity.
Qed.
Lemma two_digits x : all_digits x && (Z.of_nat (length x) =? 2) = true -> exists a b, x = [a; b] /\ digit a = true /\ digit b = true.
Proof.
  destruct x as [|a [|b [|c x]]]; cbn [all_digits forallb length]; intro H.
  - discriminate H.
  - apply andb_true_iff in H as [_ H]. lia.
  - destruct (digit a) eqn:A; destruct (digit b) eqn:B; try discriminate H; eauto.
  - apply andb_true_iff in H as [_ H]. lia.
Qed.
Lemma tc_ok_shape s : tc_ok s = true ->
  exists h1 h2 m1 m2 s1 s2 f1 f2, s = [h1; h2; 58; m1; m2; 58; s1; s2; 58; f1; f2] /\
    forallb digit [h1; h2; m1; m2; s1; s2; f1; f2] = true.
Proof.
  unfold tc_ok. intro H. pose proof (fields_join 58 s) as J.
  destruct (fields 58 s) as [|h [|m [|sec [|f [|]]]]]; try discriminate H.
  cbn [forallb] in H. apply andb_true_iff in H as [Hh H]. apply andb_true_iff in H as [Hm H].
  apply andb_true_iff in H as [Hs H]. apply andb_true_iff in H as [Hf _].
  destruct (two_digits _ Hh) as (h1 & h2 & -> & A1 & A2). destruct (two_digits _ Hm) as (m1 & m2 & -> & B1 & B2).
  destruct (two_digits _ Hs) as (s1 & s2 & -> & C1 & C2). destruct (two_digits _ Hf) as (f1 & f2 & -> & D1 & D2).
  exists h1, h2, m1, m2, s1, s2, f1, f2. split; [symmetry; exact J|].
  cbn [forallb]. rewrite A1, A2, B1, B2, C1, C2, D1, D2. reflexivity.
Qed.
Lemma digit_not_colon c : digit c = true -> (c =? 58) = false.
Proof. unfold digit. lia. Qed.
Lemma tc_ok_of_shape a b c d e f g h :
  forallb digit [a; b; c; d; e; f; g; h] = true -> tc_ok [a; b; 58; c; d; 58; e; f; 58; g; h] = true.
Proof.
  cbn [forallb]. rewrite !andb_true_iff. intros (A & B & C & D & E & F & G & H & _).
  unfold tc_ok. cbn [fields].
  rewrite (digit_not_colon _ A), (digit_not_colon _ B), (digit_not_colon _ C), (digit_not_colon _ D),
          (digit_not_colon _ E), (digit_not_colon _ F), (digit_not_colon _ G), (digit_not_colon _ H).
  cbn [Z.eqb Pos.eqb]. cbn [forallb all_digits length]. rewrite A, B, C, D, E, F, G, H. reflexivity.
Qed.
Lemma ndf_df s : ndf_match s = true -> df_match s = true.
Proof.
  destruct s as [|a [|b [|x [|c [|d [|y [|e [|f [|z [|g [|h [|]]]]]]]]]]]]; try discriminate.
  unfold ndf_match. intro M. rewrite !andb_true_iff in M. destruct M as ((((((((((A & B) & X) & C) & D) & Y) & E) & F) & Z) & G) & H).
  unfold df_match, df_sep. rewrite A, B, C, D, E, F, G, H, X, Y, Z. reflexivity.
Qed.
Lemma tcp_plain : upper_plain (T "TCP").
Proof. vm_compute. repeat constructor; try lia; discriminate. Qed.
Lemma acc_start_tc v : v <> JNull -> trigger KStartTc v = false -> exact KStartTc v.
Proof.
  intros NN Tr. apply trigger_false in Tr as (L & _).
  destruct v; try contradiction; try (apply exact_of_decode; intro H; try discriminate H; reflexivity).
  cbn [trigger_lenient] in L.
  destruct (text_eqb s (T "TCP")) eqn:E.
  { apply text_eqb_eq in E. subst. apply exact_of_decode; intro H; [reflexivity|discriminate H]. }
  cbn [negb andb] in L. apply orb_false_iff in L as [Ci Sh].
  assert (U : text_eqb (py_upper s) (T "TCP") = false).
  { destruct (text_eqb (py_upper s) (T "TCP")) eqn:U; [rewrite (py_upper_ci _ _ tcp_plain U) in Ci; discriminate|reflexivity]. }
  apply exact_of_decode; cbn [documented]; rewrite E; cbn [orb]; intro M; unfold accepts, decode, dec_start_tc; rewrite U.
  - destruct (tc_ok_shape _ M) as (h1 & h2 & m1 & m2 & s1 & s2 & f1 & f2 & -> & Dg).
    cbn [forallb] in Dg. rewrite !andb_true_iff in Dg. destruct Dg as (A & B & C & D & E' & F & G & H & _).
    unfold df_match. change is_d with digit. rewrite A, B, C, D, E', F, G, H. reflexivity.
  - destruct (df_match s || ndf_match s) eqn:X; [exfalso|reflexivity].
    assert (D : df_match s = true).
    { destruct (df_match s) eqn:D'; [reflexivity|]. cbn [orb] in X. rewrite (ndf_df _ X) in D'. discriminate D'. }
    clear X. destruct s as [|a [|b [|x [|c [|d [|y [|e [|f [|z [|g [|h [|]]]]]]]]]]]]; try discriminate D.
    apply negb_false_iff in Sh. rewrite !andb_true_iff in Sh. destruct Sh as ((X & Y) & Z).
    apply Z.eqb_eq in X, Y, Z. subst x y z.
    unfold df_match in D. rewrite !andb_true_iff in D. destruct D as ((((((((((A & B) & _) & C) & D) & _) & E') & F) & _) & G) & H).
    rewrite tc_ok_of_shape in M; [discriminate M|]. cbn [forallb]. change digit with is_d. rewrite A, B, C, D, E', F, G, H. reflexivity.
Qed.

(* ------------------------------------------------------------------ all keys but colours and font stacks *)
Definition table_key (k : key) : bool :=
  match k with KColor | KBgColor | KFontStack => false | _ => true end.
Lemma in_table_nonnull k v : table_key k = true -> in_table k v = true -> v <> JNull.
Proof. intros K I ->. destruct k; try discriminate K; discriminate I. Qed.
Theorem config_exact_plain k v :
  table_key k = true -> in_table k v = true -> trigger k v = false -> exact k v.
Proof.
  intros K I Tr. pose proof (in_table_nonnull k v K I) as NN. destruct k; try discriminate K.
  - exact (acc_log_level v NN Tr).
  - apply acc_bool; [reflexivity|exact I].
  - exact (acc_document_lang v NN Tr).
  - exact (acc_time_format v NN).
  - exact (acc_fps v NN Tr).
  - exact (acc_scc_text_align v NN Tr).
  - apply acc_bool; [reflexivity|exact I].
  - exact (acc_start_tc v NN Tr).
  - apply acc_bool; [reflexivity|exact I].
  - exact (acc_max_row_count v NN Tr).
  - apply acc_bool; [reflexivity|exact I].
  - apply acc_bool; [reflexivity|exact I].
  - apply acc_bool; [reflexivity|exact I].
  - apply acc_bool; [reflexivity|exact I].
  - exact (acc_safe_area v NN).
  - apply acc_bool; [reflexivity|exact I].
Qed.
