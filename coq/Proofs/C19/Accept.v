(* C19: configuration acceptance.  For every key, the decoder of Model/Cli.v accepts a (non-null) JSON value exactly
   when README documents it (Spec/CliSpec.v documented) — outside the executable triggers of the recorded findings.
   Colours and font stacks are covered only in part (see Properties/C19.v). *)
From Coq Require Import String.
From TT Require Import Base.Prelude Base.CliTypes Gen.CliUnicode Model.Cli Spec.CliSpec Proofs.C19.Types.

(* ------------------------------------------------------------------ finite string sets *)
Lemma one_of_In s l : one_of s l = true <-> In s (List.map T l).
Proof.
  unfold one_of. rewrite existsb_exists. split.
  - intros (x & I & E). apply text_eqb_eq in E. subst. apply in_map. exact I.
  - intro I. apply in_map_iff in I as (x & <- & I). exists x. split; [exact I|]. apply text_eqb_eq. reflexivity.
Qed.
Lemma one_of_false s l : one_of s l = false <-> ~ In s (List.map T l).
Proof. rewrite <- one_of_In. destruct (one_of s l); split; congruence. Qed.
Lemma assocT_In {A} s (l : list (text * A)) : (exists v, assocT s l = Some v) <-> In s (List.map fst l).
Proof.
  induction l as [|[k v] l IH]; cbn [assocT List.map In fst].
  - split; [intros (v & H); discriminate|intros []].
  - destruct (text_eqb s k) eqn:E.
    + apply text_eqb_eq in E. subst. split; eauto.
    + rewrite IH. split; [auto|]. intros [->|I]; [|exact I].
      assert (text_eqb s s = true) by (apply text_eqb_eq; reflexivity). congruence.
Qed.

(* ------------------------------------------------------------------ str.lower / str.upper *)
Lemma py_lower_id s : forallb lower_letter s = true -> py_lower s = s.
Proof.
  induction s as [|c s IH]; [reflexivity|]. cbn [forallb]. intro H. apply andb_true_iff in H as [L R].
  change (py_lower (c :: s)) with ((if c <? 128 then [ascii_lower c] else match assocZ c lower_ascii with Some i => i | None => [c] end) ++ py_lower s).
  unfold lower_letter in L. assert (c <? 128 = true) as -> by lia. rewrite (IH R). cbn [app]. f_equal.
  unfold ascii_lower. destruct ((65 <=? c) && (c <=? 90)) eqn:E; lia.
Qed.
(* every non-ASCII character whose upper-case image is ASCII yields an image starting with S, I or F *)
Lemma upper_table c i : assocZ c upper_ascii = Some i -> exists h t, i = h :: t /\ (h = 83 \/ h = 73 \/ h = 70).
Proof.
  unfold upper_ascii. cbn [assocZ].
  repeat match goal with |- context [c =? ?k] => destruct (c =? k) end;
    intro H; inversion H; subst; eauto 6.
Qed.
Definition upper_plain (lit : text) : Prop := Forall (fun x => 0 <= x < 128 /\ x <> 83 /\ x <> 73 /\ x <> 70) lit.
Lemma lc_upper c : lc (ascii_upper c) = lc c.
Proof.
  unfold lc, ascii_upper.
  destruct ((97 <=? c) && (c <=? 122)) eqn:A; destruct ((65 <=? c) && (c <=? 90)) eqn:B;
    try destruct ((65 <=? c - 32) && (c - 32 <=? 90)) eqn:C; lia.
Qed.
Lemma py_upper_lit s lit : upper_plain lit -> py_upper s = lit -> List.map lc s = List.map lc lit.
Proof.
  revert lit; induction s as [|c s IH]; intros lit P H.
  - cbn in H. subst. reflexivity.
  - change (py_upper (c :: s)) with ((if c <? 128 then [ascii_upper c] else match assocZ c upper_ascii with Some i => i | None => [c] end) ++ py_upper s) in H.
    destruct (c <? 128) eqn:A.
    + cbn [app] in H. destruct lit as [|h lit]; [discriminate|]. inversion H; subst. inversion P; subst.
      cbn [List.map]. rewrite lc_upper. f_equal. apply IH; [assumption|reflexivity].
    + destruct (assocZ c upper_ascii) as [i|] eqn:U.
      * destruct (upper_table _ _ U) as (h & t & -> & Hh). cbn [app] in H. destruct lit as [|h' lit]; [discriminate|].
        inversion H; subst. inversion P; subst. lia.
      * cbn [app] in H. destruct lit as [|h' lit]; [discriminate|]. inversion H; subst. inversion P; subst. lia.
Qed.
Lemma py_upper_ci s lit : upper_plain lit -> text_eqb (py_upper s) lit = true -> ci_eq s lit = true.
Proof. intros P H. apply text_eqb_eq in H. unfold ci_eq. apply text_eqb_eq. apply py_upper_lit; assumption. Qed.

(* ------------------------------------------------------------------ trigger bookkeeping *)
Lemma trigger_false k v : trigger k v = false -> trigger_bool k v = false /\ trigger_lenient k v = false /\ trigger_rejected k v = false.
Proof. unfold trigger. intro H. apply orb_false_iff in H as [H R]. apply orb_false_iff in H as [B L]. auto. Qed.

Definition agrees (k : key) (v : json) : Prop := accepts k v = true <-> documented k v = true.

(* ---- keys documented as true | false *)
Lemma acc_bool k v : bool_key k = true -> trigger k v = false -> agrees k v.
Proof.
  intros K Tr. apply trigger_false in Tr as (B & _ & _). unfold trigger_bool in B. rewrite K in B. cbn [andb] in B.
  destruct v; try discriminate B. destruct k; try discriminate K; split; reflexivity.
Qed.

(* ---- general.log_level *)
Lemma acc_log_level v : v <> JNull -> trigger KLogLevel v = false -> agrees KLogLevel v.
Proof.
  intros NN Tr. apply trigger_false in Tr as (_ & L & _). unfold agrees.
  destruct v; try contradiction; try discriminate L; try (split; intro H; discriminate H).
  cbn [trigger_lenient] in L. apply one_of_false in L.
  change (documented KLogLevel (JStr s)) with (one_of s ["INFO"; "WARN"; "ERROR"]%string). rewrite one_of_In.
  assert (A : accepts KLogLevel (JStr s) = true <-> In s (List.map fst log_levels)).
  { rewrite <- assocT_In. unfold accepts, decode, check_level. cbn [is_null bind].
    destruct (assocT s log_levels); cbn; split; eauto; try discriminate. intros (? & ?); discriminate. }
  rewrite A. clear A. revert L.
  set (L8 := List.map fst log_levels). vm_compute in L8. subst L8.
  set (L5 := List.map T _). vm_compute in L5. subst L5.
  set (L3 := List.map T _). vm_compute in L3. subst L3.
  cbn [In]. tauto.
Qed.

(* ---- general.document_lang *)
Lemma acc_document_lang v : v <> JNull -> trigger KDocumentLang v = false -> agrees KDocumentLang v.
Proof.
  intros NN Tr. apply trigger_false in Tr as (_ & L & _). unfold agrees.
  destruct v; try contradiction; try (split; intro H; discriminate H).
  cbn [trigger_lenient] in L. apply negb_false_iff in L. cbn [documented]. rewrite L. split; reflexivity.
Qed.

(* ---- imsc_writer.time_format: exact, no trigger needed *)
Lemma acc_time_format v : v <> JNull -> agrees KTimeFormat v.
Proof.
  intros NN. unfold agrees. destruct v; try contradiction; try (split; intro H; discriminate H).
  unfold accepts, decode, dec_time_format, documented, one_of. cbn [existsb].
  destruct (text_eqb s (T "frames")); [split; reflexivity|].
  destruct (text_eqb s (T "clock_time")); [split; reflexivity|].
  destruct (text_eqb s (T "clock_time_with_frames")); split; intro H; try reflexivity; discriminate H.
Qed.

(* ---- scc_reader.text_align *)
Lemma acc_scc_text_align v : v <> JNull -> trigger KSccTextAlign v = false -> agrees KSccTextAlign v.
Proof.
  intros NN Tr. apply trigger_false in Tr as (_ & L & _). unfold agrees.
  destruct v; try contradiction; try (split; intro H; discriminate H).
  cbn [trigger_lenient] in L. apply negb_false_iff in L.
  unfold accepts, decode, dec_scc_text_align, documented, one_of. rewrite (py_lower_id _ L). cbn [existsb].
  destruct (text_eqb s (T "auto")) eqn:A; destruct (text_eqb s (T "left")) eqn:B; destruct (text_eqb s (T "center")) eqn:C;
    destruct (text_eqb s (T "right")) eqn:D; split; intro H; try reflexivity; try discriminate H.
Qed.

(* ---- stl_reader.max_row_count *)
Lemma mnr_plain : upper_plain (T "MNR").
Proof. vm_compute. repeat constructor; try lia; discriminate. Qed.
Lemma acc_max_row_count v : v <> JNull -> trigger KMaxRowCount v = false -> agrees KMaxRowCount v.
Proof.
  intros NN Tr. apply trigger_false in Tr as (_ & L & _). unfold agrees.
  destruct v; try contradiction; try discriminate L; try (split; intro H; discriminate H); [split; reflexivity|].
  cbn [trigger_lenient] in L. unfold accepts, decode, dec_max_row_count, documented.
  destruct (text_eqb s (T "MNR")) eqn:E.
  - apply text_eqb_eq in E. subst. split; reflexivity.
  - cbn [negb andb] in L. destruct (text_eqb (py_upper s) (T "MNR")) eqn:U.
    + rewrite (py_upper_ci _ _ mnr_plain U) in L. discriminate.
    + split; intro H; discriminate H.
Qed.

(* ---- lcd.safe_area *)
Lemma acc_safe_area v : v <> JNull -> trigger KSafeArea v = false -> agrees KSafeArea v.
Proof.
  intros NN Tr. apply trigger_false in Tr as (_ & L & _). unfold agrees.
  destruct v; try contradiction; try discriminate L.
  - unfold accepts, decode, dec_safe_area, py_int, documented. cbn [bind].
    clear NN L. destruct ((z <? 0) || (30 <? z)) eqn:E; cbn; split; intro H; try discriminate H; try reflexivity; lia.
  - unfold accepts, decode, dec_safe_area, py_int. destruct (k =? 0); split; intro H; discriminate H.
  - split; intro H; discriminate H.
  - split; intro H; discriminate H.
Qed.

(* ------------------------------------------------------------------ int() on a string of ASCII digits *)
Definition dstep (acc c : Z) : Z := acc * 10 + (c - 48).
Definition dval (s : text) : Z := fold_left dstep s 0.
Lemma is_d_digit c : is_d c = digit c.
Proof. reflexivity. Qed.
Lemma digit_cases c : digit c = true -> c = 48 \/ c = 49 \/ c = 50 \/ c = 51 \/ c = 52 \/ c = 53 \/ c = 54 \/ c = 55 \/ c = 56 \/ c = 57.
Proof. unfold digit. lia. Qed.
Lemma xform_digits s : forallb digit s = true -> List.map int_xform s = s.
Proof.
  induction s as [|c s IH]; [reflexivity|]. cbn [forallb List.map]. intro H. apply andb_true_iff in H as [D R].
  rewrite (IH R). f_equal. unfold int_xform. unfold digit in D. assert (c <? 127 = true) as -> by lia. reflexivity.
Qed.
Lemma scan_digits s acc nd : forallb digit s = true -> scan_num s acc nd false = Some (fold_left dstep s acc, nd + Z.of_nat (length s), []).
Proof.
  revert acc nd; induction s as [|c s IH]; intros acc nd H.
  - cbn. repeat f_equal. lia.
  - cbn [forallb] in H. apply andb_true_iff in H as [D R]. cbn [scan_num].
    assert (c =? 95 = false) as -> by (unfold digit in D; lia). rewrite is_d_digit, D.
    change (acc * 10 + (c - 48)) with (dstep acc c). rewrite (IH _ _ R). cbn [fold_left length].
    replace (nd + 1 + Z.of_nat (length s)) with (nd + Z.of_nat (S (length s))) by lia. reflexivity.
Qed.
Lemma digit_not_space c : digit c = true -> is_int_space c = false.
Proof. intro D. destruct (digit_cases _ D) as [->|[->|[->|[->|[->|[->|[->|[->|[->| ->]]]]]]]]]; reflexivity. Qed.
Lemma digit_sign c s : digit c = true -> int_sign (c :: s) = (false, c :: s) /\ leading_underscore (c :: s) = false.
Proof. intro D. destruct (digit_cases _ D) as [->|[->|[->|[->|[->|[->|[->|[->|[->| ->]]]]]]]]]; split; reflexivity. Qed.
Lemma py_int_digits s :
  forallb digit s = true -> s <> [] -> (Z.of_nat (length s) <=? 4300) = true -> py_int_of_text s = Ok (dval s).
Proof.
  intros D NE Len. unfold py_int_of_text. rewrite (xform_digits _ D).
  destruct s as [|c s]; [contradiction|]. pose proof D as D'. cbn [forallb] in D. apply andb_true_iff in D as [Dc Ds].
  cbn [skip]. rewrite (digit_not_space _ Dc). destruct (digit_sign c s Dc) as [-> ->].
  rewrite (scan_digits _ 0 0 D'). fold (dval (c :: s)).
  assert (P : 0 < Z.of_nat (length (c :: s))) by (cbn [length]; lia).
  set (n := Z.of_nat (length (c :: s))) in *. clearbody n. clear -Len P.
  assert ((0 + n =? 0) = false) as -> by lia.
  assert ((int_max_str_digits <? 0 + n) = false) as -> by (unfold int_max_str_digits; lia).
  reflexivity.
Qed.
Lemma fold_dstep_zero s acc : forallb digit s = true -> 0 <= acc ->
  0 <= fold_left dstep s acc /\ (fold_left dstep s acc = 0 <-> acc = 0 /\ forallb (fun c => c =? 48) s = true).
Proof.
  revert acc; induction s as [|c s IH]; intros acc D A.
  - cbn. split; [exact A|]. tauto.
  - cbn [forallb] in D. apply andb_true_iff in D as [Dc Ds]. cbn [fold_left forallb].
    assert (0 <= dstep acc c) by (unfold dstep, digit in *; lia).
    destruct (IH _ Ds H) as [P Q]. split; [exact P|]. rewrite Q. rewrite andb_true_iff. unfold dstep, digit in *.
    split.
    + intros [X Y]. split; [lia|]. split; [lia|exact Y].
    + intros [X [Y1 Y2]]. split; [lia|exact Y2].
Qed.
Lemma dval_nonzero s : forallb digit s = true -> (dval s =? 0) = negb (existsb (fun c => negb (c =? 48)) s).
Proof.
  intro D. destruct (fold_dstep_zero s 0 D (Z.le_refl 0)) as [_ Q]. unfold dval.
  assert (E : existsb (fun c => negb (c =? 48)) s = negb (forallb (fun c => c =? 48) s)).
  { clear. induction s as [|c s IH]; [reflexivity|]. cbn [existsb forallb]. rewrite IH. destruct (c =? 48); reflexivity. }
  rewrite E, negb_involutive. destruct (forallb (fun c => c =? 48) s) eqn:F.
  - apply Z.eqb_eq. apply Q. auto.
  - apply Z.eqb_neq. intro X. apply Q in X as [_ X]. discriminate.
Qed.

(* ---- imsc_writer.fps *)
Lemma split_fields c s : split_on c s = fields c s.
Proof. induction s as [|x s IH]; [reflexivity|]. cbn [split_on fields]. rewrite IH. reflexivity. Qed.
Lemma fields_nonempty c s : fields c s <> [].
Proof. destruct s as [|x s]; cbn [fields]; [discriminate|]. destruct (x =? c); [discriminate|]. destruct (fields c s); discriminate. Qed.
(* every field is made of characters of s other than the separator, and is no longer than s *)
Lemma fields_parts c s (P : Z -> bool) :
  forallb (fun x => P x || (x =? c)) s = true ->
  Forall (fun part => forallb P part = true /\ (length part <= length s)%nat) (fields c s).
Proof.
  induction s as [|x s IH]; intro H.
  - cbn. repeat constructor.
  - cbn [forallb] in H. apply andb_true_iff in H as [Hx Hs]. specialize (IH Hs). cbn [fields length].
    destruct (x =? c) eqn:E.
    + constructor; [split; [reflexivity|cbn; lia]|]. eapply Forall_impl; [|exact IH]. cbn. intros a [A B]. split; [exact A|lia].
    + destruct (fields c s) as [|h t] eqn:F; [exfalso; exact (fields_nonempty _ _ F)|].
      inversion IH; subst. destruct H1 as [A B]. constructor.
      * cbn [forallb length]. rewrite orb_false_r in Hx. rewrite Hx, A. split; [reflexivity|lia].
      * eapply Forall_impl; [|exact H2]. cbn. intros a [A' B']. split; [exact A'|lia].
Qed.
Lemma fraction_ok n d : is_ok (fraction n d) = negb (d =? 0).
Proof. unfold fraction. destruct (d =? 0); reflexivity. Qed.
Lemma acc_fps v : v <> JNull -> trigger KFps v = false -> agrees KFps v.
Proof.
  intros NN Tr. apply trigger_false in Tr as (_ & L & R). unfold agrees.
  destruct v; try contradiction; try (split; intro H; discriminate H).
  cbn [trigger_lenient trigger_rejected] in L, R. apply orb_false_iff in L as [L1 L2]. apply negb_false_iff in L1.
  unfold accepts, decode, dec_fps, documented, fps_ok. rewrite split_fields.
  pose proof (fields_parts 47 s digit L1) as Parts.
  destruct (fields 47 s) as [|a [|b [|c r]]]; try (split; intro H; discriminate H).
  inversion Parts as [|? ? [Da La] Parts']; subst. inversion Parts' as [|? ? [Db Lb] _]; subst.
  assert (LenA : (Z.of_nat (length a) <=? 4300) = true) by lia.
  assert (LenB : (Z.of_nat (length b) <=? 4300) = true) by lia.
  unfold positive_number, all_digits in *.
  destruct a as [|a0 a]; [split; intro H; discriminate H|]. destruct b as [|b0 b].
  { rewrite (py_int_digits _ Da) by (congruence || assumption). cbn [bind]. split; intro H; [discriminate H|].
    rewrite andb_false_r in H. discriminate H. }
  rewrite (py_int_digits _ Da) by (congruence || assumption). rewrite (py_int_digits _ Db) by (congruence || assumption).
  cbn [bind]. rewrite Da, Db in *. cbn [andb] in *.
  assert (X : is_ok (do x <- (do f <- fraction (dval (a0 :: a)) (dval (b0 :: b)); Ok (Some f));
                     Ok (copt (fun f : Z * Z => CFrac (fst f) (snd f)) x)) = negb (dval (b0 :: b) =? 0)).
  { unfold fraction. destruct (dval (b0 :: b) =? 0); reflexivity. }
  rewrite X, (dval_nonzero _ Db), negb_involutive. apply negb_false_iff in L2. rewrite L2. cbn [andb]. tauto.
Qed.

(* ---- stl_reader.program_start_tc *)
Fixpoint join (c : Z) (l : list text) : text :=
  match l with [] => [] | x :: r => match r with [] => x | _ => x ++ c :: join c r end end.
Lemma fields_join c s : join c (fields c s) = s.
Proof.
  induction s as [|x s IH]; [reflexivity|]. cbn [fields].
  pose proof (fields_nonempty c s) as NE. destruct (fields c s) as [|h t]; [contradiction|].
  destruct (x =? c) eqn:E.
  - apply Z.eqb_eq in E. subst x. cbn [join app]. cbn [join] in IH. rewrite IH. reflexivity.
  - cbn [join]. cbn [join] in IH. destruct t as [|t0 t']; [rewrite IH; reflexivity|]. cbn [app]. rewrite IH. reflexivity.
Qed.
Lemma two_digits x : all_digits x && (Z.of_nat (length x) =? 2) = true -> exists a b, x = [a; b] /\ digit a = true /\ digit b = true.
Proof.
  destruct x as [|a [|b [|c x]]]; cbn [all_digits forallb length]; intro H.
  - discriminate H.
  - apply andb_true_iff in H as [_ H]. lia.
  - destruct (digit a) eqn:A; destruct (digit b) eqn:B; try discriminate H; eauto.
  - apply andb_true_iff in H as [_ H]. lia.
Qed.
Lemma tc_ok_shape s : tc_ok s = true ->
  exists h1 h2 m1 m2 s1 s2 f1 f2, s = [h1; h2; 58; m1; m2; 58; s1; s2; 58; f1; f2] /\
    forallb digit [h1; h2; m1; m2; s1; s2; f1; f2] = true.
Proof.
  unfold tc_ok. intro H. pose proof (fields_join 58 s) as J.
  destruct (fields 58 s) as [|h [|m [|sec [|f [|]]]]]; try discriminate H.
  cbn [forallb] in H. apply andb_true_iff in H as [Hh H]. apply andb_true_iff in H as [Hm H].
  apply andb_true_iff in H as [Hs H]. apply andb_true_iff in H as [Hf _].
  destruct (two_digits _ Hh) as (h1 & h2 & -> & A1 & A2). destruct (two_digits _ Hm) as (m1 & m2 & -> & B1 & B2).
  destruct (two_digits _ Hs) as (s1 & s2 & -> & C1 & C2). destruct (two_digits _ Hf) as (f1 & f2 & -> & D1 & D2).
  exists h1, h2, m1, m2, s1, s2, f1, f2. split; [symmetry; exact J|].
  cbn [forallb]. rewrite A1, A2, B1, B2, C1, C2, D1, D2. reflexivity.
Qed.
Lemma digit_not_colon c : digit c = true -> (c =? 58) = false.
Proof. unfold digit. lia. Qed.
Lemma tc_ok_of_shape a b c d e f g h :
  forallb digit [a; b; c; d; e; f; g; h] = true -> tc_ok [a; b; 58; c; d; 58; e; f; 58; g; h] = true.
Proof.
  cbn [forallb]. rewrite !andb_true_iff. intros (A & B & C & D & E & F & G & H & _).
  unfold tc_ok. cbn [fields].
  rewrite (digit_not_colon _ A), (digit_not_colon _ B), (digit_not_colon _ C), (digit_not_colon _ D),
          (digit_not_colon _ E), (digit_not_colon _ F), (digit_not_colon _ G), (digit_not_colon _ H).
  cbn [Z.eqb Pos.eqb]. cbn [forallb all_digits length]. rewrite A, B, C, D, E, F, G, H. reflexivity.
Qed.
Lemma ndf_df s : ndf_match s = true -> df_match s = true.
Proof.
  destruct s as [|a [|b [|x [|c [|d [|y [|e [|f [|z [|g [|h r]]]]]]]]]]]; try discriminate.
  unfold ndf_match. intro M. rewrite !andb_true_iff in M. destruct M as ((((((((((A & B) & X) & C) & D) & Y) & E) & F) & Z) & G) & H).
  unfold df_match, df_sep. rewrite A, B, C, D, E, F, G, H, X, Y, Z. reflexivity.
Qed.
Lemma tcp_plain : upper_plain (T "TCP").
Proof. vm_compute. repeat constructor; try lia; discriminate. Qed.
Lemma acc_start_tc v : v <> JNull -> trigger KStartTc v = false -> agrees KStartTc v.
Proof.
  intros NN Tr. apply trigger_false in Tr as (_ & L & _). unfold agrees.
  destruct v; try contradiction; try (split; intro H; discriminate H).
  cbn [trigger_lenient] in L. unfold accepts, decode, dec_start_tc, documented.
  destruct (text_eqb s (T "TCP")) eqn:E.
  - apply text_eqb_eq in E. subst. split; reflexivity.
  - cbn [negb andb orb] in L |- *. apply orb_false_iff in L as [Ci Sh].
    destruct (text_eqb (py_upper s) (T "TCP")) eqn:U; [rewrite (py_upper_ci _ _ tcp_plain U) in Ci; discriminate|].
    assert (A : forall b : bool, is_ok (do x <- (if b then Ok (Some s) else Raise EValue); Ok (copt CText x)) = b) by (intros []; reflexivity).
    rewrite A. clear A. split.
    + intro M. assert (D : df_match s = true).
      { destruct (df_match s) eqn:D'; [reflexivity|]. cbn [orb] in M. rewrite (ndf_df _ M) in D'. discriminate D'. }
      clear M. destruct s as [|a [|b [|x [|c [|d [|y [|e [|f [|z [|g [|h r]]]]]]]]]]]; try discriminate D.
      destruct r as [|r0 r]; [|cbn [length] in Sh; lia].
      apply negb_false_iff in Sh. rewrite !andb_true_iff in Sh. destruct Sh as ((X & Y) & Z).
      apply Z.eqb_eq in X, Y, Z. subst x y z.
      unfold df_match in D. rewrite !andb_true_iff in D. destruct D as ((((((((((A & B) & _) & C) & D) & _) & E') & F) & _) & G) & H).
      apply tc_ok_of_shape. cbn [forallb]. change digit with is_d. rewrite A, B, C, D, E', F, G, H. reflexivity.
    + intro M. destruct (tc_ok_shape _ M) as (h1 & h2 & m1 & m2 & s1 & s2 & f1 & f2 & -> & Dg).
      cbn [forallb] in Dg. rewrite !andb_true_iff in Dg. destruct Dg as (A & B & C & D & E' & F & G & H & _).
      unfold df_match. change is_d with digit. rewrite A, B, C, D, E', F, G, H. reflexivity.
Qed.

(* ------------------------------------------------------------------ all keys but colours and font stacks *)
Definition table_key (k : key) : bool :=
  match k with KColor | KBgColor | KFontStack => false | _ => true end.
Theorem config_accepts k v :
  table_key k = true -> v <> JNull -> trigger k v = false -> (accepts k v = true <-> documented k v = true).
Proof.
  intros K NN Tr. destruct k; try discriminate K.
  - exact (acc_log_level v NN Tr).
  - apply acc_bool; [reflexivity|exact Tr].
  - exact (acc_document_lang v NN Tr).
  - exact (acc_time_format v NN).
  - exact (acc_fps v NN Tr).
  - exact (acc_scc_text_align v NN Tr).
  - apply acc_bool; [reflexivity|exact Tr].
  - exact (acc_start_tc v NN Tr).
  - apply acc_bool; [reflexivity|exact Tr].
  - exact (acc_max_row_count v NN Tr).
  - apply acc_bool; [reflexivity|exact Tr].
  - apply acc_bool; [reflexivity|exact Tr].
  - apply acc_bool; [reflexivity|exact Tr].
  - apply acc_bool; [reflexivity|exact Tr].
  - exact (acc_safe_area v NN Tr).
  - apply acc_bool; [reflexivity|exact Tr].
Qed.

(* ------------------------------------------------------------------ colours and font stacks: what is proved *)
(* values that are not strings are rejected, as documented *)
Lemma acc_not_string k v :
  (k = KColor \/ k = KBgColor \/ k = KFontStack) -> v <> JNull -> (forall s, v <> JStr s) ->
  accepts k v = false /\ documented k v = false.
Proof.
  intros K NN NS. destruct v; try contradiction; try (exfalso; eapply NS; reflexivity);
    destruct K as [->|[->| ->]]; split; reflexivity.
Qed.
(* every TTML named colour and every #rrggbb / #rrggbbaa is accepted *)
Lemma color_named_accepted k s : (k = KColor \/ k = KBgColor) -> one_of s ttml_named_colors = true -> accepts k (JStr s) = true.
Proof.
  intros K H. apply one_of_In in H. cbn [List.map In ttml_named_colors] in H.
  repeat (destruct H as [<-|H]; [destruct K as [->| ->]; vm_compute; reflexivity|]). contradiction.
Qed.
Lemma hexval_some c : hexdigit c = true -> exists v, hexval c = Some v.
Proof.
  unfold hexdigit, hexval, digit. change is_d with digit. unfold digit. intro H.
  destruct ((48 <=? c) && (c <=? 57)) eqn:A; [eauto|]. destruct ((65 <=? c) && (c <=? 70)) eqn:B; [eauto|].
  destruct ((97 <=? c) && (c <=? 102)) eqn:C; [eauto|]. discriminate H.
Qed.
Lemma color_hex_accepted k h :
  (k = KColor \/ k = KBgColor) -> forallb hexdigit h = true -> (length h = 6 \/ length h = 8)%nat ->
  accepts k (JStr (35 :: h)) = true /\ documented k (JStr (35 :: h)) = true.
Proof.
  intros K H L. split.
  - assert (X : exists c, match_hex (35 :: h) = Some c).
    { destruct L as [L|L].
      - destruct h as [|a [|b [|c [|d [|e [|f [|]]]]]]]; try discriminate L. cbn [forallb] in H.
        repeat (apply andb_true_iff in H as [?H H]).
        destruct (hexval_some a) as (? & Ea); [assumption|]. destruct (hexval_some b) as (? & Eb); [assumption|].
        destruct (hexval_some c) as (? & Ec); [assumption|]. destruct (hexval_some d) as (? & Ed); [assumption|].
        destruct (hexval_some e) as (? & Ee); [assumption|]. destruct (hexval_some f) as (? & Ef); [assumption|].
        unfold match_hex, hex2. rewrite Ea, Eb, Ec, Ed, Ee, Ef. eauto.
      - destruct h as [|a [|b [|c [|d [|e [|f [|g [|i [|]]]]]]]]]; try discriminate L. cbn [forallb] in H.
        repeat (apply andb_true_iff in H as [?H H]).
        destruct (hexval_some a) as (? & Ea); [assumption|]. destruct (hexval_some b) as (? & Eb); [assumption|].
        destruct (hexval_some c) as (? & Ec); [assumption|]. destruct (hexval_some d) as (? & Ed); [assumption|].
        destruct (hexval_some e) as (? & Ee); [assumption|]. destruct (hexval_some f) as (? & Ef); [assumption|].
        destruct (hexval_some g) as (? & Eg); [assumption|]. destruct (hexval_some i) as (? & Ei); [assumption|].
        unfold match_hex, hex2. rewrite Ea, Eb, Ec, Ed, Ee, Ef, Eg, Ei. eauto. }
    destruct X as (c & X).
    assert (P : exists c', parse_color (35 :: h) = Ok c').
    { unfold parse_color. destruct (assocT (py_lower (35 :: h)) named_colors); [eauto|]. rewrite X. eauto. }
    destruct P as (c' & P). destruct K as [->| ->]; unfold accepts, decode, dec_color; rewrite P; reflexivity.
  - assert (D : color_ok (35 :: h) = true).
    { unfold color_ok, color_form. apply orb_true_iff. left. apply orb_true_iff. left. apply orb_true_iff. right.
      rewrite H. destruct L as [-> | ->]; reflexivity. }
    destruct K as [->| ->]; exact D.
Qed.
(* a font stack made of one unquoted family name of two or more letters is documented and accepted *)
Lemma letter_props c : letter c = true ->
  (c =? 92) = false /\ mem c [39; 34; 44; 32] = false /\ mem c [39; 34; 44] = false /\ (c =? 32) = false /\
  (c =? 39) || (c =? 34) = false /\ (c =? 44) = false.
Proof. unfold letter, mem. cbn [existsb]. intro H. repeat split; lia. Qed.
Lemma fonts_unq_letters r : forallb letter r = true -> fonts_scan FsUnq false r = true.
Proof.
  induction r as [|c r IH]; [reflexivity|]. cbn [forallb]. intro H. apply andb_true_iff in H as [L R].
  destruct (letter_props _ L) as (A & _ & _ & _ & B & C). cbn [fonts_scan]. rewrite C, B, A. exact (IH R).
Qed.
Lemma font_single_name s :
  forallb letter s = true -> (2 <= length s)%nat ->
  accepts KFontStack (JStr s) = true /\ documented KFontStack (JStr s) = true.
Proof.
  intros H L. destruct s as [|a [|b r]]; try (cbn in L; lia). cbn [forallb] in H.
  apply andb_true_iff in H as [La H]. apply andb_true_iff in H as [Lb Lr].
  destruct (letter_props _ La) as (A1 & A2 & A3 & A4 & A5 & A6). destruct (letter_props _ Lb) as (B1 & B2 & B3 & B4 & B5 & B6).
  split.
  - assert (F : font_any (a :: b :: r) = true).
    { cbn [font_any]. apply orb_true_iff. left. unfold font_match_at. apply orb_true_iff. right.
      unfold noquote_match. apply orb_true_iff. right. unfold unit1_plain. rewrite A2. unfold has_unit2, unit_esc, unit2_plain.
      rewrite B3. destruct r; [reflexivity|]. rewrite B1. reflexivity. }
    unfold accepts, decode, dec_font_stack. rewrite F. reflexivity.
  - cbn [documented]. unfold fonts_ok. cbn [fonts_scan]. rewrite A4, A5, A6, A1.
    apply (fonts_unq_letters (b :: r)). cbn [forallb]. rewrite Lb, Lr. reflexivity.
Qed.

(* ------------------------------------------------------------------ every documented colour is accepted *)
Lemma strip_pre_app p s r : strip_pre p s = Some r -> s = p ++ r.
Proof.
  revert s; induction p as [|a p IH]; intros s H; cbn [strip_pre] in H.
  - inversion H; reflexivity.
  - destruct s as [|b s]; [discriminate|]. destruct (a =? b) eqn:E; [|discriminate].
    apply Z.eqb_eq in E. subst b. cbn [app]. f_equal. apply IH. exact H.
Qed.
Lemma strip_last_app c s m : strip_last c s = Some m -> s = m ++ [c].
Proof.
  unfold strip_last. destruct (rev s) as [|l t] eqn:R; [discriminate|]. destruct (l =? c) eqn:E; [|discriminate].
  intro H. inversion H; subst. apply Z.eqb_eq in E. subst l.
  rewrite <- (rev_involutive s), R. reflexivity.
Qed.
Lemma strip_prefix_app p r : strip_prefix p (p ++ r) = Some r.
Proof. induction p as [|a p IH]; [destruct r; reflexivity|]. cbn [app strip_prefix]. rewrite Z.eqb_refl. exact IH. Qed.

Lemma re_digit_ascii c : digit c = true -> is_re_digit c = true.
Proof.
  intro D. unfold is_re_digit, dec_digit, dec_zeros. cbn [digit_in]. change (48 + 9) with 57.
  unfold digit in D. rewrite D. reflexivity.
Qed.
Lemma re_space_digit c : digit c = true -> is_re_space c = false.
Proof. intro D. destruct (digit_cases _ D) as [->|[->|[->|[->|[->|[->|[->|[->|[->| ->]]]]]]]]]; reflexivity. Qed.
Definition sep_char (c : Z) : Prop := c = 44 \/ c = 41.
Lemma sep_props c : sep_char c -> is_re_digit c = false /\ is_re_space c = false.
Proof. intros [-> | ->]; split; reflexivity. Qed.
Lemma span_digits d c rest : forallb digit d = true -> is_re_digit c = false -> span is_re_digit (d ++ c :: rest) = (d, c :: rest).
Proof.
  intros D N. induction d as [|x d IH]; cbn [app span].
  - rewrite N. reflexivity.
  - cbn [forallb] in D. apply andb_true_iff in D as [Dx Dd]. rewrite (re_digit_ascii _ Dx), (IH Dd). reflexivity.
Qed.
Lemma digits1_ok d c rest : all_digits d = true -> sep_char c -> digits1 (d ++ c :: rest) = Some (d, c :: rest).
Proof.
  intros D S. destruct (sep_props _ S) as [N _]. unfold all_digits in D. destruct d as [|x d]; [discriminate|].
  unfold digits1. rewrite (span_digits _ _ _ D N). reflexivity.
Qed.
Lemma skip_at_digits d rest : all_digits d = true -> skip is_re_space (d ++ rest) = d ++ rest.
Proof.
  unfold all_digits. destruct d as [|x d]; [discriminate|]. cbn [forallb app skip]. intro D. apply andb_true_iff in D as [Dx _].
  rewrite (re_space_digit _ Dx). reflexivity.
Qed.
Lemma sp_digits_sp_ok d c rest : all_digits d = true -> sep_char c -> sp_digits_sp (d ++ c :: rest) = Some (d, c :: rest).
Proof.
  intros D S. unfold sp_digits_sp. rewrite (skip_at_digits _ _ D), (digits1_ok _ _ _ D S). cbn [obind fst snd skip].
  destruct (sep_props _ S) as [_ N]. rewrite N. reflexivity.
Qed.
Lemma component_digits x : component_ok x = true -> all_digits x = true.
Proof. unfold component_ok. intro H. apply andb_true_iff in H as [H _]. exact H. Qed.
Lemma int_of_component x n : all_digits x = true -> Z.of_nat (length x) <= n -> (n <=? 4300) = true -> py_int_of_text x = Ok (dval x).
Proof.
  unfold all_digits. destruct x as [|c x]; [discriminate|]. intros D L N. apply py_int_digits; [exact D|discriminate|lia].
Qed.

Lemma accepts_color_parse k s : (k = KColor \/ k = KBgColor) -> is_ok (parse_color s) = true -> accepts k (JStr s) = true.
Proof. intros [->| ->] H; unfold accepts, decode, dec_color; destruct (parse_color s); try discriminate H; reflexivity. Qed.

Lemma rgb_accepted body : (Z.of_nat (length body) <=? 4290) = true ->
  match fields 44 body with [r; g; b] => forallb component_ok [r; g; b] | _ => false end = true ->
  is_ok (parse_color (T "rgb(" ++ body ++ [41])) = true.
Proof.
  intros Len H. pose proof (fields_join 44 body) as J.
  destruct (fields 44 body) as [|r [|g [|b [|]]]]; try discriminate H.
  cbn [forallb] in H. apply andb_true_iff in H as [Hr H]. apply andb_true_iff in H as [Hg H]. apply andb_true_iff in H as [Hb _].
  apply component_digits in Hr, Hg, Hb. cbn [join] in J. subst body.
  assert (Lr : Z.of_nat (length r) <= Z.of_nat (length (r ++ 44 :: g ++ 44 :: b))) by (repeat (rewrite app_length; cbn [length]); lia).
  assert (Lg : Z.of_nat (length g) <= Z.of_nat (length (r ++ 44 :: g ++ 44 :: b))) by (repeat (rewrite app_length; cbn [length]); lia).
  assert (Lb : Z.of_nat (length b) <= Z.of_nat (length (r ++ 44 :: g ++ 44 :: b))) by (repeat (rewrite app_length; cbn [length]); lia).
  assert (N : (Z.of_nat (length (r ++ 44 :: g ++ 44 :: b)) <=? 4300) = true) by lia.
  unfold parse_color. destruct (assocT _ named_colors); [reflexivity|].
  change (T "rgb(") with [114; 103; 98; 40]. cbn [app match_hex].
  assert (M : match_rgb (114 :: 103 :: 98 :: 40 :: (r ++ 44 :: g ++ 44 :: b) ++ [41]) = Some (r, g, b)).
  { unfold match_rgb. change (T "rgb(") with [114; 103; 98; 40]. cbn [strip_prefix Z.eqb Pos.eqb obind].
    rewrite <- !app_assoc. cbn [app].
    rewrite (sp_digits_sp_ok r 44 _ Hr (or_introl eq_refl)). cbn [obind fst snd strip_prefix Z.eqb Pos.eqb].
    rewrite <- !app_assoc. cbn [app].
    rewrite (sp_digits_sp_ok g 44 _ Hg (or_introl eq_refl)). cbn [obind fst snd strip_prefix Z.eqb Pos.eqb].
    rewrite (sp_digits_sp_ok b 41 _ Hb (or_intror eq_refl)). cbn [obind fst snd strip_prefix Z.eqb Pos.eqb]. reflexivity. }
  rewrite M. rewrite (int_of_component r _ Hr Lr N), (int_of_component g _ Hg Lg N), (int_of_component b _ Hb Lb N). reflexivity.
Qed.
Lemma rgba_accepted body : (Z.of_nat (length body) <=? 4290) = true ->
  match fields 44 body with [r; g; b; a] => forallb component_ok [r; g; b; a] | _ => false end = true ->
  is_ok (parse_color (T "rgba(" ++ body ++ [41])) = true.
Proof.
  intros Len H. pose proof (fields_join 44 body) as J.
  destruct (fields 44 body) as [|r [|g [|b [|a [|]]]]]; try discriminate H.
  cbn [forallb] in H. apply andb_true_iff in H as [Hr H]. apply andb_true_iff in H as [Hg H]. apply andb_true_iff in H as [Hb H].
  apply andb_true_iff in H as [Ha _].
  apply component_digits in Hr, Hg, Hb, Ha. cbn [join] in J. subst body.
  assert (Lr : Z.of_nat (length r) <= Z.of_nat (length (r ++ 44 :: g ++ 44 :: b ++ 44 :: a))) by (repeat (rewrite app_length; cbn [length]); lia).
  assert (Lg : Z.of_nat (length g) <= Z.of_nat (length (r ++ 44 :: g ++ 44 :: b ++ 44 :: a))) by (repeat (rewrite app_length; cbn [length]); lia).
  assert (Lb : Z.of_nat (length b) <= Z.of_nat (length (r ++ 44 :: g ++ 44 :: b ++ 44 :: a))) by (repeat (rewrite app_length; cbn [length]); lia).
  assert (La : Z.of_nat (length a) <= Z.of_nat (length (r ++ 44 :: g ++ 44 :: b ++ 44 :: a))) by (repeat (rewrite app_length; cbn [length]); lia).
  assert (N : (Z.of_nat (length (r ++ 44 :: g ++ 44 :: b ++ 44 :: a)) <=? 4300) = true) by lia.
  unfold parse_color. destruct (assocT _ named_colors); [reflexivity|].
  change (T "rgba(") with [114; 103; 98; 97; 40]. cbn [app match_hex].
  assert (M0 : match_rgb (114 :: 103 :: 98 :: 97 :: 40 :: (r ++ 44 :: g ++ 44 :: b ++ 44 :: a) ++ [41]) = None).
  { unfold match_rgb. change (T "rgb(") with [114; 103; 98; 40]. reflexivity. }
  assert (M : match_rgba (114 :: 103 :: 98 :: 97 :: 40 :: (r ++ 44 :: g ++ 44 :: b ++ 44 :: a) ++ [41]) = Some (r, g, b, a)).
  { unfold match_rgba. change (T "rgba(") with [114; 103; 98; 97; 40]. cbn [strip_prefix Z.eqb Pos.eqb obind].
    rewrite <- !app_assoc. cbn [app].
    rewrite (skip_at_digits _ _ Hr), (digits1_ok r 44 _ Hr (or_introl eq_refl)). cbn [obind fst snd strip_prefix Z.eqb Pos.eqb].
    rewrite <- !app_assoc. cbn [app].
    rewrite (sp_digits_sp_ok g 44 _ Hg (or_introl eq_refl)). cbn [obind fst snd strip_prefix Z.eqb Pos.eqb].
    rewrite <- !app_assoc. cbn [app].
    rewrite (sp_digits_sp_ok b 44 _ Hb (or_introl eq_refl)). cbn [obind fst snd strip_prefix Z.eqb Pos.eqb].
    rewrite (sp_digits_sp_ok a 41 _ Ha (or_intror eq_refl)). cbn [obind fst snd strip_prefix Z.eqb Pos.eqb]. reflexivity. }
  rewrite M0, M.
  rewrite (int_of_component r _ Hr Lr N), (int_of_component g _ Hg Lg N), (int_of_component b _ Hb Lb N), (int_of_component a _ Ha La N).
  reflexivity.
Qed.

Theorem color_complete k s :
  (k = KColor \/ k = KBgColor) -> (Z.of_nat (length s) <=? 4290) = true -> color_ok s = true -> accepts k (JStr s) = true.
Proof.
  intros K Len H. unfold color_ok, color_form in H. apply orb_true_iff in H as [H|H]; [apply orb_true_iff in H as [H|H]; [apply orb_true_iff in H as [H|H]|]|].
  - exact (color_named_accepted k s K H).
  - destruct s as [|c h]; [discriminate|]. destruct (c =? 35) eqn:C.
    + apply Z.eqb_eq in C. subst c. apply andb_true_iff in H as [Hx Hl].
      apply (color_hex_accepted k h K Hx). apply orb_true_iff in Hl as [L|L]; apply Z.eqb_eq in L; lia.
    + destruct c as [|c|c]; try discriminate H. repeat (destruct c as [c|c|]; try discriminate H). discriminate C.
  - apply accepts_color_parse; [exact K|]. unfold strip_both in H.
    destruct (strip_pre (T "rgb(") s) as [r|] eqn:P; [|discriminate]. destruct (strip_last 41 r) as [body|] eqn:Q; [|discriminate].
    apply strip_pre_app in P. apply strip_last_app in Q. subst r s. apply rgb_accepted; [|exact H].
    rewrite !app_length in Len. lia.
  - apply accepts_color_parse; [exact K|]. unfold strip_both in H.
    destruct (strip_pre (T "rgba(") s) as [r|] eqn:P; [|discriminate]. destruct (strip_last 41 r) as [body|] eqn:Q; [|discriminate].
    apply strip_pre_app in P. apply strip_last_app in Q. subst r s. apply rgba_accepted; [|exact H].
    rewrite !app_length in Len. lia.
Qed.
Theorem color_complete_documented k s :
  (k = KColor \/ k = KBgColor) -> (Z.of_nat (length s) <=? 4290) = true -> documented k (JStr s) = true -> accepts k (JStr s) = true.
Proof. intros K L D. apply (color_complete k s K L). destruct K as [->| ->]; exact D. Qed.
