(* C19: what the plan does NOT depend on.  Model/Cli.v convert reads the configuration only through look-ups of the
   sections it consults and, inside a section, of the keys README documents for it.  Hence: two configurations that give
   the same value to every documented key of every consulted section give the same plan (same error included) —
   whatever the order of their keys, whatever other sections and other keys they carry. *)
From Coq Require Import String Permutation.
From TT Require Import Base.Prelude Base.CliTypes Gen.CliUnicode Model.Cli Spec.CliSpec Proofs.C19.Plan Proofs.C19.Types.

(* ------------------------------------------------------------------ agreement of two configurations *)
Definition keys_agree (sec : string) (d d' : list (text * json)) : Prop :=
  forall nk, In nk (keys_of sec) -> obj_get (T (fst nk)) d = obj_get (T (fst nk)) d'.
Definition sec_agree (sec : string) (o o' : option json) : Prop :=
  match o, o' with
  | Some (JObj d), Some (JObj d') => keys_agree sec d d'
  | _, _ => o = o'
  end.
(* the sections a command line consults (Spec/CliSpec.v sections_consulted, as a predicate on names) *)
Definition consulted (o : options) (name : string) : bool := existsb (String.eqb name) (sections_consulted o).
Definition cfg_agree (o : options) (c c' : option json) : Prop :=
  match c, c' with
  | Some (JObj l), Some (JObj l') => forall name, consulted o name = true -> sec_agree name (obj_get (T name) l) (obj_get (T name) l')
  | _, _ => c = c'
  end.

(* a module parser sees its section through its documented keys only *)
Lemma field_agree {A} sec d d' name (dec : json -> res A) dflt :
  keys_agree sec d d' -> In name (List.map fst (keys_of sec)) -> field d name dec dflt = field d' name dec dflt.
Proof. intros K I. unfold field. apply in_map_iff in I as (nk & <- & I). rewrite (K nk I). reflexivity. Qed.
Ltac fields K := repeat (rewrite (field_agree _ _ _ _ _ _ K) by (cbn; tauto)); reflexivity.
Lemma parse_general_agree d d' : keys_agree "general" d d' -> parse_general d = parse_general d'.
Proof. intro K. unfold parse_general. fields K. Qed.
Lemma parse_imsc_agree d d' : keys_agree "imsc_writer" d d' -> parse_imsc d = parse_imsc d'.
Proof. intro K. unfold parse_imsc. fields K. Qed.
Lemma parse_scc_agree d d' : keys_agree "scc_reader" d d' -> parse_scc d = parse_scc d'.
Proof. intro K. unfold parse_scc. fields K. Qed.
Lemma parse_stl_agree d d' : keys_agree "stl_reader" d d' -> parse_stl d = parse_stl d'.
Proof. intro K. unfold parse_stl. fields K. Qed.
Lemma parse_srt_agree d d' : keys_agree "srt_writer" d d' -> parse_srt d = parse_srt d'.
Proof. intro K. unfold parse_srt. fields K. Qed.
Lemma parse_vtt_agree d d' : keys_agree "vtt_writer" d d' -> parse_vtt d = parse_vtt d'.
Proof. intro K. unfold parse_vtt. fields K. Qed.
Lemma parse_lcd_agree d d' : keys_agree "lcd" d d' -> parse_lcd d = parse_lcd d'.
Proof. intro K. unfold parse_lcd. fields K. Qed.

Lemma read_config_agree {A} o name (parse : list (text * json) -> res A) c c' :
  (forall d d', keys_agree name d d' -> parse d = parse d') -> cfg_agree o c c' -> consulted o name = true ->
  read_config name parse c = read_config name parse c'.
Proof.
  intros P Ag Co. unfold read_config. destruct c as [[]|]; destruct c' as [[]|]; try (inversion Ag; subst; reflexivity); try discriminate Ag.
  specialize (Ag name Co). unfold sec_agree in Ag.
  destruct (obj_get (T name) l) as [[]|]; destruct (obj_get (T name) l0) as [[]|]; try (inversion Ag; subst; reflexivity); try discriminate Ag.
  rewrite (P _ _ Ag). reflexivity.
Qed.
Lemma apply_filters_ext names c c' :
  (existsb spec_known_filter names = true -> read_config "lcd" parse_lcd c = read_config "lcd" parse_lcd c') ->
  apply_filters names c = apply_filters names c'.
Proof.
  induction names as [|n r IH]; intro H; [reflexivity|]. cbn [apply_filters existsb] in *. rewrite <- known_filter_spec in H. unfold known_filter in H.
  destruct (get_filter_by_name n) as [[]|]; cbn [orb] in H.
  - rewrite (H eq_refl), (IH (fun _ => H eq_refl)). reflexivity.
  - exact (IH H).
Qed.

(* ------------------------------------------------------------------ the plan as a function of the loaded configuration *)
Definition convert_with (o : options) (data : option json) : res plan_t :=
  do g <- read_config "general" parse_general data;
  let progress := match g with Some (_, pb, _) => Some pb | None => None end in
  do level <- match g with
              | Some (ll, _, _) => if is_null ll then Ok None else do z <- check_level ll; Ok (Some z)
              | None => Ok None end;
  do rt <- get_file_type (o_itype o) (splitext (o_input o));
  do wt <- get_file_type (o_otype o) (splitext (o_output o));
  do rd <- match rt with
           | TTML => Ok RdTtml
           | SCC => do c <- read_config "scc_reader" parse_scc data; Ok (RdScc c)
           | STL => do c <- read_config "stl_reader" parse_stl data; Ok (RdStl c)
           | SRT => Ok RdSrt
           | VTT => Ok RdVtt
           end;
  do lang <- match g with
             | Some (_, _, dl) => if is_null dl then Ok None else do s <- check_lang dl; Ok (Some s)
             | None => Ok None end;
  do fs <- apply_filters (o_filters o) data;
  do wr <- match wt with
           | TTML => do c <- read_config "imsc_writer" parse_imsc data; Ok (WrTtml c)
           | SRT => do c <- read_config "srt_writer" parse_srt data; Ok (WrSrt c)
           | VTT => do c <- read_config "vtt_writer" parse_vtt data; Ok (WrVtt c)
           | SCC | STL => Raise EExitUnsupported
           end;
  Ok (Build_plan_t rd lang fs wr level progress).
Lemma convert_load o i f : convert o i f = do data <- load_config i f; convert_with o data.
Proof. reflexivity. Qed.

Lemma find_type_of g p t : get_file_type g (splitext p) = Ok t -> find_type g p = Some t.
Proof.
  intro G. apply types_iff in G. unfold find_type. destruct (find (type_ok g p) all_types) as [t'|] eqn:F.
  - apply find_some in F as [_ F]. f_equal. exact (types_unique _ _ _ _ F G).
  - pose proof (find_none _ _ F t) as N. rewrite N in G; [discriminate G|]. destruct t; cbn; tauto.
Qed.
Lemma consulted_general o : consulted o "general" = true.
Proof. unfold consulted, sections_consulted. destruct (find_type _ _); [destruct (find_type _ _)|]; reflexivity. Qed.

Theorem plan_depends_on_consulted_keys_only o c c' : cfg_agree o c c' -> convert_with o c = convert_with o c'.
Proof.
  intro Ag. unfold convert_with.
  rewrite (read_config_agree o "general" parse_general c c' parse_general_agree Ag (consulted_general o)).
  destruct (read_config "general" parse_general c') as [g|]; [|reflexivity]. cbn [bind].
  destruct (match g with Some (ll, _, _) => _ | None => _ end) as [level|]; [|reflexivity]. cbn [bind].
  destruct (get_file_type (o_itype o) (splitext (o_input o))) as [rt|] eqn:Ti; [|reflexivity]. cbn [bind].
  destruct (get_file_type (o_otype o) (splitext (o_output o))) as [wt|] eqn:To; [|reflexivity]. cbn [bind].
  assert (Co : forall name, In name (sections_in_use rt wt (o_filters o)) -> consulted o name = true).
  { intros name I. unfold consulted, sections_consulted. rewrite (find_type_of _ _ _ Ti), (find_type_of _ _ _ To).
    apply existsb_exists. exists name. split; [exact I|apply String.eqb_refl]. }
  assert (R : match rt with
              | TTML => Ok RdTtml
              | SCC => do c0 <- read_config "scc_reader" parse_scc c; Ok (RdScc c0)
              | STL => do c0 <- read_config "stl_reader" parse_stl c; Ok (RdStl c0)
              | SRT => Ok RdSrt
              | VTT => Ok RdVtt end =
              match rt with
              | TTML => Ok RdTtml
              | SCC => do c0 <- read_config "scc_reader" parse_scc c'; Ok (RdScc c0)
              | STL => do c0 <- read_config "stl_reader" parse_stl c'; Ok (RdStl c0)
              | SRT => Ok RdSrt
              | VTT => Ok RdVtt end).
  { destruct rt; try reflexivity.
    - rewrite (read_config_agree o "scc_reader" parse_scc c c' parse_scc_agree Ag); [reflexivity|]. apply Co. unfold sections_in_use. cbn. tauto.
    - rewrite (read_config_agree o "stl_reader" parse_stl c c' parse_stl_agree Ag); [reflexivity|]. apply Co. unfold sections_in_use. cbn. tauto. }
  rewrite R. clear R. match goal with |- bind ?r _ = bind ?r _ => destruct r as [rd|]; [|reflexivity] end. cbn [bind].
  match goal with |- bind ?r _ = bind ?r _ => destruct r as [lang|]; [|reflexivity] end. cbn [bind].
  rewrite (apply_filters_ext (o_filters o) c c').
  2:{ intro K. apply (read_config_agree o "lcd" parse_lcd c c' parse_lcd_agree Ag). apply Co. unfold sections_in_use. rewrite K.
      apply in_or_app. right. apply in_or_app. right. apply in_or_app. left. left. reflexivity. }
  destruct (apply_filters (o_filters o) c') as [fs|]; [|reflexivity]. cbn [bind].
  assert (W : forall s, In s (match wt with TTML => ["imsc_writer"%string] | SRT => ["srt_writer"%string] | VTT => ["vtt_writer"%string] | _ => [] end) ->
                        consulted o s = true).
  { intros s I. apply Co. unfold sections_in_use. apply in_or_app. right. apply in_or_app. right. apply in_or_app. right. exact I. }
  destruct wt; try reflexivity.
  - rewrite (read_config_agree o "imsc_writer" parse_imsc c c' parse_imsc_agree Ag); [reflexivity|]. apply W. left. reflexivity.
  - rewrite (read_config_agree o "srt_writer" parse_srt c c' parse_srt_agree Ag); [reflexivity|]. apply W. left. reflexivity.
  - rewrite (read_config_agree o "vtt_writer" parse_vtt c c' parse_vtt_agree Ag); [reflexivity|]. apply W. left. reflexivity.
Qed.

(* ------------------------------------------------------------------ corollaries *)
(* look-up in an object whose keys are distinct: order does not matter *)
Lemma obj_get_app k l x : obj_get k (l ++ [x]) = if text_eqb k (fst x) then Some (snd x) else obj_get k l.
Proof. unfold obj_get. rewrite fold_left_app. reflexivity. Qed.
Lemma obj_get_in k l : NoDup (List.map fst l) -> forall v, obj_get k l = Some v <-> In (k, v) l.
Proof.
  induction l as [|[k' v'] l IH] using rev_ind; intros ND v.
  - split; [discriminate|intros []].
  - rewrite map_app in ND. cbn [List.map fst] in ND. apply NoDup_remove in ND as [ND NI]. rewrite app_nil_r in ND, NI.
    rewrite obj_get_app. cbn [fst snd]. rewrite in_app_iff. cbn [In]. destruct (text_eqb k k') eqn:E.
    + apply text_eqb_eq in E. subst k'. split.
      * intro H; inversion H; subst. right. left. reflexivity.
      * intros [I|[I|[]]]; [exfalso; apply NI; apply in_map_iff; exists (k, v); split; [reflexivity|exact I]|inversion I; reflexivity].
    + rewrite (IH ND v). split; [tauto|]. intros [I|[I|[]]]; [exact I|]. inversion I; subst.
      assert (text_eqb k k = true) by (apply text_eqb_eq; reflexivity). congruence.
Qed.
Lemma obj_get_perm l l' : Permutation l l' -> NoDup (List.map fst l) -> forall k, obj_get k l = obj_get k l'.
Proof.
  intros P ND k. assert (ND' : NoDup (List.map fst l')) by (eapply Permutation_NoDup; [apply Permutation_map; exact P|exact ND]).
  destruct (obj_get k l) as [v|] eqn:E.
  - apply (obj_get_in k l ND) in E. symmetry. apply (obj_get_in k l' ND'). eapply Permutation_in; eassumption.
  - destruct (obj_get k l') as [v|] eqn:E'; [|reflexivity]. apply (obj_get_in k l' ND') in E'.
    apply Permutation_sym in P. pose proof (Permutation_in _ P E') as I. apply (obj_get_in k l ND) in I. congruence.
Qed.
Lemma sec_agree_refl sec o : sec_agree sec o o.
Proof. unfold sec_agree. destruct o as [[]|]; try reflexivity. intros nk _. reflexivity. Qed.
(* 1. the order of the sections *)
Theorem section_order_irrelevant o l l' :
  Permutation l l' -> NoDup (List.map fst l) -> convert_with o (Some (JObj l)) = convert_with o (Some (JObj l')).
Proof.
  intros P ND. apply plan_depends_on_consulted_keys_only. intros name _. rewrite (obj_get_perm l l' P ND). apply sec_agree_refl.
Qed.
(* 2. the order of the keys inside a section (the section being given once) *)
Theorem key_order_irrelevant o l1 l2 name d d' :
  Permutation d d' -> NoDup (List.map fst d) -> ~ In name (List.map fst l2) ->
  convert_with o (Some (JObj (l1 ++ (name, JObj d) :: l2))) = convert_with o (Some (JObj (l1 ++ (name, JObj d') :: l2))).
Proof.
  intros P ND NI. apply plan_depends_on_consulted_keys_only. intros sec _.
  assert (G : forall x, obj_get (T sec) (l1 ++ (name, x) :: l2) =
                        match obj_get (T sec) l2 with Some v => Some v | None => if text_eqb (T sec) name then Some x else obj_get (T sec) l1 end).
  { intro x. unfold obj_get. rewrite fold_left_app. cbn [fold_left fst snd].
    generalize (if text_eqb (T sec) name then Some x else fold_left (fun acc kv => if text_eqb (T sec) (fst kv) then Some (snd kv) else acc) l1 None).
    induction l2 as [|[k v] l2 IH] using rev_ind; intro a; [reflexivity|]. rewrite !fold_left_app. cbn [fold_left fst snd].
    destruct (text_eqb (T sec) k); [reflexivity|]. apply IH. intro I. apply NI. rewrite map_app. apply in_or_app. left. exact I. }
  rewrite !G. destruct (obj_get (T sec) l2); [apply sec_agree_refl|]. destruct (text_eqb (T sec) name); [|apply sec_agree_refl].
  intros nk _. apply obj_get_perm; assumption.
Qed.
(* 3. sections the command line does not consult, whatever they hold *)
Theorem unrelated_sections_irrelevant o l l' :
  (forall name, consulted o name = true -> obj_get (T name) l = obj_get (T name) l') ->
  convert_with o (Some (JObj l)) = convert_with o (Some (JObj l')).
Proof. intro H. apply plan_depends_on_consulted_keys_only. intros name C. rewrite (H name C). apply sec_agree_refl. Qed.
(* 4. keys README does not document for a section are ignored (README is silent about them; so is the code) *)
Lemma T_inj a b : T a = T b -> a = b.
Proof.
  unfold T. intro E. apply (f_equal (List.map (fun z => Ascii.ascii_of_N (Z.to_N z)))) in E. rewrite !map_map in E.
  assert (Id : forall s, List.map (fun a => Ascii.ascii_of_N (Z.to_N (Z.of_N (Ascii.N_of_ascii a)))) (list_ascii_of_string s) = list_ascii_of_string s).
  { intro s. induction (list_ascii_of_string s) as [|c r IH]; [reflexivity|]. cbn [List.map]. rewrite N2Z.id, Ascii.ascii_N_embedding, IH. reflexivity. }
  rewrite !Id in E. rewrite <- (string_of_list_ascii_of_string a), <- (string_of_list_ascii_of_string b), E. reflexivity.
Qed.
Definition known_key (sec : string) (k : text) : bool := existsb (fun nk => text_eqb (T (fst nk)) k) (keys_of sec).
Theorem unknown_key_ignored o l1 l2 name d1 d2 k v :
  known_key name k = false ->
  convert_with o (Some (JObj (l1 ++ (T name, JObj (d1 ++ (k, v) :: d2)) :: l2))) =
  convert_with o (Some (JObj (l1 ++ (T name, JObj (d1 ++ d2)) :: l2))).
Proof.
  intro U. apply plan_depends_on_consulted_keys_only. intros sec _.
  assert (G : forall x y, (text_eqb (T sec) (T name) = true -> sec_agree sec (Some x) (Some y)) ->
              sec_agree sec (obj_get (T sec) (l1 ++ (T name, x) :: l2)) (obj_get (T sec) (l1 ++ (T name, y) :: l2))).
  { intros x y A. unfold obj_get. rewrite !fold_left_app. cbn [fold_left fst snd].
    destruct (text_eqb (T sec) (T name)) eqn:E; [|apply sec_agree_refl].
    set (F := fun acc kv => _). assert (X : forall a b, sec_agree sec a b -> sec_agree sec (fold_left F l2 a) (fold_left F l2 b)).
    { induction l2 as [|[k' v'] l2 IH]; intros a b H; [exact H|]. cbn [fold_left]. apply IH. unfold F. cbn [fst snd].
      destruct (text_eqb (T sec) k'); [apply sec_agree_refl|exact H]. }
    apply X. exact (A eq_refl). }
  apply G. intro E. apply text_eqb_eq in E. apply T_inj in E. subst sec. cbn [sec_agree]. intros nk I.
  assert (N : text_eqb (T (fst nk)) k = false).
  { destruct (text_eqb (T (fst nk)) k) eqn:X; [|reflexivity]. exfalso.
    assert (K : known_key name k = true) by (unfold known_key; apply existsb_exists; exists nk; split; assumption). congruence. }
  unfold obj_get. rewrite !fold_left_app. cbn [fold_left fst snd]. rewrite N. reflexivity.
Qed.
