(* C19: laws of Model/Cli.v `plan` that do not depend on the character-level decoders: configuration precedence,
   filter order, document_lang, and what an error / the usage text / an unknown sub-command leave behind. *)
From Coq Require Import String.
From TT Require Import Base.Prelude Base.CliTypes Gen.CliUnicode Model.Cli Spec.CliSpec.

Ltac inv_bind H :=
  repeat match type of H with
         | bind ?r _ = Ok _ => let E := fresh "E" in destruct r eqn:E; [cbn [bind] in H | discriminate H]
         end.

(* ---- precedence: with a configuration file, the inline configuration (if it is JSON at all) is irrelevant *)
Lemma precedence a j1 j2 : plan a (IGiven j1) (FGiven j2) = plan a IAbsent (FGiven j2).
Proof. destruct a; reflexivity. Qed.
Lemma inline_alone a j : plan a (IGiven j) FAbsent = plan a IAbsent (FGiven j).
Proof. destruct a; reflexivity. Qed.
(* ... but --config is parsed before --config_file is looked at: malformed inline JSON ends the run even when a
   well-formed file would override it *)
Lemma malformed_inline o f : plan (Subcommand (T "convert") o) IMalformed f = OError EJsonDecode.
Proof. reflexivity. Qed.
Lemma is_subcommand n : existsb (text_eqb n) subcommands = text_eqb n (T "convert").
Proof. unfold subcommands. cbn [existsb]. apply orb_false_r. Qed.
(* the effective configuration is the specification's: the file if given, else the inline one *)
Lemma load_config_effective i f d : load_config i f = Ok d -> d = effective i f.
Proof. destruct i, f; cbn; intro H; inversion H; reflexivity. Qed.
Lemma load_config_sources i f : is_ok (load_config i f) = sources_ok i f.
Proof. destruct i, f; reflexivity. Qed.

(* ---- filters: the applied filters are the known names of the command line, in order, each configured from
   the section named after it *)
Definition known_filter (n : text) : bool := match get_filter_by_name n with Some _ => true | None => false end.
Definition filter_name (f : filter_app) : text := match f with FLcd _ => T "lcd" end.
Definition lcd_of (data : option json) : lcd_cfg :=
  match read_config "lcd" parse_lcd data with Ok (Some c) => c | _ => default_lcd end.

Lemma known_filter_spec n : known_filter n = spec_known_filter n.
Proof.
  unfold known_filter, spec_known_filter, get_filter_by_name, filter_registry. cbn [assocT].
  destruct (text_eqb n (T "lcd")); reflexivity.
Qed.
Lemma known_filter_name n : known_filter n = true -> n = T "lcd".
Proof. rewrite known_filter_spec. unfold spec_known_filter. apply text_eqb_eq. Qed.

Lemma apply_filters_spec names data fs :
  apply_filters names data = Ok fs ->
  fs = List.map (fun _ => FLcd (lcd_of data)) (List.filter known_filter names).
Proof.
  revert fs; induction names as [|n r IH]; intros fs H; cbn [apply_filters] in H.
  - inversion H; reflexivity.
  - cbn [List.filter]. unfold known_filter at 1. destruct (get_filter_by_name n) as [[]|].
    + inv_bind H. inversion H; subst. cbn [List.map]. f_equal.
      * unfold lcd_of. rewrite E. destruct a; reflexivity.
      * apply IH; reflexivity.
    + apply IH; exact H.
Qed.
Lemma names_of_map c names :
  List.map filter_name (List.map (fun _ : text => FLcd c) (List.filter known_filter names)) = List.filter known_filter names.
Proof.
  induction names as [|n r IH]; [reflexivity|].
  cbn [List.filter]. destruct (known_filter n) eqn:K; [|exact IH].
  cbn [List.map]. rewrite IH. f_equal. cbn [filter_name]. symmetry. apply known_filter_name. exact K.
Qed.
Lemma apply_filters_names names data fs :
  apply_filters names data = Ok fs -> List.map filter_name fs = List.filter known_filter names.
Proof. intro H. rewrite (apply_filters_spec _ _ _ H). apply names_of_map. Qed.

(* ---- inversion of a successful conversion plan *)
Definition general_of (data : option json) : option (json * bool * json) :=
  match read_config "general" parse_general data with Ok g => g | Raise _ => None end.
Lemma convert_ok o i f p :
  convert o i f = Ok p ->
  exists rt wt,
    get_file_type (o_itype o) (splitext (o_input o)) = Ok rt /\
    get_file_type (o_otype o) (splitext (o_output o)) = Ok wt /\
    reader_type (p_reader p) = rt /\ writer_type (p_writer p) = wt /\ writable wt = true /\
    is_ok (load_config i f) = true /\
    apply_filters (o_filters o) (effective i f) = Ok (p_filters p) /\
    p_lang p = match general_of (effective i f) with
               | Some (_, _, JStr s) => Some s
               | _ => None end.
Proof.
  unfold convert. intro H. inv_bind H.
  pose proof (load_config_effective _ _ _ E) as Ea. subst a.
  exists a2, a3. inversion H; subst; clear H. cbn [p_reader p_writer p_filters p_lang is_ok].
  split; [reflexivity|]. split; [reflexivity|].
  split; [destruct a2; inv_bind E4; inversion E4; reflexivity|].
  split; [destruct a3; try discriminate E7; inv_bind E7; inversion E7; reflexivity|].
  split; [destruct a3; try discriminate E7; reflexivity|].
  split; [reflexivity|]. split; [exact E6|].
  unfold general_of. rewrite E0. destruct a0 as [[[ll pb] dl]|]; [|inversion E5; reflexivity].
  destruct dl; cbn in E5; inversion E5; reflexivity.
Qed.

Lemma filters_order n o i f p :
  plan (Subcommand n o) i f = OPlan p ->
  List.map filter_name (p_filters p) = List.filter spec_known_filter (o_filters o).
Proof.
  unfold plan. rewrite is_subcommand. destruct (text_eqb n (T "convert")); [|discriminate].
  destruct (convert o i f) eqn:C; [|discriminate]. intro H; inversion H; subst.
  destruct (convert_ok _ _ _ _ C) as (rt & wt & _ & _ & _ & _ & _ & _ & F & _).
  rewrite (apply_filters_names _ _ _ F). apply filter_ext. intro x. apply known_filter_spec.
Qed.

(* document_lang of the effective configuration (the file's, if a file is given) overrides the document language;
   absent or null leaves it alone; anything but a string is an error before any output *)
Lemma lang_override n o i f p :
  plan (Subcommand n o) i f = OPlan p ->
  p_lang p = match general_of (effective i f) with Some (_, _, JStr s) => Some s | _ => None end.
Proof.
  unfold plan. rewrite is_subcommand. destruct (text_eqb n (T "convert")); [|discriminate].
  destruct (convert o i f) eqn:C; [|discriminate]. intro H; inversion H; subst.
  destruct (convert_ok _ _ _ _ C) as (rt & wt & _ & _ & _ & _ & _ & _ & _ & L). exact L.
Qed.

(* ---- errors leave nothing behind *)
Lemma error_no_output a i f e : plan a i f = OError e -> output_action a (plan a i f) = None.
Proof. intros ->. destruct a; reflexivity. Qed.
Lemma help_no_output i f : plan NoSubcommand i f = OHelp /\ output_action NoSubcommand (plan NoSubcommand i f) = None.
Proof. split; reflexivity. Qed.
Lemma unknown_subcommand n o i f : n <> T "convert" -> plan (Subcommand n o) i f = OError EExitUsage.
Proof.
  intro H. unfold plan. rewrite is_subcommand. destruct (text_eqb n (T "convert")) eqn:E; [|reflexivity].
  apply text_eqb_eq in E. contradiction.
Qed.
(* an output action exists only for `convert`, with both types resolved, a writable output type and
   well-formed configuration sources; it names the -o path and the planned writer *)
Lemma output_only_if_valid a i f path w :
  output_action a (plan a i f) = Some (path, w) ->
  exists n o p, a = Subcommand n o /\ n = T "convert" /\ plan a i f = OPlan p /\ path = o_output o /\ w = p_writer p /\
    get_file_type (o_itype o) (splitext (o_input o)) = Ok (reader_type (p_reader p)) /\
    get_file_type (o_otype o) (splitext (o_output o)) = Ok (writer_type w) /\ writable (writer_type w) = true /\
    sources_ok i f = true.
Proof.
  destruct a as [|n o]; [discriminate|]. unfold plan. rewrite is_subcommand.
  destruct (text_eqb n (T "convert")) eqn:N; [|discriminate].
  destruct (convert o i f) eqn:C; [|discriminate]. cbn [output_action]. intro H; inversion H; subst.
  destruct (convert_ok _ _ _ _ C) as (rt & wt & R & W & <- & <- & Wr & S & _).
  exists n, o, a. rewrite <- load_config_sources. apply text_eqb_eq in N. repeat split; assumption.
Qed.
