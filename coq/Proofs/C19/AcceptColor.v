(* C19: lcd.color / lcd.bg_color.  For every string free of upper-case letters, ASCII white space and non-ASCII characters
   (the trigger of what is left of finding undocumented-values-accepted) and no longer than CPython's int() digit limit,
   ttconv.utils.parse_color (Model/Cli.v) accepts it exactly when it is a TTML2 <color> (Spec/CliSpec.v color_ok) and then
   returns the RGBA value TTML2 gives it (mean_color_text).  null is documented and means "not specified"; any other
   non-string is rejected. *)
From Coq Require Import String.
From TT Require Import Base.Prelude Base.CliTypes Gen.CliUnicode Model.Cli Spec.CliSpec Proofs.C19.Accept.

(* ------------------------------------------------------------------ the character class of the trigger *)
Definition cplain (c : Z) : bool := negb (upper_letter c || ascii_space c || (128 <=? c)).
Lemma trigger_plain s : existsb (fun c => upper_letter c || ascii_space c || (128 <=? c)) s = false -> forallb cplain s = true.
Proof.
  induction s as [|c s IH]; [reflexivity|]. cbn [existsb forallb]. intro H. apply orb_false_iff in H as [A B].
  unfold cplain at 1. rewrite A, (IH B). reflexivity.
Qed.
Lemma cplain_app a b : forallb cplain (a ++ b) = true -> forallb cplain a = true /\ forallb cplain b = true.
Proof. rewrite forallb_app. apply andb_true_iff. Qed.
Lemma py_lower_plain s : forallb cplain s = true -> py_lower s = s.
Proof.
  induction s as [|c s IH]; [reflexivity|]. cbn [forallb]. intro H. apply andb_true_iff in H as [L R].
  change (py_lower (c :: s)) with ((if c <? 128 then [ascii_lower c] else match assocZ c lower_ascii with Some i => i | None => [c] end) ++ py_lower s).
  rewrite (IH R). unfold cplain, upper_letter in L. assert (c <? 128 = true) as -> by lia. cbn [app]. f_equal.
  unfold ascii_lower. destruct ((65 <=? c) && (c <=? 90)) eqn:E; lia.
Qed.
Lemma space_is_ascii c : is_ascii_space c = ascii_space c.
Proof.
  unfold is_ascii_space, ascii_space, mem, re_ascii_spaces. cbn [existsb].
  destruct (c =? 9) eqn:A; destruct (c =? 10) eqn:B; destruct (c =? 11) eqn:C; destruct (c =? 12) eqn:D; destruct (c =? 13) eqn:E;
    destruct (c =? 32) eqn:F; lia.
Qed.
Lemma skip_plain s : forallb cplain s = true -> skip is_ascii_space s = s.
Proof.
  destruct s as [|c s]; [reflexivity|]. cbn [forallb skip]. intro H. apply andb_true_iff in H as [L _].
  rewrite space_is_ascii. unfold cplain in L. destruct (ascii_space c); [|reflexivity].
  rewrite orb_true_r in L. discriminate L.
Qed.

(* ------------------------------------------------------------------ named colours: the two tables are one *)
Lemma named_tables : named_colors = List.map (fun nc => (T (fst nc), snd nc)) ttml_named_rgba /\
                     ttml_named_colors = List.map fst ttml_named_rgba.
Proof. vm_compute. split; reflexivity. Qed.
Lemma assoc_find {A} s (l : list (string * A)) :
  assocT s (List.map (fun nc => (T (fst nc), snd nc)) l) = option_map snd (find (fun nc => text_eqb s (T (fst nc))) l).
Proof. induction l as [|[n v] l IH]; [reflexivity|]. cbn [List.map assocT find fst snd]. destruct (text_eqb s (T n)); [reflexivity|exact IH]. Qed.
Lemma one_of_find {A} s (l : list (string * A)) :
  one_of s (List.map fst l) = match find (fun nc => text_eqb s (T (fst nc))) l with Some _ => true | None => false end.
Proof.
  unfold one_of. induction l as [|[n v] l IH]; [reflexivity|]. cbn [List.map existsb find fst].
  destruct (text_eqb s (T n)); [reflexivity|exact IH].
Qed.
Definition named (s : text) : option rgba := option_map snd (find (fun nc => text_eqb s (T (fst nc))) ttml_named_rgba).
Lemma named_model s : assocT s named_colors = named s.
Proof. rewrite (proj1 named_tables). apply assoc_find. Qed.
Lemma named_spec s : one_of s ttml_named_colors = match named s with Some _ => true | None => false end.
Proof. rewrite (proj2 named_tables), one_of_find. unfold named. destruct (find _ _); reflexivity. Qed.
(* no colour name begins like a hexadecimal or a functional notation *)
Lemma named_not_hex h : named (35 :: h) = None.
Proof. reflexivity. Qed.
Lemma named_not_rgb x : named (114 :: 103 :: 98 :: 40 :: x) = None.
Proof. reflexivity. Qed.
Lemma named_not_rgba x : named (114 :: 103 :: 98 :: 97 :: 40 :: x) = None.
Proof. reflexivity. Qed.

(* ------------------------------------------------------------------ hexadecimal notation *)
Lemma hexval_hexdigit c : hexval c = if hexdigit c then Some (hexv c) else None.
Proof.
  unfold hexval, hexdigit, hexv. change (is_d c) with (digit c).
  destruct (digit c); [reflexivity|]. cbn [orb]. destruct ((65 <=? c) && (c <=? 70)); [reflexivity|]. cbn [orb].
  destruct ((97 <=? c) && (c <=? 102)); reflexivity.
Qed.
Lemma hex2_pair a b : hex2 a b = if hexdigit a && hexdigit b then Some (hexpair a b) else None.
Proof. unfold hex2, hexpair. rewrite !hexval_hexdigit. destruct (hexdigit a); destruct (hexdigit b); reflexivity. Qed.
Definition hex_form (s : text) : bool :=
  match s with
  | c0 :: h => (c0 =? 35) && forallb hexdigit h && ((Z.of_nat (length h) =? 6) || (Z.of_nat (length h) =? 8))
  | [] => false
  end.
Definition hex_mean (s : text) : option rgba :=
  match s with
  | c0 :: h => if c0 =? 35 then
                 match h with
                 | [r1; r2; g1; g2; b1; b2] => Some (hexpair r1 r2, hexpair g1 g2, hexpair b1 b2, 255)
                 | [r1; r2; g1; g2; b1; b2; a1; a2] => Some (hexpair r1 r2, hexpair g1 g2, hexpair b1 b2, hexpair a1 a2)
                 | _ => None
                 end
               else None
  | [] => None
  end.
Lemma match_hex_spec s : match_hex s = if hex_form s then hex_mean s else None.
Proof.
  unfold match_hex, hex_form, hex_mean. destruct s as [|c0 h]; [reflexivity|]. destruct (c0 =? 35); [|reflexivity]. cbn [andb].
  destruct h as [|r1 [|r2 [|g1 [|g2 [|b1 [|b2 [|a1 [|a2 [|x h]]]]]]]]];
    try (destruct (forallb hexdigit _); reflexivity).
  - rewrite !hex2_pair. cbn [forallb length]. rewrite andb_true_r.
    destruct (hexdigit r1); destruct (hexdigit r2); destruct (hexdigit g1); destruct (hexdigit g2); destruct (hexdigit b1); destruct (hexdigit b2); reflexivity.
  - rewrite !hex2_pair. cbn [forallb length]. rewrite andb_true_r.
    destruct (hexdigit r1); destruct (hexdigit r2); destruct (hexdigit g1); destruct (hexdigit g2); destruct (hexdigit b1); destruct (hexdigit b2);
      destruct (hexdigit a1); destruct (hexdigit a2); reflexivity.
  - assert (E : (Z.of_nat (length (r1 :: r2 :: g1 :: g2 :: b1 :: b2 :: a1 :: a2 :: x :: h)) =? 6) || (Z.of_nat (length (r1 :: r2 :: g1 :: g2 :: b1 :: b2 :: a1 :: a2 :: x :: h)) =? 8) = false)
      by (cbn [length]; lia).
    rewrite E, andb_false_r. reflexivity.
Qed.
Lemma hex_form_shape s : hex_form s = true -> exists h, s = 35 :: h.
Proof. destruct s as [|c0 h]; [discriminate|]. cbn [hex_form]. intro H. destruct (c0 =? 35) eqn:E; [|discriminate H]. apply Z.eqb_eq in E. subst. eauto. Qed.
Lemma hex_form_mean s : hex_form s = true -> exists c, hex_mean s = Some c.
Proof.
  destruct s as [|c0 h]; [discriminate|]. cbn [hex_form hex_mean]. destruct (c0 =? 35); [|discriminate]. cbn [andb]. intro H.
  apply andb_true_iff in H as [_ L].
  destruct h as [|r1 [|r2 [|g1 [|g2 [|b1 [|b2 [|a1 [|a2 [|x h]]]]]]]]]; cbn [length] in L; try lia; eauto.
Qed.

(* ------------------------------------------------------------------ decimal components *)
Lemma dstep_mono s acc : forallb digit s = true -> 0 <= acc -> acc <= fold_left dstep s acc.
Proof.
  revert acc; induction s as [|c s IH]; intros acc D A; [cbn; lia|]. cbn [forallb] in D. apply andb_true_iff in D as [Dc Ds].
  cbn [fold_left]. assert (acc <= dstep acc c) by (unfold dstep, digit in *; lia). specialize (IH (dstep acc c) Ds). lia.
Qed.
Lemma dval_drop_zeros s : dval (drop_zeros s) = dval s.
Proof.
  induction s as [|c s IH]; [reflexivity|]. cbn [drop_zeros]. destruct (Z.eq_dec c 48) as [->|N].
  - cbn [drop_zeros]. rewrite IH. reflexivity.
  - destruct c as [|p|p]; try reflexivity. repeat (destruct p as [p|p|]; try reflexivity). contradiction.
Qed.
Lemma drop_zeros_digits s : forallb digit s = true -> forallb digit (drop_zeros s) = true /\ match drop_zeros s with c :: _ => c <> 48 | [] => True end.
Proof.
  induction s as [|c s IH]; [split; [reflexivity|exact I]|]. cbn [forallb]. intro H. apply andb_true_iff in H as [Dc Ds].
  destruct (Z.eq_dec c 48) as [->|N].
  - cbn [drop_zeros]. exact (IH Ds).
  - assert (E : drop_zeros (c :: s) = c :: s).
    { destruct c as [|p|p]; try reflexivity. repeat (destruct p as [p|p|]; try reflexivity). contradiction. }
    rewrite E. split; [cbn [forallb]; rewrite Dc, Ds; reflexivity|exact N].
Qed.
Lemma component_range s : all_digits s = true -> component_ok s = (dval s <=? 255).
Proof.
  intro A. unfold component_ok. rewrite A. cbn [andb]. pose proof (all_digits_forall _ A) as F.
  destruct (drop_zeros_digits s F) as [Fd Nz]. rewrite <- (dval_drop_zeros s).
  destruct (drop_zeros s) as [|a [|b [|c [|d r]]]]; unfold dval; cbn [fold_left forallb] in *; unfold dstep, digit in *.
  - reflexivity.
  - lia.
  - lia.
  - destruct ((a <? 50) || ((a =? 50) && ((b <? 53) || ((b =? 53) && (c <=? 53))))) eqn:E; lia.
  - apply andb_true_iff in Fd as [Da Fd]. apply andb_true_iff in Fd as [Db Fd]. apply andb_true_iff in Fd as [Dc Fd]. apply andb_true_iff in Fd as [Dd Fr].
    set (acc := (((0 * 10 + (a - 48)) * 10 + (b - 48)) * 10 + (c - 48)) * 10 + (d - 48)).
    assert (1000 <= acc) by (unfold acc; lia).
    pose proof (dstep_mono r acc Fr ltac:(lia)) as M. unfold dstep in M. fold acc. symmetry. apply Z.leb_gt. lia.
Qed.
Lemma color_component_spec s : all_digits s = true -> (Z.of_nat (length s) <=? 4300) = true ->
  color_component s = if component_ok s then Ok (number s) else Raise EValue.
Proof.
  intros A L. unfold color_component. rewrite (int_of_digits_ok _ L). cbn [bind]. rewrite (component_range _ A), number_dval.
  destruct (dval s <=? 255) eqn:E; [assert ((255 <? dval s) = false) as -> by lia|assert ((255 <? dval s) = true) as -> by lia]; reflexivity.
Qed.

(* ------------------------------------------------------------------ scanning digits *)
Lemma span_digits d c rest : forallb digit d = true -> is_d c = false -> span is_d (d ++ c :: rest) = (d, c :: rest).
Proof.
  intros D N. induction d as [|x d IH]; cbn [app span].
  - rewrite N. reflexivity.
  - cbn [forallb] in D. apply andb_true_iff in D as [Dx Dd]. change (is_d x) with (digit x). rewrite Dx, (IH Dd). reflexivity.
Qed.
Lemma span_inv s d r : span is_d s = (d, r) -> s = d ++ r /\ forallb digit d = true.
Proof.
  revert d r; induction s as [|c s IH]; intros d r H; cbn [span] in H.
  - inversion H; subst. split; reflexivity.
  - destruct (is_d c) eqn:E.
    + destruct (span is_d s) as [a b]. inversion H; subst. destruct (IH _ _ eq_refl) as [-> F]. split; [reflexivity|].
      cbn [forallb]. change (digit c) with (is_d c). rewrite E, F. reflexivity.
    + inversion H; subst. split; reflexivity.
Qed.
Definition sep_char (c : Z) : Prop := c = 44 \/ c = 41.
Lemma sep_not_digit c : sep_char c -> is_d c = false.
Proof. intros [-> | ->]; reflexivity. Qed.
Lemma digits1_ok d c rest : all_digits d = true -> sep_char c -> digits1 (d ++ c :: rest) = Some (d, c :: rest).
Proof.
  intros D S. pose proof (all_digits_forall _ D) as F. unfold digits1. rewrite (span_digits _ _ _ F (sep_not_digit _ S)).
  destruct d; [discriminate D|reflexivity].
Qed.
Lemma digits1_inv s d r : digits1 s = Some (d, r) -> s = d ++ r /\ all_digits d = true.
Proof.
  unfold digits1. destruct (span is_d s) as [a b] eqn:E. destruct (span_inv _ _ _ E) as [-> F].
  destruct a as [|x a]; [discriminate|]. intro H; inversion H; subst. split; [reflexivity|exact F].
Qed.
Lemma digit_plain c : digit c = true -> cplain c = true.
Proof. unfold digit, cplain, upper_letter, ascii_space. intro H. apply negb_true_iff. lia. Qed.
Lemma digits_plain d : forallb digit d = true -> forallb cplain d = true.
Proof. induction d as [|c d IH]; [reflexivity|]. cbn [forallb]. intro H. apply andb_true_iff in H as [A B]. rewrite (digit_plain _ A), (IH B). reflexivity. Qed.
Lemma skip_at_digits d rest : all_digits d = true -> skip is_ascii_space (d ++ rest) = d ++ rest.
Proof.
  intro D. destruct d as [|x d]; [discriminate D|]. cbn [app skip]. rewrite space_is_ascii.
  cbn [all_digits forallb] in D. apply andb_true_iff in D as [Dx _]. unfold digit, ascii_space in *.
  destruct (((9 <=? x) && (x <=? 13)) || (x =? 32)) eqn:E; [lia|reflexivity].
Qed.
Lemma sp_digits_sp_ok d c rest : all_digits d = true -> sep_char c -> sp_digits_sp (d ++ c :: rest) = Some (d, c :: rest).
Proof.
  intros D S. unfold sp_digits_sp.
  rewrite (skip_at_digits _ _ D), (digits1_ok _ _ _ D S). cbn [obind fst snd skip]. rewrite space_is_ascii.
  destruct S as [-> | ->]; reflexivity.
Qed.
Lemma sp_digits_sp_inv s d r : forallb cplain s = true -> sp_digits_sp s = Some (d, r) -> s = d ++ r /\ all_digits d = true.
Proof.
  intros P. unfold sp_digits_sp. rewrite (skip_plain _ P). destruct (digits1 s) as [[a b]|] eqn:E; [|discriminate].
  cbn [obind fst snd]. destruct (digits1_inv _ _ _ E) as [-> A]. destruct (cplain_app _ _ P) as [_ Pb].
  rewrite (skip_plain _ Pb). intro H; inversion H; subst. split; [reflexivity|exact A].
Qed.
Lemma strip_prefix_inv p s r : strip_prefix p s = Some r -> s = p ++ r.
Proof.
  revert s; induction p as [|a p IH]; intros s H; cbn [strip_prefix] in H.
  - inversion H; reflexivity.
  - destruct s as [|b s]; [discriminate|]. destruct (a =? b) eqn:E; [|discriminate].
    apply Z.eqb_eq in E. subst b. cbn [app]. f_equal. apply IH. exact H.
Qed.
Lemma at_end_inv {A} (a b : A) rest : at_end a rest = Some b -> rest = [] /\ a = b.
Proof. destruct rest; [|discriminate]. intro H; inversion H; split; reflexivity. Qed.

(* ------------------------------------------------------------------ S's view of the functional notations *)
Lemma strip_pre_app p s r : strip_pre p s = Some r -> s = p ++ r.
Proof.
  revert s; induction p as [|a p IH]; intros s H; cbn [strip_pre] in H.
  - inversion H; reflexivity.
  - destruct s as [|b s]; [discriminate|]. destruct (a =? b) eqn:E; [|discriminate].
    apply Z.eqb_eq in E. subst b. cbn [app]. f_equal. apply IH. exact H.
Qed.
Lemma strip_pre_ok p r : strip_pre p (p ++ r) = Some r.
Proof. induction p as [|a p IH]; [reflexivity|]. cbn [app strip_pre]. rewrite Z.eqb_refl. exact IH. Qed.
Lemma strip_last_app c s m : strip_last c s = Some m -> s = m ++ [c].
Proof.
  unfold strip_last. destruct (rev s) as [|l t] eqn:R; [discriminate|]. destruct (l =? c) eqn:E; [|discriminate].
  intro H. inversion H; subst. apply Z.eqb_eq in E. subst l.
  rewrite <- (rev_involutive s), R. reflexivity.
Qed.
Lemma strip_last_ok c m : strip_last c (m ++ [c]) = Some m.
Proof. unfold strip_last. rewrite rev_app_distr. cbn [rev app]. rewrite Z.eqb_refl, rev_involutive. reflexivity. Qed.
Lemma digit_not_comma c : digit c = true -> (c =? 44) = false.
Proof. unfold digit. lia. Qed.
Lemma fields_digits_last d : forallb digit d = true -> fields 44 d = [d].
Proof.
  induction d as [|c d IH]; [reflexivity|]. cbn [forallb]. intro H. apply andb_true_iff in H as [A B].
  cbn [fields]. rewrite (digit_not_comma _ A), (IH B). reflexivity.
Qed.
Lemma fields_digits_app d rest : forallb digit d = true -> fields 44 (d ++ 44 :: rest) = d :: fields 44 rest.
Proof.
  induction d as [|c d IH]; [reflexivity|]. cbn [forallb]. intro H. apply andb_true_iff in H as [A B].
  cbn [app fields]. rewrite (digit_not_comma _ A), (IH B). reflexivity.
Qed.
Definition rgb_text (a b c : text) : text := [114; 103; 98; 40] ++ (a ++ 44 :: b ++ 44 :: c) ++ [41].
Definition rgba_text (a b c d : text) : text := [114; 103; 98; 97; 40] ++ (a ++ 44 :: b ++ 44 :: c ++ 44 :: d) ++ [41].
Definition rgb_form (comp : text -> bool) (s : text) : bool :=
  match strip_both (T "rgb(") 41 s with
  | Some body => match fields 44 body with [r; g; b] => forallb comp [r; g; b] | _ => false end
  | None => false
  end.
Definition rgba_form (comp : text -> bool) (s : text) : bool :=
  match strip_both (T "rgba(") 41 s with
  | Some body => match fields 44 body with [r; g; b; a] => forallb comp [r; g; b; a] | _ => false end
  | None => false
  end.
Lemma color_form_split comp s : color_form comp s = one_of s ttml_named_colors || hex_form s || rgb_form comp s || rgba_form comp s.
Proof. reflexivity. Qed.
Lemma component_digits x : component_ok x = true -> all_digits x = true.
Proof. unfold component_ok. intro H. apply andb_true_iff in H as [H _]. exact H. Qed.
(* a string of the rgb() form, components judged by component_ok, is rgb_text of three digit strings *)
Lemma rgb_form_inv s : rgb_form component_ok s = true ->
  exists a b c, s = rgb_text a b c /\ component_ok a = true /\ component_ok b = true /\ component_ok c = true.
Proof.
  unfold rgb_form, strip_both. destruct (strip_pre (T "rgb(") s) as [r|] eqn:P; [|discriminate].
  destruct (strip_last 41 r) as [body|] eqn:Q; [|discriminate]. pose proof (fields_join 44 body) as J.
  destruct (fields 44 body) as [|a [|b [|c [|]]]]; try discriminate. cbn [forallb]. intro H.
  apply andb_true_iff in H as [Ha H]. apply andb_true_iff in H as [Hb H]. apply andb_true_iff in H as [Hc _].
  exists a, b, c. apply strip_pre_app in P. apply strip_last_app in Q. cbn [join] in J. subst. repeat split; assumption.
Qed.
Lemma rgb_text_fields a b c : all_digits a = true -> all_digits b = true -> all_digits c = true ->
  strip_both (T "rgb(") 41 (rgb_text a b c) = Some (a ++ 44 :: b ++ 44 :: c) /\ fields 44 (a ++ 44 :: b ++ 44 :: c) = [a; b; c].
Proof.
  intros A B C. split.
  - unfold strip_both, rgb_text. change (T "rgb(") with [114; 103; 98; 40]. rewrite strip_pre_ok. apply strip_last_ok.
  - rewrite (fields_digits_app _ _ (all_digits_forall _ A)), (fields_digits_app _ _ (all_digits_forall _ B)),
            (fields_digits_last _ (all_digits_forall _ C)). reflexivity.
Qed.
Lemma rgba_form_inv s : rgba_form component_ok s = true ->
  exists a b c d, s = rgba_text a b c d /\ component_ok a = true /\ component_ok b = true /\ component_ok c = true /\ component_ok d = true.
Proof.
  unfold rgba_form, strip_both. destruct (strip_pre (T "rgba(") s) as [r|] eqn:P; [|discriminate].
  destruct (strip_last 41 r) as [body|] eqn:Q; [|discriminate]. pose proof (fields_join 44 body) as J.
  destruct (fields 44 body) as [|a [|b [|c [|d [|]]]]]; try discriminate. cbn [forallb]. intro H.
  apply andb_true_iff in H as [Ha H]. apply andb_true_iff in H as [Hb H]. apply andb_true_iff in H as [Hc H]. apply andb_true_iff in H as [Hd _].
  exists a, b, c, d. apply strip_pre_app in P. apply strip_last_app in Q. cbn [join] in J. subst. repeat split; assumption.
Qed.
Lemma rgba_text_fields a b c d : all_digits a = true -> all_digits b = true -> all_digits c = true -> all_digits d = true ->
  strip_both (T "rgba(") 41 (rgba_text a b c d) = Some (a ++ 44 :: b ++ 44 :: c ++ 44 :: d) /\
  fields 44 (a ++ 44 :: b ++ 44 :: c ++ 44 :: d) = [a; b; c; d].
Proof.
  intros A B C D. split.
  - unfold strip_both, rgba_text. change (T "rgba(") with [114; 103; 98; 97; 40]. rewrite strip_pre_ok. apply strip_last_ok.
  - rewrite (fields_digits_app _ _ (all_digits_forall _ A)), (fields_digits_app _ _ (all_digits_forall _ B)),
            (fields_digits_app _ _ (all_digits_forall _ C)), (fields_digits_last _ (all_digits_forall _ D)). reflexivity.
Qed.

(* ------------------------------------------------------------------ M's view of the functional notations *)
Lemma match_rgb_ok a b c : all_digits a = true -> all_digits b = true -> all_digits c = true ->
  match_rgb (rgb_text a b c) = Some (a, b, c).
Proof.
  intros A B C. unfold match_rgb, rgb_text. change (T "rgb(") with [114; 103; 98; 40]. cbn [app strip_prefix Z.eqb Pos.eqb obind].
  rewrite <- !app_assoc. cbn [app].
  rewrite (sp_digits_sp_ok a 44 _ A (or_introl eq_refl)). cbn [obind fst snd strip_prefix Z.eqb Pos.eqb].
  rewrite <- !app_assoc. cbn [app].
  rewrite (sp_digits_sp_ok b 44 _ B (or_introl eq_refl)). cbn [obind fst snd strip_prefix Z.eqb Pos.eqb].
  rewrite (sp_digits_sp_ok c 41 _ C (or_intror eq_refl)). cbn [obind fst snd strip_prefix Z.eqb Pos.eqb at_end]. reflexivity.
Qed.
Lemma match_rgb_inv s a b c : forallb cplain s = true -> match_rgb s = Some (a, b, c) ->
  s = rgb_text a b c /\ all_digits a = true /\ all_digits b = true /\ all_digits c = true.
Proof.
  intros P. unfold match_rgb.
  destruct (strip_prefix (T "rgb(") s) as [s1|] eqn:E1; [|discriminate]. cbn [obind].
  apply strip_prefix_inv in E1. subst s. destruct (cplain_app _ _ P) as [_ P1].
  destruct (sp_digits_sp s1) as [[d1 r1]|] eqn:E2; [|discriminate]. cbn [obind fst snd].
  destruct (sp_digits_sp_inv _ _ _ P1 E2) as [-> A]. destruct (cplain_app _ _ P1) as [_ Pr1].
  destruct (strip_prefix [44] r1) as [s2|] eqn:E3; [|discriminate]. cbn [obind]. apply strip_prefix_inv in E3. subst r1.
  destruct (cplain_app [44] _ Pr1) as [_ P2].
  destruct (sp_digits_sp s2) as [[d2 r2]|] eqn:E4; [|discriminate]. cbn [obind fst snd].
  destruct (sp_digits_sp_inv _ _ _ P2 E4) as [-> B]. destruct (cplain_app _ _ P2) as [_ Pr2].
  destruct (strip_prefix [44] r2) as [s3|] eqn:E5; [|discriminate]. cbn [obind]. apply strip_prefix_inv in E5. subst r2.
  destruct (cplain_app [44] _ Pr2) as [_ P3].
  destruct (sp_digits_sp s3) as [[d3 r3]|] eqn:E6; [|discriminate]. cbn [obind fst snd].
  destruct (sp_digits_sp_inv _ _ _ P3 E6) as [-> C].
  destruct (strip_prefix [41] r3) as [rest|] eqn:E7; [|discriminate]. cbn [obind]. apply strip_prefix_inv in E7. subst r3.
  intro H. apply at_end_inv in H as [-> H]. inversion H; subst.
  split; [|auto]. unfold rgb_text. change (T "rgb(") with [114; 103; 98; 40]. cbn [app]. rewrite <- ?app_assoc. cbn [app]. rewrite <- ?app_assoc. cbn [app]. rewrite <- ?app_assoc. cbn [app]. reflexivity.
Qed.
Ltac norm_app := cbn [app]; rewrite <- ?app_assoc; cbn [app]; rewrite <- ?app_assoc; cbn [app]; rewrite <- ?app_assoc; cbn [app];
                 rewrite <- ?app_assoc; cbn [app].
Lemma match_rgba_ok a b c d : all_digits a = true -> all_digits b = true -> all_digits c = true -> all_digits d = true ->
  match_rgba (rgba_text a b c d) = Some (a, b, c, d).
Proof.
  intros A B C D. unfold match_rgba, rgba_text. change (T "rgba(") with [114; 103; 98; 97; 40]. cbn [app strip_prefix Z.eqb Pos.eqb obind].
  rewrite <- !app_assoc. cbn [app].
  rewrite (skip_at_digits _ _ A), (digits1_ok a 44 _ A (or_introl eq_refl)). cbn [obind fst snd strip_prefix Z.eqb Pos.eqb].
  rewrite <- !app_assoc. cbn [app].
  rewrite (sp_digits_sp_ok b 44 _ B (or_introl eq_refl)). cbn [obind fst snd strip_prefix Z.eqb Pos.eqb].
  rewrite <- !app_assoc. cbn [app].
  rewrite (sp_digits_sp_ok c 44 _ C (or_introl eq_refl)). cbn [obind fst snd strip_prefix Z.eqb Pos.eqb].
  rewrite (sp_digits_sp_ok d 41 _ D (or_intror eq_refl)). cbn [obind fst snd strip_prefix Z.eqb Pos.eqb at_end]. reflexivity.
Qed.
Lemma match_rgba_inv s a b c d : forallb cplain s = true -> match_rgba s = Some (a, b, c, d) ->
  s = rgba_text a b c d /\ all_digits a = true /\ all_digits b = true /\ all_digits c = true /\ all_digits d = true.
Proof.
  intros P. unfold match_rgba.
  destruct (strip_prefix (T "rgba(") s) as [s1|] eqn:E1; [|discriminate]. cbn [obind].
  apply strip_prefix_inv in E1. subst s. destruct (cplain_app _ _ P) as [_ P1]. rewrite (skip_plain _ P1).
  destruct (digits1 s1) as [[d1 r1]|] eqn:E2; [|discriminate]. cbn [obind fst snd].
  destruct (digits1_inv _ _ _ E2) as [-> A]. destruct (cplain_app _ _ P1) as [_ Pr1].
  destruct (strip_prefix [44] r1) as [s2|] eqn:E3; [|discriminate]. cbn [obind]. apply strip_prefix_inv in E3. subst r1.
  destruct (cplain_app [44] _ Pr1) as [_ P2].
  destruct (sp_digits_sp s2) as [[d2 r2]|] eqn:E4; [|discriminate]. cbn [obind fst snd].
  destruct (sp_digits_sp_inv _ _ _ P2 E4) as [-> B]. destruct (cplain_app _ _ P2) as [_ Pr2].
  destruct (strip_prefix [44] r2) as [s3|] eqn:E5; [|discriminate]. cbn [obind]. apply strip_prefix_inv in E5. subst r2.
  destruct (cplain_app [44] _ Pr2) as [_ P3].
  destruct (sp_digits_sp s3) as [[d3 r3]|] eqn:E6; [|discriminate]. cbn [obind fst snd].
  destruct (sp_digits_sp_inv _ _ _ P3 E6) as [-> C]. destruct (cplain_app _ _ P3) as [_ Pr3].
  destruct (strip_prefix [44] r3) as [s4|] eqn:E7; [|discriminate]. cbn [obind]. apply strip_prefix_inv in E7. subst r3.
  destruct (cplain_app [44] _ Pr3) as [_ P4].
  destruct (sp_digits_sp s4) as [[d4 r4]|] eqn:E8; [|discriminate]. cbn [obind fst snd].
  destruct (sp_digits_sp_inv _ _ _ P4 E8) as [-> D].
  destruct (strip_prefix [41] r4) as [rest|] eqn:E9; [|discriminate]. cbn [obind]. apply strip_prefix_inv in E9. subst r4.
  intro H. apply at_end_inv in H as [-> H]. inversion H; subst.
  split; [|auto]. unfold rgba_text. change (T "rgba(") with [114; 103; 98; 97; 40]. norm_app. reflexivity.
Qed.

(* the four notations exclude one another *)
Lemma rgb_text_other a b c :
  named (rgb_text a b c) = None /\ hex_form (rgb_text a b c) = false /\ match_hex (rgb_text a b c) = None /\
  rgba_form component_ok (rgb_text a b c) = false.
Proof. repeat split; reflexivity. Qed.
Lemma rgba_text_other a b c d :
  named (rgba_text a b c d) = None /\ hex_form (rgba_text a b c d) = false /\ match_hex (rgba_text a b c d) = None /\
  rgb_form component_ok (rgba_text a b c d) = false /\ match_rgb (rgba_text a b c d) = None.
Proof. repeat split; reflexivity. Qed.

Lemma length_rgb a b c : (length a <= length (rgb_text a b c) /\ length b <= length (rgb_text a b c) /\ length c <= length (rgb_text a b c))%nat.
Proof. unfold rgb_text. repeat (rewrite app_length; cbn [length]). lia. Qed.
Lemma length_rgba a b c d : (length a <= length (rgba_text a b c d) /\ length b <= length (rgba_text a b c d) /\
                              length c <= length (rgba_text a b c d) /\ length d <= length (rgba_text a b c d))%nat.
Proof. unfold rgba_text. repeat (rewrite app_length; cbn [length]). lia. Qed.

(* ------------------------------------------------------------------ parse_color decides color_ok and gives the TTML2 value *)
Definition color_value (s : text) : option rgba := if color_ok s then mean_color_text s else None.
Lemma mean_unfold s : mean_color_text s =
  match named s with
  | Some c => Some c
  | None => match hex_mean s with
            | Some c => Some c
            | None => match strip_both (T "rgb(") 41 s with
                      | Some body => match fields 44 body with [r; g; b] => Some (number r, number g, number b, 255) | _ => None end
                      | None => match strip_both (T "rgba(") 41 s with
                                | Some body => match fields 44 body with [r; g; b; a] => Some (number r, number g, number b, number a) | _ => None end
                                | None => None
                                end
                      end
            end
  end.
Proof.
  unfold mean_color_text, named. destruct (find _ ttml_named_rgba) as [nc|]; [reflexivity|]. cbn [option_map].
  unfold hex_mean. reflexivity.
Qed.
Theorem parse_color_spec s :
  forallb cplain s = true -> (Z.of_nat (length s) <=? 4300) = true ->
  parse_color s = match color_value s with Some c => Ok c | None => Raise EValue end /\
  (color_ok s = true -> color_value s <> None).
Proof.
  intros P Len. unfold parse_color, color_value, color_ok. rewrite color_form_split, named_spec, (py_lower_plain _ P), named_model, mean_unfold.
  destruct (named s) as [cn|] eqn:N; [split; [reflexivity|discriminate]|]. cbn [orb].
  rewrite match_hex_spec. destruct (hex_form s) eqn:H.
  { destruct (hex_form_mean _ H) as (c & ->). cbn [orb]. split; [reflexivity|discriminate]. }
  cbn [orb].
  (* a string that begins with '#' is of no other notation *)
  destruct (match s with c0 :: _ => c0 =? 35 | [] => false end) eqn:E35.
  { destruct s as [|c0 h]; [discriminate E35|]. apply Z.eqb_eq in E35. subst c0.
    assert (R3 : rgb_form component_ok (35 :: h) = false) by reflexivity. assert (R4 : rgba_form component_ok (35 :: h) = false) by reflexivity.
    assert (M3 : match_rgb (35 :: h) = None) by reflexivity. assert (M4 : match_rgba (35 :: h) = None) by reflexivity.
    rewrite R3, R4, M3, M4. split; [reflexivity|discriminate]. }
  assert (Hm : hex_mean s = None).
  { unfold hex_mean. destruct s as [|c0 h]; [reflexivity|]. rewrite E35. reflexivity. }
  rewrite Hm.
  destruct (match_rgb s) as [[[a b] c]|] eqn:M.
  - destruct (match_rgb_inv _ _ _ _ P M) as (-> & A & B & C).
    destruct (rgb_text_other a b c) as (_ & _ & _ & R4). rewrite R4, orb_false_r.
    destruct (rgb_text_fields a b c A B C) as [SB F]. unfold rgb_form. rewrite SB, F. cbn [forallb]. rewrite andb_true_r.
    destruct (length_rgb a b c) as (La & Lb & Lc).
    rewrite (color_component_spec a A) by lia. rewrite (color_component_spec b B) by lia. rewrite (color_component_spec c C) by lia.
    destruct (component_ok a); cbn [bind andb]; [|split; [reflexivity|discriminate]].
    destruct (component_ok b); cbn [bind andb]; [|split; [reflexivity|discriminate]].
    destruct (component_ok c); cbn [bind andb]; split; try reflexivity; discriminate.
  - assert (R3 : rgb_form component_ok s = false).
    { destruct (rgb_form component_ok s) eqn:R; [|reflexivity]. destruct (rgb_form_inv _ R) as (a & b & c & -> & Ha & Hb & Hc).
      rewrite (match_rgb_ok a b c (component_digits _ Ha) (component_digits _ Hb) (component_digits _ Hc)) in M. discriminate M. }
    rewrite R3. cbn [orb].
    destruct (match_rgba s) as [[[[a b] c] d]|] eqn:M4.
    + destruct (match_rgba_inv _ _ _ _ _ P M4) as (-> & A & B & C & D).
      destruct (rgba_text_fields a b c d A B C D) as [SB F]. unfold rgba_form. rewrite SB, F. cbn [forallb]. rewrite andb_true_r.
      assert (S3 : strip_both (T "rgb(") 41 (rgba_text a b c d) = None) by reflexivity. rewrite S3.
      destruct (length_rgba a b c d) as (La & Lb & Lc & Ld).
      rewrite (color_component_spec a A) by lia. rewrite (color_component_spec b B) by lia. rewrite (color_component_spec c C) by lia.
      rewrite (color_component_spec d D) by lia.
      destruct (component_ok a); cbn [bind andb]; [|split; [reflexivity|discriminate]].
      destruct (component_ok b); cbn [bind andb]; [|split; [reflexivity|discriminate]].
      destruct (component_ok c); cbn [bind andb]; [|split; [reflexivity|discriminate]].
      destruct (component_ok d); cbn [bind andb]; split; try reflexivity; discriminate.
    + assert (R4 : rgba_form component_ok s = false).
      { destruct (rgba_form component_ok s) eqn:R; [|reflexivity]. destruct (rgba_form_inv _ R) as (a & b & c & d & -> & Ha & Hb & Hc & Hd).
        rewrite (match_rgba_ok a b c d (component_digits _ Ha) (component_digits _ Hb) (component_digits _ Hc) (component_digits _ Hd)) in M4.
        discriminate M4. }
      rewrite R4. split; [reflexivity|discriminate].
Qed.

(* a string that begins with '#': hexadecimal notation or nothing, whatever the case of its digits *)
Lemma py_lower_hash h : exists h', py_lower (35 :: h) = 35 :: h'.
Proof. exists (py_lower h). reflexivity. Qed.
Theorem parse_color_hash h :
  parse_color (35 :: h) = match color_value (35 :: h) with Some c => Ok c | None => Raise EValue end /\
  (color_ok (35 :: h) = true -> color_value (35 :: h) <> None).
Proof.
  unfold parse_color, color_value, color_ok. rewrite color_form_split, named_spec, mean_unfold.
  destruct (py_lower_hash h) as (h' & ->). rewrite named_model, !named_not_hex. cbn [orb].
  rewrite match_hex_spec.
  assert (R3 : rgb_form component_ok (35 :: h) = false) by reflexivity. assert (R4 : rgba_form component_ok (35 :: h) = false) by reflexivity.
  assert (M3 : match_rgb (35 :: h) = None) by reflexivity. assert (M4 : match_rgba (35 :: h) = None) by reflexivity.
  rewrite R3, R4, M3, M4, !orb_false_r. destruct (hex_form (35 :: h)) eqn:H.
  - destruct (hex_form_mean _ H) as (c & ->). split; [reflexivity|discriminate].
  - split; [reflexivity|discriminate].
Qed.

Theorem acc_color k v : color_key k = true -> trigger k v = false -> exact k v.
Proof.
  intros K Tr. apply trigger_false in Tr as (L & R).
  assert (X : exact KColor v -> exact k v) by (destruct k; try discriminate K; exact (fun x => x)).
  apply X. clear X.
  assert (L' : trigger_lenient KColor v = false) by (destruct k; try discriminate K; exact L).
  assert (R' : trigger_rejected KColor v = false) by (destruct k; try discriminate K; exact R).
  clear L R K k.
  destruct v; try (apply exact_of_decode; intro H; try discriminate H; reflexivity).
  cbn [trigger_lenient trigger_rejected] in L', R'.
  assert (Sp : parse_color s = match color_value s with Some c => Ok c | None => Raise EValue end /\ (color_ok s = true -> color_value s <> None)).
  { destruct s as [|c0 r]; [apply parse_color_spec; reflexivity|]. destruct (c0 =? 35) eqn:E35.
    - apply Z.eqb_eq in E35. subst c0. apply parse_color_hash.
    - apply parse_color_spec; [apply trigger_plain; exact L'|lia]. }
  destruct Sp as [E NZ].
  apply exact_of_decode; cbn [documented]; intro H; unfold accepts, decode, dec_color; rewrite E; unfold color_value in *; rewrite H in *.
  - destruct (mean_color_text s) as [[[[r g] b] a]|] eqn:Mn; [|exfalso; apply (NZ eq_refl); reflexivity].
    cbn [bind meaning mean_color copt ocval]. rewrite Mn. reflexivity.
  - reflexivity.
Qed.
(* every documented colour below the digit limit is accepted, whatever its characters: color_ok strings are plain *)
Lemma color_ok_named_plain s : named s <> None -> forallb cplain s = true.
Proof.
  unfold named. intro H. destruct (find (fun nc => text_eqb s (T (fst nc))) ttml_named_rgba) as [nc|] eqn:F; [|contradiction].
  apply find_some in F as [I E]. apply text_eqb_eq in E. subst s. clear H.
  unfold ttml_named_rgba in I. cbn [In] in I.
  repeat (destruct I as [<-|I]; [vm_compute; reflexivity|]). contradiction.
Qed.
