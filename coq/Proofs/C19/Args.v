(* C19: the command line.  On every token list of the grammar of Spec/CliSpec.v (tokens_of: options in any order, each
   written `flag value` or `flag=value`, repeated at will) the transcription of argparse in Model/Cli.v (parse_opts /
   parse_convert) builds exactly the options the specification reads off it (spec_options: the last value of a repeated
   option counts, filters accumulate in order, -i and -o are required). *)
From Coq Require Import String.
From TT Require Import Base.Prelude Base.CliTypes Gen.CliUnicode Model.Cli Spec.CliSpec.

(* ---- the flags of the grammar are option strings of the parser, with the same destination *)
Definition flag_table : list (text * dest) := List.map (fun fd => (T (fst fd), snd fd)) spec_flags.
Lemma flag_dest_in f d : flag_dest f = Some d -> In (f, d) flag_table.
Proof.
  unfold flag_dest, flag_table. induction spec_flags as [|[n x] l IH]; [discriminate|]. cbn [find List.map In fst snd].
  destruct (text_eqb f (T n)) eqn:E.
  - intro H; inversion H; subst. apply text_eqb_eq in E. subst. left. reflexivity.
  - intro H. right. exact (IH H).
Qed.
Lemma in_flag_dest f d : In (f, d) flag_table -> flag_dest f = Some d.
Proof.
  intro I. vm_compute in I. repeat (destruct I as [I|I]; [inversion I; subst; reflexivity|]). contradiction.
Qed.
Record flag_ok (f : text) (d : dest) : Prop := {
  fo_lookup : lookup_flag f = Some d;
  fo_store : d <> DHelp;
  fo_dash : starts_dash f = true;
  fo_eq_dash : forall v, starts_dash (f ++ 61 :: v) = true;
  fo_eq_lookup : forall v, lookup_flag (f ++ 61 :: v) = None;
  fo_eq_split : forall v, split_eq (f ++ 61 :: v) = Some (f, v);
  fo_eq_spec : forall v, flag_dest (f ++ 61 :: v) = None /\ cut_eq (f ++ 61 :: v) = Some (f, v) }.
Lemma flags_ok f d : flag_dest f = Some d -> flag_ok f d.
Proof.
  intro H. apply flag_dest_in in H. vm_compute in H.
  repeat (destruct H as [H|H]; [inversion H; subst; constructor; try discriminate; try reflexivity; intro v; try split; reflexivity|]).
  contradiction.
Qed.
Lemma dash_agree v : starts_dash v = dash_first v.
Proof. destruct v; reflexivity. Qed.

(* ---- one step of the parser *)
Lemma step_pair f d v toks n ex :
  flag_ok f d -> dash_first v = false -> parse_opts (f :: v :: toks) n ex = parse_opts toks (ns_set d v n) ex.
Proof.
  intros F V. cbn [parse_opts]. rewrite (fo_dash _ _ F), (fo_lookup _ _ F), dash_agree, V. cbn [negb].
  pose proof (fo_store _ _ F). destruct d; try reflexivity. contradiction.
Qed.
Lemma step_eq f d v toks n ex :
  flag_ok f d -> parse_opts ((f ++ 61 :: v) :: toks) n ex = parse_opts toks (ns_set d v n) ex.
Proof.
  intros F. cbn [parse_opts]. rewrite (fo_eq_dash _ _ F), (fo_eq_lookup _ _ F), (fo_eq_split _ _ F), (fo_lookup _ _ F). cbn [negb].
  pose proof (fo_store _ _ F). destruct d; try reflexivity. contradiction.
Qed.
Definition apply_items (items : list (dest * text)) (n : namespace) : namespace :=
  fold_left (fun n it => ns_set (fst it) (snd it) n) items n.
Theorem parse_opts_grammar items toks : tokens_of items toks -> forall n ex, parse_opts toks n ex = PrOk (apply_items items n) ex.
Proof.
  induction 1 as [|f d v items toks F V _ IH|f d v items toks F _ IH]; intros n ex.
  - reflexivity.
  - rewrite (step_pair f d v toks n ex (flags_ok _ _ F) V). apply IH.
  - rewrite (step_eq f d v toks n ex (flags_ok _ _ F)). apply IH.
Qed.

(* ---- the namespace after all items: last value for `store`, all values in order for `append` *)
Definition pick (a b : option text) : option text := match a with Some v => Some v | None => b end.
Lemma last_of_fold d items acc :
  fold_left (fun acc it => if dest_code (fst it) =? dest_code d then Some (snd it) else acc) items acc = pick (last_of d items) acc.
Proof.
  unfold last_of. revert acc. induction items as [|[d' v] items IH]; intro acc; [reflexivity|]. cbn [fold_left fst snd].
  rewrite IH, (IH (if dest_code d' =? dest_code d then Some v else None)).
  destruct (fold_left _ items None) eqn:E; [unfold last_of in *; rewrite ?E|];
    destruct (last_of d items) eqn:L; unfold last_of in L; rewrite L in *; cbn [pick]; try reflexivity; try discriminate;
    destruct (dest_code d' =? dest_code d); reflexivity.
Qed.
Lemma apply_items_fields items : forall n,
  n_input (apply_items items n) = pick (last_of DInput items) (n_input n) /\
  n_output (apply_items items n) = pick (last_of DOutput items) (n_output n) /\
  n_itype (apply_items items n) = pick (last_of DItype items) (n_itype n) /\
  n_otype (apply_items items n) = pick (last_of DOtype items) (n_otype n) /\
  n_filters (apply_items items n) = n_filters n ++ all_of DFilter items /\
  n_config (apply_items items n) = pick (last_of DConfig items) (n_config n) /\
  n_config_file (apply_items items n) = pick (last_of DConfigFile items) (n_config_file n).
Proof.
  induction items as [|[d v] items IH]; intro n.
  - cbn. rewrite app_nil_r. repeat split; reflexivity.
  - change (apply_items ((d, v) :: items) n) with (apply_items items (ns_set d v n)).
    destruct (IH (ns_set d v n)) as (A & B & C & D & E & F & G). rewrite A, B, C, D, E, F, G.
    unfold last_of, all_of. cbn [fold_left List.filter fst snd]. rewrite !last_of_fold.
    destruct d; cbn [ns_set dest_code Z.eqb Pos.eqb n_input n_output n_itype n_otype n_filters n_config n_config_file List.map snd pick];
      rewrite <- ?app_assoc; cbn [app];
      repeat split; try reflexivity;
      match goal with |- context [pick (last_of ?d items) _] => destruct (last_of d items); reflexivity end.
Qed.
Theorem parse_convert_grammar items toks :
  tokens_of items toks ->
  parse_convert toks = match spec_options items with Some (o, c, cf) => CConvert o c cf | None => CUsage end.
Proof.
  intro G. unfold parse_convert. rewrite (parse_opts_grammar items toks G empty_ns false).
  destruct (apply_items_fields items empty_ns) as (A & B & C & D & E & F & H). rewrite A, B, C, D, E, F, H.
  cbn [empty_ns n_input n_output n_itype n_otype n_filters n_config n_config_file app]. unfold spec_options.
  destruct (last_of DInput items); cbn [pick]; [|reflexivity]. destruct (last_of DOutput items); cbn [pick]; [|reflexivity].
  destruct (last_of DItype items); destruct (last_of DOtype items); destruct (last_of DConfig items); destruct (last_of DConfigFile items); reflexivity.
Qed.

(* ---- the recogniser accepts exactly the grammar *)
Lemma grammar_recognised items toks : tokens_of items toks -> spec_items toks = Some items.
Proof.
  induction 1 as [|f d v items toks F V _ IH|f d v items toks F _ IH].
  - reflexivity.
  - cbn [spec_items]. rewrite F, V, IH. reflexivity.
  - destruct (fo_eq_spec _ _ (flags_ok _ _ F) v) as [N C]. cbn [spec_items]. rewrite N, C, F, IH. reflexivity.
Qed.
Lemma cut_eq_app t f v : cut_eq t = Some (f, v) -> t = f ++ 61 :: v.
Proof.
  revert f v; induction t as [|c r IH]; intros f v H; [discriminate|]. cbn [cut_eq] in H. destruct (c =? 61) eqn:E.
  - inversion H; subst. apply Z.eqb_eq in E. subst. reflexivity.
  - destruct (cut_eq r) as [[a b]|]; [|discriminate]. inversion H; subst. cbn [app]. f_equal. apply IH. reflexivity.
Qed.
Lemma recognised_grammar : forall n toks, (length toks <= n)%nat -> forall items, spec_items toks = Some items -> tokens_of items toks.
Proof.
  induction n as [|n IH]; intros toks L items H.
  - destruct toks; [|cbn in L; lia]. inversion H; subst. constructor.
  - destruct toks as [|t r]; [inversion H; subst; constructor|]. cbn [spec_items] in H. cbn [length] in L.
    destruct (flag_dest t) as [d|] eqn:F.
    + destruct r as [|v r']; [discriminate|]. destruct (dash_first v) eqn:V; [discriminate|].
      destruct (spec_items r') as [its|] eqn:R; [|discriminate]. inversion H; subst.
      apply TPair; [exact F|exact V|]. apply IH; [cbn [length] in L; lia|exact R].
    + destruct (cut_eq t) as [[f v]|] eqn:C; [|discriminate]. destruct (flag_dest f) as [d|] eqn:F'; [|discriminate].
      destruct (spec_items r) as [its|] eqn:R; [|discriminate]. inversion H; subst.
      rewrite (cut_eq_app _ _ _ C). apply TEq; [exact F'|]. apply IH; [lia|exact R].
Qed.
Theorem grammar_iff items toks : tokens_of items toks <-> spec_items toks = Some items.
Proof. split; [apply grammar_recognised|apply (recognised_grammar (length toks)); lia]. Qed.

(* ---- main(): the sub-command *)
Lemma parse_main_convert toks : parse_main (T "convert" :: toks) = parse_convert toks.
Proof. reflexivity. Qed.
Lemma parse_main_unknown sub toks : sub <> T "convert" -> parse_main (sub :: toks) = CUsage.
Proof.
  intro N. unfold parse_main, subcommands. cbn [existsb]. destruct (text_eqb sub (T "convert")) eqn:E; [|reflexivity].
  apply text_eqb_eq in E. contradiction.
Qed.
